import QcelVerif.Lemmas.MeasureReal
import QcelVerif.Props.C18
import Mathlib.Tactic.NormNum
/-!
# C18 over ℝ — the final transcendental step (`sqrt`, `arccos`, `arctan2`, `degrees`)

`Props/C18.lean` proves invariance, reflection, reversal and textbook agreement about the exact
*arguments* handed to `sqrt` / `arccos` / `arctan2`, over every (ordered) field.  This file
instantiates the same model at `K = ℝ`, applies the real functions of Mathlib exactly where the
code applies numpy's, and lifts those theorems through that last step.

Real-valued measurements, defined exactly as the code computes them (line numbers of `/repo`,
`qcelemental/util/misc.py`):

* `distR p q      = √(distSq p q)`                                         (`_norm(p - q)`, :216)
* `angleR p1 p2 p3 = π − arccos (clip (v12·v23 / (‖v12‖·‖v23‖)) (−1) 1)`     (:248-254)
  with `v12 = p1 − p2`, `v23 = p2 − p3`, `‖·‖ = normR = √(·,·)` (`_norm`, :137-143) — i.e.
  `π − arccos (angleCos (normR v12) (normR v23) p1 p2 p3)` with the model's code-shaped `angleCos`
* `dihedralR p1 p2 p3 p4 = atan2 y x`, `(x, y) = dihedralXY (normR (p3 − p2)) p1 p2 p3 p4` (:297-315)
* `degrees a = a · (180/π)`                                                (`np.degrees`, :256-259, :317-320)

`atan2 y x := Complex.arg (x + y i)` (`Lemmas/MeasureReal.lean`), with values in `(-π, π]`.

## What is outside the real-number model

* **signed zero.**  ℝ has one zero.  `atan2 0 x = π` for all `x < 0`; IEEE / numpy return
  `arctan2(+0.0, x) = +π` but `arctan2(-0.0, x) = −π`.  So the implementation's dihedral lies in
  the closed interval `[−π, π]` (this is what the property text says, and what the run-time oracle
  demands), while the real-number `dihedralR` lies in `(−π, π]`; the two ends are the same
  geometric angle (exactly planar *trans* arrangement).  Likewise `arctan2(-0.0, -0.0) = −π` but
  `atan2 0 0 = 0`.
* **division by zero.**  In Lean `a / 0 = 0`; numpy gives `nan` (with a warning).  The model and the
  code therefore differ on *degenerate* inputs (`p1 = p2` or `p2 = p3` for the angle, `p2 = p3` for
  the dihedral); these are outside the property's quantifier ("non-degenerate").  Theorems below that
  need non-degeneracy say so in their hypotheses; the others hold for all inputs of the *model*.
* **libm / IEEE.**  `np.sqrt`, `np.arccos`, `np.arctan2`, `np.degrees`, `np.pi` and every
  floating-point `+ − × ÷` are approximations of the real functions used here; their error is not
  modelled and is checked differentially (1e-9) on every run by `harness/c18.py`, which evaluates
  the closed forms `distR = √d²`, `angleR_eq_args`, `dihedralR_eq_args` proved below on the exact
  rational arguments printed by the Lean driver.

PROPERTY-THEOREMS:
  atan2_cases
  distR_range  distR_textbook  distR_rigid_invariant
  angleR_range  angleR_textbook  angleR_textbook_atan2  angleR_eq_args  angleR_rigid_invariant
  angleR_reversal
  dihedralR_range  dihedralR_rigid_invariant  dihedralR_reflection  dihedralR_reflection_neg
  dihedralR_reflection_mod_two_pi  dihedralR_eq_pi_iff  dihedralR_reversal  dihedralR_textbook
  dihedralR_cos_sin  dihedralR_unique  dihedralR_eq_args
  forms_agree_real  degrees_spec  degrees_rigid_invariant
-/
set_option linter.unusedSectionVars false
namespace QcelVerif.Measure
open V3

/-! ## the real-valued measurements, as coded -/

/-- `compute_distance` for one row: `_norm(points1 - points2)` -/
noncomputable def distR (p q : V3 ℝ) : ℝ := Real.sqrt (distSq p q)

/-- `compute_angle` for one row, radians: `np.pi - np.arccos(cosine_angle)` with
`cosine_angle = np.clip(einsum(v12, v23) / (_norm(v12) * _norm(v23)), -1, 1)` -/
noncomputable def angleR (p1 p2 p3 : V3 ℝ) : ℝ :=
  Real.pi - Real.arccos (angleCos (normR (p1 - p2)) (normR (p2 - p3)) p1 p2 p3)

/-- `compute_dihedral` for one row, radians: `np.arctan2(y, x)` with `(x, y)` as coded -/
noncomputable def dihedralR (p1 p2 p3 p4 : V3 ℝ) : ℝ :=
  atan2 (dihedralXY (normR (p3 - p2)) p1 p2 p3 p4).2 (dihedralXY (normR (p3 - p2)) p1 p2 p3 p4).1

/-- `np.degrees` -/
noncomputable def degrees (a : ℝ) : ℝ := a * (180 / Real.pi)

/-- `compute_angle(…, degrees=True)` -/
noncomputable def angleDegR (p1 p2 p3 : V3 ℝ) : ℝ := degrees (angleR p1 p2 p3)

/-- `compute_dihedral(…, degrees=True)` -/
noncomputable def dihedralDegR (p1 p2 p3 p4 : V3 ℝ) : ℝ := degrees (dihedralR p1 p2 p3 p4)

/-! ## the two-argument arctangent of the model is the usual one -/

/-- `atan2 y x = Complex.arg (x + y i)` has the range `(−π, π]` and obeys the usual case table of
C's / numpy's `arctan2` on reals: `arctan (y/x)` for `x > 0`; `arctan (y/x) + π` for `x < 0 ≤ y`;
`arctan (y/x) − π` for `x < 0`, `y < 0`; `±π/2` on the imaginary axis; `0` at the origin.
(numpy additionally distinguishes `y = −0.0`: `arctan2(-0.0, x<0) = −π`, `arctan2(-0.0, -0.0) = −π` —
no counterpart over ℝ.) -/
theorem atan2_cases (y x : ℝ) :
    (-Real.pi < atan2 y x ∧ atan2 y x ≤ Real.pi) ∧
    (0 < x → atan2 y x = Real.arctan (y / x)) ∧
    (x < 0 → 0 ≤ y → atan2 y x = Real.arctan (y / x) + Real.pi) ∧
    (x < 0 → y < 0 → atan2 y x = Real.arctan (y / x) - Real.pi) ∧
    (x = 0 → 0 < y → atan2 y x = Real.pi / 2) ∧
    (x = 0 → y < 0 → atan2 y x = -(Real.pi / 2)) ∧
    (x = 0 → y = 0 → atan2 y x = 0) := by
  refine ⟨atan2_mem y x, fun h => atan2_of_pos h y, fun h1 h2 => atan2_of_neg_of_nonneg h1 h2,
    fun h1 h2 => atan2_of_neg_of_neg h1 h2, ?_, ?_, ?_⟩
  · rintro rfl h
    exact atan2_zero_of_pos h
  · rintro rfl h
    exact atan2_zero_of_neg h
  · rintro rfl rfl
    exact atan2_zero_zero

/-- TEST (every branch of `atan2_cases` is inhabited): `atan2 1 1 = π/4`, `atan2 0 (−1) = π` -/
example : atan2 1 1 = Real.pi / 4 ∧ atan2 0 (-1) = Real.pi := by
  refine ⟨?_, ?_⟩
  · rw [atan2_of_pos one_pos, div_one, Real.arctan_one]
  · rw [atan2_of_neg_of_nonneg (by norm_num) le_rfl, zero_div, Real.arctan_zero, zero_add]

/-! ## distance -/

/-- range clause: the distance lies in `[0, ∞)`, is `0` iff the points coincide, is symmetric -/
theorem distR_range (p q : V3 ℝ) :
    0 ≤ distR p q ∧ (distR p q = 0 ↔ p = q) ∧ distR p q = distR q p := by
  obtain ⟨h0, hz, hs⟩ := distSq_nonneg_zero p q
  refine ⟨Real.sqrt_nonneg _, ?_, ?_⟩
  · unfold distR
    rw [Real.sqrt_eq_zero h0]
    exact hz
  · unfold distR
    rw [hs]

/-- textbook definition: `√((Δx)² + (Δy)² + (Δz)²)`; and `distR² = d²` (the driver's argument) -/
theorem distR_textbook (p q : V3 ℝ) :
    distR p q = Real.sqrt ((p.x - q.x) ^ 2 + (p.y - q.y) ^ 2 + (p.z - q.z) ^ 2) ∧
    distR p q * distR p q = distSq p q := by
  refine ⟨?_, Real.mul_self_sqrt (distSq_nonneg_zero p q).1⟩
  unfold distR
  congr 1
  v3_unfold
  ring

/-- the distance is unchanged by `p ↦ R p + t` for every orthogonal `R` — in particular by every
proper rigid motion (`R Rᵀ = I`, `det R = 1`) and by every reflection -/
theorem distR_rigid_invariant (T : Motion ℝ) (h : T.R.IsOrthogonal) (p q : V3 ℝ) :
    distR (T.apply p) (T.apply q) = distR p q := by
  unfold distR
  rw [dist_rigid_invariant T h]

/-! ## angle -/

/-- range clause: the angle lies in `[0, π]` -/
theorem angleR_range (p1 p2 p3 : V3 ℝ) : 0 ≤ angleR p1 p2 p3 ∧ angleR p1 p2 p3 ≤ Real.pi := by
  unfold angleR
  refine ⟨sub_nonneg.mpr (Real.arccos_le_pi _), ?_⟩
  linarith [Real.arccos_nonneg (angleCos (normR (p1 - p2)) (normR (p2 - p3)) p1 p2 p3)]

/-- textbook definition, for non-degenerate input: the angle at the vertex `p2` is the `arccos` of
the normalised dot product of the two bond vectors `p1 − p2`, `p3 − p2`; its cosine *is* that
normalised dot product (the clip is inactive, and `π − arccos c = arccos (−c)`). -/
theorem angleR_textbook (p1 p2 p3 : V3 ℝ) (h12 : p1 ≠ p2) (h32 : p3 ≠ p2) :
    angleR p1 p2 p3
      = Real.arccos (dot (p1 - p2) (p3 - p2) / (normR (p1 - p2) * normR (p3 - p2))) ∧
    Real.cos (angleR p1 p2 p3)
      = dot (p1 - p2) (p3 - p2) / (normR (p1 - p2) * normR (p3 - p2)) := by
  have h23 : p2 ≠ p3 := fun e => h32 e.symm
  obtain ⟨-, hneg, hlo, hhi⟩ := angle_textbook (normR (p1 - p2)) (normR (p2 - p3)) p1 p2 p3
    (normR_sub_pos h12) (normR_sub_pos h23) (normR_mul_self _) (normR_mul_self _)
  have hA : angleR p1 p2 p3
      = Real.arccos (dot (p1 - p2) (p3 - p2) / (normR (p1 - p2) * normR (p3 - p2))) := by
    unfold angleR
    rw [← Real.arccos_neg, hneg, normR_sub_comm p2 p3]
  refine ⟨hA, ?_⟩
  rw [hA, ← normR_sub_comm p2 p3, ← hneg]
  exact Real.cos_arccos (by linarith) (by linarith)

/-- closed form evaluated by the harness on the driver's exact arguments `(dt, nn) = angleArgs`:
`angle = atan2 (√(nn − dt²)) (−dt)` (non-degenerate input). -/
theorem angleR_eq_args (p1 p2 p3 : V3 ℝ) (h12 : p1 ≠ p2) (h32 : p3 ≠ p2) :
    angleR p1 p2 p3 =
      atan2 (Real.sqrt ((angleArgs p1 p2 p3).2 - (angleArgs p1 p2 p3).1 * (angleArgs p1 p2 p3).1))
        (-(angleArgs p1 p2 p3).1) := by
  have h23 : p2 ≠ p3 := fun e => h32 e.symm
  have p12 := normR_sub_pos h12
  have p23 := normR_sub_pos h23
  obtain ⟨hval, -, -, -⟩ := angle_textbook (normR (p1 - p2)) (normR (p2 - p3)) p1 p2 p3
    p12 p23 (normR_mul_self _) (normR_mul_self _)
  obtain ⟨-, hnn, hD⟩ := angleCos_from_args (normR (p1 - p2)) (normR (p2 - p3)) p1 p2 p3
    p12 p23 (normR_mul_self _) (normR_mul_self _)
  have hdt : (angleArgs p1 p2 p3).1 = dot (p1 - p2) (p2 - p3) := rfl
  set dt := (angleArgs p1 p2 p3).1 with hdt'
  set nn := (angleArgs p1 p2 p3).2 with hnn'
  set D := normR (p1 - p2) * normR (p2 - p3) with hDdef
  have hcs : 0 ≤ nn - dt * dt := by
    have := cauchy_schwarz (p1 - p2) (p2 - p3)
    have e : nn = nsq (p1 - p2) * nsq (p2 - p3) := rfl
    rw [e, hdt]
    linarith
  have hsum : -dt * -dt + Real.sqrt (nn - dt * dt) * Real.sqrt (nn - dt * dt) = D * D := by
    rw [Real.mul_self_sqrt hcs, hnn]
    ring
  have hne : -dt ≠ 0 ∨ Real.sqrt (nn - dt * dt) ≠ 0 := by
    by_contra hc
    push Not at hc
    rw [hc.1, hc.2] at hsum
    have : D * D = 0 := by linarith
    have : D = 0 := mul_self_eq_zero.mp this
    linarith
  rw [atan2_of_nonneg (Real.sqrt_nonneg _) hne, hsum, Real.sqrt_mul_self hD.le]
  unfold angleR
  rw [hval, ← hdt, ← Real.arccos_neg, neg_div]

/-- the same in the oracle's textbook form: `atan2 (|a × b|) (a · b)`, `a = p1 − p2`, `b = p3 − p2` -/
theorem angleR_textbook_atan2 (p1 p2 p3 : V3 ℝ) (h12 : p1 ≠ p2) (h32 : p3 ≠ p2) :
    angleR p1 p2 p3 = atan2 (normR (cross (p1 - p2) (p3 - p2))) (dot (p1 - p2) (p3 - p2)) := by
  rw [angleR_eq_args p1 p2 p3 h12 h32]
  have e1 : -(angleArgs p1 p2 p3).1 = dot (p1 - p2) (p3 - p2) := by
    unfold angleArgs
    v3_unfold
    ring
  have e2 : (angleArgs p1 p2 p3).2 - (angleArgs p1 p2 p3).1 * (angleArgs p1 p2 p3).1
      = nsq (cross (p1 - p2) (p3 - p2)) := by
    unfold angleArgs
    v3_unfold
    ring
  rw [e1, e2]
  rfl

/-- the angle is unchanged by every orthogonal motion of the three points — in particular by every
proper rigid motion.  Holds for all inputs of the model. -/
theorem angleR_rigid_invariant (T : Motion ℝ) (h : T.R.IsOrthogonal) (p1 p2 p3 : V3 ℝ) :
    angleR (T.apply p1) (T.apply p2) (T.apply p3) = angleR p1 p2 p3 := by
  unfold angleR
  rw [normR_motion h, normR_motion h, angleCos_motion h]

/-- listing the three points backwards gives the same angle -/
theorem angleR_reversal (p1 p2 p3 : V3 ℝ) : angleR p3 p2 p1 = angleR p1 p2 p3 := by
  unfold angleR
  rw [normR_sub_comm p3 p2, normR_sub_comm p2 p1, angleCos_reversal]

/-! ## dihedral -/

/-- range clause: the real-number dihedral lies in `(−π, π]` ⊂ `[−π, π]`.
The `−π` end is not attained over ℝ: `atan2 0 x = π` for `x < 0`.  numpy reaches `−π` only through
the IEEE signed zero (`arctan2(-0.0, x<0) = −π`), which denotes the same planar-trans angle; see
the header. -/
theorem dihedralR_range (p1 p2 p3 p4 : V3 ℝ) :
    -Real.pi < dihedralR p1 p2 p3 p4 ∧ dihedralR p1 p2 p3 p4 ≤ Real.pi :=
  atan2_mem _ _

/-- the dihedral is unchanged by every proper rigid motion (`R Rᵀ = I`, `det R = 1`, any
translation).  Holds for all inputs of the model. -/
theorem dihedralR_rigid_invariant (T : Motion ℝ) (h : T.R.IsRotation) (p1 p2 p3 p4 : V3 ℝ) :
    dihedralR (T.apply p1) (T.apply p2) (T.apply p3) (T.apply p4) = dihedralR p1 p2 p3 p4 := by
  unfold dihedralR
  rw [normR_motion h.1, (dihedral_xy_rigid_invariant T h _ p1 p2 p3 p4).1]

/-- under an improper orthogonal map (`det R = −1`: a reflection, possibly composed with a rotation
and a translation) the dihedral changes sign — exactly, except on the branch cut (`dihedral = π`,
the planar trans arrangement `y = 0, x < 0`) where it stays `π`. -/
theorem dihedralR_reflection (T : Motion ℝ) (h : T.R.IsReflection) (p1 p2 p3 p4 : V3 ℝ) :
    dihedralR (T.apply p1) (T.apply p2) (T.apply p3) (T.apply p4)
      = if dihedralR p1 p2 p3 p4 = Real.pi then Real.pi else -dihedralR p1 p2 p3 p4 := by
  unfold dihedralR
  rw [normR_motion h.1, dihedral_xy_reflection T h _ p1 p2 p3 p4]
  exact atan2_neg _ _

/-- sign flip away from the edge: if the dihedral is not `π` it is exactly negated -/
theorem dihedralR_reflection_neg (T : Motion ℝ) (h : T.R.IsReflection) (p1 p2 p3 p4 : V3 ℝ)
    (hedge : dihedralR p1 p2 p3 p4 ≠ Real.pi) :
    dihedralR (T.apply p1) (T.apply p2) (T.apply p3) (T.apply p4) = -dihedralR p1 p2 p3 p4 := by
  rw [dihedralR_reflection T h, if_neg hedge]

/-- sign flip as a statement modulo `2π`, with no exception: on the edge `π ≡ −π` -/
theorem dihedralR_reflection_mod_two_pi (T : Motion ℝ) (h : T.R.IsReflection)
    (p1 p2 p3 p4 : V3 ℝ) :
    ∃ k : ℤ, dihedralR (T.apply p1) (T.apply p2) (T.apply p3) (T.apply p4)
      = -dihedralR p1 p2 p3 p4 + k * (2 * Real.pi) := by
  rw [dihedralR_reflection T h]
  split
  · next e => exact ⟨1, by rw [e]; push_cast; ring⟩
  · exact ⟨0, by push_cast; ring⟩

/-- listing the four points backwards gives the same dihedral.  Holds for all inputs of the model. -/
theorem dihedralR_reversal (p1 p2 p3 p4 : V3 ℝ) :
    dihedralR p4 p3 p2 p1 = dihedralR p1 p2 p3 p4 := by
  unfold dihedralR
  rw [normR_sub_comm p2 p3]
  by_cases h0 : normR (p3 - p2) = 0
  · -- degenerate central bond: `1 / 0 = 0` in the model, both sides are `atan2 0 (v1·v3)`
    rw [h0]
    have hx : (dihedralXY (0 : ℝ) p4 p3 p2 p1).1 = (dihedralXY (0 : ℝ) p1 p2 p3 p4).1 := by
      unfold dihedralXY
      v3_unfold
      ring
    have hy : (dihedralXY (0 : ℝ) p4 p3 p2 p1).2 = (dihedralXY (0 : ℝ) p1 p2 p3 p4).2 := by
      unfold dihedralXY
      v3_unfold
      ring
    rw [hx, hy]
  · rw [dihedral_xy_reversal _ p1 p2 p3 p4 (normR_mul_self _) h0]

/-- textbook definition (IUPAC signed angle between the half-planes `(p1,p2,p3)` and `(p2,p3,p4)`),
`atan2` form, for a non-degenerate central bond: with `b1 = p2−p1`, `b2 = p3−p2`, `b3 = p4−p3`
`dihedral = atan2 (|b2| · b1·(b2×b3)) ((b1×b2)·(b2×b3))`. -/
theorem dihedralR_textbook (p1 p2 p3 p4 : V3 ℝ) (h23 : p3 ≠ p2) :
    dihedralR p1 p2 p3 p4 =
      atan2 (normR (p3 - p2) * dot (p2 - p1) (cross (p3 - p2) (p4 - p3)))
        (dot (cross (p2 - p1) (p3 - p2)) (cross (p3 - p2) (p4 - p3))) := by
  have hn := normR_sub_pos h23
  obtain ⟨tx, ty⟩ := dihedral_textbook (normR (p3 - p2)) p1 p2 p3 p4 (normR_mul_self _) hn.ne'
  unfold dihedralR
  rw [← tx, ← ty, atan2_pos_mul (nsq_sub_pos h23)]

/-- closed form evaluated by the harness on the driver's exact arguments
`(XN, Y, N) = dihedralArgs`: `dihedral = atan2 (Y · √N) XN` (non-degenerate central bond). -/
theorem dihedralR_eq_args (p1 p2 p3 p4 : V3 ℝ) (h23 : p3 ≠ p2) :
    dihedralR p1 p2 p3 p4 =
      atan2 ((dihedralArgs p1 p2 p3 p4).2.1 * Real.sqrt (dihedralArgs p1 p2 p3 p4).2.2)
        (dihedralArgs p1 p2 p3 p4).1 := by
  obtain ⟨t1, t2, t3⟩ := dihedralArgs_textbook p1 p2 p3 p4
  rw [dihedralR_textbook p1 p2 p3 p4 h23, t1, t2, t3, mul_comm]
  rfl

/-- the branch-cut edge in geometric terms: the dihedral is `π` exactly for the planar trans
arrangement (`b1·(b2×b3) = 0` and `(b1×b2)·(b2×b3) < 0`) -/
theorem dihedralR_eq_pi_iff (p1 p2 p3 p4 : V3 ℝ) (h23 : p3 ≠ p2) :
    dihedralR p1 p2 p3 p4 = Real.pi ↔
      dot (cross (p2 - p1) (p3 - p2)) (cross (p3 - p2) (p4 - p3)) < 0 ∧
      dot (p2 - p1) (cross (p3 - p2) (p4 - p3)) = 0 := by
  rw [dihedralR_textbook p1 p2 p3 p4 h23, atan2_eq_pi_iff]
  have hn := normR_sub_pos h23
  constructor
  · rintro ⟨hx, hy⟩
    exact ⟨hx, (mul_eq_zero.mp hy).resolve_left hn.ne'⟩
  · rintro ⟨hx, hy⟩
    exact ⟨hx, by rw [hy, mul_zero]⟩

/-- textbook definition, (cos, sin) form, when both planes are defined (`n1 = b1×b2 ≠ 0`,
`n2 = b2×b3 ≠ 0`, i.e. no collinear triple): `cos φ = n1·n2 / (|n1||n2|)` — `φ` is, up to sign, the
angle between the plane normals — and `sin φ = |b2| (b1·n2) / (|n1||n2|)` fixes the sign. -/
theorem dihedralR_cos_sin (p1 p2 p3 p4 : V3 ℝ)
    (hn1 : cross (p2 - p1) (p3 - p2) ≠ ⟨0, 0, 0⟩) (hn2 : cross (p3 - p2) (p4 - p3) ≠ ⟨0, 0, 0⟩) :
    Real.cos (dihedralR p1 p2 p3 p4)
      = dot (cross (p2 - p1) (p3 - p2)) (cross (p3 - p2) (p4 - p3))
          / (normR (cross (p2 - p1) (p3 - p2)) * normR (cross (p3 - p2) (p4 - p3))) ∧
    Real.sin (dihedralR p1 p2 p3 p4)
      = normR (p3 - p2) * dot (p2 - p1) (cross (p3 - p2) (p4 - p3))
          / (normR (cross (p2 - p1) (p3 - p2)) * normR (cross (p3 - p2) (p4 - p3))) := by
  have h23 : p3 ≠ p2 := by
    intro e
    apply hn1
    rw [e]
    ext <;> v3_unfold <;> ring
  have q1 := nsq_pos_of_ne_zero hn1
  have q2 := nsq_pos_of_ne_zero hn2
  set X := dot (cross (p2 - p1) (p3 - p2)) (cross (p3 - p2) (p4 - p3)) with hX
  set Y := dot (p2 - p1) (cross (p3 - p2) (p4 - p3)) with hY
  set n := normR (p3 - p2) with hn
  have hid : X * X + (n * Y) * (n * Y)
      = nsq (cross (p2 - p1) (p3 - p2)) * nsq (cross (p3 - p2) (p4 - p3)) := by
    have := dihedral_norm_identity (p2 - p1) (p3 - p2) (p4 - p3)
    rw [← normR_mul_self (p3 - p2)] at this
    rw [← this]
    ring
  have hsq : Real.sqrt (X * X + (n * Y) * (n * Y))
      = normR (cross (p2 - p1) (p3 - p2)) * normR (cross (p3 - p2) (p4 - p3)) := by
    rw [hid, Real.sqrt_mul q1.le]
    rfl
  have hne : X ≠ 0 ∨ n * Y ≠ 0 := by
    by_contra hc
    push Not at hc
    rw [hc.1, hc.2] at hid
    have := mul_pos q1 q2
    linarith
  rw [dihedralR_textbook p1 p2 p3 p4 h23]
  refine ⟨?_, ?_⟩
  · rw [cos_atan2 hne, hsq]
  · rw [sin_atan2, hsq]

/-- …and these two equations determine the dihedral: any `θ ∈ (−π, π]` with that cosine and sine
is the measured value (so `dihedralR` *is* the textbook signed angle, not merely one solution). -/
theorem dihedralR_unique (p1 p2 p3 p4 : V3 ℝ)
    (hn1 : cross (p2 - p1) (p3 - p2) ≠ ⟨0, 0, 0⟩) (hn2 : cross (p3 - p2) (p4 - p3) ≠ ⟨0, 0, 0⟩)
    (θ : ℝ) (h1 : -Real.pi < θ) (h2 : θ ≤ Real.pi)
    (hc : Real.cos θ = dot (cross (p2 - p1) (p3 - p2)) (cross (p3 - p2) (p4 - p3))
          / (normR (cross (p2 - p1) (p3 - p2)) * normR (cross (p3 - p2) (p4 - p3))))
    (hs : Real.sin θ = normR (p3 - p2) * dot (p2 - p1) (cross (p3 - p2) (p4 - p3))
          / (normR (cross (p2 - p1) (p3 - p2)) * normR (cross (p3 - p2) (p4 - p3)))) :
    dihedralR p1 p2 p3 p4 = θ := by
  have h23 : p3 ≠ p2 := by
    intro e
    apply hn1
    rw [e]
    ext <;> v3_unfold <;> ring
  have q1 : 0 < normR (cross (p2 - p1) (p3 - p2)) := Real.sqrt_pos.mpr (nsq_pos_of_ne_zero hn1)
  have q2 : 0 < normR (cross (p3 - p2) (p4 - p3)) := Real.sqrt_pos.mpr (nsq_pos_of_ne_zero hn2)
  have hr := mul_pos q1 q2
  rw [dihedralR_textbook p1 p2 p3 p4 h23]
  refine atan2_unique hr h1 h2 ?_ ?_
  · rw [hc]
    field_simp
  · rw [hs]
    field_simp

/-! ## index-based form over ℝ -/

/-- the real value denoted by a measured quantity of the model (`Meas` carries the exact arguments
of the final transcendental function, as printed by the driver): the closed forms the harness
evaluates with libm -/
noncomputable def Meas.valR : Meas ℝ → ℝ
  | .dist d2 => Real.sqrt d2
  | .angle dt nn => atan2 (Real.sqrt (nn - dt * dt)) (-dt)
  | .dihedral xn y n => atan2 (y * Real.sqrt n) xn

/-- index-based `measure_coordinates` of 2 / 3 / 4 valid indices, evaluated through `Meas.valR`,
is the row-wise real-valued `distR` / `angleR` / `dihedralR` of the picked points (distinct
neighbours) -/
theorem forms_agree_real (coords : List (V3 ℝ)) (i j k l : Nat) (p q r s : V3 ℝ)
    (hi : coords[i]? = some p) (hj : coords[j]? = some q) (hk : coords[k]? = some r)
    (hl : coords[l]? = some s) (hpq : p ≠ q) (hrq : r ≠ q) :
    (measureOne coords [(i : Int), j]).map Meas.valR = .ok (distR p q) ∧
    (measureOne coords [(i : Int), j, k]).map Meas.valR = .ok (angleR p q r) ∧
    (measureOne coords [(i : Int), j, k, l]).map Meas.valR = .ok (dihedralR p q r s) := by
  obtain ⟨h1, h2, h3⟩ := forms_agree_measure coords i j k l p q r s hi hj hk hl
  rw [h1, h2, h3]
  refine ⟨rfl, ?_, ?_⟩
  · show Except.ok _ = _
    rw [angleR_eq_args p q r hpq hrq]
    rfl
  · show Except.ok _ = _
    rw [dihedralR_eq_args p q r s hrq]
    rfl

/-! ## degrees -/

/-- `degrees=True` returns radians · 180/π (and back: · π/180); hence the degree ranges
`[0, 180]` for angles and `(−180, 180]` for dihedrals -/
theorem degrees_spec (p1 p2 p3 p4 : V3 ℝ) :
    angleDegR p1 p2 p3 = angleR p1 p2 p3 * (180 / Real.pi) ∧
    dihedralDegR p1 p2 p3 p4 = dihedralR p1 p2 p3 p4 * (180 / Real.pi) ∧
    angleDegR p1 p2 p3 * (Real.pi / 180) = angleR p1 p2 p3 ∧
    dihedralDegR p1 p2 p3 p4 * (Real.pi / 180) = dihedralR p1 p2 p3 p4 ∧
    (0 ≤ angleDegR p1 p2 p3 ∧ angleDegR p1 p2 p3 ≤ 180) ∧
    (-180 < dihedralDegR p1 p2 p3 p4 ∧ dihedralDegR p1 p2 p3 p4 ≤ 180) := by
  have hpi := Real.pi_pos
  have hk : 0 < 180 / Real.pi := by positivity
  have hpk : Real.pi * (180 / Real.pi) = 180 := by field_simp
  obtain ⟨a0, a1⟩ := angleR_range p1 p2 p3
  obtain ⟨d0, d1⟩ := dihedralR_range p1 p2 p3 p4
  refine ⟨rfl, rfl, ?_, ?_, ⟨?_, ?_⟩, ⟨?_, ?_⟩⟩
  · unfold angleDegR degrees
    field_simp
  · unfold dihedralDegR degrees
    field_simp
  · unfold angleDegR degrees
    positivity
  · unfold angleDegR degrees
    calc angleR p1 p2 p3 * (180 / Real.pi) ≤ Real.pi * (180 / Real.pi) :=
          mul_le_mul_of_nonneg_right a1 hk.le
      _ = 180 := hpk
  · unfold dihedralDegR degrees
    calc (-180 : ℝ) = -Real.pi * (180 / Real.pi) := by rw [neg_mul, hpk]
      _ < dihedralR p1 p2 p3 p4 * (180 / Real.pi) := mul_lt_mul_of_pos_right d0 hk
  · unfold dihedralDegR degrees
    calc dihedralR p1 p2 p3 p4 * (180 / Real.pi) ≤ Real.pi * (180 / Real.pi) :=
          mul_le_mul_of_nonneg_right d1 hk.le
      _ = 180 := hpk

/-- the `degrees=True` variants are unchanged by proper rigid motions as well -/
theorem degrees_rigid_invariant (T : Motion ℝ) (h : T.R.IsRotation) (p1 p2 p3 p4 : V3 ℝ) :
    angleDegR (T.apply p1) (T.apply p2) (T.apply p3) = angleDegR p1 p2 p3 ∧
    dihedralDegR (T.apply p1) (T.apply p2) (T.apply p3) (T.apply p4) = dihedralDegR p1 p2 p3 p4 := by
  unfold angleDegR dihedralDegR
  rw [angleR_rigid_invariant T h.1, dihedralR_rigid_invariant T h]
  exact ⟨rfl, rfl⟩

/-! ## non-vacuity: the hypotheses are met by non-trivial values (these are tests) -/
section examples

/-- a real proper rotation that is not a coordinate permutation (hypothesis of the invariance
theorems), and a real reflection (hypothesis of `dihedralR_reflection`) -/
example : (quatRot (1 : ℝ) 2 3 4).IsRotation := quatRot_isRotation _ _ _ _ (by norm_num)

example : (householder (⟨1, 2, 2⟩ : V3 ℝ)).IsReflection :=
  householder_isReflection _ (by norm_num [V3.nsq, V3.dot])

private theorem ne_of_x {a b : V3 ℝ} (h : a.x ≠ b.x) : a ≠ b := fun e => h (congrArg V3.x e)
private theorem ne_of_y {a b : V3 ℝ} (h : a.y ≠ b.y) : a ≠ b := fun e => h (congrArg V3.y e)
private theorem ne_of_z {a b : V3 ℝ} (h : a.z ≠ b.z) : a ≠ b := fun e => h (congrArg V3.z e)

/-- hypotheses of `angleR_textbook` / `angleR_eq_args` / `dihedralR_textbook`: distinct points -/
example : (⟨1, 0, 0⟩ : V3 ℝ) ≠ ⟨0, 0, 0⟩ ∧ (⟨0, 1, 0⟩ : V3 ℝ) ≠ ⟨0, 0, 0⟩ :=
  ⟨ne_of_x (by norm_num), ne_of_y (by norm_num)⟩

/-- hypotheses of `dihedralR_cos_sin` / `dihedralR_unique`: both plane normals non-zero for
`p = (1,0,0), (0,0,0), (0,1,0), (0,1,1)` -/
example :
    cross ((⟨0, 0, 0⟩ : V3 ℝ) - ⟨1, 0, 0⟩) (⟨0, 1, 0⟩ - ⟨0, 0, 0⟩) ≠ ⟨0, 0, 0⟩ ∧
    cross ((⟨0, 1, 0⟩ : V3 ℝ) - ⟨0, 0, 0⟩) (⟨0, 1, 1⟩ - ⟨0, 1, 0⟩) ≠ ⟨0, 0, 0⟩ := by
  refine ⟨ne_of_z ?_, ne_of_x ?_⟩ <;> v3_unfold <;> norm_num

/-- hypotheses of `forms_agree_real`: four listed points, neighbours distinct -/
example : ∃ coords : List (V3 ℝ), coords[0]? = some ⟨1, 0, 0⟩ ∧ coords[1]? = some ⟨0, 0, 0⟩ ∧
    coords[2]? = some ⟨0, 1, 0⟩ ∧ coords[3]? = some ⟨0, 1, 1⟩ :=
  ⟨[⟨1, 0, 0⟩, ⟨0, 0, 0⟩, ⟨0, 1, 0⟩, ⟨0, 1, 1⟩], rfl, rfl, rfl, rfl⟩

/-- TEST: `distR (3,4,0) (0,0,0) = 5` -/
example : distR ⟨3, 4, 0⟩ ⟨0, 0, 0⟩ = 5 := by
  unfold distR
  have : distSq (⟨3, 4, 0⟩ : V3 ℝ) ⟨0, 0, 0⟩ = 5 * 5 := by v3_unfold; norm_num
  rw [this, Real.sqrt_mul_self (by norm_num)]

/-- TEST: the right angle of the test-suite: `angleR (1,0,0) (0,0,0) (0,1,0) = π/2` -/
example : angleR ⟨1, 0, 0⟩ ⟨0, 0, 0⟩ ⟨0, 1, 0⟩ = Real.pi / 2 := by
  rw [(angleR_textbook _ _ _ (ne_of_x (by norm_num)) (ne_of_y (by norm_num))).1]
  have : dot ((⟨1, 0, 0⟩ : V3 ℝ) - ⟨0, 0, 0⟩) (⟨0, 1, 0⟩ - ⟨0, 0, 0⟩) = 0 := by
    v3_unfold; norm_num
  rw [this, zero_div, Real.arccos_zero]

/-- TEST: a non-planar dihedral with a sign: `dihedralR (1,0,0) (0,0,0) (0,1,0) (0,1,1) = −π/2`
(the implementation returns `-1.5707963…` on these points) -/
example : dihedralR ⟨1, 0, 0⟩ ⟨0, 0, 0⟩ ⟨0, 1, 0⟩ ⟨0, 1, 1⟩ = -(Real.pi / 2) := by
  rw [dihedralR_textbook _ _ _ _ (ne_of_y (by norm_num))]
  have hx : dot (cross ((⟨0, 0, 0⟩ : V3 ℝ) - ⟨1, 0, 0⟩) (⟨0, 1, 0⟩ - ⟨0, 0, 0⟩))
      (cross ((⟨0, 1, 0⟩ : V3 ℝ) - ⟨0, 0, 0⟩) (⟨0, 1, 1⟩ - ⟨0, 1, 0⟩)) = 0 := by
    v3_unfold; norm_num
  have hy : dot ((⟨0, 0, 0⟩ : V3 ℝ) - ⟨1, 0, 0⟩)
      (cross ((⟨0, 1, 0⟩ : V3 ℝ) - ⟨0, 0, 0⟩) (⟨0, 1, 1⟩ - ⟨0, 1, 0⟩)) = -1 := by
    v3_unfold; norm_num
  have hn : normR ((⟨0, 1, 0⟩ : V3 ℝ) - ⟨0, 0, 0⟩) = 1 := by
    unfold normR
    have : nsq ((⟨0, 1, 0⟩ : V3 ℝ) - ⟨0, 0, 0⟩) = 1 := by v3_unfold; norm_num
    rw [this, Real.sqrt_one]
  rw [hx, hy, hn]
  unfold atan2
  have : (⟨0, 1 * -1⟩ : ℂ) = -Complex.I := by
    apply Complex.ext <;> simp
  rw [this, Complex.arg_neg_I]

/-- TEST: the branch-cut edge is real — the planar trans arrangement `(1,0,0) (0,0,0) (0,1,0)
(−1,1,0)` has dihedral exactly `π`; the mirror `z ↦ −z` fixes all four points, so the dihedral
cannot be negated there (`dihedralR_reflection` returns `π`, the implementation returns `π` or,
through `-0.0`, `−π`) -/
example : dihedralR ⟨1, 0, 0⟩ ⟨0, 0, 0⟩ ⟨0, 1, 0⟩ ⟨-1, 1, 0⟩ = Real.pi := by
  rw [dihedralR_eq_pi_iff _ _ _ _ (ne_of_y (by norm_num))]
  refine ⟨?_, ?_⟩ <;> v3_unfold <;> norm_num

end examples

end QcelVerif.Measure
