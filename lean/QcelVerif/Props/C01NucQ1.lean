import QcelVerif.Props.C01NucPred
/-! C01: quarter 1 of the nuclide table (kernel evaluation), built in parallel with the other quarters. -/
namespace QcelVerif.PT
open QcelVerif
set_option maxRecDepth 100000
theorem nuclides_resolve_q1 : Gen.PT.nuclidesQ1.all nuclideRowOk = true := by decide +kernel
theorem nuclides_anycase_q1 : Gen.PT.nuclidesQ1.all nuclideRowAnycaseOk = true := by decide +kernel
theorem tree_rows_q1 : Gen.PT.nuclidesQ1.all treeRowOk = true := by decide +kernel
theorem masses_float_q1 : Gen.PT.nuclidesQ1.all massFloatOk = true := by decide +kernel
end QcelVerif.PT
