import QcelVerif.Props.C14Inv
import QcelVerif.Lemmas.MunkresTerm
/-!
# C14 — the Munkres model terminates: total correctness of the solver model

`Props/C14Inv.lean` proves that every answer of `solve` is a certified optimum and leaves
termination within the model's fuel as the hypothesis `solve inp = .ok o`.  This file removes it:

* `step_terminates` — every single step terminates under its invariant (the `while` of step 4
  covers a new row at every pass: `n + 1` fuel; the alternating path of step 5 visits every row at
  most once: at most `2n − 1 ≤ n + m − 1` path entries, `n + m + 1` fuel);
* `step_decreases` — every step decreases the lexicographic measure (`n −` starred rows; position in
  the cycle 3 → 4 → (6 → 4)* → 5; `n −` covered rows) — step 5 stars one more row, step 4 after a
  step 6 covers at least one more row, step 6 always creates an uncovered zero;
* `solve_total` — every valid, well-shaped input is answered (never `fuel`, never `index`);
* `solve_correct` — … and the answer is a minimum-cost complete assignment with a valid reduced
  matrix: total correctness of the model of `linear_sum_assignment(cost, return_cost=True)`.

PROPERTY-THEOREMS (audited): step_terminates step_decreases solve_total solve_correct
-/
namespace QcelVerif.Munkres
open QcelVerif.Assign

/-- **Every step terminates** under its invariant (in the wide orientation, `path` of size `n + m`). -/
theorem step_terminates {n m : Nat} {cost : Nat → Nat → Rat} {st : Step} {s : State}
    (h : TInv n m cost st s) : ∃ r, doStep st s = .ok r :=
  doStep_total h

/-- **Every step makes progress**: it re-establishes the (termination) invariant for its successor
and strictly decreases the measure `mu`. -/
theorem step_decreases {n m : Nat} {cost : Nat → Nat → Rat} {st st' : Step} {s s' : State}
    (hrun : doStep st s = .ok (s', some st')) (h : TInv n m cost st s) :
    TInv n m cost st' s' ∧ mu n st' s' < mu n st s :=
  doStep_decreases hrun h

/-- **Totality.**  Every valid input — 2-d, numeric dtype, all entries finite, well shaped; any
shape, empty axes included — is answered: the Munkres model never runs out of fuel and never
overruns `path`. -/
theorem solve_total (inp : Input) (hw : inp.WellShaped) (h2 : inp.ndim = 2) (hdt : inp.dt ≠ .other)
    (hfin : inp.allFinite = true) : ∃ o, solve inp = .ok o := by
  have hsz : (inp.ent.map fun r => r.map Entry.val).size = inp.n := by simpa using hw.1
  have hrow : ∀ i, i < inp.n → ((inp.ent.map fun r => r.map Entry.val).getD i #[]).size = inp.m := by
    intro i hi
    have := hw.2 i hi
    have hi' : i < inp.ent.size := by rw [hw.1]; exact hi
    simp [Array.getD, hi'] at this ⊢
    exact this
  unfold solve
  rw [if_neg (by simp [h2]), if_neg hdt, if_neg (by simp [hfin])]
  simp only
  by_cases hlt : inp.m < inp.n
  · rw [if_pos hlt]
    obtain ⟨⟨s, trc⟩, hs⟩ := solveWide_total inp.m inp.n (transpose inp.n inp.m _) (transpose_size _ _ _)
      (fun j hj => transpose_row_size _ _ _ j hj) (Nat.le_of_lt hlt)
    rw [hs]
    exact ⟨_, rfl⟩
  · rw [if_neg hlt]
    obtain ⟨⟨s, trc⟩, hs⟩ := solveWide_total inp.n inp.m _ hsz hrow (Nat.le_of_not_lt hlt)
    rw [hs]
    exact ⟨_, rfl⟩

/-- **Total correctness of the solver model.**  For every valid, well-shaped cost matrix (any
shape) the model of `linear_sum_assignment(cost, return_cost=True)` returns an answer, and that
answer is a complete assignment with strictly increasing rows whose total cost is the minimum over
ALL complete assignments; every optimal complete assignment lies on the zeros of the returned
reduced matrix, which is non-negative, zero on the returned pairs, and equal to the cost minus a
constant per row and a constant per column. -/
theorem solve_correct (inp : Input) (hw : inp.WellShaped) (h2 : inp.ndim = 2) (hdt : inp.dt ≠ .other)
    (hfin : inp.allFinite = true) :
    ∃ o, solve inp = .ok o
    ∧ IsAssign inp.n inp.m o.pairs
    ∧ (o.pairs.map Prod.fst).Pairwise (· < ·)
    ∧ (∀ τ, IsAssign inp.n inp.m τ → total inp.costFn o.pairs ≤ total inp.costFn τ)
    ∧ (∀ τ, IsAssign inp.n inp.m τ → total inp.costFn τ ≤ total inp.costFn o.pairs →
        ∀ p ∈ τ, matFn o.red p.1 p.2 = 0)
    ∧ (∀ i < inp.n, ∀ j < inp.m, 0 ≤ matFn o.red i j)
    ∧ (∀ p ∈ o.pairs, matFn o.red p.1 p.2 = 0)
    ∧ ∃ u v : Nat → Rat, ∀ i < inp.n, ∀ j < inp.m, matFn o.red i j = inp.costFn i j - u i - v j := by
  obtain ⟨o, ho⟩ := solve_total inp hw h2 hdt hfin
  exact ⟨o, ho, solve_optimal inp o hw ho⟩

/-- TEST (non-vacuity): the docstring example and the tall example satisfy the hypotheses -/
example : exInput.WellShaped ∧ exInput.ndim = 2 ∧ exInput.dt ≠ .other ∧ exInput.allFinite = true := by
  refine ⟨by unfold Input.WellShaped; decide, by decide, by decide, by decide +kernel⟩
example : exTall.WellShaped ∧ exTall.ndim = 2 ∧ exTall.dt ≠ .other ∧ exTall.allFinite = true := by
  refine ⟨by unfold Input.WellShaped; decide, by decide, by decide, by decide +kernel⟩

end QcelVerif.Munkres
