import QcelVerif.Lemmas.DecBounds
import QcelVerif.Props.C02Pc2014
import QcelVerif.Props.C02Pc2018
/-!
# C02 — general error bounds of the `decimal` model and of the alias formulas (all operands, no table)

The model `Model/Dec.lean` of Python's `decimal` under the default context (precision 28,
ROUND_HALF_EVEN).  `u = 5·10⁻²⁸` is half a unit in the 28th significant digit.

**Per operation, for ALL operands** (any sign, any coefficient length, any exponent):
 * `Dec.mul_rel_err`, `Dec.add_rel_err`, `Dec.sub_rel_err` : `|val (op a b) − exact| ≤ u·|exact|`
   — no operand is excluded (a zero exact result is returned exactly, so the bound reads `0 ≤ 0`);
 * `Dec.div_rel_err` : the same for every divisor with a non-zero coefficient; `Dec.div_by_zero`:
   a zero divisor gives `none` (DivisionByZero / InvalidOperation) — the only excluded operands.
   CPython computes the quotient to 29 or 30 digits, plants a sticky digit when it is inexact, and
   rounds once; the theorem is about that algorithm as modelled (`Dec.div`), and the bound it
   satisfies is the correctly-rounded one (`u`, not `2u`).
 * NOT modelled, hence outside every statement here: the exponent limits `Emin`/`Emax` of the context
   (overflow, subnormal results, clamping), NaN/Infinity operands, signals/traps.

**Exactness**: `Dec.mul_exact`, `Dec.add_exact`, `Dec.sub_exact`, `Dec.div_exact` — whenever the exact
result can be written with at most 28 significant digits (`Rep28`), the operation returns it exactly;
`Dec.mul_exact_of_digits` is the special case "the product of the coefficients has ≤ 28 digits".
This is why the 24 division-free aliases are exact.  `Dec.results_fit`: every result has ≤ 28 digits.

**Composition** (`Constants.evalDec_rel_err`): for EVERY context table `pc` (all constant values, not
only the shipped ones), every alias table and every expression, if the decimal evaluation succeeds
then the exact rational evaluation succeeds and the two differ by at most `n·u/(1 − n·u)` relative,
`n` = number of `mul`/`div` nodes evaluated.  Every definition in `aliasSpec` / `derived2018` has
`n ≤ 3` (`aliasSpec_roundings`), so the `2·10⁻²⁷` of `aliasClose` is a consequence
(`aliasClose_of_aliasOk`), and the shipped instances `aliases_close_2014/2018`,
`derived_close_2018` are obtained from the digit-for-digit part of the kernel-checked table theorems
through the general theorem (the per-row kernel check of `aliasClose` is kept as well).
-/
namespace QcelVerif.Dec

/-! ### per-operation bounds (all operands) -/

/-- **multiplication is correctly rounded**, for all operands -/
theorem mul_rel_err (a b : Dec) :
    |val (mul a b) - val a * val b| ≤ 5 / 10 ^ 28 * |val a * val b| := by
  have h := fix_rel_err ⟨a.neg != b.neg, a.coeff * b.coeff, a.exp + b.exp⟩
  rw [val_mul_pre] at h
  exact h

/-- **addition is correctly rounded**, for all operands (including zero operands and cancellation) -/
theorem add_rel_err (a b : Dec) :
    |val (add a b) - (val a + val b)| ≤ 5 / 10 ^ 28 * |val a + val b| := by
  obtain ⟨d, hd, hv⟩ := add_pre a b
  rw [hd, ← hv]; exact fix_rel_err d

/-- **subtraction is correctly rounded**, for all operands -/
theorem sub_rel_err (a b : Dec) :
    |val (sub a b) - (val a - val b)| ≤ 5 / 10 ^ 28 * |val a - val b| := by
  obtain ⟨d, hd, hv⟩ := sub_pre a b
  rw [hd, ← hv]; exact fix_rel_err d

/-- **division is correctly rounded** for every divisor with a non-zero coefficient -/
theorem div_rel_err (a b : Dec) (hb : b.coeff ≠ 0) :
    ∃ r, div a b = some r ∧ |val r - val a / val b| ≤ 5 / 10 ^ 28 * |val a / val b| := by
  obtain ⟨r, hr, hbound, -, -⟩ := div_spec a b hb
  exact ⟨r, hr, hbound⟩

/-- the excluded operands of `div_rel_err`: a zero divisor is refused (never defaulted) -/
theorem div_by_zero (a b : Dec) (hb : b.coeff = 0) : div a b = none := by
  unfold div; simp [hb]

/-- non-vacuity of `div_rel_err`'s hypothesis, and a genuinely inexact instance: 1/3 -/
example : (⟨false, 3, 0⟩ : Dec).coeff ≠ 0 ∧
    div ⟨false, 1, 0⟩ ⟨false, 3, 0⟩ = some ⟨false, 3333333333333333333333333333, -28⟩ := by decide

/-! ### exactness -/

/-- **a product with at most 28 significant digits is exact** -/
theorem mul_exact (a b : Dec) (h : Rep28 (val a * val b)) : val (mul a b) = val a * val b := by
  have := fix_exact ⟨a.neg != b.neg, a.coeff * b.coeff, a.exp + b.exp⟩ (by rw [val_mul_pre]; exact h)
  rw [val_mul_pre] at this; exact this

/-- special case: the product of the coefficients has at most 28 digits; then even the
representation is the schoolbook one -/
theorem mul_exact_of_digits (a b : Dec) (h : ndigits (a.coeff * b.coeff) ≤ prec) :
    mul a b = ⟨a.neg != b.neg, a.coeff * b.coeff, a.exp + b.exp⟩ := fix_of_fits _ h

/-- **a sum with at most 28 significant digits is exact** -/
theorem add_exact (a b : Dec) (h : Rep28 (val a + val b)) : val (add a b) = val a + val b := by
  obtain ⟨d, hd, hv⟩ := add_pre a b
  rw [hd, ← hv]; exact fix_exact d (by rw [hv]; exact h)

/-- **a difference with at most 28 significant digits is exact** -/
theorem sub_exact (a b : Dec) (h : Rep28 (val a - val b)) : val (sub a b) = val a - val b := by
  obtain ⟨d, hd, hv⟩ := sub_pre a b
  rw [hd, ← hv]; exact fix_exact d (by rw [hv]; exact h)

/-- **a quotient with at most 28 significant digits is exact** -/
theorem div_exact (a b : Dec) (hb : b.coeff ≠ 0) (h : Rep28 (val a / val b)) :
    ∃ r, div a b = some r ∧ val r = val a / val b := by
  obtain ⟨r, hr, -, hex, -⟩ := div_spec a b hb
  exact ⟨r, hr, hex h⟩

/-- non-vacuity of the `Rep28` hypotheses: 1.E10 · 0.52917721067E-10 (bohr2angstroms, 2014) has 11
significant digits; the scaling is exact although the coefficient product is not short in general -/
example : Rep28 (val ⟨false, 52917721067, -21⟩ * val ⟨false, 1, 10⟩) :=
  ⟨52917721067, -11, by norm_num, by
    rw [val_mk, val_mk]; simp only [sgn]; norm_num [abs_of_pos, zpow_neg]⟩

/-- non-vacuity of `add_exact` / `sub_exact` / `div_exact`: 1E+30 + 1 has 31 significant digits (NOT
exact, so the hypothesis is a real restriction), 1E+27 + 1 has 28; 1/8 = 0.125 -/
example : Rep28 (val ⟨false, 1, 27⟩ + val ⟨false, 1, 0⟩) ∧ Rep28 (val ⟨false, 1, 27⟩ - val ⟨false, 1, 0⟩) ∧
    Rep28 (val ⟨false, 1, 0⟩ / val ⟨false, 8, 0⟩) := by
  refine ⟨⟨10 ^ 27 + 1, 0, by norm_num, ?_⟩, ⟨10 ^ 27 - 1, 0, by norm_num, ?_⟩, ⟨125, -3, by norm_num, ?_⟩⟩ <;>
    · simp only [val_mk, sgn]; norm_num [zpow_neg]
/-- tests (not properties): the rounded and the exact branch of each operation -/
example : add ⟨false, 1, 30⟩ ⟨false, 1, 0⟩ = ⟨false, 1000000000000000000000000000, 3⟩ ∧
    add ⟨false, 1, 27⟩ ⟨false, 1, 0⟩ = ⟨false, 1000000000000000000000000001, 0⟩ ∧
    div ⟨false, 1, 0⟩ ⟨false, 8, 0⟩ = some ⟨false, 125, -3⟩ ∧
    mul ⟨false, 99999999999999999999999999995, 0⟩ ⟨true, 1, 0⟩ = ⟨true, 1000000000000000000000000000, 2⟩ ∧
    mul ⟨false, 10000000000000000000000000005, 0⟩ ⟨false, 1, 0⟩ = ⟨false, 1000000000000000000000000000, 1⟩ ∧
    mul ⟨false, 10000000000000000000000000015, 0⟩ ⟨false, 1, 0⟩ = ⟨false, 1000000000000000000000000002, 1⟩ := by decide

/-- **every arithmetic result fits the precision** (at most 28 digits in the coefficient) -/
theorem results_fit (a b : Dec) :
    (mul a b).coeff < 10 ^ 28 ∧ (add a b).coeff < 10 ^ 28 ∧ (sub a b).coeff < 10 ^ 28 ∧
    ∀ r, div a b = some r → r.coeff < 10 ^ 28 := by
  refine ⟨fix_fits _, ?_, ?_, ?_⟩
  · obtain ⟨d, hd, -⟩ := add_pre a b; rw [hd]; exact fix_fits d
  · obtain ⟨d, hd, -⟩ := sub_pre a b; rw [hd]; exact fix_fits d
  · intro r hr
    by_cases hb : b.coeff = 0
    · rw [div_by_zero a b hb] at hr; exact absurd hr (by simp)
    · obtain ⟨r', hr', -, -, hfit⟩ := div_spec a b hb
      rw [hr', Option.some.injEq] at hr
      rw [← hr]; exact hfit

end QcelVerif.Dec

namespace QcelVerif.Constants
open QcelVerif QcelVerif.PStr QcelVerif.Dec

/-! ### composition along the alias formulas -/

/-- number of rounded operations (`mul` / `div` nodes) the evaluation of an expression performs,
aliases followed through the table exactly as `evalDec` follows them -/
def Expr.roundings (tbl : List AliasDef) : Nat → Expr → Nat
  | 0, _ => 0
  | _ + 1, .pc _ => 0
  | _ + 1, .lit _ => 0
  | f + 1, .alias n => match findAlias tbl n with
      | some a => Expr.roundings tbl f a.expr
      | none => 0
  | f + 1, .mul a b => Expr.roundings tbl f a + Expr.roundings tbl f b + 1
  | f + 1, .div a b => Expr.roundings tbl f a + Expr.roundings tbl f b + 1

/-- the decimal evaluation is the exact rational evaluation perturbed by one correctly rounded
operation per `mul`/`div` node — for every table of constants, alias table, fuel and expression -/
theorem evalDec_approx (pc : PC) (tbl : List AliasDef) :
    ∀ (f : Nat) (e : Expr) (v : Dec), e.evalDec pc tbl f = some v →
      ∃ q, e.evalQ pc tbl f = some q ∧ Approx (e.roundings tbl f) (val v) q := by
  intro f
  induction f with
  | zero => intro e v h; simp [Expr.evalDec] at h
  | succ f ih =>
    intro e v h
    cases e with
    | pc n =>
      simp only [Expr.evalDec, Option.map_eq_some_iff] at h
      obtain ⟨d, hd, hv⟩ := h
      refine ⟨d.data.val, by simp [Expr.evalQ, hd], ?_⟩
      rw [← hv]; exact approx_refl _
    | lit t =>
      simp only [Expr.evalDec] at h
      refine ⟨v.val, by simp [Expr.evalQ, h], approx_refl _⟩
    | «alias» n =>
      simp only [Expr.evalDec] at h
      cases hfa : findAlias tbl n with
      | none => simp [hfa] at h
      | some a =>
        simp only [hfa] at h
        obtain ⟨q, hq, ha⟩ := ih a.expr v h
        exact ⟨q, by simp [Expr.evalQ, hfa, hq], by simpa [Expr.roundings, hfa] using ha⟩
    | mul a b =>
      simp only [Expr.evalDec] at h
      cases hxa : Expr.evalDec pc tbl f a with
      | none => simp [hxa] at h
      | some x =>
        cases hxb : Expr.evalDec pc tbl f b with
        | none => simp [hxa, hxb] at h
        | some y =>
          simp only [hxa, hxb, Option.some.injEq] at h
          obtain ⟨qa, hqa, haa⟩ := ih a x hxa
          obtain ⟨qb, hqb, hab⟩ := ih b y hxb
          refine ⟨qa * qb, by simp [Expr.evalQ, hqa, hqb], ?_⟩
          rw [← h]
          have h1 : Approx 1 (val (Dec.mul x y)) (val x * val y) := approx_of_rel (mul_rel_err x y)
          exact approx_trans (approx_mul haa hab) h1
    | div a b =>
      simp only [Expr.evalDec] at h
      cases hxa : Expr.evalDec pc tbl f a with
      | none => simp [hxa] at h
      | some x =>
        cases hxb : Expr.evalDec pc tbl f b with
        | none => simp [hxa, hxb] at h
        | some y =>
          simp only [hxa, hxb] at h
          obtain ⟨qa, hqa, haa⟩ := ih a x hxa
          obtain ⟨qb, hqb, hab⟩ := ih b y hxb
          have hy : y.coeff ≠ 0 := by
            intro hy0; rw [div_by_zero x y hy0] at h; exact absurd h (by simp)
          obtain ⟨r, hr, hbound⟩ := div_rel_err x y hy
          rw [hr, Option.some.injEq] at h
          have hqb0 : qb ≠ 0 := (approx_ne_zero hab).mp (by rw [Ne, val_eq_zero_iff]; exact hy)
          refine ⟨qa / qb, by simp [Expr.evalQ, hqa, hqb, hqb0], ?_⟩
          rw [← h]
          have h1 : Approx 1 (val r) (val x / val y) := approx_of_rel hbound
          exact approx_trans (approx_div haa hab) h1

/-- **General error bound of the alias formulas**: for ALL constant values (`pc` arbitrary), alias
tables and expressions, a successful decimal evaluation is within `n·u/(1 − n·u)` (relative) of the
exact rational value of the same formula, `u = 5·10⁻²⁸`, `n` = number of `mul`/`div` nodes. -/
theorem evalDec_rel_err (pc : PC) (tbl : List AliasDef) (f : Nat) (e : Expr) (v : Dec)
    (h : e.evalDec pc tbl f = some v) (hn : ((e.roundings tbl f : Nat) : ℚ) * (5 / 10 ^ 28) < 1) :
    ∃ q, e.evalQ pc tbl f = some q ∧
      |val v - q| ≤ ((e.roundings tbl f : Nat) : ℚ) * (5 / 10 ^ 28) /
        (1 - ((e.roundings tbl f : Nat) : ℚ) * (5 / 10 ^ 28)) * |q| := by
  obtain ⟨q, hq, ha⟩ := evalDec_approx pc tbl f e v h
  exact ⟨q, hq, approx_bound ha hn⟩

/-- non-vacuity of `evalDec_rel_err`: the quotient 1/3 evaluates, with one rounded operation -/
example : (Expr.div (.lit b!"1") (.lit b!"3")).evalDec [] [] 2 = some ⟨false, 3333333333333333333333333333, -28⟩ ∧
    (((Expr.div (.lit b!"1") (.lit b!"3")).roundings [] 2 : Nat) : ℚ) * (5 / 10 ^ 28) < 1 := by
  refine ⟨by decide, ?_⟩
  have : (Expr.div (.lit b!"1") (.lit b!"3")).roundings [] 2 = 1 := by decide
  rw [this]; norm_num

/-- a definition without `mul`/`div` nodes is evaluated exactly -/
theorem evalDec_exact_of_no_rounding (pc : PC) (tbl : List AliasDef) (f : Nat) (e : Expr) (v : Dec)
    (h : e.evalDec pc tbl f = some v) (h0 : e.roundings tbl f = 0) : e.evalQ pc tbl f = some (val v) := by
  obtain ⟨q, hq, ρ, he, h1, h2⟩ := evalDec_approx pc tbl f e v h
  rw [h0, pow_zero] at h1 h2
  have : ρ = 1 := le_antisymm (by simpa using h2) h1
  rw [hq, he, this, mul_one]

/-! ### the shipped alias tables -/

def roundingsLe3 (tbl : List AliasDef) (a : AliasDef) : Bool := Nat.ble (a.expr.roundings tbl evalFuel) 3

/-- every one of the 27 alias definitions and of the 3 derived constants performs at most three
rounded operations (concrete check of the two definition lists; independent of any constant value) -/
theorem aliasSpec_roundings :
    allAliases (roundingsLe3 aliasSpec) aliasSpec = true ∧ allAliases (roundingsLe3 []) derived2018 = true := by
  decide +kernel

theorem allAliases_iff (p : AliasDef → Bool) (l : List AliasDef) :
    allAliases p l = true ↔ ∀ a ∈ l, p a = true := by
  induction l with
  | nil => simp [allAliases]
  | cons x t ih =>
    unfold allAliases
    cases hx : p x with
    | true => simp [ih, hx]
    | false => simp [hx]

theorem decBeq_eq {a b : Dec} (h : decBeq a b = true) : a = b := by
  unfold decBeq at h
  simp only [Bool.and_eq_true, beq_iff_eq, decide_eq_true_eq] at h
  obtain ⟨⟨h1, h2⟩, h3⟩ := h
  cases a; cases b; simp_all

theorem ratAbs_eq (x : ℚ) : ratAbs x = |x| := by
  unfold ratAbs
  by_cases h : x < 0
  · rw [if_pos h, abs_of_neg h]
  · rw [if_neg h, abs_of_nonneg (not_lt.mp h)]

/-- **`aliasClose` follows from `aliasOk` for every table of constants**: if the stored Decimal of
an alias is, digit for digit, the decimal evaluation of a definition with at most three rounded
operations, then it is within `2·10⁻²⁷` (relative) of the exact rational value of the formula —
whatever the values of the constants are. -/
theorem aliasClose_of_aliasOk (tbl : List AliasDef) (pc : PC) (a : AliasDef)
    (h3 : roundingsLe3 tbl a = true) (hok : aliasOk tbl pc a = true) : aliasClose tbl pc a = true := by
  unfold aliasOk at hok
  cases hv : a.expr.evalDec pc tbl evalFuel with
  | none => simp [hv] at hok
  | some v =>
    cases he : pcFind pc (pack (lower a.name)) with
    | none => simp [hv, he] at hok
    | some e =>
      simp only [hv, he, Bool.and_eq_true] at hok
      have hdata : e.data = v := decBeq_eq hok.1.1.1.1
      obtain ⟨q, hq, happ⟩ := evalDec_approx pc tbl evalFuel a.expr v hv
      have hle : a.expr.roundings tbl evalFuel ≤ 3 := Nat.le_of_ble_eq_true h3
      have hclose := approx3_close hle happ
      unfold aliasClose ratClose
      simp only [hq, he, hdata, decide_eq_true_eq, ratAbs_eq]
      have : ((10 ^ 27 : Nat) : ℚ) = (10 : ℚ) ^ 27 := by norm_num
      rw [this]; exact hclose

/-- non-vacuity of `aliasClose_of_aliasOk`: both hypotheses hold for `hartree2kcalmol` (three rounded
operations, one of them a genuine division) on the shipped 2014 context — see `aliases_close_2014`. -/
example : roundingsLe3 aliasSpec ⟨b!"x", b!"", .div (.mul (.mul (.lit b!"4.3597") (.lit b!"6.0221")) (.lit b!"0.001")) (.lit b!"4.184"), b!""⟩ = true := by
  decide

/-- non-vacuity of `aliasClose_of_aliasOk` on a real context: both hypotheses hold for all 27
aliases of the shipped 2014 context -/
example : ∃ pc, allAliases (roundingsLe3 aliasSpec) aliasSpec = true ∧ allAliases (aliasOk aliasSpec pc) aliasSpec = true := by
  have h := aliases_follow_spec_2014
  cases hp : pc2014 with
  | none => rw [hp] at h; simp [withPC] at h
  | some pc =>
    rw [hp] at h
    refine ⟨pc, aliasSpec_roundings.1, ?_⟩
    have h' : aliasChecks pc = true := h
    unfold aliasChecks at h'
    simp only [Bool.and_eq_true] at h'
    exact h'.1.1.1

theorem withPC_imp {o : Option PC} {p q : PC → Bool} (hpq : ∀ pc, p pc = true → q pc = true)
    (h : withPC o p = true) : withPC o q = true := by
  cases o with
  | none => simp [withPC] at h
  | some pc => exact hpq pc h

theorem aliasOk_all_of_checks {pc : PC} (h : aliasChecks pc = true) :
    allAliases (aliasOk aliasSpec pc) aliasSpec = true := by
  unfold aliasChecks at h
  simp only [Bool.and_eq_true] at h
  exact h.1.1.1

theorem close_all_of_ok_all (tbl : List AliasDef) (l : List AliasDef) (pc : PC)
    (h3 : allAliases (roundingsLe3 tbl) l = true) (hok : allAliases (aliasOk tbl pc) l = true) :
    allAliases (aliasClose tbl pc) l = true := by
  rw [allAliases_iff] at *
  intro a ha
  exact aliasClose_of_aliasOk tbl pc a (h3 a ha) (hok a ha)

/-- **shipped instance, 2014**: all 27 aliases are within `2·10⁻²⁷` of their exact definitions —
obtained from the digit-for-digit clause of `aliases_follow_spec_2014` through the GENERAL theorem
(no per-row evaluation of the bound). -/
theorem aliases_close_2014 :
    withPC pc2014 (fun pc => allAliases (aliasClose aliasSpec pc) aliasSpec) = true :=
  withPC_imp (fun pc h => close_all_of_ok_all aliasSpec aliasSpec pc aliasSpec_roundings.1 (aliasOk_all_of_checks h))
    aliases_follow_spec_2014

/-- **shipped instance, 2018** -/
theorem aliases_close_2018 :
    withPC pc2018 (fun pc => allAliases (aliasClose aliasSpec pc) aliasSpec) = true :=
  withPC_imp (fun pc h => close_all_of_ok_all aliasSpec aliasSpec pc aliasSpec_roundings.1 (aliasOk_all_of_checks h))
    aliases_follow_spec_2018

/-- **shipped instance, the three derived constants of 2018** -/
theorem derived_close_2018 :
    withPC pc2018 (fun pc => allAliases (aliasClose [] pc) derived2018) = true :=
  withPC_imp (fun pc h => by
      unfold derivedChecks at h
      simp only [Bool.and_eq_true] at h
      exact close_all_of_ok_all [] derived2018 pc aliasSpec_roundings.2 h.1.1)
    legacy_derived_2018

end QcelVerif.Constants
