import QcelVerif.Lemmas.C04Schema
import QcelVerif.Props.C04C06
/-!
# C04 — the schema round trip: `from_schema (to_schema r v)` for v ∈ {1, 2}

Closes the `-- FULL: schema_roundtrip` gap of `Props/C04.lean`.  Model: `Model/FromArrays.lean`
(`fromSchema`, `contiguize`, `fromArrays`) and `Model/FromArraysSchema.lean` (`toSchemaU`: `to_schema` for a
record stored in either unit, `exportGeom`, `schemaImage`).

Statement (`schema_roundtrip`), for ANY number of atoms / fragments and ANY reconciler:

    Inv r  →  r has at least one atom  →  the exported geometry passes the default overlap screen
           →  every atom of r re-validates to itself under from_schema's settings
           →  fromSchema env (toSchemaU P r v) = ok (schemaImage P r)

with `schemaImage P r` = `r` except: `units = "Bohr"`, `input_units_to_au` absent, `name` defaulted with
`formula_generator(elem)`, geometry as exported (× 1 in Bohr, else × the Å→a₀ factor used), separators
canonical (`clamp(s)`: unchanged unless negative).  None of the three extra hypotheses can be dropped:

  * zero atoms: `from_schema` calls `from_arrays` with `missing_enabled_return='error'`
    (`schema_roundtrip_needs_atoms`);
  * `from_schema` has no `tooclose=` keyword: a record validated in Bohr with a smaller threshold may hold a
    pair of atoms closer than 0.1 a₀ (`schema_roundtrip_needs_geometry`);
  * `from_schema` has no `mtol=` keyword and the reconciler need not be idempotent
    (`from_arrays_not_idempotent_c06`); with the C06 model plugged in the hypothesis is discharged exactly as
    far as `Props/C04C06.lean` discharges `NucIdem`: self-consistent atoms (`schema_roundtrip_c06_partial`),
    supplied masses (`schema_roundtrip_c06_masses`), plain molecules under `rd64`
    (`schema_roundtrip_c06_plain`), and every record that has itself come out of `from_schema`
    (`schema_roundtrip_twice`, `schema_roundtrip_twice_c06`: the second round trip is the identity).

PROPERTY-THEOREMS:
  schema_roundtrip  schema_roundtrip_of_from_arrays  schema_roundtrip_twice  schemaImage_idem
  schema_roundtrip_bohr_named  toSchemaU_bohr  exported_geometry_bohr  exported_geometry_length
  roundtripHypB_iff  geometry_hyp_of_bohr
  schema_roundtrip_c06_partial  schema_roundtrip_c06_masses  schema_roundtrip_c06_plain  schema_roundtrip_twice_c06
  from_schema_refuses_unrecognised  from_schema_refuses_bad_pattern  from_schema_refuses_single_offset
  from_schema_refuses_wrong_length  from_schema_refuses_dropped_atoms
  schema_roundtrip_needs_atoms  schema_roundtrip_needs_geometry
-/
namespace QcelVerif.FromArrays
open QcelVerif
open QcelVerif.ChgMult (vfc Rules fullSpec)

/-! ## `exported_geometry_bohr` -/

/-- **Exported geometry.** The geometry in the schema is the stored geometry when the record is in Bohr;
otherwise every coordinate is ONE rounded product with the factor used: the record's own
`input_units_to_au` when it is in Angstrom and has one, else `conversion_factor(units, "Bohr")`.
Both dtypes. -/
theorem exported_geometry_bohr (P : SchemaParams) (r : Molrec) (v : Int) :
    (toSchemaU P r v).body.geom = some (exportGeom P r) ∧
    (r.units = sBohr → exportGeom P r = r.geom) ∧
    (r.units = sAngstrom → ∀ f, r.iutau = some f → exportGeom P r = r.geom.map (fun x => P.fl (x * f))) ∧
    (r.units = sAngstrom → r.iutau = none → exportGeom P r = r.geom.map (fun x => P.fl (x * P.cf sAngstrom))) := by
  refine ⟨rfl, exportGeom_bohr P r, ?_, ?_⟩
  · intro hu f hf
    simp [exportGeom, exportFactor, hu, hf, sAngstrom_ne_sBohr]
  · intro hu hf
    simp [exportGeom, exportFactor, hu, hf, sAngstrom_ne_sBohr]

/-- the export keeps three coordinates per atom -/
theorem exported_geometry_length (P : SchemaParams) (r : Molrec) : (exportGeom P r).length = r.geom.length :=
  exportGeom_length P r

/-- for a record in Bohr (and `nonphysical=False`) `toSchemaU` is `toSchema` of `Model/FromArrays.lean` -/
theorem toSchemaU_bohr (P : SchemaParams) (r : Molrec) (v : Int) (hu : r.units = sBohr) (hn : P.nonphysical = false) :
    toSchemaU P r v = toSchema P.formula r v := by
  unfold toSchemaU toSchema
  rw [exportGeom_bohr P r hu, hn]

/-! ## the round trip -/

theorem recognised_v1 :
    (((startsWith "qcschema_input".toList "qc_schema".toList || startsWith "qcschema_input".toList "qcschema".toList)
        && (some (1 : Int) == some 1))
      || (startsWith "qcschema_input".toList "qcschema_molecule".toList && (some (1 : Int) == some 2))) = true := by decide

theorem recognised_v2 :
    (((startsWith "qcschema_molecule".toList "qc_schema".toList || startsWith "qcschema_molecule".toList "qcschema".toList)
        && (some (2 : Int) == some 1))
      || (startsWith "qcschema_molecule".toList "qcschema_molecule".toList && (some (2 : Int) == some 2))) = true := by decide

/-- `from_schema` on a `to_schema` dictionary reaches `from_arrays` with the arguments `schemaInp` -/
theorem fromSchema_toSchemaU (env : Env) (P : SchemaParams) (r : Molrec) (v : Int) (hv : v = 1 ∨ v = 2)
    {valid a st tc} (I : Inv valid a st tc r) (hn : r.elem.length ≠ 0) :
    fromSchema env (toSchemaU P r v) = fromArrays env (schemaInp P r) := by
  obtain ⟨l1, l2, l3, l4, l5, l6⟩ := I.lengths
  have hnat : (exportGeom P r).length / 3 = r.elem.length := by rw [exportGeom_length, l6]; omega
  obtain ⟨rows0, hr0, hl0, _⟩ := I.geom
  -- rows of the exported geometry
  have hrows : ∃ rows, rows3 (exportGeom P r) = some rows ∧ rows.length = r.elem.length := by
    cases hx : rows3 (exportGeom P r) with
    | some rows =>
      have := rows3_length _ _ hx
      rw [exportGeom_length, l6] at this
      exact ⟨rows, rfl, by omega⟩
    | none =>
      exfalso
      have h3 : ∀ (g : List Rat) (k : Nat), g.length = 3 * k → rows3 g ≠ none := by
        intro g k
        induction k generalizing g with
        | zero => intro h; have : g = [] := List.length_eq_zero_iff.1 (by omega); subst this; simp [rows3]
        | succ k ih =>
          intro h
          match g, h with
          | x :: y :: z :: t, h =>
            have := ih t (by simp at h; omega)
            unfold rows3
            cases ht : rows3 t with
            | none => exact absurd ht this
            | some _ => simp
      exact h3 _ r.elem.length (by rw [exportGeom_length, l6]) hx
  obtain ⟨rows, hrows, hlen⟩ := hrows
  obtain ⟨cg, hcg, hcs⟩ := contiguize_pattern r.elem.length r.seps (toSchemaU P r v).body (exportGeom P r) rows
    (I.frag_nonempty hn) rfl hrows hlen
    (by show lenOk _ (some (r.elea.map some)) = true; simp [lenOk, l1])
    (by show lenOk _ (some (r.elez.map some)) = true; simp [lenOk, l2])
    (by show lenOk _ (some (r.elem.map some)) = true; simp [lenOk])
    (by show lenOk _ (some (r.mass.map some)) = true; simp [lenOk, l3])
    (by show lenOk _ (some (r.real.map some)) = true; simp [lenOk, l4])
    (by show lenOk _ (some (r.elbl.map some)) = true; simp [lenOk, l5])
  have hpat : (toSchemaU P r v).fragments = some (npSplit (List.range r.elem.length) r.seps) := by
    simp only [toSchemaU, hnat]
  unfold fromSchema
  have hrec : ((startsWith ((toSchemaU P r v).schemaName.getD []) "qc_schema".toList
        || startsWith ((toSchemaU P r v).schemaName.getD []) "qcschema".toList)
        && (toSchemaU P r v).schemaVersion == some 1
      || startsWith ((toSchemaU P r v).schemaName.getD []) "qcschema_molecule".toList
        && (toSchemaU P r v).schemaVersion == some 2) = true := by
    rcases hv with rfl | rfl
    · exact recognised_v1
    · exact recognised_v2
  simp only [hrec, Bool.not_true, Bool.false_eq_true, if_false, hpat, Option.getD_some, hcg, hcs]
  simp only [toSchemaU, schemaInp, hnat]

/-- **Schema round trip** (dtype 1 and 2; any number of atoms and fragments; any reconciler).
A record satisfying the invariant, with at least one atom, whose exported geometry passes the default
overlap screen and whose atoms re-validate to themselves under `from_schema`'s settings
(`speclabel=False`, the caller's `nonphysical`, default `mtol`), is returned by
`from_schema (to_schema r v)` as `schemaImage P r`: the same record in Bohr — field by field
`units = "Bohr"`, no `input_units_to_au`, `name` filled in (`formula_generator`), geometry as exported,
canonical separators; `comment`, bonds, all six per-atom arrays, total / fragment charges and
multiplicities, frame flags and point group unchanged. -/
theorem schema_roundtrip (env : Env) (P : SchemaParams) (r : Molrec) (v : Int) (hv : v = 1 ∨ v = 2)
    {valid : NucSettings → Nuc → Prop} {st : NucSettings} {tc : Rat} (I : Inv valid env.angToAu st tc r)
    (hn : r.elem.length ≠ 0)
    (hgeo : validateGeometry dfltTooclose (exportGeom P r) = .ok (exportGeom P r))
    (hre : ∀ u ∈ recNucs r, env.recon (schemaSettings P) (clueOf u) = .ok u) :
    fromSchema env (toSchemaU P r v) = .ok (schemaImage P r) := by
  rw [fromSchema_toSchemaU env P r v hv I hn]
  obtain ⟨l1, l2, l3, l4, l5, l6⟩ := I.lengths
  obtain ⟨nucs, e1, e2, e3, e4, e5, e6, _⟩ := I.cols
  have hnl : nucs.length = r.elem.length := by rw [e3]; simp
  have hnat : (exportGeom P r).length / 3 = nucs.length := by rw [exportGeom_length, l6, hnl]; omega
  rw [recNucs_of_cols e1 e2 e3 e4 e5 e6] at hre
  -- geometry
  have hgne : exportGeom P r ≠ [] := by
    intro h0
    have := exportGeom_length P r
    rw [h0, l6] at this
    simp at this
    omega
  have s1 : missingGeom (schemaInp P r) = .ok (exportGeom P r) := by
    unfold missingGeom
    simp only [schemaInp]
    cases hx : exportGeom P r with
    | nil => exact absurd hx hgne
    | cons x t => rfl
  -- units and bonds
  have hconn' : validateConn (schemaInp P r).conn = .ok r.conn := by
    cases hc : r.conn with
    | none => simp [schemaInp, hc, validateConn]
    | some bs =>
      have := I.conn bs hc
      simp only [schemaInp, hc, Option.map_some]
      exact validateConn_back this.1 this.2
  have s2 := validateUnits_back env.angToAu (schemaInp P r) sBohr none r.conn (Or.inr rfl) rfl rfl
    (by intro x hx; cases hx) hconn'
  have s3 : validateGeometry (schemaInp P r).tooclose (exportGeom P r) = .ok (exportGeom P r) := hgeo
  -- nuclei
  have s4 : validateNuclei env.recon ((exportGeom P r).length / 3) (schemaInp P r) = .ok nucs := by
    rw [hnat]
    exact validateNuclei_back_of (st := schemaSettings P) hre _ rfl (by simp [schemaInp, e1]) (by simp [schemaInp, e2])
      (by simp [schemaInp, e3]) (by simp [schemaInp, e4]) (by simp [schemaInp, e5]) (by simp [schemaInp, e6])
  -- fragments
  have hne : nucs.length = 0 ∨ ∀ p ∈ npSplit (List.replicate nucs.length ()) (canonSeps nucs.length r.seps), p ≠ [] := by
    right
    intro p hp hpe
    rw [npSplit_canonSeps _ _ (by simp)] at hp
    have hsame := npSplit_lengths_eq (List.replicate nucs.length ()) (List.range r.elem.length) (by simp [hnl]) r.seps
    have : (0 : Nat) ∈ (npSplit (List.replicate nucs.length ()) r.seps).map List.length :=
      List.mem_map.2 ⟨p, hp, by simp [hpe]⟩
    rw [hsame] at this
    obtain ⟨q, hq, hq0⟩ := List.mem_map.1 this
    exact I.frag_nonempty hn q hq (List.length_eq_zero_iff.1 hq0)
  have s5 : validateFragments ((exportGeom P r).length / 3) (schemaInp P r).seps (schemaInp P r).fc (schemaInp P r).fm
      = .ok { seps := canonSeps nucs.length r.seps, fc := r.fc.map some, fm := r.fm.map some } := by
    simp only [schemaInp, hnat]
    exact validateFragments_back hne (by rw [length_canonSeps]; exact I.len_fc) (by rw [length_canonSeps]; exact I.len_fm)
  -- charges and multiplicities
  have hz : (zeff (nucs.map (·.Z)) (nucs.map (·.real))).length = nucs.length := by
    rw [length_zeff _ _ (by simp)]; simp
  have s6 : chgmultStage (nucs.map (·.Z)) (nucs.map (·.real))
      { seps := canonSeps nucs.length r.seps, fc := r.fc.map some, fm := r.fm.map some }
      (schemaInp P r).c (schemaInp P r).m (schemaInp P r).zgf = .ok ⟨r.c, r.fc, r.m, r.fm⟩ := by
    simp only [schemaInp]
    unfold chgmultStage
    simp only [npSplit_canonSeps _ _ hz]
    have R := I.chg
    rw [e2, e5] at R
    have := ChgMult.vfc_accepts_valid_full _ _ R
    simp only [fullSpec] at this
    simp only [this]
  have s7 : frameFlag (schemaInp P r).fixCom = .ok r.fixCom := by simp [schemaInp, frameFlag_back]
  have s8 : frameFlag (schemaInp P r).fixOrient = .ok r.fixOrient := by simp [schemaInp, frameFlag_back]
  have s9 : frameSymm (schemaInp P r).fixSymm = r.fixSymm := by
    simp only [schemaInp]
    exact frameSymm_of_spec _ I.symm
  have s10 : (schemaInp P r).name = some (r.name.getD (P.formula r.elem)) := rfl
  have s11 : (schemaInp P r).comment = r.comment := rfl
  unfold fromArrays
  simp only [s1, s2, s3, s4, s5, s6, s7, s8, s9, s10, s11]
  congr 1
  rw [hnl, ← e1, ← e2, ← e3, ← e4, ← e5, ← e6]
  rfl

/-! ## the hypotheses, executable; sufficient conditions -/

/-- the driver's test (`Driver/C04c.lean`, op `TSh`) decides the three extra hypotheses of `schema_roundtrip` -/
theorem roundtripHypB_iff (env : Env) (P : SchemaParams) (r : Molrec) :
    roundtripHypB env P r = true ↔
      (r.elem.length ≠ 0 ∧ validateGeometry dfltTooclose (exportGeom P r) = .ok (exportGeom P r) ∧
       ∀ u ∈ recNucs r, env.recon (schemaSettings P) (clueOf u) = .ok u) := by
  unfold roundtripHypB
  simp only [Bool.and_eq_true, bne_iff_ne, ne_eq, List.all_eq_true, feedClue_eq_clueOf]
  constructor
  · rintro ⟨⟨h1, h2⟩, h3⟩
    refine ⟨h1, ?_, ?_⟩
    · cases hx : validateGeometry dfltTooclose (exportGeom P r) with
      | ok g => rw [(validateGeometry_ok hx).1]
      | error e => rw [hx] at h2; cases h2
    · intro u hu
      have := h3 u hu
      cases hx : env.recon (schemaSettings P) (clueOf u) with
      | ok u' => rw [hx] at this; simp only [decide_eq_true_eq] at this; rw [this]
      | error e => rw [hx] at this; cases this
  · rintro ⟨h1, h2, h3⟩
    refine ⟨⟨h1, by rw [h2]⟩, ?_⟩
    intro u hu
    rw [h3 u hu]
    simp

/-- a record in Bohr validated with a threshold not below the default one passes the default screen
unchanged (`from_schema` has no `tooclose=` keyword) -/
theorem geometry_hyp_of_bohr (P : SchemaParams) (r : Molrec) {valid a st tc} (I : Inv valid a st tc r)
    (hu : r.units = sBohr) (htc : dfltTooclose * dfltTooclose ≤ tc * tc) :
    validateGeometry dfltTooclose (exportGeom P r) = .ok (exportGeom P r) := by
  rw [exportGeom_bohr P r hu]
  obtain ⟨rows, hr, _, hp⟩ := I.geom
  exact validateGeometry_of_pairwise hr (pairwise_tooclose_mono htc hp)

/-- what a successful `from_schema` is: `from_arrays` on the dictionary's arrays with `from_schema`'s settings -/
theorem fromSchema_ok {env : Env} {s : Schema} {r : Molrec} (h : fromSchema env s = .ok r) :
    ∃ seps, fromArrays env { s.body with
        units := sBohr, iutau := none, seps := some seps
        minimal := false, speclabel := false, zgf := false
        mtol := dfltMtol, tooclose := dfltTooclose } = .ok r := by
  unfold fromSchema at h
  simp only at h
  split at h
  · cases h
  · split at h
    · cases h
    · rename_i cg _
      exact ⟨cg.seps, h⟩

/-- every atom of a returned record is an answer of the reconciler under the call's settings -/
theorem recNucs_answered {env : Env} {i : Inp} {r : Molrec} (h : fromArrays env i = .ok r) :
    ∀ u ∈ recNucs r, ∃ c, env.recon (nucSettings i) c = .ok u := by
  intro u hu
  obtain ⟨c, _, hc⟩ := recNucs_answers h u hu
  exact ⟨c, hc⟩

/-- **Round trip of a record returned by `from_arrays`** — any reconciler that is idempotent (`NucIdem`,
C06), the record validated with the default `mtol` and the `nonphysical` flag later given to `from_schema`. -/
theorem schema_roundtrip_of_from_arrays (env : Env) (hid : NucIdem env.recon) (P : SchemaParams)
    (i : Inp) (r : Molrec) (v : Int) (hv : v = 1 ∨ v = 2) (h : fromArrays env i = .ok r)
    (hmt : i.mtol = dfltMtol) (hnp : i.nonphysical = P.nonphysical) (hn : r.elem.length ≠ 0)
    (hgeo : validateGeometry dfltTooclose (exportGeom P r) = .ok (exportGeom P r)) :
    fromSchema env (toSchemaU P r v) = .ok (schemaImage P r) := by
  have I := from_arrays_inv env (fun _ _ => True) (fun _ _ _ _ => trivial) i r h
  refine schema_roundtrip env P r v hv I hn hgeo ?_
  intro u hu
  obtain ⟨c, hc⟩ := recNucs_answered h u hu
  have := hid _ _ _ hc
  simpa [schemaSettings, nucSettings, hmt, hnp] using this

/-! ## the second round trip is the identity -/

theorem schemaImage_units (P : SchemaParams) (r : Molrec) : (schemaImage P r).units = sBohr := rfl

/-- `schemaImage` is a projection: the image of an image is itself -/
theorem schemaImage_idem (P : SchemaParams) (r : Molrec) : schemaImage P (schemaImage P r) = schemaImage P r := by
  have hg : exportGeom P (schemaImage P r) = exportGeom P r := exportGeom_bohr P _ rfl
  unfold schemaImage at hg ⊢
  simp only [hg, canonSeps_idem, Option.getD_some]

/-- a record in Bohr, without `input_units_to_au`, with a name and canonical (non-negative) separators is
its own image: the round trip returns exactly the record -/
theorem schemaImage_self (P : SchemaParams) (r : Molrec) (hu : r.units = sBohr) (hi : r.iutau = none)
    (nm : String) (hnm : r.name = some nm) (hs : canonSeps r.elem.length r.seps = r.seps) :
    schemaImage P r = r := by
  cases r
  simp only at hu hi hnm hs
  subst hu hi hnm
  simp [schemaImage, exportGeom, hs]

/-- **Second round trip = identity.**  Under the hypotheses of `schema_roundtrip`, the record `r'` returned
by the first round trip, exported again (either dtype) and read back, is returned unchanged: `r'' = r'`. -/
theorem schema_roundtrip_twice (env : Env) (P : SchemaParams) (r : Molrec) (v v' : Int)
    (hv : v = 1 ∨ v = 2) (hv' : v' = 1 ∨ v' = 2)
    {valid : NucSettings → Nuc → Prop} {st : NucSettings} {tc : Rat} (I : Inv valid env.angToAu st tc r)
    (hn : r.elem.length ≠ 0)
    (hgeo : validateGeometry dfltTooclose (exportGeom P r) = .ok (exportGeom P r))
    (hre : ∀ u ∈ recNucs r, env.recon (schemaSettings P) (clueOf u) = .ok u) :
    fromSchema env (toSchemaU P r v) = .ok (schemaImage P r) ∧
    fromSchema env (toSchemaU P (schemaImage P r) v') = .ok (schemaImage P r) := by
  have h1 := schema_roundtrip env P r v hv I hn hgeo hre
  refine ⟨h1, ?_⟩
  have I' := (from_schema_inv env (fun _ _ => True) (fun _ _ _ _ => trivial) _ _ h1).1
  have h2 := schema_roundtrip env P (schemaImage P r) v' hv' I' hn
    (by rw [exportGeom_bohr P _ rfl]; exact hgeo) hre
  rw [schemaImage_idem] at h2
  exact h2

/-- **Exact fixed point**: a validated record in Bohr, named, without `input_units_to_au`, with non-negative
separators comes back from the round trip as itself. -/
theorem schema_roundtrip_bohr_named (env : Env) (P : SchemaParams) (r : Molrec) (v : Int) (hv : v = 1 ∨ v = 2)
    {valid : NucSettings → Nuc → Prop} {st : NucSettings} {tc : Rat} (I : Inv valid env.angToAu st tc r)
    (hn : r.elem.length ≠ 0) (hu : r.units = sBohr) (hi : r.iutau = none) (nm : String) (hnm : r.name = some nm)
    (hpos : ∀ s ∈ r.seps, 0 ≤ s) (htc : dfltTooclose * dfltTooclose ≤ tc * tc)
    (hre : ∀ u ∈ recNucs r, env.recon (schemaSettings P) (clueOf u) = .ok u) :
    fromSchema env (toSchemaU P r v) = .ok r := by
  have h := schema_roundtrip env P r v hv I hn (geometry_hyp_of_bohr P r I hu htc) hre
  rw [schemaImage_self P r hu hi nm hnm (canonSeps_of_nonneg _ _ hpos (I.frag_nonempty hn))] at h
  exact h

/-! ## with the C06 model of `reconcile_nucleus` as the reconciler -/

/-- round trip of a `from_arrays` record when the reconciler reproduces the record's own atoms -/
theorem schema_roundtrip_c06_of (rd : Rat → Rat) (angToAu : Rat) (P : SchemaParams)
    (i : Inp) (r : Molrec) (v : Int) (hv : v = 1 ∨ v = 2) (h : fromArrays (envC06 rd angToAu) i = .ok r)
    (hmt : i.mtol = dfltMtol) (hnp : i.nonphysical = P.nonphysical) (hn : r.elem.length ≠ 0)
    (hgeo : validateGeometry dfltTooclose (exportGeom P r) = .ok (exportGeom P r))
    (hid : ∀ u ∈ recNucs r, reconOfC06 rd { nucSettings i with speclabel := false } (clueOf u) = .ok u) :
    fromSchema (envC06 rd angToAu) (toSchemaU P r v) = .ok (schemaImage P r) := by
  have I := from_arrays_inv_c06 rd angToAu i r h
  refine schema_roundtrip (envC06 rd angToAu) P r v hv I hn hgeo ?_
  intro u hu
  have := hid u hu
  simpa [schemaSettings, nucSettings, hmt, hnp, envC06] using this

/-- **Round trip, C06 model — PARTIAL.**  A record returned by `from_arrays` (C06 model over the shipped
table; default `mtol`; the `nonphysical` flag later given to `from_schema`) with at least one atom, whose
exported geometry passes the default overlap screen and all of whose atoms are `SelfConsistent`, comes back
from `from_schema (to_schema r v)` as `schemaImage P r`.  Any odd rounding function.
-- FULL: the same without `hself`.  False in general exactly as `NucIdem` is (`from_arrays_not_idempotent_c06`
-- needs `mtol = 2`, which `hmt` excludes; for the default `mtol` the hypothesis would follow from
-- `shipped_coherent` + monotone rounding, not formalised — see `recon_c06_idem_partial`).  `hself` is
-- discharged when every mass was supplied (`schema_roundtrip_c06_masses`), for plain molecules
-- (`schema_roundtrip_c06_plain`) and it is evaluated by the driver on every record of the run (op `TSh`). -/
theorem schema_roundtrip_c06_partial (rd : Rat → Rat) (hodd : ∀ x, rd (-x) = -(rd x)) (angToAu : Rat)
    (P : SchemaParams) (i : Inp) (r : Molrec) (v : Int) (hv : v = 1 ∨ v = 2)
    (h : fromArrays (envC06 rd angToAu) i = .ok r)
    (hmt : i.mtol = dfltMtol) (hnp : i.nonphysical = P.nonphysical) (hn : r.elem.length ≠ 0)
    (hgeo : validateGeometry dfltTooclose (exportGeom P r) = .ok (exportGeom P r))
    (hself : ∀ u ∈ recNucs r, SelfConsistent Nucleus.shippedN rd dfltMtol u) :
    fromSchema (envC06 rd angToAu) (toSchemaU P r v) = .ok (schemaImage P r) := by
  apply schema_roundtrip_c06_of rd angToAu P i r v hv h hmt hnp hn hgeo
  intro u hu
  obtain ⟨c, _, hc⟩ := recNucs_answers h u hu
  exact recon_c06_idem_partial Nucleus.shippedN rd _ Nucleus.shipped_coherent.1 shipped_roundtrips hodd (nucSettings i) c u hc
    (by rw [show (nucSettings i).mtol = dfltMtol from hmt]; exact hself u hu)

/-- **Round trip, C06 model, every mass supplied** (each supplied `m` with `rd (rd m) = rd m`, e.g. already a
double): no hypothesis on the record's atoms. -/
theorem schema_roundtrip_c06_masses (rd : Rat → Rat) (hodd : ∀ x, rd (-x) = -(rd x)) (angToAu : Rat)
    (P : SchemaParams) (i : Inp) (r : Molrec) (v : Int) (hv : v = 1 ∨ v = 2)
    (h : fromArrays (envC06 rd angToAu) i = .ok r)
    (hmt : i.mtol = dfltMtol) (hnp : i.nonphysical = P.nonphysical) (hn : r.elem.length ≠ 0)
    (hgeo : validateGeometry dfltTooclose (exportGeom P r) = .ok (exportGeom P r))
    (l : List (Option Rat)) (hl : i.mass = some l) (hall : ∀ x ∈ l, ∃ m, x = some m ∧ rd (rd m) = rd m) :
    fromSchema (envC06 rd angToAu) (toSchemaU P r v) = .ok (schemaImage P r) := by
  apply schema_roundtrip_c06_of rd angToAu P i r v hv h hmt hnp hn hgeo
  intro u hu
  obtain ⟨c, hc, hcu⟩ := recNucs_answers h u hu
  have hm := (clues_fields_mem _ _ _ _ _ _ c hc).2.1
  simp only [nucArrays, hl, fillNone] at hm
  obtain ⟨m, hcm, hfix⟩ := hall _ hm
  exact recon_c06_idem_mass_clue_fix Nucleus.shippedN rd _ Nucleus.shipped_coherent.1 shipped_roundtrips hodd
    (nucSettings i) c u hcu m hcm hfix

theorem dfltMtol_nonneg : (0 : Rat) ≤ dfltMtol := by decide +kernel

/-- **Round trip, plain molecules — no residual hypothesis on the reconciler or the rounding function** (`rd64`,
shipped table): no `elea`, no `mass`, labels not consulted as nucleus specifications. -/
theorem schema_roundtrip_c06_plain (angToAu : Rat)
    (P : SchemaParams) (i : Inp) (r : Molrec) (v : Int) (hv : v = 1 ∨ v = 2)
    (h : fromArrays (envC06 Nucleus.rd64 angToAu) i = .ok r)
    (hmt : i.mtol = dfltMtol) (hnp : i.nonphysical = P.nonphysical) (hn : r.elem.length ≠ 0)
    (hgeo : validateGeometry dfltTooclose (exportGeom P r) = .ok (exportGeom P r))
    (hA : i.elea = none) (hM : i.mass = none) (hl : i.speclabel = false ∨ i.elbl = none) :
    fromSchema (envC06 Nucleus.rd64 angToAu) (toSchemaU P r v) = .ok (schemaImage P r) := by
  apply schema_roundtrip_c06_partial Nucleus.rd64 rd64_odd angToAu P i r v hv h hmt hnp hn hgeo
  intro u hu
  obtain ⟨c, hc, hcu⟩ := recNucs_answers h u hu
  obtain ⟨h1, h2, h3⟩ := clues_fields_mem _ _ _ _ _ _ c hc
  simp only [nucArrays, hA, hM, fillNone, eleaNorm, List.map_replicate, List.mem_replicate] at h1 h2
  have hcA : c.A = none := by
    have := h1.2; simpa using this
  have hlab : (nucSettings i).speclabel = false ∨ c.label = none := by
    rcases hl with hl | hl
    · exact Or.inl hl
    · right
      simp only [nucArrays, hl, fillNone, List.mem_replicate] at h3
      exact h3.2
  obtain ⟨nA, nM⟩ := no_isotope_clue (rd := Nucleus.rd64) hcA h2.2 hlab
  have := selfConsistent_of_default Nucleus.shippedN Nucleus.rd64 _ Nucleus.shipped_coherent.1 shipped_default_rederives rd64_odd
    (nucSettings i) c u hcu nA nM (by rw [show (nucSettings i).mtol = dfltMtol from hmt]; exact dfltMtol_nonneg)
  rw [show (nucSettings i).mtol = dfltMtol from hmt] at this
  exact this

/-- **Every record that came out of `from_schema` round-trips, and the second trip is the identity** (C06
model; `rd` odd; the masses in the dictionary all given and already rounded).  Whatever dictionary `s` was
read (a user's, version 1 or 2, partial arrays): the record `r` it produced is exported and read back as
`schemaImage P r`, and that image exported and read back is returned unchanged.  `tooclose`, `mtol`, the
non-empty geometry need no hypothesis here: `from_schema` fixed them itself. -/
theorem schema_roundtrip_twice_c06 (rd : Rat → Rat) (hodd : ∀ x, rd (-x) = -(rd x)) (angToAu : Rat)
    (P : SchemaParams) (s : Schema) (r : Molrec) (v v' : Int) (hv : v = 1 ∨ v = 2) (hv' : v' = 1 ∨ v' = 2)
    (h : fromSchema (envC06 rd angToAu) s = .ok r) (hnp : s.body.nonphysical = P.nonphysical)
    (l : List (Option Rat)) (hl : s.body.mass = some l) (hall : ∀ x ∈ l, ∃ m, x = some m ∧ rd (rd m) = rd m) :
    fromSchema (envC06 rd angToAu) (toSchemaU P r v) = .ok (schemaImage P r) ∧
    fromSchema (envC06 rd angToAu) (toSchemaU P (schemaImage P r) v') = .ok (schemaImage P r) := by
  obtain ⟨seps, hfa⟩ := fromSchema_ok h
  obtain ⟨I, hu⟩ := from_schema_inv_c06 rd angToAu s r h
  have hn : r.elem.length ≠ 0 := by
    obtain ⟨g, _, _, _, _, _, _, hg0, _, _, _, _, _, _, _, hr⟩ := fromArrays_ok hfa
    have hgne : r.geom ≠ [] := by
      rcases missingGeom_ok hg0 with ⟨hne, _⟩ | ⟨_, hmin⟩
      · rw [hr]; exact hne
      · simp at hmin
    intro h0
    have := I.lengths.2.2.2.2.2
    rw [h0] at this
    exact hgne (List.length_eq_zero_iff.1 (by omega))
  have hgeo := geometry_hyp_of_bohr P r I hu (Rat.le_refl)
  have hre : ∀ u ∈ recNucs r, (envC06 rd angToAu).recon (schemaSettings P) (clueOf u) = .ok u := by
    intro u hu'
    obtain ⟨c, hc, hcu⟩ := recNucs_answers hfa u hu'
    have hm := (clues_fields_mem _ _ _ _ _ _ c hc).2.1
    simp only [nucArrays, hl, fillNone] at hm
    obtain ⟨m, hcm, hfix⟩ := hall _ hm
    have := recon_c06_idem_mass_clue_fix Nucleus.shippedN rd _ Nucleus.shipped_coherent.1 shipped_roundtrips hodd
      _ c u hcu m hcm hfix
    simpa [schemaSettings, nucSettings, hnp, envC06, reconOfC06] using this
  exact schema_roundtrip_twice (envC06 rd angToAu) P r v v' hv hv' I hn hgeo hre

/-! ## `from_schema` refuses malformed dictionaries (never repairs) -/

/-- from_schema.py:27-41: is `schema_name` / `schema_version` one of the two recognised combinations -/
def recognised (s : Schema) : Bool :=
  ((startsWith (s.schemaName.getD []) "qc_schema".toList || startsWith (s.schemaName.getD []) "qcschema".toList)
      && s.schemaVersion == some 1)
    || (startsWith (s.schemaName.getD []) "qcschema_molecule".toList && s.schemaVersion == some 2)

/-- the fragment pattern `from_schema` works with (43-46) -/
def patternOf (s : Schema) : List (List Nat) := s.fragments.getD [List.range ((s.body.elem.getD []).length)]

theorem fromSchema_unfold (env : Env) (s : Schema) :
    fromSchema env s =
      if !recognised s then .error .validation
      else match contiguize (patternOf s) s.body with
        | .error e => .error e
        | .ok cg => fromArrays env { s.body with
            units := sBohr, iutau := none, seps := some cg.seps
            minimal := false, speclabel := false, zgf := false
            mtol := dfltMtol, tooclose := dfltTooclose } := rfl

/-- **Unrecognised schema name / version ⇒ ValidationError** (wrong name, version other than 1 / 2, a
version-1 name with version 2, either key missing). -/
theorem from_schema_refuses_unrecognised (env : Env) (s : Schema) (h : recognised s = false) :
    fromSchema env s = .error .validation := by
  rw [fromSchema_unfold, h]; rfl

/-- **Malformed fragment pattern ⇒ ValidationError**: a pattern whose concatenation is not `0, 1, …, nat-1`
— atoms skipped, repeated, out of range, fragments interleaved (non-contiguous), or a single fragment that
is offset — is refused whatever else the dictionary holds; no atom is ever reordered or dropped. -/
theorem from_schema_refuses_bad_pattern (env : Env) (s : Schema)
    (h : (patternOf s).flatten ≠ List.range (patternOf s).flatten.length) :
    fromSchema env s = .error .validation := by
  rw [fromSchema_unfold]
  split
  · rfl
  · rw [contiguize_refuses_bad_pattern _ _ h]

/-- **Single offset fragment ⇒ ValidationError** (`fragments = [[1, 2, 3]]` for three atoms: the class that
was silently accepted before /repo 35873b6): one fragment that is not `[0, …, len-1]`. -/
theorem from_schema_refuses_single_offset (env : Env) (s : Schema) (p : List Nat)
    (hf : s.fragments = some [p]) (hp : p ≠ List.range p.length) :
    fromSchema env s = .error .validation := by
  apply from_schema_refuses_bad_pattern
  simp only [patternOf, hf, Option.getD_some, List.flatten_cons, List.flatten_nil, List.append_nil]
  exact hp

/-- **Per-atom array of the wrong length ⇒ ValidationError** (one entry too many or too few in
`mass_numbers`, `atomic_numbers`, `symbols`, `masses`, `real`, `atom_labels`). -/
theorem from_schema_refuses_wrong_length (env : Env) (s : Schema) (g : List Rat) (hg : s.body.geom = some g)
    (hm : LengthMismatch s.body (g.length / 3)) : fromSchema env s = .error .validation := by
  rw [fromSchema_unfold]
  split
  · rfl
  · split
    · rename_i e he
      rw [contiguize_error he]
    · rename_i cg _
      exact refuses_length_mismatch env _ g hg hm

/-- **Geometry that does not hold three coordinates for each atom of the pattern ⇒ ValidationError**
(not a multiple of 3 — the bare `ValueError` before /repo 3c92794 — or "dropped atoms"). -/
theorem from_schema_refuses_dropped_atoms (env : Env) (s : Schema) (g : List Rat) (hg : s.body.geom = some g)
    (hne : g.length ≠ 3 * (patternOf s).flatten.length) : fromSchema env s = .error .validation := by
  rw [fromSchema_unfold]
  split
  · rfl
  · split
    · rename_i e he
      rw [contiguize_error he]
    · rename_i cg hc
      exfalso
      obtain ⟨rows, hr, hl⟩ := contiguize_ok_geom hc
      rw [hg] at hr
      have := rows3_length _ _ hr
      simp only [Option.getD_some] at this
      omega

/-! ## why the extra hypotheses of `schema_roundtrip` cannot be dropped (kernel-checked counter-examples, toy
reconciler of `Props/C04.lean`) and non-vacuity (tests, labelled as tests) -/

instance : DecidableEq (Except Err (List Rat)) := fun a b =>
  match a, b with
  | .ok x, .ok y => if h : x = y then isTrue (h ▸ rfl) else isFalse (fun e => h (Except.ok.inj e))
  | .error x, .error y => if h : x = y then isTrue (h ▸ rfl) else isFalse (fun e => h (Except.error.inj e))
  | .ok _, .error _ => isFalse (fun e => by cases e)
  | .error _, .ok _ => isFalse (fun e => by cases e)

/-- parameters for the examples: exact products, a fixed Å→a₀ factor, a constant formula -/
def toyP : SchemaParams := { formula := fun _ => "X2", cf := fun _ => 189 / 100, fl := fun x => x, nonphysical := false }

/-- the atom-less record (`from_arrays(geom=[], missing_enabled_return='minimal')`) -/
def emptyRec : Molrec :=
  { units := sBohr, iutau := none, name := none, comment := none, conn := none, geom := [], elea := [], elez := [],
    elem := [], mass := [], real := [], elbl := [], seps := [], c := 0, fc := [0], m := 1, fm := [1],
    fixCom := false, fixOrient := false, fixSymm := none }

/-- test [decide +kernel]: the atom-less record is what `from_arrays` returns under `'minimal'` … -/
def emptyInp : Inp :=
  { toyInp with geom := none, elez := none, seps := none, c := none, conn := none
                fixSymm := none, fixOrient := .none, minimal := true }

theorem emptyRec_ok : fromArrays toyEnv emptyInp = .ok emptyRec := by decide +kernel

/-- **`hn` is needed**: the atom-less record satisfies the invariant (by `from_arrays_inv`), but its dictionary
is refused by `from_schema` (which calls `from_arrays` with `missing_enabled_return='error'`). -/
theorem schema_roundtrip_needs_atoms :
    Inv (fun _ _ => True) toyEnv.angToAu ⟨true, false, 1 / 1000⟩ (1 / 10) emptyRec ∧
    fromSchema toyEnv (toSchemaU toyP emptyRec 2) = .error .validation :=
  ⟨from_arrays_inv toyEnv _ (fun _ _ _ _ => trivial) _ _ emptyRec_ok, by decide +kernel⟩

/-- two atoms 1/20 a₀ apart, validated with `tooclose = 1/100` -/
def closeInp : Inp := { toyInp with geom := some [0, 0, 0, 0, 0, 1 / 20], tooclose := 1 / 100, mtol := dfltMtol }
def closeRec : Molrec := { toyRecOut with geom := [0, 0, 0, 0, 0, 1 / 20] }

theorem closeRec_ok : fromArrays toyEnv closeInp = .ok closeRec := by decide +kernel

/-- **`hgeo` is needed**: a record validated in Bohr with a smaller overlap threshold satisfies the invariant and
re-validates atom by atom, but `from_schema` (no `tooclose=` keyword) refuses its dictionary. -/
theorem schema_roundtrip_needs_geometry :
    Inv (fun _ _ => True) toyEnv.angToAu (nucSettings closeInp) (1 / 100) closeRec ∧
    fromSchema toyEnv (toSchemaU toyP closeRec 1) = .error .validation :=
  ⟨from_arrays_inv toyEnv _ (fun _ _ _ _ => trivial) _ _ closeRec_ok, by decide +kernel⟩

/-- the toy input of `Props/C04.lean` in Angstrom with a pinned `input_units_to_au`, default `mtol` / `tooclose` -/
def toyInpA : Inp :=
  { toyInp with units := "ANGSTROM".toList, iutau := some (19 / 10), mtol := dfltMtol, tooclose := dfltTooclose
                seps := some [-1] }
def toyRecA : Molrec := { toyRecOut with units := sAngstrom, iutau := some (19 / 10), seps := [-1] }

/-- test [decide +kernel] -/
theorem toyA_ok : fromArrays toyEnv toyInpA = .ok toyRecA := by decide +kernel

/-- test: the hypotheses of `schema_roundtrip_of_from_arrays` (hence of `schema_roundtrip`) are met by a two-atom,
two-fragment record stored in Angstrom with its own conversion factor, a NEGATIVE separator, a bond and a point
group; the image is spelled out: Bohr, no factor, name filled in, geometry × 19/10, separator 1 — by the theorem -/
example : fromSchema toyEnv (toSchemaU toyP toyRecA 1) =
    .ok { toyRecOut with name := some "X2", geom := [0, 0, 0, 0, 0, 19 / 5] } := by
  have h := schema_roundtrip_of_from_arrays toyEnv toyRec_idem toyP toyInpA toyRecA 1 (Or.inl rfl) toyA_ok rfl rfl
    (by decide) (by decide +kernel)
  have e : schemaImage toyP toyRecA = { toyRecOut with name := some "X2", geom := [0, 0, 0, 0, 0, 19 / 5] } := by
    decide +kernel
  rw [e] at h
  exact h

/-- test: … and the second round trip (other dtype) is the identity, by `schema_roundtrip_twice` -/
example : fromSchema toyEnv (toSchemaU toyP { toyRecOut with name := some "X2", geom := [0, 0, 0, 0, 0, 19 / 5] } 2) =
    .ok { toyRecOut with name := some "X2", geom := [0, 0, 0, 0, 0, 19 / 5] } := by
  have I := from_arrays_inv toyEnv (fun _ _ => True) (fun _ _ _ _ => trivial) _ _ toyA_ok
  have h := (schema_roundtrip_twice toyEnv toyP toyRecA 1 2 (Or.inl rfl) (Or.inr rfl) I (by decide) (by decide +kernel)
    (by
      intro u hu
      have hu' : u ∈ [({ A := 4, Z := 2, E := "X", mass := 4, real := true, label := "" } : Nuc),
          { A := 4, Z := 2, E := "X", mass := 4, real := true, label := "" }] := hu
      simp only [List.mem_cons, List.mem_nil_iff, or_false, or_self] at hu'
      subst hu'
      rfl)).2
  have e : schemaImage toyP toyRecA = { toyRecOut with name := some "X2", geom := [0, 0, 0, 0, 0, 19 / 5] } := by
    decide +kernel
  rw [e] at h
  exact h

/-- test (C06 model, shipped table, `rd64`): the water-like record of `Props/C04C06.lean` (an isotope given by label
with its mass, a ghost, two fragments) meets the hypotheses of `schema_roundtrip_c06_partial` — by the theorem -/
example : fromSchema (envC06 Nucleus.rd64 1) (toSchemaU toyP hdoRec 2) = .ok (schemaImage toyP hdoRec) :=
  schema_roundtrip_c06_partial Nucleus.rd64 rd64_odd 1 toyP hdoInp hdoRec 2 (Or.inr rfl) hdo_ok rfl rfl (by decide)
    (by decide +kernel) hdo_selfConsistent

/-- tests: refusals of `from_schema` on the toy dictionary -/
example : fromSchema toyEnv { toSchemaU toyP toyRecOut 2 with schemaVersion := some 3 } = .error .validation :=
  from_schema_refuses_unrecognised _ _ (by decide)
example : fromSchema toyEnv { toSchemaU toyP toyRecOut 2 with fragments := some [[1], [0]] } = .error .validation :=
  from_schema_refuses_bad_pattern _ _ (by decide)
example : fromSchema toyEnv { toSchemaU toyP toyRecOut 2 with fragments := some [[1, 2]] } = .error .validation :=
  from_schema_refuses_single_offset _ _ [1, 2] rfl (by decide)
example : fromSchema toyEnv { toSchemaU toyP toyRecOut 2 with fragments := some [[0], [2]] } = .error .validation :=
  from_schema_refuses_bad_pattern _ _ (by decide)

end QcelVerif.FromArrays
