import QcelVerif.Lemmas.Units
import QcelVerif.Gen.UnitsCodata
/-!
# C03 — unit conversion factors are mutually consistent and anchored to CODATA

Property theorems (manifest — the harness audits `#print axioms` of each):

* `mag_ne_zero`, `conv_self`, `conv_swap`, `conv_chain`, `conv_prefactor`, `conv_dim_mismatch`
  — the group laws of the SI model, for all expressions.
* `parse_sound`, `convImpl_same_dim`, `convImpl_unrelated` — the model of the code coincides with the SI
  model on equal dimensions and refuses unrelated ones, for all expressions.
* `hartree_bridges_published`, `bridge_fallback_physics` — bridged branch of the code model.
* `nist_relationships_consistent` — the regenerated CODATA tables (kernel evaluation).
* `bridge_prefixed_source_counterexample`, `bridge_two_hop_counterexample`,
  `bridge_compound_source_counterexample` — the bridged clauses of the property are FALSE of the code
  model in three classes (known findings; replayed on the implementation by harness/c03.py).

-- FULL (not provable, because false of the code): for all a, b in two different bridged dimensions
-- `convImpl cd a b = ok x` with `|x / convPhys cd a b - 1| ≤ 2e-8`.  What is proved instead: the
-- fallback branch (`bridge_fallback_physics`), the published hartree bridges, the consistency of the
-- published table with the physics, and the three counter-example classes.
-/
namespace QcelVerif.Units

/-- every numeric prefactor written into the expression is non-zero -/
def NumsNonzero : Expr → Prop
  | .num q => q ≠ 0
  | .unit _ _ => True
  | .mul a b => NumsNonzero a ∧ NumsNonzero b
  | .div a b => NumsNonzero a ∧ NumsNonzero b
  | .pow a _ => NumsNonzero a

/-! ## the SI model: group laws -/

theorem mag_ne_zero {cd : Codata} (hp : cd.Pos) (a : Expr) (h : NumsNonzero a) : mag cd a ≠ 0 := by
  induction a with
  | num q => exact h
  | unit p b => exact (mul_pos (ten_pos p) (baseMag_pos hp b)).ne'
  | mul a b iha ihb => exact mul_ne_zero (iha h.1) (ihb h.2)
  | div a b iha ihb => exact div_ne_zero (iha h.1) (ihb h.2)
  | pow a n ih => simp only [mag, zpw_eq]; exact zpow_ne_zero n (ih h)

theorem conv_self (cd : Codata) (a : Expr) (h : mag cd a ≠ 0) : conv cd a a = .ok 1 := by
  simp [conv, div_self h]

theorem conv_swap (cd : Codata) (a b : Expr) (hd : dim a = dim b) (ha : mag cd a ≠ 0) (hb : mag cd b ≠ 0) :
    ∃ x y, conv cd a b = .ok x ∧ conv cd b a = .ok y ∧ x * y = 1 := by
  refine ⟨mag cd a / mag cd b, mag cd b / mag cd a, by simp [conv, hd], by simp [conv, hd], ?_⟩
  field_simp

theorem conv_chain (cd : Codata) (a b c : Expr) (h1 : dim a = dim b) (h2 : dim b = dim c) (hb : mag cd b ≠ 0) :
    ∃ x y z, conv cd a b = .ok x ∧ conv cd b c = .ok y ∧ conv cd a c = .ok z ∧ x * y = z := by
  refine ⟨mag cd a / mag cd b, mag cd b / mag cd c, mag cd a / mag cd c,
    by simp [conv, h1], by simp [conv, h2], by simp [conv, h1.trans h2], ?_⟩
  field_simp

/-- linear in a numeric prefactor on either side (an error stays an error) -/
theorem conv_prefactor (cd : Codata) (a b : Expr) (p q : Rat) :
    conv cd (.mul (.num p) a) (.mul (.num q) b) = (conv cd a b).map (fun x => p / q * x) := by
  have hda : dim (.mul (.num p) a) = dim a := by simp only [dim]; exact Dim.zero_add' _
  have hdb : dim (.mul (.num q) b) = dim b := by simp only [dim]; exact Dim.zero_add' _
  unfold conv
  rw [hda, hdb]
  by_cases h : dim a = dim b
  · simp only [h, if_true, mag, Except.map]; congr 1; rw [mul_div_mul_comm]
  · simp only [h, if_false, Except.map]

theorem conv_dim_mismatch (cd : Codata) (a b : Expr) (h : dim a ≠ dim b) :
    conv cd a b = .error .dimensionality := by
  simp [conv, h]

/-- non-vacuity: the hypotheses of the laws are met by every expression over the shipped tables -/
example : NumsNonzero (.mul (.num (5 / 2)) (.div (.unit 3 .joule) (.unit 0 .mole))) := by
  simp [NumsNonzero]

example : dim (.mul (.unit 0 .newton) (.unit 0 .meter)) = dim (.unit 3 .calorie) := by decide

/-! ## the model of the code against the SI model -/

/-- pint's insertion-ordered container arithmetic computes the SI magnitude and dimension -/
theorem parse_sound {cd : Codata} (hp : cd.Pos) (a : Expr) :
    (parse a).1 * contMag cd (parse a).2 = mag cd a ∧ contDim (parse a).2 = dim a := by
  induction a with
  | num q => exact ⟨by simp [parse, contMag, mag], rfl⟩
  | unit p b =>
    refine ⟨?_, ?_⟩
    · simp [parse, contMag, mag, keyMag, zpw_eq]
    · simp only [parse, contDim, dim, keyDim]; dim_arith
  | mul a b iha ihb =>
    refine ⟨?_, ?_⟩
    · simp only [parse, mag, contMag_cmul hp, ← iha.1, ← ihb.1]; ring
    · simp only [parse, dim, contDim_cmul, iha.2, ihb.2]
  | div a b iha ihb =>
    refine ⟨?_, ?_⟩
    · simp only [parse, mag, contMag_cdiv hp, ← iha.1, ← ihb.1]
      rw [div_mul_div_comm]
    · simp only [parse, dim, contDim_cdiv, iha.2, ihb.2]
  | pow a n ih =>
    refine ⟨?_, ?_⟩
    · simp only [parse, mag, contMag_cpow, ← ih.1, zpw_eq, mul_zpow]
    · simp only [parse, dim, contDim_cpow, ih.2]

/-- equal dimensions: the code model returns exactly the SI ratio, for all expressions
    (hence `conv_self/_swap/_chain/_prefactor` hold for the code model) -/
theorem convImpl_same_dim {cd : Codata} (hp : cd.Pos) (a b : Expr) (hd : dim a = dim b) :
    convImpl cd a b = conv cd a b := by
  obtain ⟨hma, hda⟩ := parse_sound hp a
  obtain ⟨hmb, hdb⟩ := parse_sound hp b
  unfold convImpl conv
  simp only [hda, hdb, hd, route_same, runRoute, plainConvert, if_true]
  congr 1
  rw [← hma, ← hmb, div_mul_eq_mul_div, div_div]

/-- dimensions that differ and are not both bridged: DimensionalityError, never a number -/
theorem convImpl_unrelated {cd : Codata} (hp : cd.Pos) (a b : Expr) (hd : dim a ≠ dim b)
    (hn : dimNode (dim a) = none ∨ dimNode (dim b) = none) :
    convImpl cd a b = .error .dimensionality := by
  obtain ⟨_, hda⟩ := parse_sound hp a
  obtain ⟨_, hdb⟩ := parse_sound hp b
  unfold convImpl
  have hr : route (dimNode (dim a)) (dimNode (dim b)) = [] := by
    rcases hn with h | h
    · rw [h]; simp [route]
    · rw [h]; cases dimNode (dim a) <;> simp [route]
  simp only [hda, hdb, hr, runRoute, plainConvert, hd, if_false]

example : dim (.unit 0 .hartree) ≠ dim (.unit 0 .meter) ∧ dimNode (dim (.unit 0 .meter)) = none := by decide

/-! ## the bridges -/

/-- the NIST unit written as a unit expression -/
def nistExpr : NistU → Expr
  | .invm => .div (.num 1) (.unit 0 .meter)
  | .amu => .unit 0 .amu
  | .ev => .unit 0 .eV
  | .hartree => .unit 0 .hartree
  | .hertz => .unit 0 .hertz
  | .joule => .unit 0 .joule
  | .kelvin => .unit 0 .kelvin
  | .kg => .unit 3 .gram

/-- final source container of the bridged route (no CODATA value is involved in choosing it) -/
def plan (a b : Expr) : Except Err Cont :=
  runRoute (route (dimNode (contDim (parse a).2)) (dimNode (contDim (parse b).2))) (parse a).2

theorem convImpl_plan (cd : Codata) (a b : Expr) :
    convImpl cd a b = match plan a b with
      | .error e => .error e
      | .ok c => plainConvert cd ((parse a).1 / (parse b).1) c (parse b).2 := rfl

theorem ten_zero : ten 0 = 1 := by simp [ten, zpw_eq]
theorem ten_three : ten 3 = 1000 := by simp [ten, zpw_eq]; norm_num

/-- hartree → Hz, 1/m, kg, K and back: exactly the published relationship value, for any CODATA set -/
theorem hartree_bridges_published (cd : Codata) (hE : cd.Eh ≠ 0) :
    (∀ x ∈ [NistU.hertz, .invm, .kg, .kelvin],
      convImpl cd (nistExpr .hartree) (nistExpr x) = .ok (cd.rel .hartree x)
      ∧ convImpl cd (nistExpr x) (nistExpr .hartree) = .ok (cd.rel x .hartree)) := by
  intro x hx
  simp only [List.mem_cons, List.mem_nil_iff, or_false] at hx
  rcases hx with rfl | rfl | rfl | rfl
  · constructor
    · have hpl : plan (nistExpr .hartree) (nistExpr .hertz)
          = .ok [(.u 0 .hartree, 1), (.rel 0 .hartree .hertz, 1)] := rfl
      have hdm : contDim [(UKey.u 0 .hartree, 1), (.rel 0 .hartree .hertz, 1)]
          = contDim (parse (nistExpr .hertz)).2 := by decide
      rw [convImpl_plan, hpl]
      simp only [plainConvert, hdm, if_true, nistExpr, parse, contMag, keyMag, baseMag, nistMag, zpw_eq, ten_zero]
      congr 1; field_simp
    · have hpl : plan (nistExpr .hertz) (nistExpr .hartree)
          = .ok [(.u 0 .hertz, 1), (.rel 0 .hertz .hartree, 1)] := rfl
      have hdm : contDim [(UKey.u 0 .hertz, 1), (.rel 0 .hertz .hartree, 1)]
          = contDim (parse (nistExpr .hartree)).2 := by decide
      rw [convImpl_plan, hpl]
      simp only [plainConvert, hdm, if_true, nistExpr, parse, contMag, keyMag, baseMag, nistMag, zpw_eq, ten_zero]
      congr 1; field_simp
  · constructor
    · have hpl : plan (nistExpr .hartree) (nistExpr .invm)
          = .ok [(.u 0 .hartree, 1), (.rel 0 .hartree .invm, 1)] := rfl
      have hdm : contDim [(UKey.u 0 .hartree, 1), (.rel 0 .hartree .invm, 1)]
          = contDim (parse (nistExpr .invm)).2 := by decide
      rw [convImpl_plan, hpl]
      simp only [plainConvert, hdm, if_true, nistExpr, parse, contMag, keyMag, baseMag, nistMag, zpw_eq, ten_zero,
        cdiv, List.foldl, cadd]
      simp [contMag, keyMag, baseMag, zpw_eq, ten_zero]
      field_simp
    · have hpl : plan (nistExpr .invm) (nistExpr .hartree)
          = .ok [(.u 0 .meter, -1), (.rel 0 .invm .hartree, 1)] := rfl
      have hdm : contDim [(UKey.u 0 .meter, -1), (.rel 0 .invm .hartree, 1)]
          = contDim (parse (nistExpr .hartree)).2 := by decide
      rw [convImpl_plan, hpl]
      simp only [plainConvert, hdm, if_true, nistExpr, parse, contMag, keyMag, baseMag, nistMag, zpw_eq, ten_zero]
      simp
      field_simp
  · constructor
    · have hpl : plan (nistExpr .hartree) (nistExpr .kg)
          = .ok [(.u 0 .hartree, 1), (.rel 0 .hartree .kg, 1)] := rfl
      have hdm : contDim [(UKey.u 0 .hartree, 1), (.rel 0 .hartree .kg, 1)]
          = contDim (parse (nistExpr .kg)).2 := by decide
      rw [convImpl_plan, hpl]
      simp only [plainConvert, hdm, if_true, nistExpr, parse, contMag, keyMag, baseMag, nistMag, zpw_eq, ten_zero, ten_three]
      congr 1; field_simp
    · have hpl : plan (nistExpr .kg) (nistExpr .hartree)
          = .ok [(.u 3 .gram, 1), (.rel 0 .kg .hartree, 1)] := rfl
      have hdm : contDim [(UKey.u 3 .gram, 1), (.rel 0 .kg .hartree, 1)]
          = contDim (parse (nistExpr .hartree)).2 := by decide
      rw [convImpl_plan, hpl]
      simp only [plainConvert, hdm, if_true, nistExpr, parse, contMag, keyMag, baseMag, nistMag, zpw_eq, ten_zero, ten_three]
      congr 1; field_simp
  · constructor
    · have hpl : plan (nistExpr .hartree) (nistExpr .kelvin)
          = .ok [(.u 0 .hartree, 1), (.rel 0 .hartree .kelvin, 1)] := rfl
      have hdm : contDim [(UKey.u 0 .hartree, 1), (.rel 0 .hartree .kelvin, 1)]
          = contDim (parse (nistExpr .kelvin)).2 := by decide
      rw [convImpl_plan, hpl]
      simp only [plainConvert, hdm, if_true, nistExpr, parse, contMag, keyMag, baseMag, nistMag, zpw_eq, ten_zero]
      congr 1; field_simp
    · have hpl : plan (nistExpr .kelvin) (nistExpr .hartree)
          = .ok [(.u 0 .kelvin, 1), (.rel 0 .kelvin .hartree, 1)] := rfl
      have hdm : contDim [(UKey.u 0 .kelvin, 1), (.rel 0 .kelvin .hartree, 1)]
          = contDim (parse (nistExpr .hartree)).2 := by decide
      rw [convImpl_plan, hpl]
      simp only [plainConvert, hdm, if_true, nistExpr, parse, contMag, keyMag, baseMag, nistMag, zpw_eq, ten_zero]
      congr 1; field_simp

/-- Fallback branch, all expressions: an energy none of whose factors is selected by `_find_nist_unit`
    converts to a frequency as E/h exactly. -/
theorem bridge_fallback_physics {cd : Codata} (hp : cd.Pos) (a b : Expr)
    (ha : dimNode (dim a) = some .E) (hb : dimNode (dim b) = some .F)
    (hsel : findNist (parse a).2 = none) :
    convImpl cd a b = .ok (mag cd a / (cd.h * mag cd b)) := by
  obtain ⟨hma, hda⟩ := parse_sound hp a
  obtain ⟨hmb, hdb⟩ := parse_sound hp b
  have hEa := dimNode_E ha
  have hFb := dimNode_F hb
  unfold convImpl
  simp only [hda, hdb, ha, hb]
  have hr : route (some Node.E) (some Node.F) = [(.E, .F)] := by decide
  simp only [hr, runRoute, transform, nameStep, hsel, Except.bind]
  have hdm : contDim (cmul (parse a).2 [(UKey.planck, -1)]) = contDim (parse b).2 := by
    rw [contDim_cmul, hda, hdb, hEa, hFb]; decide
  simp only [plainConvert, hdm, if_true, contMag_cmul hp, contMag, keyMag, zpw_eq]
  congr 1
  rw [← hma, ← hmb]
  have hh := hp.h.ne'
  simp only [zpow_neg, zpow_one, mul_one]
  field_simp

/-- non-vacuity of `bridge_fallback_physics`: N·m → 1/s meets the hypotheses -/
example : dimNode (dim (.mul (.unit 0 .newton) (.unit 0 .meter))) = some .E
    ∧ dimNode (dim (.div (.num 1) (.unit 0 .second))) = some .F
    ∧ findNist (parse (.mul (.unit 0 .newton) (.unit 0 .meter))).2 = none := by decide

/-! ## the regenerated CODATA tables -/

def allNist : List NistU := [.invm, .amu, .ev, .hartree, .hertz, .joule, .kelvin, .kg]

/-- energy (in joule) equivalent to one unit, from h, c, k, e, m_u, E_h of the set -/
def nistEnergy (cd : Codata) : NistU → Rat
  | .invm => cd.h * cd.c
  | .amu => cd.mu * cd.c * cd.c
  | .ev => cd.e
  | .hartree => cd.Eh
  | .hertz => cd.h
  | .joule => 1
  | .kelvin => cd.kB
  | .kg => cd.c * cd.c

def rabs (x : Rat) : Rat := if x < 0 then -x else x

/-- every published X-Y relationship within `tol` (relative) of the physics, and R(a,b)·R(b,a) within `tol2` of 1;
    pairs one of whose units is the kelvin use `tolK` / `tol2K` (k_B is the least precisely known constant of a
    pre-2019 set, and its relationships are published with the fewest digits) -/
def relConsistent (cd : Codata) (tol tolK tol2 tol2K : Rat) : Bool :=
  allNist.all fun a => allNist.all fun b =>
    a = b ||
      (decide (rabs (cd.rel a b * nistEnergy cd b - nistEnergy cd a)
            ≤ (if a = .kelvin ∨ b = .kelvin then tolK else tol) * nistEnergy cd a)
        && decide (rabs (cd.rel a b * cd.rel b a - 1) ≤ (if a = .kelvin ∨ b = .kelvin then tol2K else tol2)))

/-- Tolerances per CODATA set, from the measured consistency of the published tables (harness/c03.py BR_TOL):
    * CODATA2014, no kelvin: worst pair hertz→1/m 2.95e-10, worst round trip 2.95e-10  → 1e-9;
    * CODATA2014, kelvin   : worst pair kelvin→hertz 1.08e-8, worst round trip J↔K 9.1e-9 → 2e-8;
    * CODATA2018 (h, c, e, k, N_A exact; literals truncated to 10 significant digits):
      worst pair kg→hertz 4.81e-10, worst round trip kg↔hertz 5.92e-10 → 1e-9.
    Between the two sets the 14 kelvin literals differ by ≥ 3.3e-7 and 28 of the 42 others by 1e-9 … 2e-8
    (eV→1/m: 8.4e-9), so a literal carried over from the other set breaks this proof. -/
theorem nist_relationships_consistent :
    relConsistent Gen.codata2014 (1 / 1000000000) (2 / 100000000) (1 / 1000000000) (2 / 100000000) = true
    ∧ relConsistent Gen.codata2018 (1 / 1000000000) (1 / 1000000000) (1 / 1000000000) (1 / 1000000000) = true := by
  constructor <;> decide +kernel

/-- the generated tables are positive (so every theorem above applies to them) -/
theorem codata2014_pos : Gen.codata2014.Pos := by
  refine ⟨?_, ?_, ?_, ?_, ?_, ?_, ?_, ?_, ?_, ?_,
    fun u => by cases u <;> norm_num [Gen.codata2014, Gen.au2014],
    fun a b => by cases a <;> cases b <;> norm_num [Gen.codata2014, Gen.rel2014]⟩
  all_goals norm_num [Gen.codata2014]

theorem codata2018_pos : Gen.codata2018.Pos := by
  refine ⟨?_, ?_, ?_, ?_, ?_, ?_, ?_, ?_, ?_, ?_,
    fun u => by cases u <;> norm_num [Gen.codata2018, Gen.au2018],
    fun a b => by cases a <;> cases b <;> norm_num [Gen.codata2018, Gen.rel2018]⟩
  all_goals norm_num [Gen.codata2018]

/-! ## the bridged clauses are false of the code in three classes (known findings) -/

/-- D6: a prefix on a NIST-named source is applied twice.  `10^p Hz → hartree` returns
    `10^p · 10^p · R` where the SI/NIST value is `10^p · R`; hence MHz→hartree · hartree→MHz = 10⁶·R·R'. -/
theorem bridge_prefixed_source_counterexample (cd : Codata) (hE : cd.Eh ≠ 0) (p : Int) :
    convImpl cd (.unit p .hertz) (.unit 0 .hartree) = .ok (ten p * (ten p * cd.rel .hertz .hartree))
    ∧ convImpl cd (.unit 0 .hartree) (.unit p .hertz) = .ok (cd.rel .hartree .hertz / ten p)
    ∧ (ten p * (ten p * cd.rel .hertz .hartree)) * (cd.rel .hartree .hertz / ten p)
        = ten p * (cd.rel .hertz .hartree * cd.rel .hartree .hertz) := by
  have htp := (ten_pos p).ne'
  refine ⟨?_, ?_, ?_⟩
  · have hpl : plan (.unit p .hertz) (.unit 0 .hartree)
        = .ok [(.u p .hertz, 1), (.rel p .hertz .hartree, 1)] := rfl
    have hdm : contDim [(UKey.u p .hertz, 1), (.rel p .hertz .hartree, 1)]
        = contDim (parse (.unit 0 .hartree)).2 := rfl
    rw [convImpl_plan, hpl]
    simp only [plainConvert, hdm, if_true, parse, contMag, keyMag, baseMag, nistMag, zpw_eq, ten_zero]
    congr 1; field_simp
  · have hpl : plan (.unit 0 .hartree) (.unit p .hertz)
        = .ok [(.u 0 .hartree, 1), (.rel 0 .hartree .hertz, 1)] := rfl
    have hdm : contDim [(UKey.u 0 .hartree, 1), (.rel 0 .hartree .hertz, 1)]
        = contDim (parse (.unit p .hertz)).2 := rfl
    rw [convImpl_plan, hpl]
    simp only [plainConvert, hdm, if_true, parse, contMag, keyMag, baseMag, nistMag, zpw_eq, ten_zero]
    congr 1; field_simp
  · field_simp

/-- the same on the regenerated 2014 table: MHz → hartree → MHz multiplies by 10⁶ (to 3e-8), not by 1 -/
theorem bridge_prefixed_source_2014 :
    ∃ x y, convImpl Gen.codata2014 (.unit 6 .hertz) (.unit 0 .hartree) = .ok x
      ∧ convImpl Gen.codata2014 (.unit 0 .hartree) (.unit 6 .hertz) = .ok y
      ∧ rabs (x * y / 1000000 - 1) ≤ 3 / 100000000 := by
  refine ⟨_, _, rfl, rfl, ?_⟩
  decide +kernel

/-- two-hop class: the physics model gives a number, the code model raises -/
theorem bridge_two_hop_counterexample (cd : Codata) :
    convImpl cd (.unit 0 .hertz) (.unit 3 .gram) = .error .dimensionality
    ∧ convImpl cd (.unit 0 .wavenumber) (.unit 0 .hertz) = .error .undefinedUnit
    ∧ convPhys cd (.unit 0 .hertz) (.unit 3 .gram)
        = .ok (mag cd (.unit 0 .hertz) * cd.h / (mag cd (.unit 3 .gram) * (cd.c * cd.c))) := by
  refine ⟨?_, ?_, rfl⟩
  · have hpl : plan (.unit 0 .hertz) (.unit 3 .gram)
        = .ok [(.u 0 .hertz, 1), (.rel 0 .hertz .hartree, 1), (.rel 0 .hertz .kg, 1)] := rfl
    have hdm : contDim [(UKey.u 0 .hertz, 1), (.rel 0 .hertz .hartree, 1), (.rel 0 .hertz .kg, 1)]
        ≠ contDim (parse (.unit 3 .gram)).2 := by decide
    rw [convImpl_plan, hpl]
    simp only [plainConvert, hdm, if_false]
  · have hpl : plan (.unit 0 .wavenumber) (.unit 0 .hertz) = .error .undefinedUnit := rfl
    rw [convImpl_plan, hpl]

/-- compound-source class: kg·m²/s² is an energy, yet → Hz raises (the factor `kilogram` is selected) -/
theorem bridge_compound_source_counterexample (cd : Codata) :
    dim (.div (.mul (.unit 3 .gram) (.pow (.unit 0 .meter) 2)) (.pow (.unit 0 .second) 2)) = Dim.energy
    ∧ convImpl cd (.div (.mul (.unit 3 .gram) (.pow (.unit 0 .meter) 2)) (.pow (.unit 0 .second) 2)) (.unit 0 .hertz)
        = .error .dimensionality := by
  refine ⟨by decide, ?_⟩
  have hpl : plan (.div (.mul (.unit 3 .gram) (.pow (.unit 0 .meter) 2)) (.pow (.unit 0 .second) 2)) (.unit 0 .hertz)
      = .ok [(.u 3 .gram, 1), (.u 0 .meter, 2), (.u 0 .second, -2), (.rel 0 .kg .hertz, 1)] := rfl
  have hdm : contDim [(UKey.u 3 .gram, 1), (.u 0 .meter, 2), (.u 0 .second, -2), (.rel 0 .kg .hertz, 1)]
      ≠ contDim (parse (.unit 0 .hertz)).2 := by decide
  rw [convImpl_plan, hpl]
  simp only [plainConvert, hdm, if_false]

end QcelVerif.Units
