import QcelVerif.Driver.C08
import QcelVerif.Gen.SrcConsts
/-!
# C08 — the per-dtype tables of `Model/ToString.lean` are those of `to_string.py`

`to_string` holds two small tables the model transcribes by hand: `default_units` (dtype → unit written when `units`
is not given; `Model.defaultUnit`) and, branch by branch, the atom / ghost format strings, whether the caller's
`atom_format=` / `ghost_format=` is honoured, and the `xyze` column order (`Model.formats`).  `Gen/SrcConsts.lean` is
rewritten on every run from `qcelemental/molparse/to_string.py` (by `ast`): the dict literal in source order, and one
row per `if dtype in […] / elif dtype == …` branch (kind `fixed` = literal assigned, `dflt` = literal unless the caller
gave one, `or` = caller's if truthy else literal).  Dtype names are read with the driver's own `parseDtype?`.
One `decide` per table.  Core Lean only.

PROPERTY-THEOREMS: dtypes_match_source default_units_match_source formats_match_source
  to_string_defaults_match_source
-/
namespace QcelVerif.ToString
open QcelVerif
open QcelVerif.FixedFmt (Str)

/-- the keys of `default_units`, in source order, are exactly the model's fourteen dtypes (none missing, none twice),
and the branches of the format chain cover the same fourteen -/
theorem dtypes_match_source :
    Src.to_string.default_units.map (fun p => parseDtype? p.1) =
      [some .xyz, some .xyzp, some .sdf, some .cfour, some .gamess, some .molpro, some .nwchem, some .orca, some .psi4,
       some .qchem, some .terachem, some .turbomole, some .madness, some .mrchem] ∧
    (∀ d : Dtype, (Src.to_string.default_units.map (fun p => parseDtype? p.1)).contains (some d) = true) ∧
    (∀ d : Dtype, (Src.to_string.formats.map (fun r => parseDtype? r.1)).contains (some d) = true) ∧
    Src.to_string.formats.length = 14 := by
  refine ⟨by decide, ?_, ?_, by decide⟩ <;> intro d <;> cases d <;> decide

/-- is the row `(dtype name, unit word)` what the model's `defaultUnit` says? -/
def defaultUnitRowOk (p : String × String) : Bool :=
  match parseDtype? p.1 with
  | some d => unitLower (defaultUnit d) == lower p.2.toList
  | none => false

/-- every entry of the source's `default_units` is the model's `defaultUnit` (with `dtypes_match_source`: the two
tables are equal) -/
theorem default_units_match_source : Src.to_string.default_units.all defaultUnitRowOk = true := by decide

private def oOf (d : Dtype) (a g : Option Str) : Opts := { dtype := d, req := .dflt, afmt := a, gfmt := g, width := 17 }

/-- is one branch row of the source what the model's `formats` does — the literals, the override policy of each of
the two formats (probed with the overrides `"A"`, `"G"` and the empty ghost format), `xyze`, and which branches go
through `_atoms_formatter`? -/
def formatRowOk (r : String × String × String × String × String × Bool × Bool) : Bool :=
  match parseDtype? r.1 with
  | none => false
  | some d =>
    let (afk, af, gfk, gf, xyze, uses) := r.2
    let f0 := formats (oOf d none none)
    let f1 := formats (oOf d (some (lit "A")) (some (lit "G")))
    let f2 := formats (oOf d none (some []))
    -- atom format (the sdf branch does not use one: kind "none")
    (afk == "none" || (f0.1 == lit af && f1.1 == (if afk == "dflt" then lit "A" else lit af))) &&
    (afk == "none" || afk == "dflt" || afk == "fixed") &&
    -- ghost format
    f0.2.1 == lit gf &&
    f1.2.1 == (if gfk == "dflt" || gfk == "or" then lit "G" else lit gf) &&
    f2.2.1 == (if gfk == "dflt" then [] else lit gf) &&
    (gfk == "dflt" || gfk == "fixed" || gfk == "or") &&
    -- column order, and who formats the atom lines
    f0.2.2 == xyze && f1.2.2 == xyze && uses == (d != .sdf) && (afk == "none") == (d == .sdf)

/-- every branch of the source's dtype chain is the model's `formats` row -/
theorem formats_match_source : Src.to_string.formats.all formatRowOk = true := by decide

/-- `width=17`, `prec=12` (the values harness/c08.py:259 passes for a default call); `units`, `atom_format`,
`ghost_format` default to `None`; `_atoms_formatter`'s `xyze` defaults to `False` and an empty ghost format drops ghosts -/
theorem to_string_defaults_match_source :
    Src.to_string.width = 17 ∧ Src.to_string.prec = 12 ∧ Src.to_string.units = none ∧
    Src.to_string.atom_format = none ∧ Src.to_string.ghost_format = none ∧
    Src.atoms_formatter.xyze = false ∧ Src.atoms_formatter.ghost_suppressed_by_empty = true := by
  decide

end QcelVerif.ToString
