import QcelVerif.Props.C06ElemA
import QcelVerif.Props.C06ElemB
/-! C06 table-wide instances assembled from the two halves. -/
namespace QcelVerif.Nucleus
open QcelVerif

/-- **Every element of the shipped table reconciles to its default isotope** from its atomic number alone,
from its symbol alone and from its lower-cased symbol as a label — the whole model (table lookups, range
derivation over all nuclides, binary64 rounding) evaluated by the kernel on the generated table. -/
theorem shipped_elements_default : Gen.PT.elements.all elementDefaultOk = true := by
  have h := List.take_append_drop 59 Gen.PT.elements
  rw [← h, List.all_append, elements_default_A, elements_default_B]; rfl

end QcelVerif.Nucleus
