import QcelVerif.Props.C01General
import QcelVerif.Props.C01Faithful
import QcelVerif.Props.C01Aliases
import QcelVerif.Props.C01Nuclides
import QcelVerif.Props.C01Anycase
import QcelVerif.Props.C01Anchor
/-!
# C01 — periodic-table lookups: property theorems (index)

 * **general** (`C01General`; any table, any ASCII text): `resolve_case_insensitive`,
   `accessors_case_insensitive`, `no_wrong_species`, `strict_exact`, `period_group_standard`;
 * **table-wide** (`decide +kernel` over the *generated* tables — the whole finite table, re-checked
   whenever the data files change): `shipped_faithful` (the shipped table is exactly the documented
   rebuild of the raw NIST SRD-144 file), `tree_isBST`, `tree_is_dict`, `aliases_agree`,
   `nuclides_resolve`, `nuclides_resolve_anycase`;
 * **anchored outside the repository** (`C01Anchor`; `decide +kernel` against the textbook table embedded in
   `harness/c01_anchor.py` and the raw "Standard Atomic Weight" strings of SRD-144): `bare_default_textbook`,
   `anchor_agrees_with_srd144`.
-/
