import QcelVerif.Model.PeriodicTable
import QcelVerif.Model.PeriodicTableBuild
import QcelVerif.Lemmas.PStr
import QcelVerif.Gen.PT
import QcelVerif.Gen.Srd144
/-!
# C01 — periodic-table lookups: property theorems

Two kinds of theorem:
 * **general** (any table, any ASCII text): case-insensitivity, "a successful lookup is justified
   by one of the three alias relations", strict mode, period/group layout for every Z;
 * **table-wide** (`decide +kernel` over the *generated* tables — the whole finite table, re-checked
   whenever the data files change): the shipped table is exactly the documented rebuild of the raw
   NIST SRD-144 file; the search tree is the dictionary of the shipped arrays; every element row
   resolves identically from all four alias forms; every nuclide label resolves to its own row.
-/
namespace QcelVerif.PT
open QcelVerif QcelVerif.PStr

/-- the shipped tables (generated from `/repo` on every run) -/
def shipped : Tables := { eliso := Gen.PT.tree, elements := Gen.PT.elements }

/-! ## general theorems -/

/-- **Letter case never matters**: two texts that agree after lower-casing resolve identically
(any table, any ASCII text, strict or not). -/
theorem resolve_case_insensitive (T : Tables) (s s' : Bytes) (h : lower s = lower s') (strict : Bool) :
    T.resolve (.str s) strict = T.resolve (.str s') strict := by
  unfold Tables.resolve Tables.resolveEliso
  simp only [capitalize_congr h, pyInt_congr h]

/-- every accessor inherits case-insensitivity -/
theorem accessors_case_insensitive (T : Tables) (s s' : Bytes) (h : lower s = lower s') (strict : Bool) :
    T.toE (.str s) strict = T.toE (.str s') strict ∧ T.toZ (.str s) strict = T.toZ (.str s') strict ∧
    T.toName (.str s) strict = T.toName (.str s') strict ∧ T.toA (.str s) = T.toA (.str s') ∧
    T.toMass (.str s) = T.toMass (.str s') ∧ T.toPeriod (.str s) = T.toPeriod (.str s') ∧
    T.toGroup (.str s) = T.toGroup (.str s') := by
  simp only [Tables.toE, Tables.toZ, Tables.toName, Tables.toA, Tables.toMass, Tables.toPeriod,
    Tables.toGroup, resolve_case_insensitive T s s' h]
  simp

example : lower (ofString "kR84") = lower (ofString "Kr84") := by decide  -- hypothesis satisfiable

/-- **No wrong species**: a successful lookup is always justified by one of the three alias
relations — the capitalised text is itself a nuclide key, or its integer value is an atomic number
of the table, or the capitalised text is an element name — so an unknown name can never return some
other species' data. -/
theorem no_wrong_species (T : Tables) (a : PyVal) (strict : Bool) (k : Nat)
    (h : T.resolve a strict = some k) :
    (∃ s, a = .str s ∧ k = pack (capitalize s) ∧ T.eliso.contains k = true) ∨
    (∃ z, (a = .int z ∨ ∃ s, a = .str s ∧ pyInt s = some z) ∧ T.z2el z = some k) ∨
    (∃ s, a = .str s ∧ T.name2el (pack (capitalize s)) = some k) := by
  unfold Tables.resolve at h
  cases hr : T.resolveEliso a with
  | none => simp [hr] at h
  | some k' =>
    simp only [hr] at h
    have hk : k' = k := by
      split at h
      · cases h
      · exact Option.some.inj h
    subst hk
    cases a with
    | int z => exact Or.inr (Or.inl ⟨z, Or.inl rfl, hr⟩)
    | str s =>
      simp only [Tables.resolveEliso] at hr
      split at hr
      · rename_i hc
        exact Or.inl ⟨s, rfl, (Option.some.inj hr).symm, by rw [← Option.some.inj hr]; exact hc⟩
      · split at hr
        · rename_i e he
          cases hp : pyInt s with
          | none => simp [hp] at he
          | some z =>
            simp only [hp] at he
            exact Or.inr (Or.inl ⟨z, Or.inr ⟨s, rfl, hp⟩, by rw [he, Option.some.inj hr]⟩)
        · exact Or.inr (Or.inr ⟨s, rfl, hr⟩)

/-- **Strict mode** accepts exactly the non-strict answers that are bare element symbols. -/
theorem strict_exact (T : Tables) (a : PyVal) (k : Nat) :
    T.resolve a true = some k ↔ (T.resolve a false = some k ∧ T.isElementSymbol k = true) := by
  unfold Tables.resolve
  cases T.resolveEliso a with
  | none => simp
  | some k' =>
    cases hs : T.isElementSymbol k' with
    | true => simp [hs]; intro h; rw [← h]; exact hs
    | false => simp [hs]; intro h; rw [← h]; simp [hs]

/-- **Period and group are the position in the standard 18-column table**, for every atomic
number: the period ladder and the group membership lists of the code agree with the independent
layout rule (noble gases close the periods; group from the offset in the period; f-block: none). -/
theorem period_group_standard (z : Nat) : periodOfZ z = specPeriod z ∧ groupOfZ z = specGroup z := by
  by_cases h : z < 119
  · have key : ∀ z, z < 119 → (periodOfZ z = specPeriod z ∧ groupOfZ z = specGroup z) := by decide
    exact key z h
  · have hz : 119 ≤ z := by omega
    constructor
    · have e1 : periodOfZ z = 8 := by
        simp only [periodOfZ]
        repeat (first | rfl | (split; omega))
      have e2 : specPeriod z = 8 := by
        simp only [specPeriod, nobleGases, List.filter]
        have : ∀ k, k ≤ 118 → decide (k < z) = true := by intro k hk; simp; omega
        simp [this]
      rw [e1, e2]
    · have e2 : specGroup z = none := by
        simp only [specGroup]; rw [if_pos (Or.inr (by omega))]
      have e1 : groupOfZ z = none := by
        simp only [groupOfZ, List.contains, List.elem]
        have : ∀ k, k ≤ 118 → (z == k) = false := by intro k hk; simp; omega
        simp [this]
      rw [e1, e2]

/-! ## table-wide theorems (kernel evaluation over the generated tables) -/

set_option maxRecDepth 100000

/-- **The shipped table is exactly NIST SRD-144 under the documented build rule**: element rows,
nuclide rows in order, D/T under both spellings, masses digit for digit, and each bare element row
equal to its most abundant — or, if unstable, longest-lived — isotope. -/
theorem shipped_faithful :
    PTBuild.rebuild Gen.Srd144.data Gen.Srd144.elementNames Gen.Srd144.longestLived
        Gen.Srd144.aliases Gen.Srd144.newnames
      = some (Gen.PT.elements, Gen.PT.nuclides) := by decide +kernel

/-- the generated search tree is ordered … -/
theorem tree_isBST : Gen.PT.tree.isBST = true := by decide +kernel

/-- row predicate of `tree_is_dict` -/
def treeRowOk (r : Nat × Nat × Nat × Nat) : Bool := Gen.PT.tree.lookup r.1 == some r.2

/-- … and is exactly `dict(zip(EA, zip(_EE, A, mass)))`: every row is found with its own values and
there are no other keys (so in particular EA has no duplicate keys). -/
theorem tree_is_dict :
    Gen.PT.nuclides.all treeRowOk = true ∧
    Gen.PT.tree.size = Gen.PT.nuclides.length := by decide +kernel

/-- row predicate of `aliases_agree` -/
def aliasRowOk (r : Nat × Nat × Nat) : Bool :=
  [PyVal.int r.1, .str (natDigits r.1), .str (unpack r.2.1), .str (unpack r.2.2)].all (fun a =>
    [false, true].all (fun b =>
      shipped.resolve a b == some r.2.1 &&
      shipped.toZ a b == some r.1 && shipped.toE a b == some r.2.1 &&
      shipped.toName a b == some r.2.2))

/-- **Element aliases agree**: for every element row, atomic number as integer, as digit string,
symbol and element name all resolve — strict or not — to the element's own symbol, and the
accessors return that row's Z, symbol and name. -/
theorem aliases_agree : shipped.elements.all aliasRowOk = true := by decide +kernel

/-- row predicate of `nuclides_resolve` -/
def nuclideRowOk (r : Nat × Nat × Nat × Nat) : Bool :=
  let a := PyVal.str (unpack r.1)
  shipped.resolve a false == some r.1 &&
  shipped.toE a false == some r.2.1 && shipped.toZ a false == shipped.el2z r.2.1 &&
  (shipped.el2z r.2.1).isSome &&
  shipped.toA a == some r.2.2.1 && shipped.toMass a == some r.2.2.2 &&
  shipped.resolve a true == (if shipped.isElementSymbol r.1 then some r.1 else none)

/-- **Every nuclide label resolves to its own row** (and therefore, by `shipped_faithful`, to the
NIST values): key, element symbol, atomic number, mass number, mass; and **strict mode rejects
exactly the labels that are not bare element symbols**. -/
theorem nuclides_resolve : Gen.PT.nuclides.all nuclideRowOk = true := by decide +kernel

/-- row predicate of `nuclides_resolve_anycase` -/
def nuclideRowAnycaseOk (r : Nat × Nat × Nat × Nat) : Bool :=
  shipped.resolve (.str (lower (unpack r.1))) false == some r.1 &&
  shipped.resolve (.str (upper (unpack r.1))) false == some r.1

/-- lower- and upper-case spellings of every nuclide label (kernel-checked instances of
`resolve_case_insensitive`, kept as an end-to-end test of the string model on the real table) -/
theorem nuclides_resolve_anycase : Gen.PT.nuclides.all nuclideRowAnycaseOk = true := by decide +kernel

/-! ## tests (labelled as tests): names outside the table are refused -/

example : shipped.resolve (.str (ofString "He100")) false = none := by decide +kernel
example : shipped.resolve (.str (ofString "4He")) false = none := by decide +kernel
example : shipped.resolve (.str (ofString "1.0")) false = none := by decide +kernel
example : shipped.resolve (.int (-1)) false = none := by decide +kernel
example : shipped.resolve (.int 200) false = none := by decide +kernel
example : shipped.resolve (.str (ofString "cat")) false = none := by decide +kernel
example : shipped.resolve (.str (ofString "kr84")) true = none := by decide +kernel
example : shipped.toMass (.str (ofString " 1 ")) = some (pack (ofString "1.00782503223")) := by decide +kernel

end QcelVerif.PT
