import QcelVerif.Props.C09
import QcelVerif.Props.C09Dict
import QcelVerif.Gen.SchemaC09
/-!
# C09 — `inv_hasType`: every validated Molecule inhabits the declared type (no per-instance check needed)

`Props/C09.lean: emit_conforms` needs `hasType v ty`; for the six models the harness checks it per generated
instance.  For the Molecule model it is proved here for EVERY object of the constructor model:

  * `molVal`        the embedding: a Molecule object (`MolDict Rat`, the set entries; `schema_name`,
                    `schema_version` beside it; any further entries — provenance, extras, identifiers, id —
                    passed through as `others`) as the in-memory value `Val.obj "Molecule" …` keyed by FIELD
                    names (`masses_`, `real_`, …), arrays with their shapes, as `harness/c09.py: enc_val` writes it.
  * `molFields`     the declared fields of `Molecule`, by hand; `molFields_tie` checks on every build that they ARE
                    the declaration the translator regenerated from the live class (`Gen/SchemaC09.lean`).
  * `dict_hasType`  symbols and geometry set, `schema_name` matching its pattern, bonds (if any) non-empty with
                    order in [0, 5], `others` well-typed  ⇒  `hasType Δ (n + 4) (molVal …) (.model "Molecule")`.
  * `inv_hasType`   the hypotheses of `dict_hasType` hold for the object built from ANY record satisfying
                    `MolSchema.Inv` whose bonds are non-empty with order in [0, 5] (C04's `Inv.conn`), whatever
                    the caller's keywords were, provided the caller's own bond list (if the record has none) and
                    `schema_name` are well-formed.
  * `molecule_conforms`  hence (through `root_conforms`) the emitted JSON validates against the generated root
                    schema of `Molecule` — for every validated record.

PROPERTY-THEOREMS: molFields_tie  dict_hasType  inv_hasType  molecule_conforms
-/
namespace QcelVerif.C09Typed
open QcelVerif QcelVerif.Schema QcelVerif.MolSchema QcelVerif.MolDict

/-- the declared fields of `Molecule` (models/molecule.py:130-310, aliases 317-327) -/
def molFields : List Field := [
  ⟨"schema_name", "schema_name", (.strPat "^(qcschema_molecule)$"), false, false⟩,
  ⟨"schema_version", "schema_version", (.int none), false, false⟩,
  ⟨"validated", "validated", .bool, false, false⟩,
  ⟨"symbols", "symbols", (.array .str), true, false⟩,
  ⟨"geometry", "geometry", (.array .float), true, false⟩,
  ⟨"name", "name", .str, false, false⟩,
  ⟨"identifiers", "identifiers", (.model "Identifiers"), false, true⟩,
  ⟨"comment", "comment", .str, false, false⟩,
  ⟨"molecular_charge", "molecular_charge", (.float none none), false, false⟩,
  ⟨"molecular_multiplicity", "molecular_multiplicity", (.int none), false, false⟩,
  ⟨"masses_", "masses", (.array .float), false, false⟩,
  ⟨"real_", "real", (.array .bool), false, false⟩,
  ⟨"atom_labels_", "atom_labels", (.array .str), false, false⟩,
  ⟨"atomic_numbers_", "atomic_numbers", (.array .int), false, false⟩,
  ⟨"mass_numbers_", "mass_numbers", (.array .int), false, false⟩,
  ⟨"connectivity_", "connectivity", (.list (.tuple [(.int (some 0)), (.int (some 0)), (.float (some 0) (some 5))]) (some 1) false), false, false⟩,
  ⟨"fragments_", "fragments", (.list (.array .int) none false), false, false⟩,
  ⟨"fragment_charges_", "fragment_charges", (.list (.float none none) none false), false, false⟩,
  ⟨"fragment_multiplicities_", "fragment_multiplicities", (.list (.int none) none false), false, false⟩,
  ⟨"fix_com", "fix_com", .bool, false, false⟩,
  ⟨"fix_orientation", "fix_orientation", .bool, false, false⟩,
  ⟨"fix_symmetry", "fix_symmetry", .str, false, false⟩,
  ⟨"provenance", "provenance", (.model "Provenance"), false, true⟩,
  ⟨"id", "id", .any, false, false⟩,
  ⟨"extras", "extras", (.dict .any), false, false⟩]

def molDecl : Decl := .model "Molecule" molFields false

/-- **Tie to the source, re-checked on every build**: the hand-written declaration is the one the translator
regenerated from the live `Molecule` class. -/
theorem molFields_tie : lookupDecl Gen.SchemaC09.env "Molecule" = some molDecl := by rfl

/-! ### the embedding: `MolDict.molVal` (`Model/MolDict.lean`, shared with the driver) -/

/-! ### typing, entry by entry -/

section typing
variable (Δ : Env) (n : Nat)

/-- which field types the entry written under the field NAME `k` (tests by `decide`, one per key) -/
def owner (k : String) : Option Field := molFields.find? (fun f => aliasIn molFields k = f.alias)

theorem fieldOk_of (rec : Val → Ty → Bool) (k : String) (v : Val) (ty : Ty) (hv : rec v ty = true)
    (hf : (owner k).map (fun f => f.ty) = some ty) : fieldOk rec molFields false (k, v) = true := by
  unfold owner at hf
  unfold fieldOk
  cases hfind : molFields.find? (fun f => aliasIn molFields k = f.alias) with
  | none => rw [hfind] at hf; cases hf
  | some f =>
    rw [hfind] at hf
    simp only [Option.map_some, Option.some.injEq] at hf
    simp [hf, hv]

theorem all_optEntry (P : String × Val → Bool) (k : String) (v : Option Val)
    (h : ∀ x, v = some x → P (k, x) = true) : (optEntry k v).all P = true := by
  cases v with
  | none => rfl
  | some x => simp [optEntry, h x rfl]

theorem ht_str (s : String) : hasType Δ (n + 1) (.str s) .str = true := rfl
theorem ht_strPat (p s : String) (h : matchPat p s = true) : hasType Δ (n + 1) (.str s) (.strPat p) = true := h
theorem ht_bool (b : Bool) : hasType Δ (n + 1) (.bool b) .bool = true := rfl
theorem ht_int (i : Int) : hasType Δ (n + 1) (.int i) (.int none) = true := rfl
theorem ht_num (q : Rat) : hasType Δ (n + 1) (.num q) (.float none none) = true := rfl

theorem ht_strArr (l : List String) : hasType Δ (n + 1) (strArr l) (.array .str) = true := by
  show (!([l.length] : List Nat).isEmpty && (l.map Val.str).all (isDT .str)) = true
  simp [List.all_map, isDT]

theorem ht_numArr (shape : List Nat) (hs : shape ≠ []) (l : List Rat) :
    hasType Δ (n + 1) (.arr shape (l.map Val.num)) (.array .float) = true := by
  show (!shape.isEmpty && (l.map Val.num).all (isDT .float)) = true
  cases shape with
  | nil => exact absurd rfl hs
  | cons a t => simp [List.all_map, isDT]

theorem ht_intArr (l : List Int) : hasType Δ (n + 1) (intArr l) (.array .int) = true := by
  show (!([l.length] : List Nat).isEmpty && (l.map Val.int).all (isDT .int)) = true
  simp [List.all_map, isDT]

theorem ht_boolArr (l : List Bool) : hasType Δ (n + 1) (boolArr l) (.array .bool) = true := by
  show (!([l.length] : List Nat).isEmpty && (l.map Val.bool).all (isDT .bool)) = true
  simp [List.all_map, isDT]

theorem ht_numList (l : List Rat) :
    hasType Δ (n + 2) (.list (l.map Val.num)) (.list (.float none none) none false) = true := by
  show ((l.map Val.num).all (fun x => hasType Δ (n + 1) x (.float none none)) && optMinLen none (l.map Val.num).length &&
    (!false || uniqueJ (emitList Δ (l.map Val.num)))) = true
  simp [List.all_map, ht_num, optMinLen]

theorem ht_intList (l : List Int) :
    hasType Δ (n + 2) (.list (l.map Val.int)) (.list (.int none) none false) = true := by
  show ((l.map Val.int).all (fun x => hasType Δ (n + 1) x (.int none)) && optMinLen none (l.map Val.int).length &&
    (!false || uniqueJ (emitList Δ (l.map Val.int)))) = true
  simp [List.all_map, ht_int, optMinLen]

theorem ht_frags (fr : List (List Int)) :
    hasType Δ (n + 2) (.list (fr.map intArr)) (.list (.array .int) none false) = true := by
  show ((fr.map intArr).all (fun x => hasType Δ (n + 1) x (.array .int)) && optMinLen none (fr.map intArr).length &&
    (!false || uniqueJ (emitList Δ (fr.map intArr)))) = true
  simp [List.all_map, ht_intArr, optMinLen]

theorem ht_bond (b : Nat × Nat × Rat) (h0 : 0 ≤ b.2.2) (h5 : b.2.2 ≤ 5) :
    hasType Δ (n + 2) (bondVal b) (.tuple [(.int (some 0)), (.int (some 0)), (.float (some 0) (some 5))]) = true := by
  show zipAll (hasType Δ (n + 1)) [.int b.1, .int b.2.1, .num b.2.2] [(.int (some 0)), (.int (some 0)), (.float (some 0) (some 5))] = true
  have a1 : hasType Δ (n + 1) (.int (b.1 : Int)) (.int (some 0)) = true := by
    show optLe (some 0) (b.1 : Int) = true
    simp [optLe]
  have a2 : hasType Δ (n + 1) (.int (b.2.1 : Int)) (.int (some 0)) = true := by
    show optLe (some 0) (b.2.1 : Int) = true
    simp [optLe]
  have a3 : hasType Δ (n + 1) (.num b.2.2) (.float (some 0) (some 5)) = true := by
    show (optLeQ (some 0) b.2.2 && optGeQ (some 5) b.2.2) = true
    simp only [optLeQ, optGeQ, Bool.and_eq_true, decide_eq_true_eq]
    exact ⟨by simpa using h0, by simpa using h5⟩
  simp [zipAll, a1, a2, a3]

theorem ht_conn (bs : List (Nat × Nat × Rat)) (hne : bs ≠ []) (hb : ∀ b ∈ bs, 0 ≤ b.2.2 ∧ b.2.2 ≤ 5) :
    hasType Δ (n + 3) (.list (bs.map bondVal))
      (.list (.tuple [(.int (some 0)), (.int (some 0)), (.float (some 0) (some 5))]) (some 1) false) = true := by
  show ((bs.map bondVal).all (fun x => hasType Δ (n + 2) x (.tuple [(.int (some 0)), (.int (some 0)), (.float (some 0) (some 5))])) &&
    optMinLen (some 1) (bs.map bondVal).length && (!false || uniqueJ (emitList Δ (bs.map bondVal)))) = true
  have h1 : (bs.map bondVal).all (fun x => hasType Δ (n + 2) x (.tuple [(.int (some 0)), (.int (some 0)), (.float (some 0) (some 5))])) = true := by
    rw [List.all_map, List.all_eq_true]
    intro b hbm
    exact ht_bond Δ n b (hb b hbm).1 (hb b hbm).2
  have h2 : optMinLen (some 1) (bs.map bondVal).length = true := by
    cases bs with
    | nil => exact absurd rfl hne
    | cons a t => simp [optMinLen]
  rw [h1, h2]
  rfl

end typing

/-- what `dict_hasType` asks of an object -/
structure WellFormed (nm : Option String) (d : MolDict Rat) : Prop where
  symbols : d.symbols.isSome = true
  geometry : d.geometry.isSome = true
  name : ∀ s, nm = some s → matchPat "^(qcschema_molecule)$" s = true
  conn : ∀ bs, d.connectivity = some bs → bs ≠ [] ∧ ∀ b ∈ bs, 0 ≤ b.2.2 ∧ b.2.2 ≤ 5

/-- **dict_hasType.**  Every well-formed Molecule object of the constructor model inhabits the declared type
`Molecule`, in any declaration environment whose `Molecule` entry is `molDecl` (in particular the regenerated one,
`molFields_tie`), with any further well-typed entries `others`. -/
theorem dict_hasType (Δ : Env) (hΔ : lookupDecl Δ "Molecule" = some molDecl) (n : Nat) (nm : Option String)
    (ver : Option Int) (d : MolDict Rat) (others : List (String × Val)) (hw : WellFormed nm d)
    (hoth : others.all (fieldOk (hasType Δ (n + 3)) molFields false) = true) :
    hasType Δ (n + 4) (molVal nm ver d others) (.model "Molecule") = true := by
  show (("Molecule" == "Molecule") && (match lookupDecl Δ "Molecule" with
    | some (.model _ fields extra) =>
        (match molVal nm ver d others with | .obj _ fs => fs | _ => []).all (fieldOk (hasType Δ (n + 3)) fields extra)
        && requiredOk fields (match molVal nm ver d others with | .obj _ fs => fs | _ => [])
    | _ => false)) = true
  rw [hΔ]
  simp only [molDecl, beq_self_eq_true, Bool.true_and, Bool.and_eq_true]
  obtain ⟨sy, hsy⟩ := Option.isSome_iff_exists.1 hw.symbols
  obtain ⟨ge, hge⟩ := Option.isSome_iff_exists.1 hw.geometry
  constructor
  · -- every entry is typed by its field
    simp only [molVal, List.all_append, Bool.and_eq_true]
    refine ⟨?_, ?_, ?_, ?_, ?_, ?_, ?_, ?_, ?_, ?_, ?_, ?_, ?_, ?_, ?_, ?_, ?_, ?_, ?_, ?_, ?_, hoth⟩
    · apply all_optEntry; intro x hx
      cases hnm : nm with
      | none => simp [hnm] at hx
      | some s =>
        simp only [hnm, Option.map_some, Option.some.injEq] at hx
        subst hx
        exact fieldOk_of _ _ _ _ (ht_strPat Δ _ _ s (hw.name s hnm)) rfl
    · apply all_optEntry; intro x hx
      cases hv : ver with
      | none => simp [hv] at hx
      | some i => simp only [hv, Option.map_some, Option.some.injEq] at hx; subst hx; exact fieldOk_of _ _ _ _ (ht_int Δ _ i) rfl
    · apply all_optEntry; intro x hx
      cases hv : d.validated with
      | none => simp [hv] at hx
      | some b => simp only [hv, Option.map_some, Option.some.injEq] at hx; subst hx; exact fieldOk_of _ _ _ _ (ht_bool Δ _ b) rfl
    · apply all_optEntry; intro x hx
      simp only [hsy, Option.map_some, Option.some.injEq] at hx; subst hx
      exact fieldOk_of _ _ _ _ (ht_strArr Δ _ sy) rfl
    · apply all_optEntry; intro x hx
      simp only [hge, Option.map_some, Option.some.injEq] at hx; subst hx
      exact fieldOk_of _ _ _ _ (ht_numArr Δ _ [ge.length / 3, 3] (by simp) ge) rfl
    · apply all_optEntry; intro x hx
      cases hv : d.name with
      | none => simp [hv] at hx
      | some s => simp only [hv, Option.map_some, Option.some.injEq] at hx; subst hx; exact fieldOk_of _ _ _ _ (ht_str Δ _ s) rfl
    · apply all_optEntry; intro x hx
      cases hv : d.comment with
      | none => simp [hv] at hx
      | some s => simp only [hv, Option.map_some, Option.some.injEq] at hx; subst hx; exact fieldOk_of _ _ _ _ (ht_str Δ _ s) rfl
    · apply all_optEntry; intro x hx
      cases hv : d.charge with
      | none => simp [hv] at hx
      | some q => simp only [hv, Option.map_some, Option.some.injEq] at hx; subst hx; exact fieldOk_of _ _ _ _ (ht_num Δ _ q) rfl
    · apply all_optEntry; intro x hx
      cases hv : d.mult with
      | none => simp [hv] at hx
      | some i => simp only [hv, Option.map_some, Option.some.injEq] at hx; subst hx; exact fieldOk_of _ _ _ _ (ht_int Δ _ i) rfl
    · apply all_optEntry; intro x hx
      cases hv : d.masses with
      | none => simp [hv] at hx
      | some l => simp only [hv, Option.map_some, Option.some.injEq] at hx; subst hx; exact fieldOk_of _ _ _ _ (ht_numArr Δ _ [l.length] (by simp) l) rfl
    · apply all_optEntry; intro x hx
      cases hv : d.real with
      | none => simp [hv] at hx
      | some l => simp only [hv, Option.map_some, Option.some.injEq] at hx; subst hx; exact fieldOk_of _ _ _ _ (ht_boolArr Δ _ l) rfl
    · apply all_optEntry; intro x hx
      cases hv : d.atomLabels with
      | none => simp [hv] at hx
      | some l => simp only [hv, Option.map_some, Option.some.injEq] at hx; subst hx; exact fieldOk_of _ _ _ _ (ht_strArr Δ _ l) rfl
    · apply all_optEntry; intro x hx
      cases hv : d.atomicNumbers with
      | none => simp [hv] at hx
      | some l => simp only [hv, Option.map_some, Option.some.injEq] at hx; subst hx; exact fieldOk_of _ _ _ _ (ht_intArr Δ _ l) rfl
    · apply all_optEntry; intro x hx
      cases hv : d.massNumbers with
      | none => simp [hv] at hx
      | some l => simp only [hv, Option.map_some, Option.some.injEq] at hx; subst hx; exact fieldOk_of _ _ _ _ (ht_intArr Δ _ l) rfl
    · apply all_optEntry; intro x hx
      cases hv : d.connectivity with
      | none => simp [hv] at hx
      | some bs =>
        simp only [hv, Option.map_some, Option.some.injEq] at hx; subst hx
        exact fieldOk_of _ _ _ _ (ht_conn Δ n bs (hw.conn bs hv).1 (hw.conn bs hv).2) rfl
    · apply all_optEntry; intro x hx
      cases hv : d.fragments with
      | none => simp [hv] at hx
      | some l => simp only [hv, Option.map_some, Option.some.injEq] at hx; subst hx; exact fieldOk_of _ _ _ _ (ht_frags Δ _ l) rfl
    · apply all_optEntry; intro x hx
      cases hv : d.fragCharges with
      | none => simp [hv] at hx
      | some l => simp only [hv, Option.map_some, Option.some.injEq] at hx; subst hx; exact fieldOk_of _ _ _ _ (ht_numList Δ _ l) rfl
    · apply all_optEntry; intro x hx
      cases hv : d.fragMults with
      | none => simp [hv] at hx
      | some l => simp only [hv, Option.map_some, Option.some.injEq] at hx; subst hx; exact fieldOk_of _ _ _ _ (ht_intList Δ _ l) rfl
    · apply all_optEntry; intro x hx
      cases hv : d.fixCom with
      | none => simp [hv] at hx
      | some b => simp only [hv, Option.map_some, Option.some.injEq] at hx; subst hx; exact fieldOk_of _ _ _ _ (ht_bool Δ _ b) rfl
    · apply all_optEntry; intro x hx
      cases hv : d.fixOri with
      | none => simp [hv] at hx
      | some b => simp only [hv, Option.map_some, Option.some.injEq] at hx; subst hx; exact fieldOk_of _ _ _ _ (ht_bool Δ _ b) rfl
    · apply all_optEntry; intro x hx
      cases hv : d.fixSym with
      | none => simp [hv] at hx
      | some s => simp only [hv, Option.map_some, Option.some.injEq] at hx; subst hx; exact fieldOk_of _ _ _ _ (ht_str Δ _ s) rfl
  · -- the two required fields are present
    have hreq : molFields.filter (fun f => f.required) =
        [⟨"symbols", "symbols", (.array .str), true, false⟩, ⟨"geometry", "geometry", (.array .float), true, false⟩] := by rfl
    unfold requiredOk
    rw [hreq]
    have a1 : aliasIn molFields "symbols" = "symbols" := by decide
    have a2 : aliasIn molFields "geometry" = "geometry" := by decide
    simp only [molVal, hsy, hge, Option.map_some, optEntry, List.all_cons, List.all_nil, Bool.and_true, Bool.and_eq_true,
      List.any_append, List.any_cons, Bool.or_eq_true]
    constructor
    · right; right; right; left; left
      simp [strArr, dropped, a1]
    · right; right; right; right; left; left
      simp [dropped, a2]

/-- **inv_hasType.**  The Molecule object the constructor builds from ANY record `r` satisfying the invariant
(`MolSchema.Inv`) whose bonds — if it has any — are a non-empty list with orders in [0, 5] (C04 `Inv.conn`;
`from_arrays` writes `connectivity` only for a non-empty list), whatever the caller's keywords `kw` were
(with a well-formed `schema_name` and, when the record has no bonds, no bonds of the caller's either), inhabits the
declared type `Molecule`: no per-instance `hasType` check is needed for molecules. -/
theorem inv_hasType (Δ : Env) (hΔ : lookupDecl Δ "Molecule" = some molDecl) (n : Nat) (P : MolDict.Params Rat)
    (nm : Option String) (ver : Option Int) (kw : MolDict Rat) (r : Molrec Rat) (m : MolDict Rat)
    (others : List (String × Val)) (hm : afterFromSchema P kw r = .ok m)
    (hname : ∀ s, nm = some s → matchPat "^(qcschema_molecule)$" s = true)
    (hconn : ∀ bs, r.connectivity = some bs → bs ≠ [] ∧ ∀ b ∈ bs, 0 ≤ b.2.2 ∧ b.2.2 ≤ 5)
    (hkw : r.connectivity = none → kw.connectivity = none)
    (hoth : others.all (fieldOk (hasType Δ (n + 3)) molFields false) = true) :
    hasType Δ (n + 4) (molVal nm ver m others) (.model "Molecule") = true := by
  rw [after_from_schema_closed_form] at hm
  have hm' := (Except.ok.inj hm).symm
  refine dict_hasType Δ hΔ n nm ver m others ⟨?_, ?_, hname, ?_⟩ hoth
  · rw [hm']; rfl
  · rw [hm']; rfl
  · intro bs hbs
    have hc : m.connectivity = orElse' r.connectivity kw.connectivity := by rw [hm']; rfl
    rw [hc] at hbs
    cases hr : r.connectivity with
    | some x =>
      rw [hr] at hbs
      simp only [orElse', Option.some.injEq] at hbs
      subst hbs
      exact hconn x hr
    | none =>
      rw [hr, hkw hr] at hbs
      simp [orElse'] at hbs

/-- **Conformance for every validated Molecule** (`root_conforms` ∘ `inv_hasType`): the JSON emitted for the object
validates against the generated root schema of `Molecule` (which the driver's `tie` checks equal to the published one). -/
theorem molecule_conforms (Δ : Env) (hΔ : lookupDecl Δ "Molecule" = some molDecl) (n : Nat) (P : MolDict.Params Rat)
    (nm : Option String) (ver : Option Int) (kw : MolDict Rat) (r : Molrec Rat) (m : MolDict Rat)
    (others : List (String × Val)) (hm : afterFromSchema P kw r = .ok m)
    (hname : ∀ s, nm = some s → matchPat "^(qcschema_molecule)$" s = true)
    (hconn : ∀ bs, r.connectivity = some bs → bs ≠ [] ∧ ∀ b ∈ bs, 0 ≤ b.2.2 ∧ b.2.2 ≤ 5)
    (hkw : r.connectivity = none → kw.connectivity = none)
    (hoth : others.all (fieldOk (hasType Δ (n + 3)) molFields false) = true) :
    validate (defsOf Δ) (3 * (n + 4)) (declSchema molDecl) (emit Δ (molVal nm ver m others)) = true :=
  root_conforms Δ (n + 4) "Molecule" _ molDecl hΔ
    (inv_hasType Δ hΔ n P nm ver kw r m others hm hname hconn hkw hoth)

/-! ### non-vacuity (tests) -/

/-- test: hypotheses of `inv_hasType` / `molecule_conforms` met in the regenerated environment by the water-like
record of `Props/C09Dict.lean` read over ℚ, with a provenance entry as `others` -/
def exRecQ : Molrec Rat :=
  { units := .bohr, iutau := none, geom := [0, 0, 0, 0, 0, 2, 0, 2, 0], elea := [16, 1, 1], elez := [8, 1, 1],
    elem := ["O", "H", "H"], mass := [16, 1, 1], real := [true, true, true], elbl := ["", "", ""], seps := [],
    fragCharges := [0], fragMults := [1], charge := 0, mult := 1, fixCom := false, fixOri := false, fixSym := none,
    name := none, comment := none, connectivity := some [(0, 1, 1)] }

def exPQ : MolDict.Params Rat :=
  { dflt := 2, fg := fun _ => "H2O", massOf := fun s => if s = "O" then 16 else 1, prep := fun x => x, title := fun s => s }

example : ∃ m, afterFromSchema exPQ (emptyDict : MolDict Rat) exRecQ = .ok m ∧
    validate (defsOf Gen.SchemaC09.env) (3 * (0 + 4)) (declSchema molDecl)
      (emit Gen.SchemaC09.env (molVal (some "qcschema_molecule") (some 2) m
        [("provenance", .obj "Provenance" [("creator", .str "QCElemental")]), ("extras", .dict [])])) = true := by
  refine ⟨_, after_from_schema_closed_form exPQ _ _, ?_⟩
  refine molecule_conforms Gen.SchemaC09.env molFields_tie 0 exPQ _ _ (emptyDict : MolDict Rat) exRecQ _ _
    (after_from_schema_closed_form exPQ _ _) ?_ ?_ (by intro h; cases h) (by decide)
  · intro s hs
    cases hs
    decide
  · intro bs hbs
    cases hbs
    refine ⟨by simp, ?_⟩
    intro b hb
    simp only [List.mem_singleton] at hb
    subst hb
    constructor <;> decide

end QcelVerif.C09Typed
