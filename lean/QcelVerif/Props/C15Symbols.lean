import QcelVerif.Props.C15FormulaStr
import QcelVerif.Gen.PT
import QcelVerif.Lib.PStr
/-!
# C15 (formula part) — every symbol of the shipped periodic table is a well-formed key

`Gen/PT.lean` is regenerated from `qcelemental/data/nist_2011_atomic_weights.py` on every run by
C01's translator `tools/gen_periodic.py` (imported read-only; `elements` rows are
`(Z, symbol, name)` with strings packed as length-tagged base-256 naturals).  The symbols of a
validated molecule are symbols of this table, so the hypothesis `WFSym` of the string-level
theorems of `Props/C15FormulaStr.lean` is discharged for them here, by kernel evaluation of the
whole table (finite shipped table).
-/
namespace QcelVerif.Formula
open QcelVerif

/-- the characters of a packed table string -/
def packedChars (p : Nat) : List Char := (PStr.unpack p).map Char.ofNat

/-- **Every periodic-table symbol is well formed** (one `[A-Z]` then `[a-z]*`; in fact at most two
lower-case letters), and packing loses nothing (`pack (unpack p) = p`), for the table as shipped. -/
theorem periodic_symbols_wf :
    ∀ row ∈ Gen.PT.elements, wfSym (packedChars row.2.1) = true ∧ (packedChars row.2.1).length ≤ 3 ∧
      PStr.pack (PStr.unpack row.2.1) = row.2.1 := by
  decide +kernel

/-- the table is not empty (non-vacuity of the statement above): at least H … Og and the dummy `X` -/
theorem periodic_symbols_count : 118 ≤ Gen.PT.elements.length := by decide +kernel

theorem toStr_toList (p : Nat) : (PStr.toStr (PStr.unpack p)).toList = packedChars p := by
  simp [PStr.toStr, packedChars, String.toList_ofList]

/-- as `String`s: a periodic-table symbol is `WFSym` and is its own `str.title()` -/
theorem periodic_symbol_title {s : String}
    (h : ∃ row ∈ Gen.PT.elements, s = PStr.toStr (PStr.unpack row.2.1)) :
    WFSym s ∧ title s = s := by
  obtain ⟨row, hr, rfl⟩ := h
  have hw : WFSym (PStr.toStr (PStr.unpack row.2.1)) := by
    unfold WFSym
    rw [toStr_toList]
    exact (periodic_symbols_wf row hr).1
  exact ⟨hw, title_wfSym hw⟩

/-- **Formulas of periodic-table symbols.**  For every list of symbols taken from the shipped
periodic table (any length, any multiplicities): re-ordering the library-written formula string
into either convention gives exactly the library-written formula string of that convention. -/
theorem order_formula_periodic (syms : List String) (ord ord' : Order)
    (h : ∀ s ∈ syms, ∃ row ∈ Gen.PT.elements, s = PStr.toStr (PStr.unpack row.2.1)) :
    orderFormula (fromSymbols syms ord) ord' = some (fromSymbols syms ord') := by
  apply order_formula_of_formula
  intro s hs
  have := periodic_symbol_title (h s hs)
  rw [this.2]; exact this.1

/-- non-vacuity: the hypothesis is met by e.g. rows 17 and 1 of the table (Cl, H) -/
example : ∃ row ∈ Gen.PT.elements, PStr.unpack row.2.1 = [67, 108] :=
  ⟨Gen.PT.elements[17], List.getElem_mem _, by decide⟩

-- non-vacuity (test, evaluated): row 17 of the table is chlorine, packed "Cl"
#guard (Gen.PT.elements.map (fun r => PStr.toStr (PStr.unpack r.2.1))).take 3 == ["X", "H", "He"]
#guard Gen.PT.elements.any (fun r => PStr.toStr (PStr.unpack r.2.1) == "Cl")

end QcelVerif.Formula
