import QcelVerif.Props.C07Flow
/-!
# C07 — the regenerated `_filter_mints` / `filter_fragment` and the chain of `parse_as_psi4_ish` against M1
-/
namespace QcelVerif.C07Flow
open QcelVerif.MolText QcelVerif.Gen

def mkL (fc : Bool) (q : Processed) (rc : List Line) : LState :=
  { fl := { fcgmp := fc }, p := some q, recon := rc, bad := false }

/-- one line of `filter_fragment`'s loop, at M1 level, left to right -/
def lineL (a : Bool × Processed × List Line) (l : Line) : Bool × Processed × List Line :=
  match l with
  | .cgmp c m =>
    if a.1 then (a.1, a.2.1, a.2.2 ++ [l])
    else (true, { a.2.1 with fragChg := a.2.1.fragChg ++ [some c], fragMult := a.2.1.fragMult ++ [some m] }, a.2.2)
  | .atom n x y z => (a.1, { a.2.1 with elbl := a.2.1.elbl ++ [n], geom := a.2.1.geom ++ [x, y, z] }, a.2.2)
  | .blank => a
  | _ => (a.1, a.2.1, a.2.2 ++ [l])

theorem frag_line_step (fc : Bool) (q : Processed) (rc : List Line) (l : Line) :
    lstmts false fragmentLoop (mkL fc q rc) (some l)
      = mkL (lineL (fc, q, rc) l).1 (lineL (fc, q, rc) l).2.1 (lineL (fc, q, rc) l).2.2 := by
  cases l <;> cases fc <;>
    simp [fragmentLoop, lstmts, lstmt, mkL, lineL, Flags.get, Flags.set, patHits, stores, store1, grpStr, grpNum, guardOn]

theorem frag_forLines (ls : List Line) : ∀ (fc : Bool) (q : Processed) (rc : List Line),
    forLines false fragmentLoop (mkL fc q rc) ls
      = mkL (ls.foldl lineL (fc, q, rc)).1 (ls.foldl lineL (fc, q, rc)).2.1 (ls.foldl lineL (fc, q, rc)).2.2 := by
  induction ls with
  | nil => intro fc q rc; rfl
  | cons l ls ih => intro fc q rc; rw [forLines, frag_line_step, ih]; rfl

/-- lines `filter_fragment` leaves, left to right (`fc` = a CHGMULT line was already taken) -/
def remL : Bool → List Line → List Line
  | _, [] => []
  | fc, l :: ls =>
    match l with
    | .cgmp _ _ => if fc then l :: remL fc ls else remL true ls
    | .atom _ _ _ _ => remL fc ls
    | .blank => remL fc ls
    | _ => l :: remL fc ls

def optL {α} : Option α → List (Option α)
  | none => []
  | some a => [some a]

/-- the record after the lines of one fragment, in terms of M1's `fragSum` -/
def afterFrag (fc : Bool) (q : Processed) (s : FragSum) : Processed :=
  { q with elbl := q.elbl ++ s.labels, geom := q.geom ++ s.coords,
           fragChg := q.fragChg ++ (if fc then [] else optL (s.cgmp.map (·.1))),
           fragMult := q.fragMult ++ (if fc then [] else optL (s.cgmp.map (·.2))) }

theorem fold_lineL (ls : List Line) : ∀ (fc : Bool) (q : Processed) (rc : List Line),
    ls.foldl lineL (fc, q, rc) = (fc || (fragSum ls).cgmp.isSome, afterFrag fc q (fragSum ls), rc ++ remL fc ls) := by
  induction ls with
  | nil => intro fc q rc; cases fc <;> simp [fragSum, afterFrag, remL, optL]
  | cons l ls ih =>
    intro fc q rc
    rw [List.foldl_cons]
    cases l with
    | cgmp c m =>
      cases fc
      · simp only [lineL, Bool.false_eq_true, if_false, ih, fragSum, remL]
        cases h : (fragSum ls).cgmp <;> simp [afterFrag, optL, h]
      · simp only [lineL, if_true, ih, fragSum, remL]
        cases h : (fragSum ls).cgmp <;> simp [afterFrag, optL, h]
    | atom n x y z =>
      simp only [lineL, ih, fragSum, remL]
      cases fc <;> simp [afterFrag]
    | blank =>
      simp only [lineL, ih, fragSum, remL]
      cases fc <;> simp [afterFrag]
    | _ =>
      simp only [lineL, ih, fragSum, remL]
      cases fc <;> simp [afterFrag]

/-- what is left of a fragment is empty exactly when M1 sees no remnant (no blank lines: M1 drops them before) -/
theorem remL_nil (ls : List Line) (hb : ∀ l ∈ ls, l ≠ Line.blank) :
    ((remL true ls = []) ↔ ((fragSum ls).remnant = false ∧ (fragSum ls).cgmp = none)) ∧
    ((remL false ls = []) ↔ (fragSum ls).remnant = false) := by
  induction ls with
  | nil => simp [remL, fragSum]
  | cons l ls ih =>
    have ih' := ih (fun x hx => hb x (List.mem_cons_of_mem _ hx))
    have hl := hb l (List.mem_cons_self)
    cases l with
    | blank => exact absurd rfl hl
    | cgmp c m =>
      simp only [remL, fragSum, if_true, Bool.false_eq_true, if_false]
      cases h : (fragSum ls).cgmp <;> simp [h, ih'.1]
    | atom n x y z => simpa [remL, fragSum] using ih'
    | _ => simp [remL, fragSum]

/-- the record after one fragment went through `filter_fragment` -/
def fragRec (q : Processed) (s : FragSum) : Processed :=
  { q with seps := q.seps ++ (if q.elbl.length > 0 then [q.elbl.length] else []),
           elbl := q.elbl ++ s.labels, geom := q.geom ++ s.coords,
           fragChg := q.fragChg ++ [s.cgmp.map (·.1)], fragMult := q.fragMult ++ [s.cgmp.map (·.2)] }

theorem frag_forLines' (ls : List Line) (fc : Bool) (q : Processed) (rc : List Line) :
    forLines false fragmentLoop ⟨⟨false, false, false, false, fc⟩, some q, rc, false⟩ ls
      = ⟨⟨false, false, false, false, fc || (fragSum ls).cgmp.isSome⟩, some (afterFrag fc q (fragSum ls)), rc ++ remL fc ls, false⟩ := by
  have h := frag_forLines ls fc q rc
  rw [fold_lineL] at h
  exact h

/-- **filterFragment_flow_eq**: the regenerated `filter_fragment` on ANY fragment lines from ANY record: separator from the atoms read so
far, labels / coordinates / the first CHGMULT line (or None, None) appended exactly as M1's `fragSum` summarises them, the remnant is `remL` -/
theorem filterFragment_flow_eq (q : Processed) (f : List Line) :
    runFilter false FromStringFlow.filterFragment (some q) f = (some (fragRec q (fragSum f)), remL false f, true) := by
  by_cases h0 : q.elbl.length > 0
  · simp only [runFilter, shape_mints.2, stmts, stmt, Flags.set, Option.map_some, Option.getD_some, h0, if_true]
    rw [frag_forLines']
    cases h : (fragSum f).cgmp <;> simp [h, afterFrag, fragRec, optL, stores, store1, h0, Flags.get]
  · simp only [runFilter, shape_mints.2, stmts, stmt, Flags.set, Option.map_some, Option.getD_some, h0, if_false]
    rw [frag_forLines']
    cases h : (fragSum f).cgmp <;> simp [h, afterFrag, fragRec, optL, stores, store1, h0, Flags.get]

/-- the loop body of `_filter_mints` as regenerated -/
def mintsBody : List FStmt :=
  [.stripFrag, .sysOrFragment .cgmp [.set .molecularCharge (.floatGroup .chg), .set .molecularMultiplicity (.intGroup .mult)], .keepFrag]

/-- a fragment that is not the system header: through `filter_fragment`, a non-empty remnant is kept -/
theorem frag_step (ifr0 : Bool) (q : Processed) (left : Bool) (f : List Line)
    (hsys : ifr0 = true → ∀ c m, f ≠ [.cgmp c m]) :
    fstmts false FromStringFlow.filterFragment ifr0 f mintsBody ⟨some q, left, true⟩ (some f)
      = ⟨some (fragRec q (fragSum f)), left || !(remL false f).isEmpty, true⟩ := by
  have hff := filterFragment_flow_eq q
  cases f with
  | nil => simp [mintsBody, fstmts, hff, remL]
  | cons l t =>
    cases t with
    | nil =>
      cases ifr0
      · simp only [mintsBody, fstmts, hff, Bool.false_and, Bool.false_eq_true, if_false]
        cases hr : remL false [l] <;> simp [fstmts]
      · have hp : patHits .cgmp l = false := by
          cases l <;> simp [patHits]
          exact absurd rfl (hsys rfl _ _)
        simp only [mintsBody, fstmts, hff, hp, Bool.and_false, Bool.false_eq_true, if_false]
        cases hr : remL false [l] <;> simp [fstmts]
    | cons l2 t2 =>
      simp only [mintsBody, fstmts, hff]
      cases hr : remL false (l :: l2 :: t2) <;> simp [fstmts]

theorem forFrags_rest (fs : List (List Line)) : ∀ (q : Processed) (left : Bool),
    forFrags false FromStringFlow.filterFragment mintsBody false ⟨some q, left, true⟩ fs
      = ⟨some ((fs.map fragSum).foldl fragRec q), left || fs.any (fun f => !(remL false f).isEmpty), true⟩ := by
  induction fs with
  | nil => intro q left; simp [forFrags]
  | cons f fs ih =>
    intro q left
    rw [forFrags, frag_step false q left f (fun h => by cases h), ih]
    simp [Bool.or_assoc]

/-- the fragments appended one after the other = M1's `assemble` lists -/
theorem foldl_fragRec (ss : List FragSum) : ∀ q : Processed,
    ss.foldl fragRec q = { q with elbl := q.elbl ++ ss.flatMap (·.labels), geom := q.geom ++ ss.flatMap (·.coords),
                                  seps := q.seps ++ sepsGo q.elbl.length (ss.map (·.labels.length)),
                                  fragChg := q.fragChg ++ ss.map (fun f => f.cgmp.map (·.1)),
                                  fragMult := q.fragMult ++ ss.map (fun f => f.cgmp.map (·.2)) } := by
  induction ss with
  | nil => intro q; simp [sepsGo]
  | cons s ss ih =>
    intro q
    rw [List.foldl_cons, ih]
    simp [fragRec, sepsGo, List.append_assoc]

/-- the record `_filter_universals` and `_filter_libefp` hand to `_filter_mints` -/
def baseRec (u : UState) (efp : List (Str × List NumParts)) : Processed :=
  { units := u.units, fixCom := u.com, fixOrient := u.ori, fixSym := u.sym, efp := efp }

/-- `_filter_mints` followed by `if molstr: raise MoleculeFormatError` and `return molstr, molinit` -/
def mintsOutcome (m : MState) : Outcome :=
  if !m.ok then .outOfScope else if m.left then .formatError else
  match m.p with
  | some q => .ok { q with isPsi4 := true }
  | none => .outOfScope

def NoBlank (fs : List (List Line)) : Prop := ∀ f ∈ fs, ∀ l ∈ f, l ≠ Line.blank

theorem rem_flag (f : List Line) (hb : ∀ l ∈ f, l ≠ Line.blank) : (!(remL false f).isEmpty) = (fragSum f).remnant := by
  have h := (remL_nil f hb).2
  cases hr : (fragSum f).remnant <;> cases hl : remL false f <;> simp_all

theorem any_rem (fs : List (List Line)) (hb : NoBlank fs) :
    fs.any (fun f => !(remL false f).isEmpty) = (fs.map fragSum).any (·.remnant) := by
  induction fs with
  | nil => rfl
  | cons f fs ih =>
    have h1 := rem_flag f (hb f List.mem_cons_self)
    have h2 := ih (fun g hg => hb g (List.mem_cons_of_mem _ hg))
    simp only [List.any_cons, List.map_cons, h1, h2]

theorem outcome_rest (q : Processed) (fs : List (List Line)) (left : Bool) :
    mintsOutcome (forFrags false FromStringFlow.filterFragment mintsBody false ⟨some q, left, true⟩ fs)
      = if left || fs.any (fun f => !(remL false f).isEmpty) then .formatError
        else .ok { ((fs.map fragSum).foldl fragRec q) with isPsi4 := true } := by
  rw [forFrags_rest]
  simp [mintsOutcome]

/-- **mints_flow_eq**: the regenerated `_filter_mints` (fragment loop, system CHGMULT header in the FIRST fragment only, `filter_fragment` on
every other fragment) followed by the leftover-text error and the return, from the record the earlier filters hand over, equals M1's
`mints` on EVERY list of fragments free of blank lines (M1 drops blank lines before; the source drops them in `_filter_universals`). -/
theorem mints_flow_eq (u : UState) (efp : List (Str × List NumParts)) (frags : List (List Line)) (hb : NoBlank frags) :
    mintsOutcome (mintsEval false FromStringFlow.mints FromStringFlow.filterFragment (some (baseRec u efp))
      (if frags.isEmpty then [[]] else frags)) = MolText.mints u efp frags := by
  have hF : NoBlank (if frags.isEmpty then [[]] else frags) := by
    cases frags with
    | nil => intro f hf l hl; simp at hf; subst hf; cases hl
    | cons a b => simpa using hb
  unfold MolText.mints
  generalize (if frags.isEmpty then [[]] else frags) = F at hF
  have hev : mintsEval false FromStringFlow.mints FromStringFlow.filterFragment (some (baseRec u efp)) F
      = forFrags false FromStringFlow.filterFragment mintsBody true ⟨some (baseRec u efp), false, true⟩ F := by
    simp [mintsEval, shape_mints.1, mintsBody]
  rw [hev]
  have fin : ∀ (q0 : Processed) (sys : Option (NumParts × Str)) (fs : List (List Line)), NoBlank fs →
      q0 = { baseRec u efp with molChg := sys.map (·.1), molMult := sys.map (·.2) } →
      (if false || fs.any (fun f => !(remL false f).isEmpty) then Outcome.formatError
        else .ok { ((fs.map fragSum).foldl fragRec q0) with isPsi4 := true }) = assemble u efp sys (fs.map fragSum) := by
    intro q0 sys fs hfs hq
    rw [any_rem fs hfs, foldl_fragRec, hq]
    simp only [assemble, Bool.false_or]
    cases (fs.map fragSum).any (·.remnant) <;> simp [baseRec]
  -- the general (non-header) first fragment
  have gen : ∀ (f0 : List Line) (rest : List (List Line)), NoBlank (f0 :: rest) → (∀ c m, f0 ≠ [.cgmp c m]) →
      mintsOutcome (forFrags false FromStringFlow.filterFragment mintsBody true ⟨some (baseRec u efp), false, true⟩ (f0 :: rest))
        = assemble u efp none ((f0 :: rest).map fragSum) := by
    intro f0 rest hnb hns
    rw [forFrags, frag_step true _ false f0 (fun _ => hns), outcome_rest]
    have h0 := rem_flag f0 (hnb f0 List.mem_cons_self)
    have hr := any_rem rest (fun g hg => hnb g (List.mem_cons_of_mem _ hg))
    rw [h0, hr, foldl_fragRec]
    simp only [assemble, List.map_cons, List.any_cons, Bool.false_or]
    cases (fragSum f0).remnant <;> cases (rest.map fragSum).any (·.remnant) <;>
      simp [baseRec, fragRec, sepsGo, List.append_assoc]
  simp only []
  split
  · rename_i c m rest
    have hrest : NoBlank rest := fun g hg => hF g (List.mem_cons_of_mem _ hg)
    rw [forFrags]
    simp only [mintsBody, fstmts, patHits, Bool.and_self, if_true, stores, store1, grpNum, grpStr, Option.bind_some, Option.map_some]
    have := outcome_rest { baseRec u efp with molChg := some c, molMult := some m } rest false
    simp only [mintsBody] at this
    rw [this]
    exact fin _ (some (c, m)) rest hrest rfl
  · rename_i hne
    cases F with
    | nil => simp [forFrags, mintsOutcome, assemble, baseRec, sepsGo]
    | cons f0 rest => exact gen f0 rest hF (fun c m h => hne c m rest (by rw [h]))

/-! ## no blank line reaches `_filter_mints` -/

theorem univGo_subset (ls : List Line) : ∀ (u : UState), ∀ l ∈ (univGo u ls).2, l ∈ ls := by
  induction ls with
  | nil => intro u l hl; simp [univGo] at hl
  | cons a ls ih =>
    intro u l hl
    rw [univGo_cons] at hl
    simp only [List.mem_append] at hl
    rcases hl with h | h
    · split at h
      · simp at h; subst h; exact List.mem_cons_self
      · cases h
    · exact List.mem_cons_of_mem _ (ih _ l h)

theorem splitMarkers_mem (ls : List Line) : ∀ f ∈ splitMarkers ls, ∀ l ∈ f, l ∈ ls := by
  induction ls with
  | nil => intro f hf l hl; simp [splitMarkers] at hf; subst hf; cases hl
  | cons a ls ih =>
    intro f hf l hl
    simp only [splitMarkers] at hf
    split at hf
    · simp at hf; subst hf; cases hl
    · rename_i h r heq
      split at hf
      · simp only [List.mem_cons] at hf
        rcases hf with rfl | rfl | hf
        · cases hl
        · exact List.mem_cons_of_mem _ (ih _ (by rw [heq]; exact List.mem_cons_self) l hl)
        · exact List.mem_cons_of_mem _ (ih f (by rw [heq]; exact List.mem_cons_of_mem _ hf) l hl)
      · simp only [List.mem_cons] at hf
        rcases hf with rfl | hf
        · simp only [List.mem_cons] at hl
          rcases hl with rfl | hl
          · exact List.mem_cons_self
          · exact List.mem_cons_of_mem _ (ih _ (by rw [heq]; exact List.mem_cons_self) l hl)
        · exact List.mem_cons_of_mem _ (ih f (by rw [heq]; exact List.mem_cons_of_mem _ hf) l hl)

theorem efpGo_frags_sub (fs : List (List Line)) : ∀ f ∈ (efpGo fs).frags, f ∈ fs := by
  induction fs with
  | nil => intro f hf; simp [efpGo] at hf
  | cons a fs ih =>
    intro f hf
    simp only [efpGo] at hf
    split at hf
    · exact List.mem_cons_of_mem _ (ih f hf)
    · exact List.mem_cons_of_mem _ (ih f hf)
    · simp only [List.mem_cons] at hf
      rcases hf with rfl | hf
      · exact List.mem_cons_self
      · exact List.mem_cons_of_mem _ (ih f hf)
    · simp only [List.mem_cons] at hf
      rcases hf with rfl | hf
      · exact List.mem_cons_self
      · exact List.mem_cons_of_mem _ (ih f hf)

theorem noBlank_reaches (lines : List Line) :
    NoBlank (efpGo (splitMarkers (univGo {} (lines.filter (· != Line.blank))).2)).frags := by
  intro f hf l hl hb
  have h1 := efpGo_frags_sub _ f hf
  have h2 := splitMarkers_mem _ f h1 l hl
  have h3 := univGo_subset _ _ l h2
  subst hb
  simp at h3

/-! ## `parse_as_psi4_ish`: the chain of filters, the leftover-text error, the return -/

theorem psi4_chain (lines : List Line) :
    srcPsi4Lines FromStringFlow.prog lines =
      if lines.any (· == Line.pubchem) || !(efpGo (splitMarkers (univGo {} (lines.filter (· != Line.blank))).2)).scope then .outOfScope
      else mintsOutcome (mintsEval false FromStringFlow.mints FromStringFlow.filterFragment
        (some (baseRec (univGo {} (lines.filter (· != Line.blank))).1
          (efpGo (splitMarkers (univGo {} (lines.filter (· != Line.blank))).2)).efp))
        (if (efpGo (splitMarkers (univGo {} (lines.filter (· != Line.blank))).2)).frags.isEmpty then [[]]
         else (efpGo (splitMarkers (univGo {} (lines.filter (· != Line.blank))).2)).frags)) := by
  have hu := universals_flow_eq lines
  generalize univGo {} (lines.filter (· != Line.blank)) = ur at hu ⊢
  obtain ⟨u, rest⟩ := ur
  simp only [] at hu ⊢
  rcases hme : mintsEval false FromStringFlow.mints FromStringFlow.filterFragment
      (some (baseRec u (efpGo (splitMarkers rest)).efp))
      (if (efpGo (splitMarkers rest)).frags.isEmpty then [[]] else (efpGo (splitMarkers rest)).frags) with ⟨mp, ml, mok⟩
  have hme' := hme
  simp only [baseRec, List.isEmpty_iff] at hme'
  cases hp : lines.any (· == Line.pubchem) <;> cases hs : (efpGo (splitMarkers rest)).scope <;> cases ml <;> cases mok <;> cases mp <;>
    simp [srcPsi4Lines, FromStringFlow.prog, shape_dispatch.2.1, pstmts, pstmt, hp, hu, hs, hme', mintsOutcome]

theorem any_pubchem_filter' (lines : List Line) :
    ((lines.filter (· != Line.blank)).any (· == Line.pubchem)) = lines.any (· == Line.pubchem) := by
  induction lines with
  | nil => rfl
  | cons l ls ih =>
    by_cases hb : l = .blank
    · subst hb; simp [List.filter, ih]
    · have : (l != Line.blank) = true := by simpa using hb
      simp [List.filter, this, ← ih]

/-- **psi4_flow_eq**: the psi4 reader regenerated from the source - `parse_as_psi4_ish`'s chain pubchem, universals, libefp, mints in the
source's order, `_filter_universals`' and `_filter_mints` / `filter_fragment`'s statements, the leftover-text `raise MoleculeFormatError`,
the return - equals M1's `parsePsi4Lines` on EVERY list of classified lines (`_filter_pubchem` / `_filter_libefp` run as M1 models them). -/
theorem psi4_flow_eq (lines : List Line) : srcPsi4Lines FromStringFlow.prog lines = parsePsi4Lines lines := by
  rw [psi4_chain, mints_flow_eq _ _ _ (noBlank_reaches lines)]
  unfold parsePsi4Lines
  simp only [any_pubchem_filter']
  cases lines.any (· == Line.pubchem) <;>
    cases (efpGo (splitMarkers (univGo {} (lines.filter (· != Line.blank))).2)).scope <;> simp

/-- **srcRead_eq_parseText_partial**: the reader regenerated from `from_string.py` (head `filter_comments(molstr.strip())`, the line split
and per-line strip, and for psi4 the regenerated chain) equals M1's `parseText` for EVERY text and each of the three dtypes. -/
theorem srcRead_eq_parseText_partial (d : Dtype) (s : Str) : srcRead FromStringFlow.prog d s = parseText d s := by
  have hpre : preOps FromStringFlow.prog.pre s = some (filterComments (MolText.strip s)) := by
    show preOps FromStringFlow.pre s = _
    rw [shape_dispatch.1]; rfl
  cases d
  · simp [srcRead, hpre, parseText, textLines]
  · simp [srcRead, hpre, parseText, textLines]
  · simp only [srcRead, hpre, parseText, textLines]
    exact psi4_flow_eq _
-- FULL: with `_filter_xyz` (the xyz / xyz+ routes of `srcRead` are M1's `parseXyzLines`, NOT regenerated), `_filter_libefp` and
-- `_filter_pubchem` (run as M1's `efpGo` / out-of-scope declaration) translated as well, and with the text plumbing between the filters
-- ("\n".join / split, re.split(fragment_marker) of the re-joined text) evaluated on strings instead of being read at line level.

/-- **read_write_psi4_src**: `read_write_psi4_text` over the regenerated reader - the psi4 TEXT `writePsi4` prints, read by the statements of
from_string.py, gives exactly `projectPsi4 r` -/
theorem read_write_psi4_src (r : MolRec) (h : RecOk r) :
    srcRead FromStringFlow.prog .psi4 (render (writePsi4 r)) = .ok (projectPsi4 r) := by
  rw [srcRead_eq_parseText_partial]; exact read_write_psi4_text r h

/-- **read_write_xyzplus_src_partial**: `read_write_xyzplus_text` over `srcRead` (whose xyz+ route is M1's: `_filter_xyz` is not regenerated;
only the head of `from_string` and the line split are the source's here) -/
theorem read_write_xyzplus_src_partial (natS : Str) (r : MolRec) (h : XyzOk natS r) (hname : Clean r.name) :
    srcRead FromStringFlow.prog .xyzPlus (render (writeXyz natS r)) = .ok (projectXyzPlus r) := by
  rw [srcRead_eq_parseText_partial]; exact read_write_xyzplus_text natS r h hname
-- FULL: `_filter_xyz` regenerated and proved equal to `parseXyzLines`.

/-- **srcRead_total**: on ANY text the regenerated reader returns a processed record, MoleculeFormatError, or the declared out-of-scope answer
(pubchem line, three-point efp form) - in particular no `.unknown` statement and no uninterpretable store is ever met (that would be
`outOfScope` where M1 answers otherwise) -/
theorem srcRead_total (d : Dtype) (s : Str) :
    (∃ p, srcRead FromStringFlow.prog d s = .ok p) ∨ srcRead FromStringFlow.prog d s = .formatError ∨
      (srcRead FromStringFlow.prog d s = .outOfScope ∧ parseText d s = .outOfScope) := by
  rw [srcRead_eq_parseText_partial]
  rcases parse_total d s with h | h | h
  · exact Or.inl h
  · exact Or.inr (Or.inl h)
  · exact Or.inr (Or.inr ⟨h, h⟩)

/-- non-vacuity / test [decide]: a two-fragment text with keywords, a comment and blank lines through the regenerated reader -/
example : (srcRead FromStringFlow.prog .psi4 "0 1\n--\n-1 2\nHe 0 0 0 # c\n\nunits au\n--\n@He 0 0 3\nno_com\n".toList)
    = parseText .psi4 "0 1\n--\n-1 2\nHe 0 0 0 # c\n\nunits au\n--\n@He 0 0 3\nno_com\n".toList := by decide

end QcelVerif.C07Flow
