import QcelVerif.Props.C04DefaultNuc
/-! C04 (extension) — kernel evaluation of `elementIsoOk` (Props/C04DefaultNuc.lean) over the generated periodic
table, four element rows per obligation (each `decide +kernel` ≈ 10–15 s); part B of A–E.  Re-checked whenever
`tools/gen_periodic.py` regenerates `Gen/PT.lean` from a changed data file. -/
namespace QcelVerif.FromArrays
open QcelVerif QcelVerif.Nucleus
set_option maxRecDepth 100000

theorem iso_rows_24 : ((Gen.PT.elements.drop 24).take 4).all elementIsoOk = true := by decide +kernel
theorem iso_rows_28 : ((Gen.PT.elements.drop 28).take 4).all elementIsoOk = true := by decide +kernel
theorem iso_rows_32 : ((Gen.PT.elements.drop 32).take 4).all elementIsoOk = true := by decide +kernel
theorem iso_rows_36 : ((Gen.PT.elements.drop 36).take 4).all elementIsoOk = true := by decide +kernel
theorem iso_rows_40 : ((Gen.PT.elements.drop 40).take 4).all elementIsoOk = true := by decide +kernel
theorem iso_rows_44 : ((Gen.PT.elements.drop 44).take 4).all elementIsoOk = true := by decide +kernel

end QcelVerif.FromArrays
