/-
ASCII strings as byte lists (`List Nat`) and as one length-tagged base-256 `Nat`
(`pack s = 1·256^|s| + Σ s_i·256^(|s|-1-i)`), because kernel evaluation of `String` is unusably
slow at table scale.  Python `str` methods used by the table code, for ASCII.  Core Lean only.
-/
namespace QcelVerif.PStr

abbrev Bytes := List Nat

def pack (l : Bytes) : Nat := l.foldl (fun a b => a * 256 + b) 1

def unpackAux : Nat → Nat → Bytes → Bytes
  | 0, _, acc => acc
  | f + 1, n, acc => if n ≤ 1 then acc else unpackAux f (n / 256) ((n % 256) :: acc)

/-- inverse of `pack` for strings shorter than 96 bytes -/
def unpack (n : Nat) : Bytes := unpackAux 96 n []

def isUpper (c : Nat) : Bool := 65 ≤ c && c ≤ 90
def isLower (c : Nat) : Bool := 97 ≤ c && c ≤ 122
def isAlpha (c : Nat) : Bool := isUpper c || isLower c
def isDigit (c : Nat) : Bool := 48 ≤ c && c ≤ 57
def toLower (c : Nat) : Nat := if isUpper c then c + 32 else c
def toUpper (c : Nat) : Nat := if isLower c then c - 32 else c

def lower (s : Bytes) : Bytes := s.map toLower
def upper (s : Bytes) : Bytes := s.map toUpper

/-- `str.capitalize()` on ASCII -/
def capitalize : Bytes → Bytes
  | [] => []
  | c :: t => toUpper c :: lower t

/-- Python `str.strip()` whitespace restricted to ASCII: \t \n \v \f \r, FS GS RS US, space -/
def isSpace (c : Nat) : Bool := (9 ≤ c && c ≤ 13) || (28 ≤ c && c ≤ 32)

def strip (s : Bytes) : Bytes := ((s.dropWhile isSpace).reverse.dropWhile isSpace).reverse

def ofString (s : String) : Bytes := s.toList.map Char.toNat
def toStr (b : Bytes) : String := String.ofList (b.map Char.ofNat)

/-- decimal digits of a natural number (fuel-bounded, enough for < 10^40) -/
def natDigitsAux : Nat → Nat → Bytes → Bytes
  | 0, _, acc => acc
  | f + 1, n, acc => if n < 10 then (48 + n) :: acc else natDigitsAux f (n / 10) ((48 + n % 10) :: acc)
def natDigits (n : Nat) : Bytes := natDigitsAux 40 n []

/-- value of a string of ASCII digits (no validation) -/
def digitsVal (s : Bytes) : Nat := s.foldl (fun a c => a * 10 + (c - 48)) 0

/-- Python `int(str)` for ASCII text: surrounding whitespace, optional sign, digits with single
underscores between digits.  `none` = ValueError. -/
def pyIntBody : Bytes → Bool → Option Nat → Option Nat
  -- args: remaining, previous-was-digit, accumulated value
  | [], prevDigit, acc => if prevDigit then acc else none
  | c :: t, prevDigit, acc =>
      if isDigit c then pyIntBody t true (some (acc.getD 0 * 10 + (c - 48)))
      else if c == 95 then (if prevDigit then pyIntBody t false acc else none)
      else none

/-- optional sign: (negative?, rest) -/
def pySign : Bytes → Bool × Bytes
  | [] => (false, [])
  | c :: t => if c == 43 then (false, t) else if c == 45 then (true, t) else (false, c :: t)

def pyInt (s : Bytes) : Option Int :=
  let sb := pySign (strip s)
  match pyIntBody sb.2 false none with
  | some n => some (if sb.1 then -(n : Int) else (n : Int))
  | none => none

end QcelVerif.PStr
