/-
Line-protocol helpers shared by the model drivers (core Lean only).
Written against `List Char` so that they do not depend on the (moving) `String` slicing API.
-/
namespace QcelVerif.Proto

def splitChars (sep : Char) : List Char → List (List Char)
  | [] => [[]]
  | c :: t =>
    match splitChars sep t with
    | [] => [[]]           -- unreachable
    | h :: r => if c == sep then [] :: h :: r else (c :: h) :: r

/-- `s.split(sep)` as in Python (keeps empty fields) -/
def splitOnChar (s : String) (sep : Char) : List String :=
  (splitChars sep s.toList).map String.ofList

def isWs (c : Char) : Bool := c == ' ' || c == '\t' || c == '\n' || c == '\r'

def trimStr (s : String) : String :=
  String.ofList ((s.toList.dropWhile isWs).reverse.dropWhile isWs).reverse

def natOfDigits? (l : List Char) : Option Nat :=
  if l.isEmpty then none
  else l.foldl (fun acc c => acc.bind fun n => if c.isDigit then some (n * 10 + (c.toNat - 48)) else none) (some 0)

def parseNat? (s : String) : Option Nat := natOfDigits? (trimStr s).toList

def parseInt? (s : String) : Option Int :=
  match (trimStr s).toList with
  | '-' :: t => (natOfDigits? t).map (fun n => -(n : Int))
  | '+' :: t => (natOfDigits? t).map (fun n => (n : Int))
  | l => (natOfDigits? l).map (fun n => (n : Int))

def parseOptInt? (s : String) : Option (Option Int) :=
  let t := trimStr s
  if t == "N" then some none else (parseInt? t).map some

def splitNonEmpty (s : String) (sep : Char) : List String :=
  ((splitOnChar s sep).map trimStr).filter (fun t => !t.isEmpty)

def parseIntList? (s : String) (sep : Char) : Option (List Int) :=
  (splitNonEmpty s sep).mapM parseInt?

def parseNatList? (s : String) (sep : Char) : Option (List Nat) :=
  (splitNonEmpty s sep).mapM parseNat?

def parseOptIntList? (s : String) (sep : Char) : Option (List (Option Int)) :=
  (splitNonEmpty s sep).mapM parseOptInt?

def showIntList (l : List Int) : String := ",".intercalate (l.map toString)
def showNatList (l : List Nat) : String := ",".intercalate (l.map toString)

/-- rational `p/q` or integer -/
def parseRat? (s : String) : Option Rat :=
  match splitOnChar (trimStr s) '/' with
  | [p] => (parseInt? p).map (fun n => (n : Rat))
  | [p, q] => do
      let n ← parseInt? p
      let d ← parseNat? q
      if d == 0 then none else some ((n : Rat) / (d : Rat))
  | _ => none

def showRat (r : Rat) : String := if r.den == 1 then toString r.num else s!"{r.num}/{r.den}"

def stripNl (line : String) : String :=
  match line.toList.reverse with
  | '\n' :: '\r' :: t => String.ofList t.reverse
  | '\n' :: t => String.ofList t.reverse
  | _ => line

/-- read stdin line by line, print `f line` for each -/
partial def loop (h : IO.FS.Stream) (f : String → String) : IO Unit := do
  let line ← h.getLine
  if line.isEmpty then return ()
  IO.println (f (stripNl line))
  loop h f

def mainLoop (f : String → String) : IO Unit := do
  let stdin ← IO.getStdin
  loop stdin f

end QcelVerif.Proto
