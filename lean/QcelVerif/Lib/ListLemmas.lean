/-
Small list lemmas shared by the models (core Lean only).
-/
namespace QcelVerif

theorem find?_eq_some_of_first {α} (p : α → Bool) :
    ∀ (l : List α) (x : α), l.head? = some x → p x = true → l.find? p = some x
  | [], _, h, _ => by simp at h
  | y :: t, x, h, hp => by
      simp at h; subst h; simp [List.find?, hp]

end QcelVerif
