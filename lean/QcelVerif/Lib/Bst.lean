/-
Search trees keyed by `Nat` (packed strings), used for the shipped tables: the translator emits a
balanced tree; Lean checks `isBST` and completeness by kernel evaluation, and `lookup` is what
the models use for Python `dict` access.  Core Lean only.
-/
namespace QcelVerif

inductive Bst (β : Type) where
  | leaf : Bst β
  | node (l : Bst β) (k : Nat) (v : β) (r : Bst β) : Bst β

namespace Bst
variable {β : Type}

def lookup : Bst β → Nat → Option β
  | .leaf, _ => none
  | .node l k v r, x => if x < k then l.lookup x else if k < x then r.lookup x else some v

def contains (t : Bst β) (x : Nat) : Bool := (t.lookup x).isSome

def size : Bst β → Nat
  | .leaf => 0
  | .node l _ _ r => l.size + 1 + r.size

/-- all keys strictly inside the open interval `(lo, hi)` (`none` = unbounded), recursively ordered -/
def isBSTIn : Bst β → Option Nat → Option Nat → Bool
  | .leaf, _, _ => true
  | .node l k _ r, lo, hi =>
      (match lo with | some a => decide (a < k) | none => true) &&
      (match hi with | some b => decide (k < b) | none => true) &&
      l.isBSTIn lo (some k) && r.isBSTIn (some k) hi

def isBST (t : Bst β) : Bool := t.isBSTIn none none

/-- in-order list of (key, value) -/
def toList : Bst β → List (Nat × β)
  | .leaf => []
  | .node l k v r => l.toList ++ (k, v) :: r.toList

end Bst
end QcelVerif
