import QcelVerif.Model.Kabsch
import QcelVerif.Model.KabschUnique
import QcelVerif.Model.B787
import QcelVerif.Model.UnoOrderings
import QcelVerif.Model.RandRot
import QcelVerif.Gen.KabschSrc
import QcelVerif.Gen.B787Src
import QcelVerif.Lib.Proto
/-!
Line-protocol driver for the C12 models (all numbers are exact rationals `p/q`).

* `K|mirror|amap|R|C|q|delta|eps`
    one Kabsch trial as `B787` runs it (align.py:194-200 / 219-227): `C` is the *original* concern
    geometry, the model mirrors / reorders it, runs `kabschAlign` with the captured eigenvector `q`,
    applies the resulting recipe with `alignCoords` and reports everything exactly, plus the verdict of
    the proved certificate checker `isTopEig`.
* `KS|…`  the same line answered by the SOURCE-DERIVED `kabsch_align` (`KabschAst.kabschAlignSrc` on `Gen/KabschSrc.lean`, regenerated
    from align.py on every run); `Props/C12Src.lean kabschAlign_src_partial` proves the answer equal to that of `K`
* `BS|…`  the trial loop assembled from the translated best-so-far blocks (`B787Ast.runSrc` on `Gen/B787Src.lean`); equal to `B` by `run_src`
* `PS|…`  permutative candidate orderings with the translated `filter_permutative` (`B787Ast.candidatesSrc`); equal to `P` by `candidates_src`
* `B|runMirror|superimposable|runToCompletion|aconv|plain,mir;plain,mir;…`   the trial loop
* `P|rtol|atol|ref|cur|RR|CC`   permutative candidate orderings
* `U|cut|k|red|cost|pairs`   one class of the `hungarian_uno` search (align.py:375-400): `red` = the k×k reduced matrix
    the solver returned, `cost` = the k×k matrix it was handed, `pairs` = its assignment `r,c;r,c;…`.  Answer: the
    zero-edge list (`np.argwhere(red < cut)`), ALL perfect matchings of that graph (`Uno.matchings`, each as the
    rows matched to columns 0..k-1) and C14's exact optimality gap `Assign.certGap` of the solver's answer.
* `O|cut|ref|cur|red#red#…`   the candidate atom orderings of `_plausible_atom_orderings(…, 'hungarian_uno')`
    from the per-class reduced matrices (classes in order of first appearance in `ref`)
* `M|ref|cur|RRnre|CCnre`   the per-class cost matrices `classCost` (exact) from the reciprocal-distance matrices
* `N|R`   the exact margin of non-collinearity of a geometry about its centroid (`Model/KabschUnique.lean`):
    `g = collinearityMargin R = max_{i<j} |(r_i − r̄) × (r_j − r̄)|²` (the quantity of `Props/C12Unique.lean`,
    `maxCross2_pos_iff`, `recovery_rotation_close`), a pair `i,j` attaining it (re-verified by the harness), the
    square norms `|r_i − r̄|²`, `|r_j − r̄|²` of that pair and `lmax2 = max_k |r_k − r̄|²`
* `R|deflection|u1|u2|u3`   the model of `util.random_rotation_matrix(deflection, randnums=(u1,u2,u3))`
    (`Model/RandRot.lean`, `randomRotationMatrixQ`: the field-generic model executed at ℚ with rational
    approximations of sin/cos/sqrt/2π accurate to < 1e-30): the nine entries of `M` (row-major), and the three
    normalisation defects of `Props/C12RandRot.lean`'s hypotheses at these approximations — `nt = sin²θ+cos²θ−1`,
    `np = sin²φ+cos²φ−1`, `nv = |V|²−2` — plus `orth = max |M Mᵀ − I|` entry and `det − 1` computed exactly from the
    model's `M`.  `err domain` when `z = u3·2·deflection` is outside `[0, 2]` (numpy would produce nan).
-/
open QcelVerif QcelVerif.Proto QcelVerif.Kabsch

def parseRats? (s : String) : Option (List Rat) := (splitNonEmpty s ' ').mapM parseRat?

def toV3s : List Rat → Option (List (V3 Rat))
  | [] => some []
  | x :: y :: z :: t => (toV3s t).map (fun l => ⟨x, y, z⟩ :: l)
  | _ => none

def parseBool? (s : String) : Option Bool :=
  match trimStr s with
  | "1" => some true
  | "0" => some false
  | _ => none

def sr (r : Rat) : String := showRat r
def srs (l : List Rat) : String := ",".intercalate (l.map showRat)

def stepKWith (align : List (V3 Rat) → List (V3 Rat) → Q4 Rat → KabschOut Rat) (f : List String) : String :=
  match f with
  | [mi, am, r, c, q, de, ep] =>
    match parseBool? mi, parseNatList? am ' ', (parseRats? r).bind toV3s, (parseRats? c).bind toV3s, parseRats? q,
      parseRat? de, parseRat? ep with
    | some mi, some am, some R, some C, some [q0, q1, q2, q3], some de, some ep =>
      if R.length != C.length || am.length != R.length || R.isEmpty then "bad-op" else
      let Cm := if mi then C.map V3.mirrorY else C
      match am.mapM (fun i => Cm[i]?) with
      | none => "err index"
      | some Cord =>
        let q : Q4 Rat := ⟨q0, q1, q2, q3⟩
        let o := align R Cord q
        match alignCoords mi o.T o.U am C with
        | none => "err index"
        | some al =>
          let fin2 := dist2 al R
          let cert := isTopEig o.F q de ep
          let U := o.U
          let F := o.F
          s!"ok sc={if o.shortcut then 1 else 0} cert={if cert then 1 else 0} U={srs [U.a00, U.a01, U.a02, U.a10, U.a11, U.a12, U.a20, U.a21, U.a22]} T={srs [o.T.x, o.T.y, o.T.z]} res2={sr o.res2} fin2={sr fin2} F={srs [F.f00, F.f01, F.f02, F.f03, F.f11, F.f12, F.f13, F.f22, F.f23, F.f33]} lam={sr o.lam} n2={sr o.n2} sr2={sr o.sr2} sc2={sr o.sc2}"
    | _, _, _, _, _, _, _ => "bad-op"
  | _ => "bad-op"

def stepK (f : List String) : String := stepKWith kabschAlign f

def stepKS (f : List String) : String :=
  stepKWith (KabschAst.kabschAlignSrc Gen.KabschSrc.prog Gen.KabschSrc.F Gen.KabschSrc.U) f

def parseTrial? (s : String) : Option B787.Trial :=
  match splitOnChar s ',' with
  | [a, b] => do
    let a ← parseInt? a
    let b ← parseInt? b
    pure ⟨a, b⟩
  | _ => none

def showState (st : B787.State) : String :=
  match st.sel with
  | some (i, m) => s!"ok sel={i} mirror={if m then 1 else 0} best={st.best} ocount={st.ocount}"
  | none => "err noSolution"

def stepB (f : List String) : String :=
  match f with
  | [rm, su, rtc, ac, tr] =>
    match parseBool? rm, parseBool? su, parseBool? rtc, parseInt? ac, (splitNonEmpty tr ';').mapM parseTrial? with
    | some rm, some su, some rtc, some ac, some trials =>
      match B787.run { runMirror := rm, superimposable := su, runToCompletion := rtc, aconv := ac } trials with
      | .ok st => showState st
      | .error .noSolution => "err noSolution"
      | .error .validation => "err validation"
    | _, _, _, _, _ => "bad-op"
  | _ => "bad-op"

def stepBS (f : List String) : String :=
  match f with
  | [rm, su, rtc, ac, tr] =>
    match parseBool? rm, parseBool? su, parseBool? rtc, parseInt? ac, (splitNonEmpty tr ';').mapM parseTrial? with
    | some rm, some su, some rtc, some ac, some trials =>
      match B787Ast.runSrc Gen.B787Src.loopBody { runMirror := rm, superimposable := su, runToCompletion := rtc, aconv := ac } trials with
      | .ok st => showState st
      | .err .noSolution => "err noSolution"
      | .err .validation => "err validation"
      | .illTyped => "err illTyped"
    | _, _, _, _, _ => "bad-op"
  | _ => "bad-op"

def parseMat? (s : String) : Option (List (List Rat)) := (splitNonEmpty s ';').mapM parseRats?

def stepPWith (cands : Rat → Rat → List Nat → List Nat → List (List Rat) → List (List Rat) → Except B787.Err (List (List Nat)))
    (f : List String) : String :=
  match f with
  | [rtol, atol, rf, cu, rr, cc] =>
    match parseRat? rtol, parseRat? atol, parseNatList? rf ' ', parseNatList? cu ' ', parseMat? rr, parseMat? cc with
    | some rtol, some atol, some rf, some cu, some rr, some cc =>
      match cands rtol atol rf cu rr cc with
      | .ok l => "ok " ++ ";".intercalate (l.map showNatList)
      | .error .validation => "err validation"
      | .error .noSolution => "err noSolution"
    | _, _, _, _, _, _ => "bad-op"
  | _ => "bad-op"

def stepP (f : List String) : String := stepPWith B787.candidates f

def stepPS (f : List String) : String := stepPWith (B787Ast.candidatesSrc Gen.B787Src.filter) f

def showMat (k : Nat) (m : Uno.Mat) : String :=
  ";".intercalate ((List.range k).map fun i => " ".intercalate ((List.range k).map fun j => showRat (m i j)))

def parsePair? (s : String) : Option (Nat × Nat) :=
  match splitOnChar s ',' with
  | [a, b] => do
    let a ← parseNat? a
    let b ← parseNat? b
    pure (a, b)
  | _ => none

def stepU (f : List String) : String :=
  match f with
  | [cut, k, red, cost, prs] =>
    match parseRat? cut, parseNat? k, parseMat? red, parseMat? cost, (splitNonEmpty prs ';').mapM parsePair? with
    | some cut, some k, some red, some cost, some prs =>
      if !(Uno.isSquare k red) || !(Uno.isSquare k cost) then "bad-op" else
      let r := Uno.matOf red
      let c := Uno.matOf cost
      let edges := Uno.zeroEdges k r cut
      let ms := Uno.matchings k (Uno.edgeB r cut)
      let gap := match Assign.certGap k k c r prs with
        | some g => showRat g
        | none => "notassign"
      s!"ok edges={";".intercalate (edges.map fun e => s!"{e.1},{e.2}")} m={";".intercalate (ms.map showNatList)} gap={gap}"
    | _, _, _, _, _ => "bad-op"
  | _ => "bad-op"

def classSizes (rf : List Nat) : List Nat := (B787.firstSeen rf).map fun k => (B787.positions k rf).length

def stepO (f : List String) : String :=
  match f with
  | [cut, rf, cu, reds] =>
    match parseRat? cut, parseNatList? rf ' ', parseNatList? cu ' ', (splitOnChar reds '#').mapM parseMat? with
    | some cut, some rf, some cu, some reds =>
      let sizes := classSizes rf
      if rf.length != cu.length then "bad-op"
      else if rf.isPerm cu && (reds.length != sizes.length || !((sizes.zip reds).all fun kr => Uno.isSquare kr.1 kr.2)) then "bad-op"
      else
      match Uno.candidatesUno cut rf cu (reds.map Uno.matOf) with
      | .ok l => "ok " ++ ";".intercalate (l.map showNatList)
      | .error .validation => "err validation"
      | .error .noSolution => "err noSolution"
    | _, _, _, _ => "bad-op"
  | _ => "bad-op"

def stepM (f : List String) : String :=
  match f with
  | [rf, cu, rr, cc] =>
    match parseNatList? rf ' ', parseNatList? cu ' ', parseMat? rr, parseMat? cc with
    | some rf, some cu, some rr, some cc =>
      let n := rf.length
      if cu.length != n || !(Uno.isSquare n rr) || !(Uno.isSquare n cc) then "bad-op"
      else if !(rf.isPerm cu) then "err validation"
      else
        let nR := Uno.matOf rr
        let nC := Uno.matOf cc
        "ok " ++ "#".intercalate ((B787.firstSeen rf).map fun k =>
          let rgp := B787.positions k rf
          let cgp := B787.positions k cu
          showMat rgp.length (Uno.classCost nR nC rgp cgp))
    | _, _, _, _ => "bad-op"
  | _ => "bad-op"

def stepN (f : List String) : String :=
  match f with
  | [r] =>
    match (parseRats? r).bind toV3s with
    | some R =>
      if R.isEmpty then "bad-op" else
      let c := centre R
      let g := maxCross2 c
      let (g', i, j) := argCross2 0 c (0, 0, 0)
      let ni := match c[i]? with | some v => v.nrm2 | none => 0
      let nj := match c[j]? with | some v => v.nrm2 | none => 0
      let lmax := c.foldl (fun m v => max m v.nrm2) 0
      s!"ok g={sr g} arg={sr g'} i={i} j={j} ni2={sr ni} nj2={sr nj} lmax2={sr lmax}"
    | none => "bad-op"
  | _ => "bad-op"

def stepR (f : List String) : String :=
  match f with
  | [d, a, b, c] =>
    match parseRat? d, parseRat? a, parseRat? b, parseRat? c with
    | some d, some u1, some u2, some u3 =>
      let z := u3 * 2 * d
      if z < 0 || 2 < z then "err domain" else
      let M := RandRot.randomRotationMatrixQ d u1 u2 u3
      let theta := (u1 - 1 / 2) * d * RandRot.twoPiQ
      let phi := u2 * RandRot.twoPiQ
      let nt := RandRot.sinQ theta ^ 2 + RandRot.cosQ theta ^ 2 - 1
      let np := RandRot.sinQ phi ^ 2 + RandRot.cosQ phi ^ 2 - 1
      let V := RandRot.poleVector (RandRot.sinQ phi) (RandRot.cosQ phi) (RandRot.sqrtQ z) (RandRot.sqrtQ (2 - z))
      let nv := V.nrm2 - 2
      let E := M.mul M.transpose
      let I : M3 Rat := M3.one
      let orth := [E.a00 - I.a00, E.a01 - I.a01, E.a02 - I.a02, E.a10 - I.a10, E.a11 - I.a11, E.a12 - I.a12,
        E.a20 - I.a20, E.a21 - I.a21, E.a22 - I.a22].foldl (fun m x => max m |x|) 0
      s!"ok M={srs [M.a00, M.a01, M.a02, M.a10, M.a11, M.a12, M.a20, M.a21, M.a22]} nt={sr nt} np={sr np} nv={sr nv} orth={sr orth} det1={sr (M.det - 1)}"
    | _, _, _, _ => "bad-op"
  | _ => "bad-op"

def stepC12 (line : String) : String :=
  match splitOnChar line '|' with
  | "K" :: f => stepK f
  | "KS" :: f => stepKS f
  | "BS" :: f => stepBS f
  | "PS" :: f => stepPS f
  | "B" :: f => stepB f
  | "P" :: f => stepP f
  | "U" :: f => stepU f
  | "O" :: f => stepO f
  | "M" :: f => stepM f
  | "N" :: f => stepN f
  | "R" :: f => stepR f
  | _ => "bad-op"

def main : IO Unit := mainLoop stepC12
