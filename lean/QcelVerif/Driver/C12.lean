import QcelVerif.Model.Kabsch
import QcelVerif.Model.B787
import QcelVerif.Lib.Proto
/-!
Line-protocol driver for the C12 models (all numbers are exact rationals `p/q`).

* `K|mirror|amap|R|C|q|delta|eps`
    one Kabsch trial as `B787` runs it (align.py:194-200 / 219-227): `C` is the *original* concern
    geometry, the model mirrors / reorders it, runs `kabschAlign` with the captured eigenvector `q`,
    applies the resulting recipe with `alignCoords` and reports everything exactly, plus the verdict of
    the proved certificate checker `isTopEig`.
* `B|runMirror|superimposable|runToCompletion|aconv|plain,mir;plain,mir;…`   the trial loop
* `P|rtol|atol|ref|cur|RR|CC`   permutative candidate orderings
-/
open QcelVerif QcelVerif.Proto QcelVerif.Kabsch

def parseRats? (s : String) : Option (List Rat) := (splitNonEmpty s ' ').mapM parseRat?

def toV3s : List Rat → Option (List (V3 Rat))
  | [] => some []
  | x :: y :: z :: t => (toV3s t).map (fun l => ⟨x, y, z⟩ :: l)
  | _ => none

def parseBool? (s : String) : Option Bool :=
  match trimStr s with
  | "1" => some true
  | "0" => some false
  | _ => none

def sr (r : Rat) : String := showRat r
def srs (l : List Rat) : String := ",".intercalate (l.map showRat)

def stepK (f : List String) : String :=
  match f with
  | [mi, am, r, c, q, de, ep] =>
    match parseBool? mi, parseNatList? am ' ', (parseRats? r).bind toV3s, (parseRats? c).bind toV3s, parseRats? q,
      parseRat? de, parseRat? ep with
    | some mi, some am, some R, some C, some [q0, q1, q2, q3], some de, some ep =>
      if R.length != C.length || am.length != R.length || R.isEmpty then "bad-op" else
      let Cm := if mi then C.map V3.mirrorY else C
      match am.mapM (fun i => Cm[i]?) with
      | none => "err index"
      | some Cord =>
        let q : Q4 Rat := ⟨q0, q1, q2, q3⟩
        let o := kabschAlign R Cord q
        match alignCoords mi o.T o.U am C with
        | none => "err index"
        | some al =>
          let fin2 := dist2 al R
          let cert := isTopEig o.F q de ep
          let U := o.U
          let F := o.F
          s!"ok sc={if o.shortcut then 1 else 0} cert={if cert then 1 else 0} U={srs [U.a00, U.a01, U.a02, U.a10, U.a11, U.a12, U.a20, U.a21, U.a22]} T={srs [o.T.x, o.T.y, o.T.z]} res2={sr o.res2} fin2={sr fin2} F={srs [F.f00, F.f01, F.f02, F.f03, F.f11, F.f12, F.f13, F.f22, F.f23, F.f33]} lam={sr o.lam} n2={sr o.n2} sr2={sr o.sr2} sc2={sr o.sc2}"
    | _, _, _, _, _, _, _ => "bad-op"
  | _ => "bad-op"

def parseTrial? (s : String) : Option B787.Trial :=
  match splitOnChar s ',' with
  | [a, b] => do
    let a ← parseInt? a
    let b ← parseInt? b
    pure ⟨a, b⟩
  | _ => none

def stepB (f : List String) : String :=
  match f with
  | [rm, su, rtc, ac, tr] =>
    match parseBool? rm, parseBool? su, parseBool? rtc, parseInt? ac, (splitNonEmpty tr ';').mapM parseTrial? with
    | some rm, some su, some rtc, some ac, some trials =>
      match B787.run { runMirror := rm, superimposable := su, runToCompletion := rtc, aconv := ac } trials with
      | .ok st =>
        match st.sel with
        | some (i, m) => s!"ok sel={i} mirror={if m then 1 else 0} best={st.best} ocount={st.ocount}"
        | none => "err noSolution"
      | .error .noSolution => "err noSolution"
      | .error .validation => "err validation"
    | _, _, _, _, _ => "bad-op"
  | _ => "bad-op"

def parseMat? (s : String) : Option (List (List Rat)) := (splitNonEmpty s ';').mapM parseRats?

def stepP (f : List String) : String :=
  match f with
  | [rtol, atol, rf, cu, rr, cc] =>
    match parseRat? rtol, parseRat? atol, parseNatList? rf ' ', parseNatList? cu ' ', parseMat? rr, parseMat? cc with
    | some rtol, some atol, some rf, some cu, some rr, some cc =>
      match B787.candidates rtol atol rf cu rr cc with
      | .ok l => "ok " ++ ";".intercalate (l.map showNatList)
      | .error .validation => "err validation"
      | .error .noSolution => "err noSolution"
    | _, _, _, _, _, _ => "bad-op"
  | _ => "bad-op"

def stepC12 (line : String) : String :=
  match splitOnChar line '|' with
  | "K" :: f => stepK f
  | "B" :: f => stepB f
  | "P" :: f => stepP f
  | _ => "bad-op"

def main : IO Unit := mainLoop stepC12
