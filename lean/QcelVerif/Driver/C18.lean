import QcelVerif.Model.Measure
import QcelVerif.Model.MeasureSrc
import QcelVerif.Lib.Proto
/-!
Line-protocol driver for the C18 model, executed at `K = ℚ` (every double is an exact rational).
Fields are separated by `|`, points are `x,y,z` (rationals `p/q`), point lists are `;`-separated.

  D|p;q                      -> D d2
  A|p1;p2;p3                 -> A dot nn
  H|p1;p2;p3;p4              -> H xn y n
  BD|l1|l2                   -> BD v v …            | BD err Broadcast
  BA|l1|l2|l3                -> BA dot:nn …         | BA err Broadcast
  BH|l1|l2|l3|l4             -> BH xn:y:n …         | BH err Broadcast
  DM|la|lb                   -> DM r00 r01;r10 r11
  M|coords|S|i,j             -> M one D:d2          | M err ValueError / KeyError / IndexError
  M|coords|L|i,j;i,j,k       -> M many D:d2 A:dot:nn  (`-` = empty list, empty field = one empty measurement)
  C|thr|dc|r:x,y,z;…         -> C 0-1 0-2   (dc = N or rational; with truthy dc: 0-1:dc)
  RIG|a,b,c,d|h|t|pts        -> RIG x,y,z;…   p ↦ Hh(quatRot(a,b,c,d) p) + t  (h = N: no reflection)

THREE-WAY: every D / A / H / BD / BA / BH / C answer is computed twice — by the hand model
(`Model/Measure.lean`) and by the exact evaluators of `Model/MeasureAst.lean` on the terms that
`harness/c18_src.py` regenerated from the source (`Gen/MeasureSrc.lean`, through `Model/MeasureSrc.lean`).
If the two agree the line is printed as above; otherwise `SRCDIFF <hand line> ## <source-derived line>`
(`## undefined` when the generated term is outside the shape the exact evaluator handles).
-/
open QcelVerif QcelVerif.Measure QcelVerif.Proto QcelVerif.MeasureSrc

abbrev Q := Rat

def parseV3? (s : String) : Option (V3 Q) :=
  match splitOnChar s ',' with
  | [a, b, c] => do
      let x ← parseRat? a
      let y ← parseRat? b
      let z ← parseRat? c
      pure ⟨x, y, z⟩
  | _ => none

def parsePts? (s : String) : Option (List (V3 Q)) :=
  if (trimStr s).isEmpty then none else (splitOnChar s ';').mapM parseV3?

def showV3 (v : V3 Q) : String := s!"{showRat v.x},{showRat v.y},{showRat v.z}"

def showErr : Err → String
  | .valueError => "ValueError"
  | .keyError => "KeyError"
  | .indexError => "IndexError"
  | .broadcast => "Broadcast"

def showMeas : Meas Q → String
  | .dist d => s!"D:{showRat d}"
  | .angle a b => s!"A:{showRat a}:{showRat b}"
  | .dihedral a b c => s!"H:{showRat a}:{showRat b}:{showRat c}"

def parseMeasList? (s : String) : Option (List Int) :=
  if (trimStr s).isEmpty then some [] else (splitOnChar s ',').mapM parseInt?

def parseAtom? (s : String) : Option (Atom Q) :=
  match splitOnChar s ':' with
  | [r, p] => do
      let r ← parseRat? r
      let p ← parseV3? p
      pure ⟨r, p⟩
  | _ => none

/-- hand line vs source-derived line -/
def threeWay (hand : String) (src : Option String) : String :=
  match src with
  | some s => if s == hand then hand else s!"SRCDIFF {hand} ## {s}"
  | none => s!"SRCDIFF {hand} ## undefined"

def allSome {α : Type} : List (Option α) → Option (List α)
  | [] => some []
  | none :: _ => none
  | some a :: rest => (allSome rest).map (a :: ·)

def showA (v : Q × Q) : String := s!"{showRat v.1}:{showRat v.2}"
def showH (v : Q × Q × Q) : String := s!"{showRat v.1}:{showRat v.2.1}:{showRat v.2.2}"

/-- source-derived rows under the hand model's handling of the leading axis (`bcast`) -/
def srcRowsD (a b : List (V3 Q)) : Option (List Q) :=
  let n := max a.length b.length
  match bcast n a, bcast n b with
  | .ok a, .ok b => allSome (List.zipWith srcDistSq a b)
  | _, _ => none

def srcRowsA (a b c : List (V3 Q)) : Option (List (Q × Q)) :=
  let n := max (max a.length b.length) c.length
  match bcast n a, bcast n b, bcast n c with
  | .ok a, .ok b, .ok c => allSome (zipWith3 srcAngleArgs a b c)
  | _, _, _ => none

def srcRowsH (a b c d : List (V3 Q)) : Option (List (Q × Q × Q)) :=
  let n := max (max a.length b.length) (max c.length d.length)
  match bcast n a, bcast n b, bcast n c, bcast n d with
  | .ok a, .ok b, .ok c, .ok d => allSome (zipWith4 srcDihedralArgs a b c d)
  | _, _, _, _ => none

def stepC18 (line : String) : String :=
  match splitOnChar line '|' with
  | ["D", pts] =>
    match parsePts? pts with
    | some [p, q] => threeWay s!"D {showRat (distSq p q)}" ((srcDistSq p q).map fun d => s!"D {showRat d}")
    | _ => "bad-op"
  | ["A", pts] =>
    match parsePts? pts with
    | some [p, q, r] =>
      let a := angleArgs p q r
      threeWay s!"A {showRat a.1} {showRat a.2}"
        ((srcAngleArgs p q r).map fun a => s!"A {showRat a.1} {showRat a.2}")
    | _ => "bad-op"
  | ["H", pts] =>
    match parsePts? pts with
    | some [p, q, r, s] =>
      let a := dihedralArgs p q r s
      threeWay s!"H {showRat a.1} {showRat a.2.1} {showRat a.2.2}"
        ((srcDihedralArgs p q r s).map fun a => s!"H {showRat a.1} {showRat a.2.1} {showRat a.2.2}")
    | _ => "bad-op"
  | ["BD", l1, l2] =>
    match parsePts? l1, parsePts? l2 with
    | some a, some b =>
      match computeDistanceSq a b with
      | .ok vs => threeWay ("BD " ++ " ".intercalate (vs.map showRat))
          ((srcRowsD a b).map fun vs => "BD " ++ " ".intercalate (vs.map showRat))
      | .error e => "BD err " ++ showErr e
    | _, _ => "bad-op"
  | ["BA", l1, l2, l3] =>
    match parsePts? l1, parsePts? l2, parsePts? l3 with
    | some a, some b, some c =>
      match computeAngleArgs a b c with
      | .ok vs => threeWay ("BA " ++ " ".intercalate (vs.map showA))
          ((srcRowsA a b c).map fun vs => "BA " ++ " ".intercalate (vs.map showA))
      | .error e => "BA err " ++ showErr e
    | _, _, _ => "bad-op"
  | ["BH", l1, l2, l3, l4] =>
    match parsePts? l1, parsePts? l2, parsePts? l3, parsePts? l4 with
    | some a, some b, some c, some d =>
      match computeDihedralArgs a b c d with
      | .ok vs => threeWay ("BH " ++ " ".intercalate (vs.map showH))
          ((srcRowsH a b c d).map fun vs => "BH " ++ " ".intercalate (vs.map showH))
      | .error e => "BH err " ++ showErr e
    | _, _, _, _ => "bad-op"
  | ["DM", l1, l2] =>
    match parsePts? l1, parsePts? l2 with
    | some a, some b =>
      "DM " ++ ";".intercalate ((distanceMatrixSq a b).map fun r => " ".intercalate (r.map showRat))
    | _, _ => "bad-op"
  | ["M", cs, kind, ms] =>
    match parsePts? cs with
    | some coords =>
      let spec? : Option MSpec :=
        if kind == "S" then (parseMeasList? ms).map MSpec.single
        else if kind == "L" then
          if trimStr ms == "-" then some (MSpec.multi [])
          else ((splitOnChar ms ';').mapM parseMeasList?).map MSpec.multi
        else none
      match spec? with
      | some spec =>
        match measureCoordinates coords spec with
        | .ok (.one v) => "M one " ++ showMeas v
        | .ok (.many vs) => "M many " ++ " ".intercalate (vs.map showMeas)
        | .error e => "M err " ++ showErr e
      | none => "bad-op"
    | none => "bad-op"
  | ["C", thr, dc, atoms] =>
    let dc? : Option (Option Q) := if trimStr dc == "N" then some none else (parseRat? dc).map some
    match parseRat? thr, dc?, (splitOnChar atoms ';').mapM parseAtom? with
    | some thr, some dc, some atoms =>
      let con := guessConnectivityDC thr dc atoms
      let showPairs (l : List (Nat × Nat)) : String :=
        trimStr ("C " ++ " ".intercalate (l.map fun (i, j) => s!"{i}-{j}"))
      let hand := trimStr ("C " ++ " ".intercalate (con.map fun (i, j, v) =>
        match v with
        | none => s!"{i}-{j}"
        | some v => s!"{i}-{j}:{showRat v}"))
      -- the pair list (before default_connectivity is attached) against the loop regenerated from the source
      let handPairs := guessConnectivity thr atoms
      if !srcConnExactDefined thr atoms then s!"SRCDIFF {hand} ## undefined"
      else
        let src := srcConnExact thr atoms
        if src == handPairs then hand else s!"SRCDIFF {hand} ## {showPairs src}"
    | _, _, _ => "bad-op"
  | ["RIG", q, h, t, pts] =>
    match splitOnChar q ',', parseV3? t, parsePts? pts with
    | [a, b, c, d], some t, some pts =>
      match parseRat? a, parseRat? b, parseRat? c, parseRat? d with
      | some a, some b, some c, some d =>
        if a * a + b * b + c * c + d * d = 0 then "bad-op" else
        let R := quatRot a b c d
        let hm? : Option (Option (M3 Q)) :=
          if trimStr h == "N" then some none
          else match parseV3? h with
            | some hv => if V3.nsq hv = 0 then none else some (some (householder hv))
            | none => none
        match hm? with
        | some hm =>
          let f : V3 Q → V3 Q := fun p =>
            let rp := R.mulVec p
            (match hm with | some H => H.mulVec rp | none => rp) + t
          "RIG " ++ ";".intercalate (pts.map fun p => showV3 (f p))
        | none => "bad-op"
      | _, _, _, _ => "bad-op"
    | _, _, _ => "bad-op"
  | _ => "bad-op"

def main : IO Unit := mainLoop stepC18
