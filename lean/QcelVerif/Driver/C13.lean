import QcelVerif.Model.Mill
import QcelVerif.Model.MillSrc
import QcelVerif.Lib.Proto
/-!
Line-protocol driver for the C13 model (`Model/Mill.lean`) at `K = Rat`.

Fields are separated by `|`, numbers inside a field by blanks; numbers are exact rationals `p/q`
(the harness sends `fractions.Fraction(double)`), answers are `ok r1 r2 …` (C order),
`err IndexError` (atom map entry out of range) or `bad-op` (unparsable / wrong shape).

    coords|rev|mirror|shift(3)|rot(9)|map(m)|geom(3n)
    grad|mirror|shift|rot|map|grad(3n)
    hess|mirror|shift|rot|map|hess((3n)^2)
    vec|mirror|shift|rot|map|vec(3)              (map may be empty)
    vecgrad|mirror|shift|rot|map(n)|mu(3*3n)
    atoms|map(m)|ints(n)
    bexp|gr gc lr lc|a((gr*lr)*(gc*lc))          -> 4-D (gr,gc,lr,lc) in C order
    bcon|gr gc lr lc|b(gr*gc*lr*lc)              -> 2-D (gr*lr, gc*lc) in C order

Every line may be prefixed with `src|`: the same operation is then evaluated with the SOURCE-DERIVED
function (`Model/MillSrc.lean` = `evalMill` of the AST that `harness/c13_src.py` regenerated from
align.py / np_blockwise.py into `Gen/MillSrc.lean`) instead of the hand model of `Model/Mill.lean`.
The harness sends every case line both ways (three-way: implementation, hand model, source-derived).
For `src|bexp` / `src|bcon` an entry the source-derived view cannot produce (assert failed, read
outside the buffer, numpy ValueError) gives `err ViewError`.
-/
open QcelVerif QcelVerif.Mill QcelVerif.Proto

def parseRats? (s : String) : Option (Array Rat) :=
  ((splitNonEmpty s ' ').mapM parseRat?).map List.toArray

def parseBool? (s : String) : Option Bool :=
  let t := trimStr s
  if t == "1" then some true else if t == "0" then some false else none

def fins (n : Nat) : List (Fin n) :=
  (List.range n).filterMap fun i => if h : i < n then some ⟨i, h⟩ else none

def showRats (l : List Rat) : String := "ok " ++ " ".intercalate (l.map showRat)

/-- a length-checked `(n,3)` array -/
def geomOf (a : Array Rat) (n : Nat) : Geom Rat n := fun i c => a[i.val * 3 + c.val]!
def mat3Of (a : Array Rat) : Mat3 Rat := fun i c => a[i.val * 3 + c.val]!
def vec3Of (a : Array Rat) : Vec3 Rat := fun c => a[c.val]!

def dumpGeom {m : Nat} (g : Geom Rat m) : String :=
  showRats ((fins m).flatMap fun i => (fins 3).map fun c => g i c)

/-- atom map entries must index `n` rows (numpy raises IndexError otherwise; negative indices are
outside the protocol: they do not parse) -/
def mapOf? (l : List Nat) (n : Nat) : Option (Array (Fin n)) :=
  (l.mapM fun v => if h : v < n then some (⟨v, h⟩ : Fin n) else none).map List.toArray

structure RawRecipe where
  mirror : Bool
  shift : Array Rat
  rot : Array Rat
  map : List Nat

def parseRecipe? (mi sh ro mp : String) : Option RawRecipe := do
  let mirror ← parseBool? mi
  let shift ← parseRats? sh
  let rot ← parseRats? ro
  let map ← parseNatList? mp ' '
  if shift.size != 3 || rot.size != 9 then none
  else some { mirror, shift, rot, map }

def mkRecipe (rr : RawRecipe) (n : Nat) (mp : Array (Fin n)) : Recipe Rat n mp.size :=
  { shift := vec3Of rr.shift, rot := mat3Of rr.rot, map := fun i => mp[i], mirror := rr.mirror }

def isqrt (n : Nat) : Nat := Id.run do
  let mut r := 0
  while (r + 1) * (r + 1) ≤ n do r := r + 1
  return r

/-- the functions a line is evaluated with: the hand model or the source-derived one -/
structure MillFns where
  coords : {n m : Nat} → Recipe Rat n m → Bool → Geom Rat n → Geom Rat m
  grad : {n m : Nat} → Recipe Rat n m → Geom Rat n → Geom Rat m
  hess : {n m : Nat} → Recipe Rat n m → Hess Rat n → Hess Rat m
  vec : {n m : Nat} → Recipe Rat n m → Vec3 Rat → Vec3 Rat
  vecgrad : {n : Nat} → Recipe Rat n n → (Fin 3 → Fin (n * 3) → Rat) → Fin 3 → Fin (n * 3) → Rat
  atoms : {n m : Nat} → (Fin m → Fin n) → (Fin n → Int) → Fin m → Int
  bexp : {gr gc lr lc : Nat} → (Fin (gr * lr) → Fin (gc * lc) → Rat) →
    Fin gr → Fin gc → Fin lr → Fin lc → Option Rat
  /-- resulting 2-D array: shape and entry `[r, c]` -/
  bcon : {gr gc lr lc : Nat} → (Fin gr → Fin gc → Fin lr → Fin lc → Rat) →
    Option (Nat × Nat × (Nat → Nat → Option Rat))

def handFns : MillFns where
  coords := fun r rv x => if rv then alignCoordsRev r x else alignCoords r x
  grad := fun r g => alignGradient r g
  hess := fun r h => alignHessian r h
  vec := fun r v => alignVector r v
  vecgrad := fun r mu => alignVectorGradient r mu
  atoms := fun mp a => alignAtoms mp a
  bexp := fun a i j p q => some (blockwiseExpand a i j p q)
  bcon := fun {gr gc lr lc} b =>
    some (gr * lr, gc * lc, fun r c =>
      if h : r < gr * lr ∧ c < gc * lc then some (blockwiseContract b ⟨r, h.1⟩ ⟨c, h.2⟩) else none)

def srcFns : MillFns where
  coords := fun r rv x => Src.alignCoordsKw r rv x
  grad := fun r g => Src.alignGradient r g
  hess := fun r h => Src.alignHessian r h
  vec := fun r v => Src.alignVector r v
  vecgrad := fun r mu => Src.alignVectorGradient r mu
  atoms := fun mp a => Src.alignAtoms mp a
  bexp := fun {_ _ lr lc} a i j p q =>
    evalExpand Src.genAST_blockwise_expand a [lr, lc] [i.val, j.val, p.val, q.val]
  bcon := fun b =>
    match evalContract Src.genAST_blockwise_contract b with
    | some ([h, w], f) => some (h, w, fun r c => FlatArr.get2 ([h, w], f) r c)
    | _ => none

def showOptRats (l : List (Option Rat)) : String :=
  match l.mapM id with
  | some l => showRats l
  | none => "err ViewError"

def stepWith (F : MillFns) (fields : List String) : String :=
  match fields with
  | ["coords", rv, mi, sh, ro, mp, ge] =>
    match parseBool? rv, parseRecipe? mi sh ro mp, parseRats? ge with
    | some rv, some rr, some g =>
      if g.size % 3 != 0 then "bad-op" else
      let n := g.size / 3
      match mapOf? rr.map n with
      | none => "err IndexError"
      | some m =>
        let r := mkRecipe rr n m
        dumpGeom (F.coords r rv (geomOf g n))
    | _, _, _ => "bad-op"
  | ["grad", mi, sh, ro, mp, ge] =>
    match parseRecipe? mi sh ro mp, parseRats? ge with
    | some rr, some g =>
      if g.size % 3 != 0 then "bad-op" else
      let n := g.size / 3
      match mapOf? rr.map n with
      | none => "err IndexError"
      | some m => dumpGeom (F.grad (mkRecipe rr n m) (geomOf g n))
    | _, _ => "bad-op"
  | ["hess", mi, sh, ro, mp, he] =>
    match parseRecipe? mi sh ro mp, parseRats? he with
    | some rr, some h =>
      let d := isqrt h.size
      if d * d != h.size || d % 3 != 0 then "bad-op" else
      let n := d / 3
      match mapOf? rr.map n with
      | none => "err IndexError"
      | some m =>
        let H : Hess Rat n := fun r c => h[r.val * (n * 3) + c.val]!
        let A := F.hess (mkRecipe rr n m) H
        showRats ((fins (m.size * 3)).flatMap fun r => (fins (m.size * 3)).map fun c => A r c)
    | _, _ => "bad-op"
  | ["vec", mi, sh, ro, mp, ve] =>
    match parseRecipe? mi sh ro mp, parseRats? ve with
    | some rr, some v =>
      if v.size != 3 then "bad-op" else
      -- align_vector never touches the atom map; build the recipe over as many atoms as the map needs
      let n := rr.map.foldl (fun acc x => max acc (x + 1)) 0
      match mapOf? rr.map n with
      | none => "bad-op"
      | some m =>
        let w := F.vec (mkRecipe rr n m) (vec3Of v)
        showRats ((fins 3).map w)
    | _, _ => "bad-op"
  | ["vecgrad", mi, sh, ro, mp, mu] =>
    match parseRecipe? mi sh ro mp, parseRats? mu with
    | some rr, some u =>
      if u.size % 9 != 0 then "bad-op" else
      let n := u.size / 9
      match mapOf? rr.map n with
      | none => "err IndexError"
      | some m =>
        if hm : m.size = n then
          let r : Recipe Rat n n :=
            { shift := vec3Of rr.shift, rot := mat3Of rr.rot, mirror := rr.mirror,
              map := fun i => m[i.val]'(by rw [hm]; exact i.isLt) }
          let M : Fin 3 → Fin (n * 3) → Rat := fun a c => u[a.val * (n * 3) + c.val]!
          let A := F.vecgrad r M
          showRats ((fins 3).flatMap fun a => (fins (n * 3)).map fun c => A a c)
        else "bad-op"
    | _, _ => "bad-op"
  | ["atoms", mp, ats] =>
    match parseNatList? mp ' ', parseIntList? ats ' ' with
    | some mp, some ats =>
      let a := ats.toArray
      match mapOf? mp a.size with
      | none => "err IndexError"
      | some m =>
        let r := F.atoms (fun i : Fin m.size => m[i]) (fun i : Fin a.size => a[i])
        "ok " ++ " ".intercalate ((fins m.size).map fun i => toString (r i))
    | _, _ => "bad-op"
  | ["bexp", dims, dat] =>
    match parseNatList? dims ' ', parseRats? dat with
    | some [gr, gc, lr, lc], some a =>
      if a.size != (gr * lr) * (gc * lc) then "bad-op" else
      let A : Fin (gr * lr) → Fin (gc * lc) → Rat := fun r c => a[r.val * (gc * lc) + c.val]!
      let B := F.bexp A
      showOptRats ((fins gr).flatMap fun i => (fins gc).flatMap fun j =>
        (fins lr).flatMap fun p => (fins lc).map fun q => B i j p q)
    | _, _ => "bad-op"
  | ["bcon", dims, dat] =>
    match parseNatList? dims ' ', parseRats? dat with
    | some [gr, gc, lr, lc], some b =>
      if b.size != gr * gc * lr * lc then "bad-op" else
      let B : Fin gr → Fin gc → Fin lr → Fin lc → Rat :=
        fun i j p q => b[((i.val * gc + j.val) * lr + p.val) * lc + q.val]!
      match F.bcon B with
      | none => "err ViewError"
      | some (h, w, A) =>
        -- the shape is part of the answer: a result of another shape than (gr*lr, gc*lc) is reported
        if h != gr * lr || w != gc * lc then s!"err shape {h} {w}" else
        showOptRats ((List.range h).flatMap fun r => (List.range w).map fun c => A r c)
    | _, _ => "bad-op"
  | _ => "bad-op"

def stepC13 (line : String) : String :=
  match splitOnChar line '|' with
  | "src" :: rest => stepWith srcFns rest
  | fields => stepWith handFns fields

def main : IO Unit := mainLoop stepC13
