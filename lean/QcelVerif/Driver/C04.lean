import QcelVerif.Model.FromArrays
import QcelVerif.Gen.FromArraysSrc
import QcelVerif.Lib.Proto
/-!
Line-protocol driver for the C04 model (`from_arrays`, `from_schema`).

One case per line, 26 fields separated by `|`:

  0 op `FA` | `FS` (hand model Model/FromArrays.lean) | `FAs` | `FSs` (the same call answered by the pipeline whose geometry /
    nuclei / fragment stages are the programs GENERATED from the source, Gen/FromArraysSrc.lean, run by the evaluator of
    Model/FromArraysAst.lean; `src-untranslated` when the translator did not recognise the source)
  1 `minimal speclabel nonphysical zgf mtol tooclose angToAu`  (T/F and rationals, blank-separated)
  2 geom  3 elea  4 elez  5 elem  6 mass  7 real  8 elbl        (`~` absent | `L`item,item,…)
  9 name  10 comment  11 units  12 input_units_to_au  13 fix_com  14 fix_orientation  15 fix_symmetry
  16 fragment_separators  17 fragment_charges  18 fragment_multiplicities  19 molecular_charge  20 molecular_multiplicity
  21 connectivity (`~` | `L`a:b:order,…; `x` = not integer-valued index; any other arity = malformed tuple)
  22 schema_name  23 schema_version  24 fragments (`~` | `L`0:1:2,e,3)     (op FS only)
  25 reconciler table: `;`-separated entries `speclabel,nonphysical,mtol,A,Z,E,mass,real,label=ok,A,Z,E,mass,real,label`
     or `…=err,<class>` — the answers of the implementation's own `reconcile_nucleus`

Items: `~` = None, strings `'text` (leading quote), booleans `T`/`F`, rationals `p/q`.
Anything that does not parse is answered with `bad-op` (never defaulted).
-/
open QcelVerif QcelVerif.FromArrays QcelVerif.Proto

namespace C04Drv

def pStr? (s : String) : Option String :=
  match s.toList with
  | '\'' :: t => some (String.ofList t)
  | _ => none

def pChars? (s : String) : Option (List Char) := (pStr? s).map String.toList

def pOpt {α} (p : String → Option α) (s : String) : Option (Option α) :=
  if s == "~" then some none else (p s).map some

def pBool? (s : String) : Option Bool :=
  if s == "T" then some true else if s == "F" then some false else none

def pList {α} (p : String → Option α) (s : String) : Option (List α) :=
  match s.toList with
  | 'L' :: t => if t.isEmpty then some [] else (splitOnChar (String.ofList t) ',').mapM p
  | _ => none

def pOptList {α} (p : String → Option α) (s : String) : Option (Option (List α)) :=
  if s == "~" then some none else (pList p s).map some

def pTri? (s : String) : Option Tri :=
  if s == "~" then some .none else if s == "T" then some .tt else if s == "F" then some .ff
  else if s == "X" then some .other else none

def pIdx? (s : String) : Option (Option Int) :=
  if s == "x" then some none else (parseInt? s).map some

def pBond? (s : String) : Option BondIn :=
  match splitOnChar s ':' with
  | [a, b, o] => do
      let a ← pIdx? a
      let b ← pIdx? b
      let o ← parseRat? o
      pure (.mk a b o)
  | _ => some .bad

def pFrag? (s : String) : Option (List Nat) :=
  if s == "e" then some [] else (splitOnChar s ':').mapM parseNat?

abbrev Table := List ((NucSettings × Clue) × Except Err Nuc)

def pEntry? (s : String) : Option ((NucSettings × Clue) × Except Err Nuc) :=
  match splitOnChar s '=' with
  | [k, r] =>
    match splitOnChar k ',' with
    | [sl, np, mtol, a, z, e, m, rl, lb] => do
      let sl ← pBool? sl
      let np ← pBool? np
      let mtol ← parseRat? mtol
      let a ← pOpt parseInt? a
      let z ← pOpt parseInt? z
      let e ← pOpt pStr? e
      let m ← pOpt parseRat? m
      let rl ← pOpt pBool? rl
      let lb ← pOpt pStr? lb
      let key : NucSettings × Clue :=
        ({ speclabel := sl, nonphysical := np, mtol := mtol },
         { A := a, Z := z, E := e, mass := m, real := rl, label := lb })
      match splitOnChar r ',' with
      | ["ok", a, z, e, m, rl, lb] => do
        let a ← parseInt? a
        let z ← parseInt? z
        let e ← pStr? e
        let m ← parseRat? m
        let rl ← pBool? rl
        let lb ← pStr? lb
        pure (key, .ok { A := a, Z := z, E := e, mass := m, real := rl, label := lb })
      | ["err", cls] =>
        pure (key, .error (if cls == "Validation" then .validation else .other cls))
      | _ => none
    | _ => none
  | _ => none

def pTable? (s : String) : Option Table :=
  if s.isEmpty then some [] else (splitOnChar s ';').mapM pEntry?

def tableRec (t : Table) : Reconciler := fun st c =>
  match t.find? (fun e => decide (e.1 = (st, c))) with
  | some e => e.2
  | none => .error (.other "TABLE-MISS")

def sStr (s : String) : String := "'" ++ s
def sChars (s : List Char) : String := "'" ++ String.ofList s
def sOpt {α} (f : α → String) : Option α → String
  | none => "~"
  | some x => f x
def sList {α} (f : α → String) (l : List α) : String := "L" ++ ",".intercalate (l.map f)
def sBool (b : Bool) : String := if b then "T" else "F"
def sBond (b : Bond) : String := s!"{b.1}:{b.2.1}:{showRat b.2.2}"

def showRec (r : Molrec) : String :=
  "|".intercalate
    [ "ok", sChars r.units, sOpt showRat r.iutau, sOpt sStr r.name, sOpt sStr r.comment,
      sOpt (sList sBond) r.conn, sList showRat r.geom,
      sList toString r.elea, sList toString r.elez, sList sStr r.elem, sList showRat r.mass,
      sList sBool r.real, sList sStr r.elbl, sList toString r.seps,
      toString r.c, sList toString r.fc, toString r.m, sList toString r.fm,
      sBool r.fixCom, sBool r.fixOrient, sOpt sChars r.fixSymm ]

def showRes : Except Err Molrec → String
  | .ok r => showRec r
  | .error .validation => "err Validation"
  | .error (.other cls) => "err " ++ cls

def step (line : String) : String :=
  match splitOnChar line '|' with
  | [op, st, geom, elea, elez, elem, mass, real, elbl, name, comment, units, iutau, fcom, forient, fsymm,
     seps, fc, fm, c, m, conn, sname, sver, frags, table] =>
    let r : Option String := do
      let (minimal, speclabel, nonphysical, zgf, mtol, tooclose, angToAu) ←
        match splitOnChar st ' ' with
        | [a, b, c, d, e, f, g] => do
          pure ((← pBool? a), (← pBool? b), (← pBool? c), (← pBool? d), (← parseRat? e), (← parseRat? f), (← parseRat? g))
        | _ => none
      let inp : Inp := {
        geom := ← pOptList parseRat? geom
        elea := ← pOptList (pOpt parseInt?) elea
        elez := ← pOptList (pOpt parseInt?) elez
        elem := ← pOptList (pOpt pStr?) elem
        mass := ← pOptList (pOpt parseRat?) mass
        real := ← pOptList (pOpt pBool?) real
        elbl := ← pOptList (pOpt pStr?) elbl
        name := ← pOpt pStr? name
        comment := ← pOpt pStr? comment
        units := ← pChars? units
        iutau := ← pOpt parseRat? iutau
        fixCom := ← pTri? fcom
        fixOrient := ← pTri? forient
        fixSymm := ← pOpt pChars? fsymm
        seps := ← pOptList parseInt? seps
        fc := ← pOptList (pOpt parseInt?) fc
        fm := ← pOptList (pOpt parseInt?) fm
        c := ← pOpt parseInt? c
        m := ← pOpt parseInt? m
        conn := ← pOptList pBond? conn
        minimal := minimal, speclabel := speclabel, nonphysical := nonphysical
        mtol := mtol, tooclose := tooclose, zgf := zgf }
      let tbl ← pTable? table
      let env : Env := { recon := tableRec tbl, angToAu := angToAu }
      if op == "FA" then
        pure (showRes (fromArrays env inp))
      else if op == "FAs" then
        pure (if Gen.progs.ok then showRes (Src.fromArraysWith Gen.progs env inp) else "src-untranslated")
      else if op == "FSs" then do
        let sname ← pOpt pChars? sname
        let sver ← pOpt parseInt? sver
        let frags ← pOptList pFrag? frags
        pure (if Gen.progs.ok then
          showRes (Src.fromSchemaWith Gen.progs env { schemaName := sname, schemaVersion := sver, fragments := frags, body := inp })
          else "src-untranslated")
      else if op == "FS" then do
        let sname ← pOpt pChars? sname
        let sver ← pOpt parseInt? sver
        let frags ← pOptList pFrag? frags
        pure (showRes (fromSchema env { schemaName := sname, schemaVersion := sver, fragments := frags, body := inp }))
      else none
    r.getD "bad-op"
  | _ => "bad-op"

end C04Drv

def main : IO Unit := mainLoop C04Drv.step
