import QcelVerif.Gen.FromStringFlow
import QcelVerif.Lib.Proto
/-!
Line-protocol driver for the SOURCE-DERIVED text reader of C07 (Model/MolTextFlow.lean run on Gen/FromStringFlow.lean).

  P|<xyz|xyz+|psi4>|<hex of the ASCII text>
      -> the same answer format as Driver/C07.lean's P lines (`ok u=..;…` | `err MoleculeFormat` | `oos`), computed by
         `C07Flow.srcRead Gen.FromStringFlow.prog`: the psi4 route runs the statements regenerated from from_string.py
         (`_filter_universals`, `_filter_mints` / `filter_fragment`, `parse_as_psi4_ish`, the head of `from_string`).
The helpers below are copies of Driver/C07.lean's (drivers cannot import one another: each has a `main`).
-/
open QcelVerif QcelVerif.MolText QcelVerif.Proto

def hexVal? (c : Char) : Option Nat :=
  if c.isDigit then some (c.toNat - 48)
  else if 'a' ≤ c && c ≤ 'f' then some (c.toNat - 87)
  else if 'A' ≤ c && c ≤ 'F' then some (c.toNat - 55)
  else none

def unhex? : List Char → Option (List Char)
  | [] => some []
  | [_] => none
  | a :: b :: t => do
    let x ← hexVal? a
    let y ← hexVal? b
    let r ← unhex? t
    pure (Char.ofNat (x * 16 + y) :: r)

def hexDigit (n : Nat) : Char := if n < 10 then Char.ofNat (48 + n) else Char.ofNat (87 + n)

def hexOf (s : List Char) : String :=
  if s.isEmpty then "-" else String.ofList (s.flatMap fun c => [hexDigit (c.toNat / 16), hexDigit (c.toNat % 16)])

def unhexOpt? (s : String) : Option (List Char) := if s == "-" then some [] else unhex? s.toList

def showNum (p : NumParts) : String :=
  let (n, m, e) := numVal p
  (if n then "-" else "+") ++ toString m ++ "e" ++ toString e

def showOpt {α} (f : α → String) : Option α → String
  | none => "-"
  | some a => f a

def commaJoin (l : List String) : String := if l.isEmpty then "-" else ",".intercalate l

def showProcessed (p : Processed) : String :=
  "ok u=" ++ showOpt (fun b => if b then "B" else "A") p.units ++
  ";com=" ++ (if p.fixCom then "1" else "0") ++
  ";ori=" ++ (if p.fixOrient then "1" else "0") ++
  ";sym=" ++ showOpt hexOf p.fixSym ++
  ";c=" ++ showOpt showNum p.molChg ++
  ";m=" ++ showOpt String.ofList p.molMult ++
  ";elbl=" ++ commaJoin (p.elbl.map hexOf) ++
  ";geom=" ++ commaJoin (p.geom.map showNum) ++
  ";seps=" ++ commaJoin (p.seps.map toString) ++
  ";fc=" ++ (if p.isPsi4 then commaJoin (p.fragChg.map fun o => match o with | none => "N" | some n => showNum n) else "x") ++
  ";fm=" ++ (if p.isPsi4 then commaJoin (p.fragMult.map fun o => match o with | none => "N" | some n => String.ofList n) else "x") ++
  ";efp=" ++ commaJoin (p.efp.map fun (f, h) => ":".intercalate (hexOf f :: h.map showNum))

def dtypeOf? (s : String) : Option Dtype :=
  if s == "xyz" then some .xyz else if s == "xyz+" then some .xyzPlus else if s == "psi4" then some .psi4 else none


def stepC07d (line : String) : String :=
  match splitOnChar line '|' with
  | ["P", dt, hx] =>
    (match dtypeOf? dt, unhexOpt? hx with
     | some d, some txt =>
       (match C07Flow.srcRead Gen.FromStringFlow.prog d txt with
        | .ok p => showProcessed p
        | .formatError => "err MoleculeFormat"
        | .outOfScope => "oos")
     | _, _ => "bad-op")
  | _ => "bad-op"

def main : IO Unit := mainLoop stepC07d
