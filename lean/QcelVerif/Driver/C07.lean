import QcelVerif.Model.MolText
import QcelVerif.Lib.Proto
/-!
Line-protocol driver for the C07 models.

  P|<xyz|xyz+|psi4>|<hex of the ASCII text>
      -> `ok u=..;com=..;ori=..;sym=..;c=..;m=..;elbl=..;geom=..;seps=..;fc=..;fm=..;efp=..`   (processed record)
       | `err MoleculeFormat` | `oos` (text outside the model's scope: pubchem line, three-point efp form)
      numbers are exact decimals `<+|-><mantissa>e<exp10>`; strings are hex; absent = `-`; per-fragment None = `N`
  W|<xyz|psi4>|<bohr 0/1>|<com 0/1>|<ori 0/1>|<chg int>|<mult nat>|<name hex>|<frag>/<frag>/…
      frag = `<chg int>,<mult nat>;<atom>;<atom>…`, atom = `<sym>,<real 0/1>,<label hex or ->,<x>,<y>,<z>` with printed coordinates
      -> hex of the written text
-/
open QcelVerif QcelVerif.MolText QcelVerif.Proto

def hexVal? (c : Char) : Option Nat :=
  if c.isDigit then some (c.toNat - 48)
  else if 'a' ≤ c && c ≤ 'f' then some (c.toNat - 87)
  else if 'A' ≤ c && c ≤ 'F' then some (c.toNat - 55)
  else none

def unhex? : List Char → Option (List Char)
  | [] => some []
  | [_] => none
  | a :: b :: t => do
    let x ← hexVal? a
    let y ← hexVal? b
    let r ← unhex? t
    pure (Char.ofNat (x * 16 + y) :: r)

def hexDigit (n : Nat) : Char := if n < 10 then Char.ofNat (48 + n) else Char.ofNat (87 + n)

def hexOf (s : List Char) : String :=
  if s.isEmpty then "-" else String.ofList (s.flatMap fun c => [hexDigit (c.toNat / 16), hexDigit (c.toNat % 16)])

def unhexOpt? (s : String) : Option (List Char) := if s == "-" then some [] else unhex? s.toList

def showNum (p : NumParts) : String :=
  let (n, m, e) := numVal p
  (if n then "-" else "+") ++ toString m ++ "e" ++ toString e

def showOpt {α} (f : α → String) : Option α → String
  | none => "-"
  | some a => f a

def commaJoin (l : List String) : String := if l.isEmpty then "-" else ",".intercalate l

def showProcessed (p : Processed) : String :=
  "ok u=" ++ showOpt (fun b => if b then "B" else "A") p.units ++
  ";com=" ++ (if p.fixCom then "1" else "0") ++
  ";ori=" ++ (if p.fixOrient then "1" else "0") ++
  ";sym=" ++ showOpt hexOf p.fixSym ++
  ";c=" ++ showOpt showNum p.molChg ++
  ";m=" ++ showOpt String.ofList p.molMult ++
  ";elbl=" ++ commaJoin (p.elbl.map hexOf) ++
  ";geom=" ++ commaJoin (p.geom.map showNum) ++
  ";seps=" ++ commaJoin (p.seps.map toString) ++
  ";fc=" ++ (if p.isPsi4 then commaJoin (p.fragChg.map fun o => match o with | none => "N" | some n => showNum n) else "x") ++
  ";fm=" ++ (if p.isPsi4 then commaJoin (p.fragMult.map fun o => match o with | none => "N" | some n => String.ofList n) else "x") ++
  ";efp=" ++ commaJoin (p.efp.map fun (f, h) => ":".intercalate (hexOf f :: h.map showNum))

def dtypeOf? (s : String) : Option Dtype :=
  if s == "xyz" then some .xyz else if s == "xyz+" then some .xyzPlus else if s == "psi4" then some .psi4 else none

def parseCoord? (s : String) : Option Coord :=
  let l := s.toList
  let (neg, r) := match l with | '-' :: r => (true, r) | _ => (false, l)
  let ip := r.takeWhile Char.isDigit
  match r.dropWhile Char.isDigit with
  | '.' :: fp => if !ip.isEmpty && !fp.isEmpty && allDigits fp then some { neg, ip, fp } else none
  | _ => none

def parseIntS? (s : String) : Option IntS :=
  let l := s.toList
  let (neg, r) := match l with | '-' :: r => (true, r) | _ => (false, l)
  if !r.isEmpty && allDigits r then some { neg, digs := r } else none

def parseDigits? (s : String) : Option (List Char) :=
  if !s.isEmpty && allDigits s.toList then some s.toList else none

def parseBool? (s : String) : Option Bool := if s == "1" then some true else if s == "0" then some false else none

def parseAtom? (s : String) : Option Atom :=
  match splitOnChar s ',' with
  | [sym, real, lbl, x, y, z] => do
    let real ← parseBool? real
    let lbl ← unhexOpt? lbl
    let x ← parseCoord? x
    let y ← parseCoord? y
    let z ← parseCoord? z
    pure { sym := sym.toList, real, lbl, x, y, z }
  | _ => none

def parseFrag? (s : String) : Option Frag :=
  match splitOnChar s ';' with
  | hd :: atoms =>
    match splitOnChar hd ',' with
    | [c, m] => do
      let c ← parseIntS? c
      let m ← parseDigits? m
      let atoms ← atoms.mapM parseAtom?
      pure { chg := c, mult := m, atoms }
    | _ => none
  | [] => none

def stepC07 (line : String) : String :=
  match splitOnChar line '|' with
  | ["P", dt, hx] =>
    (match dtypeOf? dt, unhexOpt? hx with
     | some d, some txt =>
       (match parseText d txt with
        | .ok p => showProcessed p
        | .formatError => "err MoleculeFormat"
        | .outOfScope => "oos")
     | _, _ => "bad-op")
  | ["W", fmt, bohr, com, ori, chg, mult, name, frags] =>
    (match parseBool? bohr, parseBool? com, parseBool? ori, parseIntS? chg, parseDigits? mult, unhexOpt? name,
           (splitOnChar frags '/').mapM parseFrag? with
     | some bohr, some com, some ori, some chg, some mult, some name, some frags =>
       let r : MolRec := { chg, mult, frags, bohr, fixCom := com, fixOrient := ori, name }
       if fmt == "xyz" then hexOf (render (writeXyz (natStr (allAtoms r).length) r))
       else if fmt == "psi4" then hexOf (render (writePsi4 r))
       else "bad-op"
     | _, _, _, _, _, _, _ => "bad-op")
  | _ => "bad-op"

def main : IO Unit := mainLoop stepC07
