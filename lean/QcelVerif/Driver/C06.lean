import QcelVerif.Model.NucleusShipped
import QcelVerif.Model.NucleusRe
import QcelVerif.Gen.NucleusSrc
import QcelVerif.Lib.Proto
/-!
Line-protocol driver for the C06 model (stateful: the `H`/`C` ops go through the LRU memo model).

  P <hex label>                      parse_nucleus_label, twice: `<hand recogniser> # <regex engine on the generated AST>`
  X <name> <m|f|s> <hex text>        generated pattern <name> (nucleus | number | chgmult) through the generic engine:
                                     re.match / re.fullmatch / re.search -> `none` | `ok <start> <end> <g1>,<g2>,…`
  D <hex decimal text>               float(text) through rd64
  G <hex symbol>                     _el2a2mass[symbol] min/max keys and values
  R A|Z|E|mass|real|label|spec|nonphys|mtol     reconcile_nucleus (stateless), twice: `<hand model> # <source-derived>` — the second answer
                                     is the evaluator of Model/NucleusAst.lean run on the statements regenerated from nucleus.py
  F <hex label>                      parse_nucleus_label through the source-derived group reading (Gen/NucleusSrc.lean); mass as float
  H A|Z|E|mass|real|label|spec|nonphys|mtol     the same call through the 512-entry LRU memo table
  C                                  cache_clear()
numbers: N | i<int> | f<rational> | b0 | b1 ; strings: N | s<hex> ; flags 0|1
-/
open QcelVerif QcelVerif.PT QcelVerif.PStr QcelVerif.Proto QcelVerif.Nucleus

def hexVal6 (c : Char) : Option Nat :=
  if c.isDigit then some (c.toNat - 48)
  else if 'a' ≤ c ∧ c ≤ 'f' then some (c.toNat - 87) else none

def unhex6 : List Char → Option (List Nat)
  | [] => some []
  | [_] => none
  | a :: b :: t => do
      let x ← hexVal6 a; let y ← hexVal6 b; let r ← unhex6 t
      pure ((x * 16 + y) :: r)

def hexDigit6 (n : Nat) : Char := if n < 10 then Char.ofNat (48 + n) else Char.ofNat (87 + n)
def hex6 (b : Bytes) : String := String.ofList (b.flatMap fun c => [hexDigit6 (c / 16), hexDigit6 (c % 16)])

def parseNum? (s : String) : Option (Option PyNum) :=
  match s.toList with
  | ['N'] => some none
  | 'i' :: t => (parseInt? (String.ofList t)).map fun n => some (.int n)
  | 'f' :: t => (parseRat? (String.ofList t)).map fun q => some (.float q)
  | ['b', '0'] => some (some (.bool false))
  | ['b', '1'] => some (some (.bool true))
  | _ => none

def parseStr? (s : String) : Option (Option Bytes) :=
  match s.toList with
  | ['N'] => some none
  | 's' :: t => (unhex6 t).map some
  | _ => none

def parseFlag? (s : String) : Option Bool :=
  if s == "1" then some true else if s == "0" then some false else none

def parseInput? (s : String) : Option Input :=
  match splitOnChar s '|' with
  | [a, z, e, m, r, l, sp, np, mt] => do
      let a ← parseNum? a; let z ← parseNum? z; let e ← parseStr? e; let m ← parseNum? m
      let r ← parseNum? r; let l ← parseStr? l; let sp ← parseFlag? sp; let np ← parseFlag? np
      let mt ← parseNum? mt
      let mt ← mt
      pure { A := a, Z := z, E := e, mass := m, real := r, label := l, speclabel := sp, nonphysical := np, mtol := mt }
  | _ => none

def showNum : PyNum → String
  | .int i => s!"i{i}"
  | .float q => "f" ++ showRat q
  | .bool b => if b then "b1" else "b0"

def showFeature : Feature → String
  | .atomicNumber => "atomic number" | .mass => "mass" | .massNumber => "mass number"
  | .realGhost => "real/ghost" | .userLabel => "user label"

def showRes : Except Err Output → String
  | .ok o => s!"ok {o.A} {o.Z} {hex6 (unpack o.E)} {showRat o.mass} {showNum o.real} s{hex6 o.user}"
  | .error .notAnElement => "err NotAnElement"
  | .error (.validation f) => "err Validation:" ++ showFeature f
  | .error .unparseable => "err Validation:unparseable"
  | .error .other => "err other"

def showOptNat : Option Nat → String
  | some n => toString n | none => "N"
def showOptBytes : Option Bytes → String
  | some b => "s" ++ hex6 b | none => "N"

def showLabel : Option Label → String
  | none => "err Validation:unparseable"
  | some l => s!"ok {showOptNat l.A} {showOptNat l.Z} {showOptBytes l.E} {showOptBytes l.mass} {if l.real then 1 else 0} {showOptBytes l.user}"

/-- the generated patterns by name: (AST, number of groups) -/
def genPattern? (name : String) : Option (Regex.Re × Nat) :=
  if name == "nucleus" then some (Gen.NucleusRegex.nucleus, Gen.NucleusRegex.nucleusGroups)
  else if name == "number" then some (Gen.NucleusRegex.number, Gen.NucleusRegex.numberGroups)
  else if name == "chgmult" then some (Gen.NucleusRegex.chgmult, Gen.NucleusRegex.chgmultGroups)
  else none

def showMatch (n : Nat) (len : Nat) (start : Nat) (st : Regex.St) : String :=
  let gs := (List.range n).map fun i => match st.group (i + 1) with | some b => "s" ++ hex6 b | none => "N"
  s!"ok {start} {len - st.rest.length} {",".intercalate gs}"

def evalPattern (name mode hex : String) : String :=
  match genPattern? name, unhex6 hex.toList with
  | some (r, n), some b =>
    if mode == "m" then (match r.matchPrefix b with | some st => showMatch n b.length 0 st | none => "none")
    else if mode == "f" then (match r.fullMatch b with | some st => showMatch n b.length 0 st | none => "none")
    else if mode == "s" then (match r.search b with | some (p, st) => showMatch n b.length p st | none => "none")
    else "bad-op"
  | _, _ => "bad-op"

def showValField : Ast.Val → String
  | .none => "N"
  | .num (.int i) => toString i
  | .num (.float q) => "f" ++ showRat q
  | .num (.bool b) => if b then "1" else "0"
  | .str b => "s" ++ hex6 b
  | .sym n => "s" ++ hex6 (unpack n)
  | .dict _ => "?dict"

/-- `parse_nucleus_label` as regenerated from the source: (A, Z, E, mass, real, user) -/
def showLabelSrc : Except Err (List Ast.Val) → String
  | .ok vs => if vs.length == 6 then "ok " ++ " ".intercalate (vs.map showValField) else "err other"
  | .error .notAnElement => "err NotAnElement"
  | .error (.validation f) => "err Validation:" ++ showFeature f
  | .error .unparseable => "err Validation:unparseable"
  | .error .other => "err other"

def srcWorld (rng : Nat → Option Range) : Ast.World := { N := shippedN, rd := rd64, rng := rng, grp := none }

abbrev Cache := Lru Input Output

def stepC06 (rng : Nat → Option Range) (c : Cache) (line : String) : Cache × String :=
  let f : Input → Except Err Output := reconcileWith shippedN rd64 rng
  match line.toList with
  | ['C'] => ({ c with entries := [] }, "cleared")
  | 'P' :: ' ' :: t => (c, match unhex6 t with | some b => showLabel (parseLabel b) ++ " # " ++ showLabel (parseLabelRe b) | none => "bad-op")
  | 'X' :: ' ' :: t =>
      (c, match splitOnChar (String.ofList t) ' ' with
        | [name, mode, hex] => evalPattern name mode hex
        | _ => "bad-op")
  | 'D' :: ' ' :: t =>
      (c, match (unhex6 t).bind decVal with | some q => "ok " ++ showRat (rd64 q) | none => "bad-op")
  | 'G' :: ' ' :: t =>
      (c, match unhex6 t with
        | some b => (match rng (pack b) with
            | some r => s!"ok {r.amin} {r.amax} {showRat r.mmin} {showRat r.mmax}"
            | none => "none")
        | none => "bad-op")
  | 'R' :: ' ' :: t =>
      (c, match parseInput? (String.ofList t) with
        | some i => showRes (f i) ++ " # " ++ showRes (Ast.reconcileSrc Gen.NucleusSrc.program shippedN rd64 rng i)
        | none => "bad-op")
  | 'F' :: ' ' :: t =>
      (c, match unhex6 t with
        | some b => showLabelSrc (Ast.parseSrc Gen.NucleusSrc.program (srcWorld rng) (.str b))
        | none => "bad-op")
  | 'H' :: ' ' :: t =>
      match parseInput? (String.ofList t) with
      | some i => let r := Lru.call Input.pyEq f c i; (r.1, showRes r.2)
      | none => (c, "bad-op")
  | _ => (c, "bad-op")

partial def loopC06 (h : IO.FS.Stream) (rng : Nat → Option Range) (c : Cache) : IO Unit := do
  let line ← h.getLine
  if line.isEmpty then return ()
  let r := stepC06 rng c (stripNl line)
  IO.println r.2
  loopC06 h rng r.1

def main : IO Unit := do
  let tbl := memoRange shippedN rd64 (Gen.PT.elements.map (·.2.1))
  let stdin ← IO.getStdin
  loopC06 stdin (lookupRange shippedN rd64 tbl) { cap := 512, entries := [] }
