import QcelVerif.Model.FromArraysSchema
import QcelVerif.Lib.Proto
/-!
Third line-protocol driver for C04: the schema round trip `from_schema (to_schema r dtype)` on a validated
RECORD (`Model/FromArraysSchema.lean`: `toSchemaU`, `schemaImage`, `roundtripHypB`; `Model/FromArrays.lean`:
`fromSchema`).

One case per line, 25 fields separated by `|`:

  0 op   `TS`  answer = `fromSchema env (toSchemaU P r dtype)` with the reconciler TABLE of field 24
         `TS6` the same with the per-atom reconciliation computed by the C06 model (`reconOfC06With shippedN rd64`)
         `TSh` / `TSh6`  answer = `hyp T|F` + the record `schemaImage P r` that `schema_roundtrip`
                (`Props/C04Schema.lean`) proves is returned when the hypotheses hold (`roundtripHypB_iff`)
         `TSd` answer = the dictionary `toSchemaU P r dtype` itself, field by field
  1 `nonphysical angToAu cfAngstromToBohr dtype`
  2 units  3 input_units_to_au  4 name  5 comment  6 connectivity  7 geom  8 elea  9 elez  10 elem  11 mass
  12 real  13 elbl  14 fragment_separators  15 molecular_charge  16 fragment_charges  17 molecular_multiplicity
  18 fragment_multiplicities  19 fix_com  20 fix_orientation  21 fix_symmetry      (the record, laid out as the answers are)
  22 formula  (`formula_generator(elem)` of the implementation: a parameter of the model)
  23 (reserved, `~`)
  24 reconciler table (as in `Driver/C04.lean`; consulted by `TS` / `TSh` only)

`fl` (the rounding of one IEEE product in `geom * factor`) is `rd64`.  Items as in `Driver/C04.lean`.
Anything that does not parse is answered with `bad-op` (never defaulted).  The parsing helpers are copies of
those in `Driver/C04.lean` / `C04b.lean` (a second `main` cannot import the first).
-/
open QcelVerif QcelVerif.FromArrays QcelVerif.Proto

namespace C04cDrv


def pStr? (s : String) : Option String :=
  match s.toList with
  | '\'' :: t => some (String.ofList t)
  | _ => none

def pChars? (s : String) : Option (List Char) := (pStr? s).map String.toList

def pOpt {α} (p : String → Option α) (s : String) : Option (Option α) :=
  if s == "~" then some none else (p s).map some

def pBool? (s : String) : Option Bool :=
  if s == "T" then some true else if s == "F" then some false else none

def pList {α} (p : String → Option α) (s : String) : Option (List α) :=
  match s.toList with
  | 'L' :: t => if t.isEmpty then some [] else (splitOnChar (String.ofList t) ',').mapM p
  | _ => none

def pOptList {α} (p : String → Option α) (s : String) : Option (Option (List α)) :=
  if s == "~" then some none else (pList p s).map some

def pTri? (s : String) : Option Tri :=
  if s == "~" then some .none else if s == "T" then some .tt else if s == "F" then some .ff
  else if s == "X" then some .other else none

def pIdx? (s : String) : Option (Option Int) :=
  if s == "x" then some none else (parseInt? s).map some

def pBond? (s : String) : Option BondIn :=
  match splitOnChar s ':' with
  | [a, b, o] => do
      let a ← pIdx? a
      let b ← pIdx? b
      let o ← parseRat? o
      pure (.mk a b o)
  | _ => some .bad

def pFrag? (s : String) : Option (List Nat) :=
  if s == "e" then some [] else (splitOnChar s ':').mapM parseNat?

def sStr (s : String) : String := "'" ++ s
def sChars (s : List Char) : String := "'" ++ String.ofList s
def sOpt {α} (f : α → String) : Option α → String
  | none => "~"
  | some x => f x
def sList {α} (f : α → String) (l : List α) : String := "L" ++ ",".intercalate (l.map f)
def sBool (b : Bool) : String := if b then "T" else "F"
def sBond (b : Bond) : String := s!"{b.1}:{b.2.1}:{showRat b.2.2}"

def showRec (r : Molrec) : String :=
  "|".intercalate
    [ "ok", sChars r.units, sOpt showRat r.iutau, sOpt sStr r.name, sOpt sStr r.comment,
      sOpt (sList sBond) r.conn, sList showRat r.geom,
      sList toString r.elea, sList toString r.elez, sList sStr r.elem, sList showRat r.mass,
      sList sBool r.real, sList sStr r.elbl, sList toString r.seps,
      toString r.c, sList toString r.fc, toString r.m, sList toString r.fm,
      sBool r.fixCom, sBool r.fixOrient, sOpt sChars r.fixSymm ]

def showRes : Except Err Molrec → String
  | .ok r => showRec r
  | .error .validation => "err Validation"
  | .error (.other cls) => "err " ++ cls


abbrev Table := List ((NucSettings × Clue) × Except Err Nuc)

def pEntry? (s : String) : Option ((NucSettings × Clue) × Except Err Nuc) :=
  match splitOnChar s '=' with
  | [k, r] =>
    match splitOnChar k ',' with
    | [sl, np, mtol, a, z, e, m, rl, lb] => do
      let sl ← pBool? sl
      let np ← pBool? np
      let mtol ← parseRat? mtol
      let a ← pOpt parseInt? a
      let z ← pOpt parseInt? z
      let e ← pOpt pStr? e
      let m ← pOpt parseRat? m
      let rl ← pOpt pBool? rl
      let lb ← pOpt pStr? lb
      let key : NucSettings × Clue :=
        ({ speclabel := sl, nonphysical := np, mtol := mtol },
         { A := a, Z := z, E := e, mass := m, real := rl, label := lb })
      match splitOnChar r ',' with
      | ["ok", a, z, e, m, rl, lb] => do
        let a ← parseInt? a
        let z ← parseInt? z
        let e ← pStr? e
        let m ← parseRat? m
        let rl ← pBool? rl
        let lb ← pStr? lb
        pure (key, .ok { A := a, Z := z, E := e, mass := m, real := rl, label := lb })
      | ["err", cls] =>
        pure (key, .error (if cls == "Validation" then .validation else .other cls))
      | _ => none
    | _ => none
  | _ => none

def pTable? (s : String) : Option Table :=
  if s.isEmpty then some [] else (splitOnChar s ';').mapM pEntry?

def tableRec (t : Table) : Reconciler := fun st c =>
  match t.find? (fun e => decide (e.1 = (st, c))) with
  | some e => e.2
  | none => .error (.other "TABLE-MISS")

/-- a bond of a record: `a:b:order` with natural indices -/
def pBondRec? (s : String) : Option Bond :=
  match splitOnChar s ':' with
  | [a, b, o] => do
      let a ← parseNat? a
      let b ← parseNat? b
      let o ← parseRat? o
      pure (a, b, o)
  | _ => none

def sTri : Tri → String
  | .none => "~"
  | .tt => "T"
  | .ff => "F"
  | .other => "X"

def sBondIn : BondIn → String
  | .bad => "bad"
  | .mk a b o => s!"{sOpt toString a}:{sOpt toString b}:{showRat o}"

def sFrag (f : List Nat) : String := if f.isEmpty then "e" else ":".intercalate (f.map toString)

/-- the dictionary, field by field (op `TSd`) -/
def showSchema (s : Schema) : String :=
  let b := s.body
  "|".intercalate
    [ "dict", sOpt sChars s.schemaName, sOpt toString s.schemaVersion, sOpt (sList sFrag) s.fragments,
      sOpt (sList showRat) b.geom, sOpt (sList (sOpt toString)) b.elea, sOpt (sList (sOpt toString)) b.elez,
      sOpt (sList (sOpt sStr)) b.elem, sOpt (sList (sOpt showRat)) b.mass, sOpt (sList (sOpt sBool)) b.real,
      sOpt (sList (sOpt sStr)) b.elbl, sOpt sStr b.name, sOpt sStr b.comment,
      sTri b.fixCom, sTri b.fixOrient, sOpt sChars b.fixSymm,
      sOpt (sList (sOpt toString)) b.fc, sOpt (sList (sOpt toString)) b.fm, sOpt toString b.c, sOpt toString b.m,
      sOpt (sList sBondIn) b.conn ]

def step (rng : Nat → Option Nucleus.Range) (line : String) : String :=
  match splitOnChar line '|' with
  | [op, st, units, iutau, name, comment, conn, geom, elea, elez, elem, mass, real, elbl, seps, c, fc, m, fm,
     fcom, forient, fsymm, formula, _reserved, table] =>
    let r : Option String := do
      let (nonphysical, angToAu, cfAng, dtype) ←
        match splitOnChar st ' ' with
        | [a, b, c, d] => do pure ((← pBool? a), (← parseRat? b), (← parseRat? c), (← parseInt? d))
        | _ => none
      let rec_ : Molrec := {
        units := ← pChars? units
        iutau := ← pOpt parseRat? iutau
        name := ← pOpt pStr? name
        comment := ← pOpt pStr? comment
        conn := ← pOptList pBondRec? conn
        geom := ← pList parseRat? geom
        elea := ← pList parseInt? elea
        elez := ← pList parseInt? elez
        elem := ← pList pStr? elem
        mass := ← pList parseRat? mass
        real := ← pList pBool? real
        elbl := ← pList pStr? elbl
        seps := ← pList parseInt? seps
        c := ← parseInt? c
        fc := ← pList parseInt? fc
        m := ← parseInt? m
        fm := ← pList parseInt? fm
        fixCom := ← pBool? fcom
        fixOrient := ← pBool? forient
        fixSymm := ← pOpt pChars? fsymm }
      let formula ← pStr? formula
      if dtype != 1 && dtype != 2 then none
      let P : SchemaParams := { formula := fun _ => formula, cf := fun _ => cfAng, fl := Nucleus.rd64, nonphysical := nonphysical }
      let six := op == "TS6" || op == "TSh6"
      let recon : Reconciler ←
        if six then pure (reconOfC06With Nucleus.shippedN Nucleus.rd64 rng)
        else do pure (tableRec (← pTable? table))
      let env : Env := { recon := recon, angToAu := angToAu }
      if op == "TS" || op == "TS6" then
        pure (showRes (fromSchema env (toSchemaU P rec_ dtype)))
      else if op == "TSh" || op == "TSh6" then
        pure (s!"hyp {sBool (roundtripHypB env P rec_)}|" ++ showRec (schemaImage P rec_))
      else if op == "TSd" then
        pure (showSchema (toSchemaU P rec_ dtype))
      else none
    r.getD "bad-op"
  | _ => "bad-op"

end C04cDrv

def main : IO Unit := do
  let tbl := Nucleus.memoRange Nucleus.shippedN Nucleus.rd64 (Gen.PT.elements.map (·.2.1))
  mainLoop (C04cDrv.step (Nucleus.lookupRange Nucleus.shippedN Nucleus.rd64 tbl))
