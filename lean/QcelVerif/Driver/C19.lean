import QcelVerif.Model.Compare
import QcelVerif.Model.CompareWide
import QcelVerif.Model.CompareAst
import QcelVerif.Gen.CompareSrc
import QcelVerif.Lib.Proto
/-! Line-protocol driver for the C19 model.

    V|atol rtol equal_nan equal_phase passnone|<tree>|<tree>      compare_values(expected, computed)
    E|equal_phase|<tree>|<tree>                                   compare(expected, computed)
    R|atol rtol|<phase>|<forgive>|<tree>|<tree>                   compare_recursive(expected, computed)

  <phase>   = 0 | 1 | l:<path>,<path>,...        <forgive> = - | l:<path>,...
  <tree>    = space separated prefix tokens:
     N  B0 B1  I<int>  F<xr>  C<xr>;<xr>  S:<text>  f<xr>  i<int>  b0 b1  c<xr>;<xr>
     L<n> t1 … tn      D<n> K:<key> t1 … K:<key> tn      A<k><ndim> d1 … dndim s1 … s(prod d)
  <xr>      = nan | inf | -inf | p | p/q
  answers: T | F | raise:ValueError | unmodelled | bad-op

  extension (Model/CompareWide.lean):
    W|atol rtol|<phase>|<forgive>|<tree>|<tree>                   compare_recursive, wide recursion
    P|atol rtol|<phase>|<forgive>|<tree>|<tree>                   ProtoModel.compare on the two .dict() trees
    M|atol rtol|<relgeoms>|<forgive>|<tree>|<tree>                compare_molrecs on the RAW records
  in P and M `atol` / `rtol` may be `d` (keyword not passed: the function's default); <relgeoms> = exact | align | other
  text outside the token alphabet: Z:<hex of the ASCII bytes> (scalar), J:<hex> (key), path lists x:<hex>,<hex>,...
  an R line is answered by `compareRecursive`; when that is not `unmodelled` the wide model must give the same
  answer, otherwise the driver prints `inconsistent` (run-time check of the conservative-extension theorem)
  further answers: raise:KeyError | raise:TypeError | raise:OverflowError | inconsistent

  three-way (Model/CompareAst.lean + Gen/CompareSrc.lean, regenerated from testing.py on every run): every V / E line is also
  evaluated through the SOURCE-DERIVED skeleton of compare_values / compare (under the reporting options plain, return_message
  and a custom handler), every R / W line through the source-derived compare_recursive (translated top-level stages over the
  translated isinstance chain); when one of them
  does not say what the hand model says the answer is `src-differs;<hand model>;<source-derived>` (run-time check of
  compareValuesSrc_eq_model / compareSrc_eq_model / compareRecursiveSrc_eq_model of Props/C19Src.lean) -/
open QcelVerif QcelVerif.Compare QcelVerif.Proto QcelVerif.CompareAst QcelVerif.Gen.CompareSrc

def showOut : Out → String
  | .ret r => if r.passfail then "T" else "F"
  | .raised => "raise"
  | .unmodelled => "unmodelled"
  | .illFormed => "ill-formed"

def repVariants : List Reporting := [{}, { returnMessage := true }, { quiet := true, returnMessage := true }, { customHandler := true }]

/-- hand model vs the translated helper under every reporting variant -/
def threeWay (hand : Res) (src : Reporting → Out) : String :=
  match repVariants.find? (fun rep => !(src rep).agrees hand) with
  | none => (match hand with | .verdict true => "T" | .verdict false => "F" | .raised .valueError => "raise:ValueError" | .unmodelled => "unmodelled")
  | some rep => "src-differs;" ++ (match hand with | .verdict true => "T" | .verdict false => "F" | .raised .valueError => "raise:ValueError" | .unmodelled => "unmodelled")
      ++ ";" ++ showOut (src rep)

def compareRecursiveSrcD (a r : Rat) (fg : Option (List String)) (ph : PhaseOpt) (e c : Tree) : Res :=
  evalTop compareRecursiveTopSrc (evalRec compareRecursiveNodeSrc) a r fg ph e c

def dropPrefix (s : String) (n : Nat) : String := String.ofList (s.toList.drop n)

def parseXR? (s : String) : Option XR :=
  if s == "nan" then some .nan
  else if s == "inf" then some .pinf
  else if s == "-inf" then some .ninf
  else (parseRat? s).map .fin

def parseCx? (s : String) : Option Cx :=
  match splitOnChar s ';' with
  | [a, b] => do
    let re ← parseXR? a
    let im ← parseXR? b
    some ⟨re, im⟩
  | _ => none

def parseBool? (s : String) : Option Bool :=
  if s == "1" then some true else if s == "0" then some false else none

def hexVal? (c : Char) : Option Nat :=
  if c.isDigit then some (c.toNat - 48)
  else if 'a'.toNat ≤ c.toNat && c.toNat ≤ 'f'.toNat then some (c.toNat - 87) else none

def unhex? : List Char → Option (List Char)
  | [] => some []
  | a :: b :: t => do
    let x ← hexVal? a
    let y ← hexVal? b
    let r ← unhex? t
    if x * 16 + y < 128 then some (Char.ofNat (x * 16 + y) :: r) else none
  | _ => none

def parseSc? (tok : String) : Option Sc :=
  match tok.toList with
  | 'Z' :: ':' :: r => (unhex? r).map (fun l => .str (String.ofList l))
  | ['N'] => some .none
  | 'B' :: r => (parseBool? (String.ofList r)).map .bool
  | 'I' :: r => (parseInt? (String.ofList r)).map .int
  | 'F' :: r => (parseXR? (String.ofList r)).map .flt
  | 'C' :: r => (parseCx? (String.ofList r)).map .cpx
  | 'S' :: ':' :: r => some (.str (String.ofList r))
  | 'f' :: r => (parseXR? (String.ofList r)).map .npflt
  | 'i' :: r => (parseInt? (String.ofList r)).map .npint
  | 'b' :: r => (parseBool? (String.ofList r)).map .npbool
  | 'c' :: r => (parseCx? (String.ofList r)).map .npcpx
  | _ => none

def parseKind? : Char → Option Kind
  | 'b' => some .bool
  | 'i' => some .int
  | 'f' => some .flt
  | 'c' => some .cpx
  | 's' => some .str
  | _ => none

def takeN {α : Type} (f : String → Option α) : Nat → List String → Option (List α × List String)
  | 0, ts => some ([], ts)
  | n + 1, t :: ts => do
    let a ← f t
    let (r, rest) ← takeN f n ts
    some (a :: r, rest)
  | _, [] => none

mutual
partial def parseTree (ts : List String) : Option (Tree × List String) :=
  match ts with
  | [] => none
  | tok :: rest =>
    match tok.toList with
    | 'L' :: r => do
      let n ← parseNat? (String.ofList r)
      let (l, rest') ← parseTrees n rest
      some (.list l, rest')
    | 'D' :: r => do
      let n ← parseNat? (String.ofList r)
      let (kv, rest') ← parseKVs n rest
      some (.dict kv, rest')
    | 'A' :: k :: r => do
      let kind ← parseKind? k
      let nd ← parseNat? (String.ofList r)
      let (shape, rest1) ← takeN parseNat? nd rest
      let (flat, rest2) ← takeN parseSc? (shape.foldl (· * ·) 1) rest1
      some (.arr kind shape flat, rest2)
    | _ => (parseSc? tok).map (fun s => (.sc s, rest))
partial def parseTrees (n : Nat) (ts : List String) : Option (List Tree × List String) :=
  match n with
  | 0 => some ([], ts)
  | n + 1 => do
    let (t, rest) ← parseTree ts
    let (l, rest') ← parseTrees n rest
    some (t :: l, rest')
partial def parseKVs (n : Nat) (ts : List String) : Option (List (String × Tree) × List String) :=
  match n, ts with
  | 0, _ => some ([], ts)
  | n + 1, ktok :: rest =>
    match ktok.toList with
    | 'K' :: ':' :: k => do
      let (t, rest1) ← parseTree rest
      let (l, rest2) ← parseKVs n rest1
      some ((String.ofList k, t) :: l, rest2)
    | 'J' :: ':' :: k => do
      let k' ← unhex? k
      let (t, rest1) ← parseTree rest
      let (l, rest2) ← parseKVs n rest1
      some ((String.ofList k', t) :: l, rest2)
    | _ => none
  | _, [] => none
end

def parseWholeTree (s : String) : Option Tree :=
  match parseTree (splitNonEmpty s ' ') with
  | some (t, []) => some t
  | _ => none

def parsePaths? (s : String) : Option (List String) :=
  match s.toList with
  | 'l' :: ':' :: r =>
    let body := String.ofList r
    if body.isEmpty then some [] else some (splitOnChar body ',')
  | 'x' :: ':' :: r =>
    let body := String.ofList r
    if body.isEmpty then some [] else (splitOnChar body ',').mapM (fun h => (unhex? h.toList).map String.ofList)
  | _ => none

def parsePhase? (s : String) : Option PhaseOpt :=
  let t := trimStr s
  if t == "0" then some .off else if t == "1" then some .all else (parsePaths? t).map .paths

def parseForgive? (s : String) : Option (Option (List String)) :=
  let t := trimStr s
  if t == "-" then some none else (parsePaths? t).map some

def showRes : Res → String
  | .verdict true => "T"
  | .verdict false => "F"
  | .raised .valueError => "raise:ValueError"
  | .unmodelled => "unmodelled"

def showMRes : MRes → String
  | .verdict true => "T"
  | .verdict false => "F"
  | .raised .valueError => "raise:ValueError"
  | .raised .keyError => "raise:KeyError"
  | .raised .typeError => "raise:TypeError"
  | .raised .overflowError => "raise:OverflowError"
  | .unmodelled => "unmodelled"

/-- a tolerance keyword: `d` = not passed -/
def parseTol? (s : String) : Option (Option Rat) :=
  if trimStr s == "d" then some none else (parseRat? s).map some

def parseRelGeoms? (s : String) : Option RelGeoms :=
  let t := trimStr s
  if t == "exact" then some .exact else if t == "align" then some .align else if t == "other" then some .other else none

def tolOk (a r : Option Rat) : Bool :=
  (match a with | some a => decide (0 < a) | none => true) && (match r with | some r => decide (0 ≤ r) | none => true)

def stepC19 (line : String) : String :=
  match splitOnChar line '|' with
  | [op, opts, e, c] =>
    if trimStr op == "V" then
      match splitNonEmpty opts ' ', parseWholeTree e, parseWholeTree c with
      | [a, r, en, ep, pn], some e, some c =>
        match parseRat? a, parseRat? r, parseBool? en, parseBool? ep, parseBool? pn with
        | some a, some r, some en, some ep, some pn =>
          if a ≤ 0 || r < 0 then "bad-op"      -- outside the model's scope (log10(atol) raises)
          else threeWay (compareValues ⟨a, r, en, ep, pn⟩ e c)
            (fun rep => evalFn compareValuesSrc handleReturnSrc rep ⟨a, r, en, ep, pn⟩ e c)
        | _, _, _, _, _ => "bad-op"
      | _, _, _ => "bad-op"
    else if trimStr op == "E" then
      match parseBool? (trimStr opts), parseWholeTree e, parseWholeTree c with
      | some ep, some e, some c =>
        threeWay (compareExact ep e c) (fun rep => evalFn compareSrc handleReturnSrc rep { atol := 1, rtol := 0, equalPhase := ep } e c)
      | _, _, _ => "bad-op"
    else "bad-op"
  | [op, tol, ph, fg, e, c] =>
    if trimStr op == "R" then
      match splitNonEmpty tol ' ', parsePhase? ph, parseForgive? fg, parseWholeTree e, parseWholeTree c with
      | [a, r], some ph, some fg, some e, some c =>
        match parseRat? a, parseRat? r with
        | some a, some r =>
          if a ≤ 0 || r < 0 then "bad-op" else
            let r0 := compareRecursive a r fg ph e c
            if r0 ≠ .unmodelled && compareRecursiveW a r fg ph e c ≠ r0 then "inconsistent"
            else if r0 ≠ .unmodelled && compareRecursiveSrcD a r fg ph e c ≠ r0 then
              "src-differs;" ++ showRes r0 ++ ";" ++ showRes (compareRecursiveSrcD a r fg ph e c)
            else showRes r0
        | _, _ => "bad-op"
      | _, _, _, _, _ => "bad-op"
    else if trimStr op == "W" then
      match splitNonEmpty tol ' ', parsePhase? ph, parseForgive? fg, parseWholeTree e, parseWholeTree c with
      | [a, r], some ph, some fg, some e, some c =>
        match parseRat? a, parseRat? r with
        | some a, some r =>
          if a ≤ 0 || r < 0 then "bad-op" else
            let r0 := compareRecursiveW a r fg ph e c
            if compareRecursiveSrcD a r fg ph e c ≠ r0 then "src-differs;" ++ showRes r0 ++ ";" ++ showRes (compareRecursiveSrcD a r fg ph e c)
            else showRes r0
        | _, _ => "bad-op"
      | _, _, _, _, _ => "bad-op"
    else if trimStr op == "P" then
      match splitNonEmpty tol ' ', parsePhase? ph, parseForgive? fg, parseWholeTree e, parseWholeTree c with
      | [a, r], some ph, some fg, some e, some c =>
        match parseTol? a, parseTol? r with
        | some a, some r =>
          if !tolOk a r then "bad-op" else showRes (protoCompare ⟨a, r, fg, ph⟩ e c)
        | _, _ => "bad-op"
      | _, _, _, _, _ => "bad-op"
    else if trimStr op == "M" then
      match splitNonEmpty tol ' ', parseRelGeoms? ph, parseForgive? fg, parseWholeTree e, parseWholeTree c with
      | [a, r], some rg, some fg, some e, some c =>
        match parseTol? a, parseTol? r with
        | some a, some r =>
          if !tolOk a r then "bad-op"
          else showMRes (compareMolrecs (a.getD atolDefault) (r.getD rtolDefault) fg rg e c)
        | _, _ => "bad-op"
      | _, _, _, _, _ => "bad-op"
    else "bad-op"
  | _ => "bad-op"

def main : IO Unit := mainLoop stepC19
