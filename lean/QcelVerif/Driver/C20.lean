import QcelVerif.Model.Protocols
import QcelVerif.Model.ProtocolsElems
import QcelVerif.Model.ProtocolsFlow
import QcelVerif.Lib.Proto
/-!
Line-protocol driver for the C20 model.

  A|wp|so|nf|driver|props|wfn|rr|stdout|files     AtomicResult(**…)
  W|wfn                                            WavefunctionProperties(**…)
  P|props                                          AtomicResultProperties(**…)
  B|basis                                          BasisSet(**…)
  T|policy|n                                       OptimizationResult trajectory of n steps → kept indices

  props  = natom~name:shape,name:shape       natom = N | int
  wfn    = N | R~basis~name:shape,…~ptr>target,…      R = 1 | 0 | -      basis = - | nbf^a.a.a^id=shell+shell&id=…
  shell  = s|c / L.L / nexp / r.r       shape = d x d x d  (0d = scalar array)
  rr     = f | d | shape     stdout = 0|1 (supplied?)     files = N | id.id.id   (0 is "input")

THREE-WAY (A, AE, B, T lines): beside the hand-written model the driver evaluates the SOURCE-DERIVED functions of
Model/ProtocolsFlow.lean (the validator bodies as translated from the text of the working tree, Gen/ProtocolsFlow.lean, run by
the evaluator of Model/ProtocolsAst.lean).  When the two agree (proved for the unchanged tree in Props/C20Flow.lean) the line is
the model's line as before; otherwise it is `FLOWDIFF hand=[…] src=[…]`, which the harness reports as a broken tie and compares
the `src` part with the implementation.  P / PE lines run no translated validator (AtomicResultProperties only).

Element-carrying ops (model `Model/ProtocolsElems.lean`, payload π = the digest token of the row-major elements):
  AE|wp|so|nf|driver|propsE|wfnE|rrE|stdout|files    and    PE|propsE
  where every array item is  name:shape:tok:lay   (tok = hex digest of the row-major element list; lay = memory layout
  the harness builds the implementation's input with — c f s l — irrelevant to the model, but checked to be one of them)
  and rrE = f:tok | d:tok | shape:tok:lay.  Output items are name:shape:tok.
-/
open QcelVerif QcelVerif.Protocols QcelVerif.Proto

def parseShape? (s : String) : Option Shape :=
  let t := trimStr s
  if t == "0d" then some [] else
  if t.isEmpty then none else (splitOnChar t 'x').mapM parseNat?

def showShape (s : Shape) : String :=
  if s.isEmpty then "0d" else "x".intercalate (s.map toString)

def parseOptNat? (s : String) : Option (Option Nat) :=
  let t := trimStr s
  if t == "N" then some none else (parseNat? t).map some

def lookupName? {α : Type} (all : List α) (name : α → String) (s : String) : Option α :=
  all.find? (fun k => name k == s)

/-- `name:shape,name:shape` into an assoc list (duplicate names rejected) -/
def parseFieldShapes? {α : Type} (all : List α) (name : α → String) (s : String) : Option (List (α × Shape)) :=
  let items := splitNonEmpty s ','
  let names := items.map (fun it => (splitOnChar it ':').headD "")
  if names.eraseDups.length != names.length then none else
  items.mapM (fun it =>
    match splitOnChar it ':' with
    | [n, sh] => do
        let k ← lookupName? all name (trimStr n)
        let v ← parseShape? sh
        pure (k, v)
    | _ => none)

def assocFn {α β : Type} [DecidableEq α] (l : List (α × β)) (k : α) : Option β :=
  (l.find? (fun e => e.1 = k)).map (·.2)

def parseProps? (s : String) : Option PropsIn :=
  match splitOnChar s '~' with
  | [n, fs] => do
      let natom ← parseOptNat? n
      let l ← parseFieldShapes? PropArr.all PropArr.name fs
      pure { natom := natom, arr := assocFn l }
  | _ => none

def showProps (p : PropsIn) : String :=
  let n := match p.natom with | none => "N" | some v => toString v
  let fs := PropArr.all.filterMap (fun k => (p.arr k).map (fun s => s!"{k.name}:{showShape s}"))
  n ++ "~" ++ ",".intercalate fs

def parseShell? (s : String) : Option Shell :=
  match splitOnChar s '/' with
  | [h, am, ne, rows] => do
      let harm ← (if trimStr h == "s" then some Harm.spherical else if trimStr h == "c" then some Harm.cartesian else none)
      let am ← parseNatList? am '.'
      let ne ← parseNat? ne
      let rows ← parseNatList? rows '.'
      if am.isEmpty || ne == 0 || rows.isEmpty then none else
      pure { harm := harm, am := am, nexp := ne, rows := rows }
  | _ => none

def parseCenter? (s : String) : Option Center :=
  match splitOnChar s '=' with
  | [i, sh] => do
      let i ← parseNat? i
      let shells ← (splitNonEmpty sh '+').mapM parseShell?
      pure { id := i, shells := shells }
  | _ => none

def parseBasis? (s : String) : Option BasisIn :=
  match splitOnChar s '^' with
  | [n, am, cs] => do
      let nbf ← parseOptNat? n
      let am ← parseNatList? am '.'
      let cs ← (splitNonEmpty cs '&').mapM parseCenter?
      if (cs.map (·.id)).eraseDups.length != cs.length then none else
      pure { centers := cs, atomMap := am, nbf := nbf }
  | _ => none

def parsePtrs? (s : String) : Option (List (PtrKey × ArrKey)) :=
  let items := splitNonEmpty s ','
  let names := items.map (fun it => (splitOnChar it '>').headD "")
  if names.eraseDups.length != names.length then none else
  items.mapM (fun it =>
    match splitOnChar it '>' with
    | [p, t] => do
        let pk ← lookupName? PtrKey.all PtrKey.name (trimStr p)
        let ak ← lookupName? ArrKey.all ArrKey.name (trimStr t)
        pure (pk, ak)
    | _ => none)

/-- `some none` = no wavefunction supplied -/
def parseWfn? (s : String) : Option (Option (Wfn BasisIn)) :=
  if trimStr s == "N" then some none else
  match splitOnChar s '~' with
  | [r, b, arrs, ptrs] => do
      let r ← (match trimStr r with | "1" => some (some true) | "0" => some (some false) | "-" => some none | _ => none)
      let b ← (if trimStr b == "-" then some none else (parseBasis? b).map some)
      let al ← parseFieldShapes? ArrKey.all ArrKey.name arrs
      let pl ← parsePtrs? ptrs
      pure (some { restricted := r, basis := b, arr := assocFn al, ptr := assocFn pl })
  | _ => none

def showWfn (w : Wfn BasisIn) : String :=
  let r := match w.restricted with | some true => "1" | some false => "0" | none => "-"
  let b := match w.basis with
    | none => "-"
    | some b => match b.nbf with | some n => toString n | none => "?"
  let arrs := ArrKey.all.filterMap (fun k => (w.arr k).map (fun s => s!"{k.name}:{showShape s}"))
  let ptrs := PtrKey.all.filterMap (fun k => (w.ptr k).map (fun t => s!"{k.name}>{t.name}"))
  r ++ "~" ++ b ++ "~" ++ ",".intercalate arrs ++ "~" ++ ",".intercalate ptrs

def parseRR? (s : String) : Option RR :=
  match trimStr s with
  | "f" => some .scalar
  | "d" => some .dict
  | t => (parseShape? t).map .arr

def showRR : RR → String
  | .scalar => "f"
  | .dict => "d"
  | .arr s => showShape s

def parseFiles? (s : String) : Option (Option (Files Unit)) :=
  if trimStr s == "N" then some none else do
    let ids ← parseNatList? s '.'
    if ids.eraseDups.length != ids.length then none else
    pure (some (ids.map (fun i => (i, some ()))))

def showFiles (f : Files Unit) : String :=
  ",".intercalate (f.map (fun e => s!"{e.1}:{if e.2.isSome then 1 else 0}"))

def showErr : Err → String
  | .validation l => "err Validation " ++ ",".intercalate l
  | .nbfMismatch => "err NbfMismatch"

def parseWP? (s : String) : Option WfnProto :=
  match trimStr s with
  | "all" => some .all | "none" => some .none | "return_results" => some .return_results
  | "orbitals_and_eigenvalues" => some .orbitals_and_eigenvalues
  | "occupations_and_eigenvalues" => some .occupations_and_eigenvalues
  | _ => none

def parseNP? (s : String) : Option NativePolicy :=
  match trimStr s with
  | "all" => some .all | "input" => some .input | "none" => some .none | _ => none

def parseDriver? (s : String) : Option Driver :=
  match trimStr s with
  | "energy" => some .energy | "gradient" => some .gradient | "hessian" => some .hessian
  | "properties" => some .properties | _ => none

def parseTP? (s : String) : Option TrajPolicy :=
  match trimStr s with
  | "all" => some .all | "initial_and_final" => some .initial_and_final | "final" => some .final
  | "none" => some .none | _ => none

def parseBool01? (s : String) : Option Bool :=
  match trimStr s with
  | "1" => some true | "0" => some false | _ => none

def showAR (r : Except Err (AROut Unit Unit)) : String :=
  match r with
  | .ok o =>
    let w := match o.wfn with | none => "N" | some w => showWfn w
    s!"ok props={showProps o.props} wfn={w} rr={showRR o.rr} stdout={if o.stdout.isSome then 1 else 0} files={showFiles o.native}"
  | .error e => showErr e

/-- hand-written model line vs source-derived line (`none` = the evaluator got stuck) -/
def threeWay (hand : String) (src : Option String) : String :=
  match src with
  | some s => if s == hand then hand else s!"FLOWDIFF hand=[{hand}] src=[{s}]"
  | none => s!"FLOWDIFF hand=[{hand}] src=[stuck]"

def showBasisR (r : Except BasisErr BasisIn) : String :=
  match r with
  | .ok o => (match o.nbf with | some n => s!"ok {n}" | none => "ok ?")
  | .error (.fields l) => showErr (.validation l)
  | .error .nbfMismatch => showErr .nbfMismatch

def stepA (wp so nf drv props wfn rr sout files : String) : String :=
  match parseWP? wp, parseBool01? so, parseNP? nf, parseDriver? drv, parseProps? props, parseWfn? wfn,
        parseRR? rr, parseBool01? sout, parseFiles? files with
  | some wp, some so, some nf, some drv, some props, some wfn, some rr, some sout, some files =>
    let i : ARIn Unit Unit := { wp := wp, so := so, nf := nf, driver := drv, props := props, wfn := wfn, rr := rr,
                                stdout := if sout then some () else none, native := files }
    threeWay (showAR (atomicResult i)) ((Src.atomicResultSrc i).map showAR)
  | _, _, _, _, _, _, _, _, _ => "bad-op"

def stepC20 (line : String) : String :=
  match splitOnChar line '|' with
  | ["A", wp, so, nf, drv, props, wfn, rr, sout, files] => stepA wp so nf drv props wfn rr sout files
  | ["W", wfn] =>
    match parseWfn? wfn with
    | some (some w) =>
      match validateWfn w with
      | .ok o => "ok " ++ showWfn o
      | .error e => showErr e
    | _ => "bad-op"
  | ["P", props] =>
    match parseProps? props with
    | some p =>
      match validateProps p with
      | .ok o => "ok " ++ showProps o
      | .error l => showErr (.validation (l.map PropArr.name))
    | none => "bad-op"
  | ["B", b] =>
    match parseBasis? b with
    | some b => threeWay (showBasisR (validateBasis b)) ((Src.validateBasisSrc b).map showBasisR)
    | none => "bad-op"
  | ["T", pol, n] =>
    match parseTP? pol, parseNat? n with
    | some p, some n =>
      threeWay ("ok " ++ showNatList (trajectoryProtocol p (List.range n)))
        ((Src.trajectorySrc p (List.range n)).map (fun l => "ok " ++ showNatList l))
    | _, _ => "bad-op"
  | _ => "bad-op"

/-! ### element-carrying ops -/

def isTok (s : String) : Bool := !s.isEmpty && s.toList.all (fun c => c.isDigit || ('a' ≤ c && c ≤ 'f'))
def isLay (s : String) : Bool := s == "c" || s == "f" || s == "s" || s == "l"

def parseFieldArrs? {α : Type} (all : List α) (name : α → String) (s : String) : Option (List (α × Arr String)) :=
  let items := splitNonEmpty s ','
  let names := items.map (fun it => (splitOnChar it ':').headD "")
  if names.eraseDups.length != names.length then none else
  items.mapM (fun it =>
    match splitOnChar it ':' with
    | [n, sh, tok, lay] => do
        let k ← lookupName? all name (trimStr n)
        let v ← parseShape? sh
        if isTok tok && isLay lay then pure (k, { shape := v, data := tok }) else none
    | _ => none)

def showArr (n : String) (a : Arr String) : String := s!"{n}:{showShape a.shape}:{a.data}"

def parsePropsE? (s : String) : Option (PropsInE String) :=
  match splitOnChar s '~' with
  | [n, fs] => do
      let natom ← parseOptNat? n
      let l ← parseFieldArrs? PropArr.all PropArr.name fs
      pure { natom := natom, arr := assocFn l }
  | _ => none

def showPropsE (p : PropsInE String) : String :=
  let n := match p.natom with | none => "N" | some v => toString v
  let fs := PropArr.all.filterMap (fun k => (p.arr k).map (showArr k.name))
  n ++ "~" ++ ",".intercalate fs

def parseWfnE? (s : String) : Option (Option (WfnE String BasisIn)) :=
  if trimStr s == "N" then some none else
  match splitOnChar s '~' with
  | [r, b, arrs, ptrs] => do
      let r ← (match trimStr r with | "1" => some (some true) | "0" => some (some false) | "-" => some none | _ => none)
      let b ← (if trimStr b == "-" then some none else (parseBasis? b).map some)
      let al ← parseFieldArrs? ArrKey.all ArrKey.name arrs
      let pl ← parsePtrs? ptrs
      pure (some { restricted := r, basis := b, arr := assocFn al, ptr := assocFn pl })
  | _ => none

def showWfnE (w : WfnE String BasisIn) : String :=
  let r := match w.restricted with | some true => "1" | some false => "0" | none => "-"
  let b := match w.basis with
    | none => "-"
    | some b => match b.nbf with | some n => toString n | none => "?"
  let arrs := ArrKey.all.filterMap (fun k => (w.arr k).map (showArr k.name))
  let ptrs := PtrKey.all.filterMap (fun k => (w.ptr k).map (fun t => s!"{k.name}>{t.name}"))
  r ++ "~" ++ b ++ "~" ++ ",".intercalate arrs ++ "~" ++ ",".intercalate ptrs

def parseRRE? (s : String) : Option (RRE String) :=
  match splitOnChar (trimStr s) ':' with
  | ["f", tok] => if isTok tok then some (.scalar tok) else none
  | ["d", tok] => if isTok tok then some (.dict tok) else none
  | [sh, tok, lay] => do
      let v ← parseShape? sh
      if isTok tok && isLay lay then pure (.arr { shape := v, data := tok }) else none
  | _ => none

def showRRE : RRE String → String
  | .scalar d => "f:" ++ d
  | .dict d => "d:" ++ d
  | .arr a => s!"{showShape a.shape}:{a.data}"

def stepAE (wp so nf drv props wfn rr sout files : String) : String :=
  match parseWP? wp, parseBool01? so, parseNP? nf, parseDriver? drv, parsePropsE? props, parseWfnE? wfn,
        parseRRE? rr, parseBool01? sout, parseFiles? files with
  | some wp, some so, some nf, some drv, some props, some wfn, some rr, some sout, some files =>
    let i : ARInE String Unit Unit := { wp := wp, so := so, nf := nf, driver := drv, props := props, wfn := wfn, rr := rr,
                                        stdout := if sout then some () else none, native := files }
    let h := showAR (atomicResult i.shapes)
    let sLine := (Src.atomicResultSrc i.shapes).map showAR
    if sLine != some h then threeWay h sLine else
    -- the element-carrying wavefunction protocol, source-derived vs hand model
    let showWPE : Except Err (Option (WfnE String BasisIn)) → String := fun r =>
      match r with | .ok none => "N" | .ok (some w) => showWfnE w | .error e => showErr e
    let eHand := match wfn with | none => "N" | some w => showWPE (wfnProtocolE wp w)
    let eSrc := match wfn with | none => some "N" | some w => (Src.wfnProtocolESrc wp w).map showWPE
    if eSrc != some eHand then threeWay eHand eSrc else
    match atomicResultE i with
    | .ok o =>
      let w := match o.wfn with | none => "N" | some w => showWfnE w
      s!"ok props={showPropsE o.props} wfn={w} rr={showRRE o.rr} stdout={if o.stdout.isSome then 1 else 0} files={showFiles o.native}"
    | .error e => showErr e
  | _, _, _, _, _, _, _, _, _ => "bad-op"

def stepC20E (line : String) : String :=
  match splitOnChar line '|' with
  | ["AE", wp, so, nf, drv, props, wfn, rr, sout, files] => stepAE wp so nf drv props wfn rr sout files
  | ["PE", props] =>
    match parsePropsE? props with
    | some p =>
      match validatePropsE p with
      | .ok o => "ok " ++ showPropsE o
      | .error l => showErr (.validation (l.map PropArr.name))
    | none => "bad-op"
  | _ => stepC20 line

def main : IO Unit := mainLoop stepC20E
