import QcelVerif.Model.MolTextRe
import QcelVerif.Lib.Proto
/-!
Line-protocol driver for the regex tie of C07 (three-way check: CPython `re` | generic engine on the generated ASTs | M1's
hand recognisers).

  X|<pattern name>|<m|f|s>|<hex>     generic engine on a generated pattern: `match` / `fullmatch` / `search`
        -> `none` | `ok <start> <end> <g1>,<g2>,…`   (groups: `N` | `s<hex>`)
  L|<hex of a stripped line>        every line-level recogniser, hand and engine:
        -> `cgmp=<hand>#<engine>;xyz1strict=…;xyz1=…;xyz2=…;atom=…;atomstrict=…;com=…;orient=…;units=…;sym=…;efp=…;sep=…`
  N|<hex of a token>                -> `number=<hand>#<engine>`
  C|<hex of a text>                 -> `comment=<hand>#<engine>`
  F|<hex of a text>                 -> `frags=<hand>#<engine>`
  values: `none`, `?` (the scan met an empty match: not modelled), booleans `0/1`, texts as hex (`-` = empty), tuples joined by `,`,
  lists by `/`
-/
open QcelVerif QcelVerif.MolText QcelVerif.Proto QcelVerif.Regex

def hexVal? (c : Char) : Option Nat :=
  if c.isDigit then some (c.toNat - 48)
  else if 'a' ≤ c && c ≤ 'f' then some (c.toNat - 87)
  else if 'A' ≤ c && c ≤ 'F' then some (c.toNat - 55)
  else none

def unhex? : List Char → Option (List Char)
  | [] => some []
  | [_] => none
  | a :: b :: t => do
    let x ← hexVal? a
    let y ← hexVal? b
    let r ← unhex? t
    pure (Char.ofNat (x * 16 + y) :: r)

def hexDigit (n : Nat) : Char := if n < 10 then Char.ofNat (48 + n) else Char.ofNat (87 + n)

def hexOf (s : List Char) : String :=
  if s.isEmpty then "-" else String.ofList (s.flatMap fun c => [hexDigit (c.toNat / 16), hexDigit (c.toNat % 16)])

def unhexOpt? (s : String) : Option (List Char) := if s == "-" then some [] else unhex? s.toList

def showB (b : Bool) : String := if b then "1" else "0"

def showO {α} (f : α → String) : Option α → String
  | none => "none"
  | some a => f a

def showUnit : Option Bool → String
  | none => "-"
  | some true => "B"
  | some false => "A"

def show2 (p : Str × Str) : String := hexOf p.1 ++ "," ++ hexOf p.2
def show4 (p : Str × Str × Str × Str) : String := hexOf p.1 ++ "," ++ hexOf p.2.1 ++ "," ++ hexOf p.2.2.1 ++ "," ++ hexOf p.2.2.2
def showEfp (p : Str × List Str) : String := ",".intercalate (hexOf p.1 :: p.2.map hexOf)
def showList (l : List Str) : String := ",".intercalate (l.map hexOf)
def showFrags (l : List (List Str)) : String := "/".intercalate (l.map showList)

/-- `?` when the scan met an empty match -/
def showQ {α} (f : α → String) : Option α → String
  | none => "?"
  | some a => f a

def pair (name hand eng : String) : String := name ++ "=" ++ hand ++ "#" ++ eng

def lineOps (s : Str) : String :=
  ";".intercalate [
    pair "cgmp" (showO show2 (cgmpHand s)) (showO show2 (cgmpRe s)),
    pair "xyz1strict" (showO hexOf (xyz1strictHand s)) (showO hexOf (xyz1strictRe s)),
    pair "xyz1" (showO showUnit (xyz1Hand s)) (showO showUnit (xyz1Re s)),
    pair "xyz2" (showO show2 (xyz2Hand s)) (showO show2 (xyz2Re s)),
    pair "atom" (showO show4 (atomHand s)) (showO show4 (atomRe s)),
    pair "atomstrict" (showO show4 (atomStrictHand s)) (showO show4 (atomStrictRe s)),
    pair "com" (showB (comHand s)) (showB (comRe s)),
    pair "orient" (showB (orientHand s)) (showB (orientRe s)),
    pair "units" (showO showUnit (unitsHand s)) (showO showUnit (unitsRe s)),
    pair "sym" (showO hexOf (symHand s)) (showO hexOf (symRe s)),
    pair "efp" (showO showEfp (efpHand s)) (showO showEfp (efpRe s)),
    pair "sep" (showQ showList (splitSepHand s)) (showQ showList (splitSepRe s))]

def genPattern? (name : String) : Option (Re × Nat) :=
  (Gen.FromStringRegex.byName.find? fun x => x.1 == name).map fun x => x.2

def hexRaw (s : List Char) : String := String.ofList (s.flatMap fun c => [hexDigit (c.toNat / 16), hexDigit (c.toNat % 16)])

def showMatch (n : Nat) (len : Nat) (start : Nat) (st : St) : String :=
  let gs := (List.range n).map fun i => match st.group (i + 1) with | some b => "s" ++ hexRaw (ofBytes b) | none => "N"
  s!"ok {start} {len - st.rest.length} {",".intercalate gs}"

def evalPattern (name mode : String) (txt : Str) : String :=
  match genPattern? name with
  | some (r, n) =>
    let b := toBytes txt
    if mode == "m" then (match r.matchPrefix b with | some st => showMatch n b.length 0 st | none => "none")
    else if mode == "f" then (match r.fullMatch b with | some st => showMatch n b.length 0 st | none => "none")
    else if mode == "s" then (match r.search b with | some (p, st) => showMatch n b.length p st | none => "none")
    else "bad-op"
  | none => "bad-op"

def stepC07c (line : String) : String :=
  match splitOnChar line '|' with
  | ["X", name, mode, hx] => (match unhexOpt? hx with | some t => evalPattern name mode t | none => "bad-op")
  | ["L", hx] => (match unhexOpt? hx with | some t => lineOps t | none => "bad-op")
  | ["N", hx] => (match unhexOpt? hx with | some t => pair "number" (showB (isNumberHand t)) (showB (isNumberRe t)) | none => "bad-op")
  | ["C", hx] =>
    (match unhexOpt? hx with
     | some t => pair "comment" (showQ hexOf (filterCommentsHand t)) (showQ hexOf (filterCommentsRe t))
     | none => "bad-op")
  | ["F", hx] =>
    (match unhexOpt? hx with
     | some t => pair "frags" (showQ showFrags (fragsHand t)) (showQ showFrags (fragsRe t))
     | none => "bad-op")
  | _ => "bad-op"

def main : IO Unit := mainLoop stepC07c
