import QcelVerif.Model.TextToMol
import QcelVerif.Lib.Proto
/-!
Second line-protocol driver for C07: the WHOLE of `from_string(text, dtype)["qm"]` in Lean — text layer (M1,
`MolText.parseText`) → `from_input_arrays` field mapping (`TextToMol.toInp`) → `from_arrays` model (C04) with the C06 model
of `reconcile_nucleus` over the generated periodic table and the C05 model of `validate_and_fill_chgmult`
(`TextToMol.readMol`), under `rd64`.

  R|<xyz|xyz+|psi4>|<hex of the ASCII text>
      -> `ok|units|geom|elea|elez|elem|mass|real|elbl|seps|c|fc|m|fm|fix_com|fix_orientation|fix_symmetry`
         (lists `L a,b,…`; rationals `n/d`; strings with a leading `'`; booleans T/F; absent `~`)
       | `empty` (no atom: from_string returns a record without "qm")
       | `err MoleculeFormat` | `err Validation` | `err NotAnElement`
       | `oos` (text outside the model's scope) | `gap` (a "cannot happen" class of the C05/C06 models)
  RW|<xyz|psi4>|<bohrOut T/F>|<title hex>|<elem L>|<real L>|<elbl L>|<seps L>|<c>|<fc L>|<m>|<fm L>|<fix_com T/F>|<fix_orientation T/F>|<coords L printed>
      -> `<hex of writeMol …>|<R-answer for that text read as psi4 resp. xyz+>`

The per-element range table is memoised exactly as in `Driver/C04b.lean` (`lookupRange_memo`: transparent).
`angToAu` is never consulted on this path (`input_units_to_au` is absent: `validateUnits` returns before using it); it is 1 here.
-/
open QcelVerif QcelVerif.MolText QcelVerif.FromArrays QcelVerif.TextToMol QcelVerif.Proto

namespace C07bDrv

def hexVal? (c : Char) : Option Nat :=
  if c.isDigit then some (c.toNat - 48)
  else if 'a' ≤ c && c ≤ 'f' then some (c.toNat - 87)
  else if 'A' ≤ c && c ≤ 'F' then some (c.toNat - 55)
  else none

def unhex? : List Char → Option (List Char)
  | [] => some []
  | [_] => none
  | a :: b :: t => do
    let x ← hexVal? a
    let y ← hexVal? b
    let r ← unhex? t
    pure (Char.ofNat (x * 16 + y) :: r)

def hexDigit (n : Nat) : Char := if n < 10 then Char.ofNat (48 + n) else Char.ofNat (87 + n)

def hexOf (s : List Char) : String :=
  if s.isEmpty then "-" else String.ofList (s.flatMap fun c => [hexDigit (c.toNat / 16), hexDigit (c.toNat % 16)])

def unhexOpt? (s : String) : Option (List Char) := if s == "-" then some [] else unhex? s.toList

def dtypeOf? (s : String) : Option Dtype :=
  if s == "xyz" then some .xyz else if s == "xyz+" then some .xyzPlus else if s == "psi4" then some .psi4 else none

def sStr (s : String) : String := "'" ++ s
def sChars (s : List Char) : String := "'" ++ String.ofList s
def sOpt {α} (f : α → String) : Option α → String
  | none => "~"
  | some x => f x
def sList {α} (f : α → String) (l : List α) : String := "L" ++ ",".intercalate (l.map f)
def sBool (b : Bool) : String := if b then "T" else "F"

def showRec (r : Molrec) : String :=
  "|".intercalate
    [ "ok", sChars r.units, sList showRat r.geom,
      sList toString r.elea, sList toString r.elez, sList sStr r.elem, sList showRat r.mass,
      sList sBool r.real, sList sStr r.elbl, sList toString r.seps,
      toString r.c, sList toString r.fc, toString r.m, sList toString r.fm,
      sBool r.fixCom, sBool r.fixOrient, sOpt sChars r.fixSymm ]

def showOutcome : TextToMol.Outcome → String
  | .mol r => showRec r
  | .noAtoms => "empty"
  | .error .moleculeFormat => "err MoleculeFormat"
  | .error .validation => "err Validation"
  | .error .notAnElement => "err NotAnElement"
  | .outOfScope => "oos"
  | .modelGap => "gap"

def pBool? (s : String) : Option Bool :=
  if s == "T" then some true else if s == "F" then some false else none

def pList {α} (p : String → Option α) (s : String) : Option (List α) :=
  match s.toList with
  | 'L' :: t => if t.isEmpty then some [] else (splitOnChar (String.ofList t) ',').mapM p
  | _ => none

def pHexStr? (s : String) : Option String := (unhexOpt? s).map String.ofList

def parseCoord? (s : String) : Option Coord :=
  let l := s.toList
  let (neg, r) := match l with | '-' :: r => (true, r) | _ => (false, l)
  let ip := r.takeWhile Char.isDigit
  match r.dropWhile Char.isDigit with
  | '.' :: fp => if !ip.isEmpty && !fp.isEmpty && allDigits fp then some { neg, ip, fp } else none
  | _ => none

def step (env : Env) (line : String) : String :=
  match splitOnChar line '|' with
  | ["R", dt, hx] =>
    (match dtypeOf? dt, unhexOpt? hx with
     | some d, some txt => showOutcome (readMol env Nucleus.rd64 d txt)
     | _, _ => "bad-op")
  | ["RW", fmt, bohr, title, elem, real, elbl, seps, c, fc, m, fm, com, ori, coords] =>
    let r : Option String := do
      let fmt ← (if fmt == "xyz" then some Fmt.xyz else if fmt == "psi4" then some Fmt.psi4 else none)
      let bohr ← pBool? bohr
      let title ← unhexOpt? title
      let rec_ : Molrec := {
        units := sBohr, iutau := none, name := none, comment := none, conn := none, geom := [], elea := [], elez := [], mass := []
        elem := ← pList pHexStr? elem
        real := ← pList pBool? real
        elbl := ← pList pHexStr? elbl
        seps := ← pList parseInt? seps
        c := ← parseInt? c
        fc := ← pList parseInt? fc
        m := ← parseInt? m
        fm := ← pList parseInt? fm
        fixCom := ← pBool? com
        fixOrient := ← pBool? ori
        fixSymm := none }
      let coords ← pList parseCoord? coords
      let txt := writeMol fmt rec_ bohr coords title
      let d : Dtype := match fmt with | .xyz => .xyzPlus | .psi4 => .psi4
      pure (hexOf txt ++ "|" ++ showOutcome (readMol env Nucleus.rd64 d txt))
    r.getD "bad-op"
  | _ => "bad-op"

end C07bDrv

def main : IO Unit := do
  let tbl := Nucleus.memoRange Nucleus.shippedN Nucleus.rd64 (Gen.PT.elements.map (·.2.1))
  let env : Env := { recon := reconOfC06With Nucleus.shippedN Nucleus.rd64 (Nucleus.lookupRange Nucleus.shippedN Nucleus.rd64 tbl), angToAu := 1 }
  mainLoop (C07bDrv.step env)
