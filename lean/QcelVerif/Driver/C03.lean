import QcelVerif.Model.Units
import QcelVerif.Model.UnitText
import QcelVerif.Model.UnitRender
import QcelVerif.Gen.UnitsCodata
import QcelVerif.Gen.UnitNames
import QcelVerif.Lib.Proto
/-!
Line-protocol driver for the C03 models.

    conv|<2014|2018>|<expr>|<expr>     →  impl <res>;si <res>;phys <res>
    sel|<expr>                          →  what `_find_nist_unit` returns on the parsed source (debug/tie)

    convs|<2014|2018>|<arg>|<arg>      →  impl <cres>;si <cres>;phys <cres>;pa <pexpr>;pb <pexpr>;ia <pexpr>;ib <pexpr>
                                          the arguments as the caller passes them (text level, Model/UnitText.lean):
                                          `s:<text>` str | `q:<rat>:<text>` Quantity | `d:<text>` Quantity with a Decimal
                                          magnitude | `u:<text>` Unit | `o` any other object;
                                          `pa/pb` the expression the text means, `ia/ib` what parse_expression computes
    spell|<pexp>|<base>                 →  the spellings `Units.Text.spellingsOf` lists for that prefix, comma-separated
    res|<name>                          →  key <canonical registry key>|err <class> ; unit <pexp> <base>|none
    rend|<pre>|<post>|<rexpr>           →  wf <0|1>;listed <0|1>;ast <pexpr>;den <pexpr|err>;txt <text>
                                          the RENDERER (Model/UnitRender.lean): `<rexpr>` is the decorated expression the harness drew
                                          (prefix notation, `-` for an empty digit string):
                                          `n <ip> <fp> <dotted> <hasExp> <capE> <esign> <ed>` | `u <pexp> <base> <name>` | `p e` |
                                          `b <dv> <spaced> a b` | `j <blank> a b` | `w <crt> <spL> <spR> <paren> <sign> <blank> <digits> a`;
                                          `txt` is `RExpr.renderTop pre post` (compared byte for byte with the harness's own string),
                                          `wf`/`listed` the hypotheses of `Props/C03Parse.lean`, `ast` = `erase`, `den` = `denote`

`<expr>` is a prefix-notation token list:  `n <rat>` | `u <pexp> <base>` | `* a b` | `/ a b` | `^ <int> a`.
`<res>` is `ok <rat>` | `err Dimensionality` | `err UndefinedUnit`.
-/
open QcelVerif QcelVerif.Units QcelVerif.Proto

def auOfName? : String → Option AuU
  | "hyper1" => some .hyper1 | "hyper2" => some .hyper2 | "action" => some .action
  | "chargeDensity" => some .chargeDensity | "current" => some .current | "dipole" => some .dipole
  | "efield" => some .efield | "efg" => some .efg | "polarizability" => some .polarizability
  | "potential" => some .potential | "quadrupole" => some .quadrupole | "force" => some .force
  | "magDipole" => some .magDipole | "magFlux" => some .magFlux | "magnetizability" => some .magnetizability
  | "momentum" => some .momentum | "permittivity" => some .permittivity | "time" => some .time
  | "velocity" => some .velocity
  | _ => none

def baseOfName? (s : String) : Option Base :=
  match s with
  | "meter" => some .meter | "angstrom" => some .angstrom | "angstromCap" => some .angstromCap
  | "bohr" => some .bohr | "inch" => some .inch | "foot" => some .foot | "yard" => some .yard
  | "mile" => some .mile | "gram" => some .gram | "amu" => some .amu | "emass" => some .emass
  | "second" => some .second | "minute" => some .minute | "hour" => some .hour
  | "ampere" => some .ampere | "kelvin" => some .kelvin | "rankine" => some .rankine
  | "mole" => some .mole | "coulomb" => some .coulomb | "echarge" => some .echarge
  | "statC" => some .statC | "joule" => some .joule | "calorie" => some .calorie | "eV" => some .eV
  | "hartree" => some .hartree | "erg" => some .erg | "hertz" => some .hertz
  | "wavenumber" => some .wavenumber | "debye" => some .debye | "newton" => some .newton
  | "dyne" => some .dyne | "pascal" => some .pascal | "bar" => some .bar | "atm" => some .atm
  | "torr" => some .torr | "volt" => some .volt | "tesla" => some .tesla | "farad" => some .farad
  | "watt" => some .watt | "auPressure" => some .auPressure
  | _ =>
    match s.toList with
    | 'a' :: 'u' :: ':' :: t => (auOfName? (String.ofList t)).map Base.au
    | _ => none

/-- recursive-descent over the token list; `fuel` bounds the depth (token count suffices) -/
def parseExpr : Nat → List String → Option (Expr × List String)
  | 0, _ => none
  | fuel + 1, toks =>
    match toks with
    | "n" :: q :: rest => (parseRat? q).map (fun r => (Expr.num r, rest))
    | "u" :: p :: b :: rest => do
        let p ← parseInt? p
        let b ← baseOfName? b
        some (Expr.unit p b, rest)
    | "*" :: rest => do
        let (a, r1) ← parseExpr fuel rest
        let (b, r2) ← parseExpr fuel r1
        some (Expr.mul a b, r2)
    | "/" :: rest => do
        let (a, r1) ← parseExpr fuel rest
        let (b, r2) ← parseExpr fuel r1
        some (Expr.div a b, r2)
    | "^" :: n :: rest => do
        let n ← parseInt? n
        if n = 0 then none
        let (a, r1) ← parseExpr fuel rest
        some (Expr.pow a n, r1)
    | _ => none

def parseWhole? (s : String) : Option Expr :=
  let toks := splitNonEmpty s ' '
  match parseExpr (toks.length + 1) toks with
  | some (e, []) => some e
  | _ => none

def showRes : Except Err Rat → String
  | .ok r => "ok " ++ showRat r
  | .error .dimensionality => "err Dimensionality"
  | .error .undefinedUnit => "err UndefinedUnit"

def codataOf? : String → Option Codata
  | "2014" => some Gen.codata2014
  | "2018" => some Gen.codata2018
  | _ => none

def showSel : Option Sel → String
  | none => "none"
  | some (.named p n) => s!"named {p} {repr n}"
  | some .opaque => "opaque"
  | some .invMeter => "invMeter"

def stepC03 (line : String) : String :=
  match splitOnChar line '|' with
  | ["conv", ctx, a, b] =>
    match codataOf? (trimStr ctx), parseWhole? a, parseWhole? b with
    | some cd, some a, some b =>
      s!"impl {showRes (convImpl cd a b)};si {showRes (conv cd a b)};phys {showRes (convPhys cd a b)}"
    | _, _, _ => "bad-op"
  | ["sel", a] =>
    match parseWhole? a with
    | some a => showSel (findNist (parse a).2)
    | none => "bad-op"
  | _ => "bad-op"

/-! ### text level -/
open QcelVerif.Units.Text in
def showAu : AuU → String
  | .hyper1 => "hyper1" | .hyper2 => "hyper2" | .action => "action" | .chargeDensity => "chargeDensity"
  | .current => "current" | .dipole => "dipole" | .efield => "efield" | .efg => "efg"
  | .polarizability => "polarizability" | .potential => "potential" | .quadrupole => "quadrupole"
  | .force => "force" | .magDipole => "magDipole" | .magFlux => "magFlux" | .magnetizability => "magnetizability"
  | .momentum => "momentum" | .permittivity => "permittivity" | .time => "time" | .velocity => "velocity"

def showBase : Base → String
  | .meter => "meter" | .angstrom => "angstrom" | .angstromCap => "angstromCap" | .bohr => "bohr" | .inch => "inch"
  | .foot => "foot" | .yard => "yard" | .mile => "mile" | .gram => "gram" | .amu => "amu" | .emass => "emass"
  | .second => "second" | .minute => "minute" | .hour => "hour" | .ampere => "ampere" | .kelvin => "kelvin"
  | .rankine => "rankine" | .mole => "mole" | .coulomb => "coulomb" | .echarge => "echarge" | .statC => "statC"
  | .joule => "joule" | .calorie => "calorie" | .eV => "eV" | .hartree => "hartree" | .erg => "erg"
  | .hertz => "hertz" | .wavenumber => "wavenumber" | .debye => "debye" | .newton => "newton" | .dyne => "dyne"
  | .pascal => "pascal" | .bar => "bar" | .atm => "atm" | .torr => "torr" | .volt => "volt" | .tesla => "tesla"
  | .farad => "farad" | .watt => "watt" | .auPressure => "auPressure" | .au u => "au:" ++ showAu u

/-- the prefix notation `parseWhole?` reads -/
def showExpr : Expr → String
  | .num q => "n " ++ showRat q
  | .unit p b => s!"u {p} {showBase b}"
  | .mul a b => s!"* {showExpr a} {showExpr b}"
  | .div a b => s!"/ {showExpr a} {showExpr b}"
  | .pow a n => s!"^ {n} {showExpr a}"

def showTErr : Text.TErr → String
  | .syntax => "Syntax" | .token => "Token" | .assertion => "Assertion"
  | .undefinedUnit => "UndefinedUnit" | .unsupported => "Unsupported"

def showCRes : Except Text.CErr Rat → String
  | .ok r => "ok " ++ showRat r
  | .error (.text e) => "err " ++ showTErr e
  | .error (.conv .dimensionality) => "err Dimensionality"
  | .error (.conv .undefinedUnit) => "err UndefinedUnit"
  | .error .typeError => "err TypeError"
  | .error .attributeError => "err AttributeError"

def showParsed : Except Text.TErr Expr → String
  | .ok e => showExpr e
  | .error e => "err " ++ showTErr e

def bytesOf (s : String) : PStr.Bytes := s.toList.map Char.toNat

/-- split at the first `:` -/
def cutColon (l : List Char) : List Char × List Char :=
  (l.takeWhile (· != ':'), (l.dropWhile (· != ':')).drop 1)

def argOf? (s : String) : Option Text.Arg :=
  match s.toList with
  | ['o'] => some .other
  | 's' :: ':' :: t => some (.str (t.map Char.toNat))
  | 'd' :: ':' :: t => some (.qtyDecimal (t.map Char.toNat))
  | 'u' :: ':' :: t => some (.unit (t.map Char.toNat))
  | 'q' :: ':' :: t =>
    let (m, txt) := cutColon t
    (parseRat? (String.ofList m)).map (fun q => .qty q (txt.map Char.toNat))
  | _ => none

def argText : Text.Arg → Option PStr.Bytes
  | .str s => some s | .qty _ s => some s | .qtyDecimal s => some s | .unit s => some s | .other => none

def showArgParse (parse : PStr.Bytes → Except Text.TErr Expr) (a : Text.Arg) : String :=
  match argText a with
  | some s => showParsed (parse s)
  | none => "none"

def stepText (line : String) : Option String :=
  match splitOnChar line '|' with
  | ["convs", ctx, a, b] =>
    match codataOf? (trimStr ctx), argOf? a, argOf? b with
    | some cd, some a, some b =>
      let pT := Text.parseText Gen.nameReg
      let pI := Text.parseImpl Gen.nameReg
      some (s!"impl {showCRes (Text.convArgs pI (convImpl cd) a b)};si {showCRes (Text.convArgs pT (conv cd) a b)};" ++
        s!"phys {showCRes (Text.convArgs pT (convPhys cd) a b)};pa {showArgParse pT a};pb {showArgParse pT b};" ++
        s!"ia {showArgParse pI a};ib {showArgParse pI b}")
    | _, _, _ => some "bad-op"
  | ["res", name] =>
    let nm := bytesOf name
    let k := match Text.resolveKey Gen.nameReg nm with
      | .ok key => "key " ++ String.ofList (key.map Char.ofNat)
      | .error e => "err " ++ showTErr e
    let u := match Text.resolveUnit Gen.nameReg nm with
      | .ok (p, b) => s!"unit {p} {showBase b}"
      | .error _ => "none"
    some (k ++ ";" ++ u)
  | ["spell", pe, bn] =>
    match parseInt? pe, baseOfName? (trimStr bn) with
    | some pe, some x =>
      let l := if pe == 0 then Text.spellings0 x
               else match Text.siPrefixes.find? (fun q => q.1 == pe) with
                 | some pre => Text.spellingsP pre x
                 | none => []
      some (",".intercalate (l.map (fun sp => String.ofList (sp.name.map Char.ofNat))))
    | _, _ => some "bad-op"
  | _ => none

/-! ### the renderer (Model/UnitRender.lean) -/

def digitsOf? (s : String) : Option PStr.Bytes :=
  if s == "-" then some []
  else
    let l := s.toList.map Char.toNat
    if l.all Text.isDigit then some l else none

def flag? : String → Option Bool
  | "0" => some false
  | "1" => some true
  | _ => none

def sign? : String → Option Nat
  | "0" => some 0 | "1" => some 1 | "2" => some 2 | _ => none

def parseRExpr : Nat → List String → Option (Text.RExpr × List String)
  | 0, _ => none
  | fuel + 1, toks =>
    match toks with
    | "n" :: ip :: fp :: dotted :: hasExp :: capE :: esign :: ed :: rest => do
        let ip ← digitsOf? ip
        let fp ← digitsOf? fp
        let dotted ← flag? dotted
        let hasExp ← flag? hasExp
        let capE ← flag? capE
        let esign ← sign? esign
        let ed ← digitsOf? ed
        some (.num ⟨ip, fp, dotted, hasExp, capE, esign, ed⟩, rest)
    | "u" :: p :: b :: name :: rest => do
        let p ← parseInt? p
        let b ← baseOfName? b
        some (.unit p b (name.toList.map Char.toNat), rest)
    | "p" :: rest => do
        let (e, r1) ← parseRExpr fuel rest
        some (.paren e, r1)
    | "b" :: dv :: sp :: rest => do
        let dv ← flag? dv
        let sp ← flag? sp
        let (a, r1) ← parseRExpr fuel rest
        let (b, r2) ← parseRExpr fuel r1
        some (.bin dv sp a b, r2)
    | "j" :: bl :: rest => do
        let bl ← flag? bl
        let (a, r1) ← parseRExpr fuel rest
        let (b, r2) ← parseRExpr fuel r1
        some (.juxt bl a b, r2)
    | "w" :: crt :: spL :: spR :: paren :: sign :: blank :: ds :: rest => do
        let crt ← flag? crt
        let spL ← flag? spL
        let spR ← flag? spR
        let paren ← flag? paren
        let sign ← sign? sign
        let blank ← flag? blank
        let ds ← digitsOf? ds
        let (a, r1) ← parseRExpr fuel rest
        some (.pow a crt spL spR ⟨paren, sign, blank, ds⟩, r1)
    | _ => none

def stepRend (line : String) : Option String :=
  match splitOnChar line '|' with
  | ["rend", pre, post, enc] =>
    let toks := splitNonEmpty enc ' '
    match parseInt? pre, parseInt? post, parseRExpr (toks.length + 1) toks with
    | some pre, some post, some (e, []) =>
      if pre < 0 || post < 0 then some "bad-op"
      else
        let b := fun (x : Bool) => if x then "1" else "0"
        some (s!"wf {b e.WF};listed {b e.Listed};ast {showExpr e.erase};" ++
          s!"den {showParsed (e.denote (Text.resolveUnit Gen.nameReg))};txt " ++
          String.ofList ((e.renderTop pre.toNat post.toNat).map Char.ofNat))
    | _, _, _ => some "bad-op"
  | _ => none

def stepAll (line : String) : String :=
  match stepRend line with
  | some r => r
  | none =>
    match stepText line with
    | some r => r
    | none => stepC03 line

def main : IO Unit := mainLoop stepAll
