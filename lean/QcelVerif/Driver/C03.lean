import QcelVerif.Model.Units
import QcelVerif.Gen.UnitsCodata
import QcelVerif.Lib.Proto
/-!
Line-protocol driver for the C03 models.

    conv|<2014|2018>|<expr>|<expr>     →  impl <res>;si <res>;phys <res>
    sel|<expr>                          →  what `_find_nist_unit` returns on the parsed source (debug/tie)

`<expr>` is a prefix-notation token list:  `n <rat>` | `u <pexp> <base>` | `* a b` | `/ a b` | `^ <int> a`.
`<res>` is `ok <rat>` | `err Dimensionality` | `err UndefinedUnit`.
-/
open QcelVerif QcelVerif.Units QcelVerif.Proto

def auOfName? : String → Option AuU
  | "hyper1" => some .hyper1 | "hyper2" => some .hyper2 | "action" => some .action
  | "chargeDensity" => some .chargeDensity | "current" => some .current | "dipole" => some .dipole
  | "efield" => some .efield | "efg" => some .efg | "polarizability" => some .polarizability
  | "potential" => some .potential | "quadrupole" => some .quadrupole | "force" => some .force
  | "magDipole" => some .magDipole | "magFlux" => some .magFlux | "magnetizability" => some .magnetizability
  | "momentum" => some .momentum | "permittivity" => some .permittivity | "time" => some .time
  | "velocity" => some .velocity
  | _ => none

def baseOfName? (s : String) : Option Base :=
  match s with
  | "meter" => some .meter | "angstrom" => some .angstrom | "angstromCap" => some .angstromCap
  | "bohr" => some .bohr | "inch" => some .inch | "foot" => some .foot | "yard" => some .yard
  | "mile" => some .mile | "gram" => some .gram | "amu" => some .amu | "emass" => some .emass
  | "second" => some .second | "minute" => some .minute | "hour" => some .hour
  | "ampere" => some .ampere | "kelvin" => some .kelvin | "rankine" => some .rankine
  | "mole" => some .mole | "coulomb" => some .coulomb | "echarge" => some .echarge
  | "statC" => some .statC | "joule" => some .joule | "calorie" => some .calorie | "eV" => some .eV
  | "hartree" => some .hartree | "erg" => some .erg | "hertz" => some .hertz
  | "wavenumber" => some .wavenumber | "debye" => some .debye | "newton" => some .newton
  | "dyne" => some .dyne | "pascal" => some .pascal | "bar" => some .bar | "atm" => some .atm
  | "torr" => some .torr | "volt" => some .volt | "tesla" => some .tesla | "farad" => some .farad
  | "watt" => some .watt | "auPressure" => some .auPressure
  | _ =>
    match s.toList with
    | 'a' :: 'u' :: ':' :: t => (auOfName? (String.ofList t)).map Base.au
    | _ => none

/-- recursive-descent over the token list; `fuel` bounds the depth (token count suffices) -/
def parseExpr : Nat → List String → Option (Expr × List String)
  | 0, _ => none
  | fuel + 1, toks =>
    match toks with
    | "n" :: q :: rest => (parseRat? q).map (fun r => (Expr.num r, rest))
    | "u" :: p :: b :: rest => do
        let p ← parseInt? p
        let b ← baseOfName? b
        some (Expr.unit p b, rest)
    | "*" :: rest => do
        let (a, r1) ← parseExpr fuel rest
        let (b, r2) ← parseExpr fuel r1
        some (Expr.mul a b, r2)
    | "/" :: rest => do
        let (a, r1) ← parseExpr fuel rest
        let (b, r2) ← parseExpr fuel r1
        some (Expr.div a b, r2)
    | "^" :: n :: rest => do
        let n ← parseInt? n
        if n = 0 then none
        let (a, r1) ← parseExpr fuel rest
        some (Expr.pow a n, r1)
    | _ => none

def parseWhole? (s : String) : Option Expr :=
  let toks := splitNonEmpty s ' '
  match parseExpr (toks.length + 1) toks with
  | some (e, []) => some e
  | _ => none

def showRes : Except Err Rat → String
  | .ok r => "ok " ++ showRat r
  | .error .dimensionality => "err Dimensionality"
  | .error .undefinedUnit => "err UndefinedUnit"

def codataOf? : String → Option Codata
  | "2014" => some Gen.codata2014
  | "2018" => some Gen.codata2018
  | _ => none

def showSel : Option Sel → String
  | none => "none"
  | some (.named p n) => s!"named {p} {repr n}"
  | some .opaque => "opaque"
  | some .invMeter => "invMeter"

def stepC03 (line : String) : String :=
  match splitOnChar line '|' with
  | ["conv", ctx, a, b] =>
    match codataOf? (trimStr ctx), parseWhole? a, parseWhole? b with
    | some cd, some a, some b =>
      s!"impl {showRes (convImpl cd a b)};si {showRes (conv cd a b)};phys {showRes (convPhys cd a b)}"
    | _, _, _ => "bad-op"
  | ["sel", a] =>
    match parseWhole? a with
    | some a => showSel (findNist (parse a).2)
    | none => "bad-op"
  | _ => "bad-op"

def main : IO Unit := mainLoop stepC03
