import QcelVerif.Model.Schema
import QcelVerif.Model.MolSchema
import QcelVerif.Model.MolDict
import QcelVerif.Model.ResultKwargs
import QcelVerif.Model.Hash
import QcelVerif.Gen.SchemaC09
import QcelVerif.Gen.MolSchemaSrc
import QcelVerif.Lib.Proto
/-!
Line-protocol driver for the C09 models.  One output line per input line.

  tie                         declSchema(env) vs the exported schemas of the six models  -> `ok` | `diff …`
  wf                          Env.wf of the generated declarations                        -> `T` | `F`
  conf|<Model>|<val>          -> `<hasType> <validate against EXPORTED schema> <emitted json>`
  val|<Model>|<json>          -> `T` | `F`   (exported schema, arbitrary JSON document)
  pat|<pattern>|<string>      -> `T` | `F`   (the pattern matcher)
  build|<Model>|<kwargs val>  the constructor models of Model/ResultValues.lean on keyword input (Model/ResultKwargs.lean)
                              -> `ok <input.ok> <input.uniq> <hasType of the value> <validate, exported schema> <emitted json>`
                              | `refused <input.ok> <input.uniq>` (a validator of the model refuses) | `bad-op` (unreadable keywords)
  toschema|<v>|<dflt>|<fg>|<molrec fields…>      -> the schema dictionary
  srctoschema|<dtype>|<dflt>|<fg>|<np_out T/F>|<copy T/F>|<molrec fields…>
                              the SOURCE-DERIVED voice: the generic evaluator of Model/MolSchemaAst.lean at the term
                              Gen/MolSchemaSrc.lean holds (re-read from to_schema.py on this run)
                              -> the schema dictionary as above + `|<geometry the caller's record holds afterwards>`
                              | `err <kind>` | `src-stuck` | `src-untranslated`
  srcfromschema|<name>|<version>|M/T/0|<moldict …>   the same for from_schema.py -> as `fromschema`
  fromschema|<name>|<version>|M/T|<moldict …>    -> the from_arrays arguments | `err <kind>`
  construct|<name>|<version>|<dflt>|<fg>|<default masses>|<kwargs moldict (19)>|<molrec (20)>
                              `Molecule(**kwargs)` with the record `from_schema` returned as the value of the
                              `from_arrays` parameter -> `ok|<the 19 entries of mol.dict()>|<rebuild(dict m) = m>|<agreesB>|<singleOkB>|<hasType of molVal>|<emit of molVal>`
                              | `err <kind>`

Value / JSON syntax (prefix, every token ends with `;`):
  N;  T;  F;  I<int>;  R<p>/<q>;  S<hex code points joined by .>;  L<n>; v…   A<rank>; d…; <n>; v…
  D<n>; (S…; v)…    O<S-payload>;<n>; (S…; v)…    U v
JSON uses the lower-case letters n t f i r s a o.
-/
open QcelVerif QcelVerif.Proto QcelVerif.Schema

namespace C09Drv

def fuelT : Nat := 40
def fuelV : Nat := 3 * fuelT

/-! ### tokens -/

def takeTok : List Char → Option (List Char × List Char)
  | [] => none
  | ';' :: t => some ([], t)
  | c :: t => (takeTok t).map (fun (a, r) => (c :: a, r))

def hexVal (c : Char) : Option Nat :=
  if c.isDigit then some (c.toNat - 48)
  else if 'a' ≤ c && c ≤ 'f' then some (c.toNat - 87)
  else none

def hexNat? (l : List Char) : Option Nat :=
  if l.isEmpty then none else l.foldl (fun acc c => acc.bind fun n => (hexVal c).map (n * 16 + ·)) (some 0)

/-- `61.62.1f600` -> "ab😀"; the empty payload is the empty string -/
def decodeStr (l : List Char) : Option String :=
  if l.isEmpty then some "" else
  ((splitChars '.' l).mapM (fun h => (hexNat? h).map Char.ofNat)).map String.ofList

def hexDigits (n : Nat) : String := String.ofList (Nat.toDigits 16 n)

def encodeStr (s : String) : String := ".".intercalate (s.toList.map (fun c => hexDigits c.toNat))

def intOf (l : List Char) : Option Int := parseInt? (String.ofList l)
def natOf (l : List Char) : Option Nat := natOfDigits? l
def ratOf (l : List Char) : Option Rat := parseRat? (String.ofList l)

/-! ### parsing values -/

mutual
partial def parseVal : List Char → Option (Val × List Char)
  | 'N' :: t => (takeTok t).map (fun (_, r) => (.null, r))
  | 'T' :: t => (takeTok t).map (fun (_, r) => (.bool true, r))
  | 'F' :: t => (takeTok t).map (fun (_, r) => (.bool false, r))
  | 'I' :: t => do let (a, r) ← takeTok t; let i ← intOf a; pure (.int i, r)
  | 'R' :: t => do let (a, r) ← takeTok t; let q ← ratOf a; pure (.num q, r)
  | 'S' :: t => do let (a, r) ← takeTok t; let s ← decodeStr a; pure (.str s, r)
  | 'U' :: t => do let (v, r) ← parseVal t; pure (.unset v, r)
  | 'L' :: t => do let (a, r) ← takeTok t; let n ← natOf a; let (xs, r) ← parseVals n r; pure (.list xs, r)
  | 'A' :: t => do
      let (a, r) ← takeTok t; let rank ← natOf a
      let (shape, r) ← parseNats rank r
      let (a, r) ← takeTok r; let n ← natOf a
      let (xs, r) ← parseVals n r
      pure (.arr shape xs, r)
  | 'D' :: t => do let (a, r) ← takeTok t; let n ← natOf a; let (kvs, r) ← parseKvs n r; pure (.dict kvs, r)
  | 'O' :: t => do
      let (a, r) ← takeTok t; let m ← decodeStr a
      let (a, r) ← takeTok r; let n ← natOf a
      let (kvs, r) ← parseKvs n r
      pure (.obj m kvs, r)
  | _ => none
partial def parseVals : Nat → List Char → Option (List Val × List Char)
  | 0, r => some ([], r)
  | n + 1, r => do let (v, r) ← parseVal r; let (vs, r) ← parseVals n r; pure (v :: vs, r)
partial def parseNats : Nat → List Char → Option (List Nat × List Char)
  | 0, r => some ([], r)
  | n + 1, r => do let (a, r) ← takeTok r; let d ← natOf a; let (ds, r) ← parseNats n r; pure (d :: ds, r)
partial def parseKvs : Nat → List Char → Option (List (String × Val) × List Char)
  | 0, r => some ([], r)
  | n + 1, r =>
    match r with
    | 'S' :: t => do
        let (a, r) ← takeTok t; let k ← decodeStr a
        let (v, r) ← parseVal r
        let (kvs, r) ← parseKvs n r
        pure ((k, v) :: kvs, r)
    | _ => none
end

mutual
partial def parseJson : List Char → Option (Json × List Char)
  | 'n' :: t => (takeTok t).map (fun (_, r) => (.null, r))
  | 't' :: t => (takeTok t).map (fun (_, r) => (.bool true, r))
  | 'f' :: t => (takeTok t).map (fun (_, r) => (.bool false, r))
  | 'i' :: t => do let (a, r) ← takeTok t; let i ← intOf a; pure (.int i, r)
  | 'r' :: t => do let (a, r) ← takeTok t; let q ← ratOf a; pure (.num q, r)
  | 's' :: t => do let (a, r) ← takeTok t; let s ← decodeStr a; pure (.str s, r)
  | 'a' :: t => do let (a, r) ← takeTok t; let n ← natOf a; let (xs, r) ← parseJsons n r; pure (.arr xs, r)
  | 'o' :: t => do let (a, r) ← takeTok t; let n ← natOf a; let (kvs, r) ← parseJKvs n r; pure (.obj kvs, r)
  | _ => none
partial def parseJsons : Nat → List Char → Option (List Json × List Char)
  | 0, r => some ([], r)
  | n + 1, r => do let (v, r) ← parseJson r; let (vs, r) ← parseJsons n r; pure (v :: vs, r)
partial def parseJKvs : Nat → List Char → Option (List (String × Json) × List Char)
  | 0, r => some ([], r)
  | n + 1, r =>
    match r with
    | 's' :: t => do
        let (a, r) ← takeTok t; let k ← decodeStr a
        let (v, r) ← parseJson r
        let (kvs, r) ← parseJKvs n r
        pure ((k, v) :: kvs, r)
    | _ => none
end

partial def showJson : Json → String
  | .null => "n;"
  | .bool true => "t;"
  | .bool false => "f;"
  | .int i => s!"i{i};"
  | .num q => s!"r{q.num}/{q.den};"
  | .str s => s!"s{encodeStr s};"
  | .arr xs => s!"a{xs.length};" ++ String.join (xs.map showJson)
  | .obj kvs => s!"o{kvs.length};" ++ String.join (kvs.map (fun (k, v) => s!"s{encodeStr k};" ++ showJson v))

/-! ### the tie: generated declarations vs exported schema -/

def optDiff {α} (eq : α → α → Bool) (path kw : String) (a b : Option α) : List String :=
  match a, b with
  | none, none => []
  | some x, some y => if eq x y then [] else [s!"{path}/{kw}"]
  | _, _ => [s!"{path}/{kw}(presence)"]

partial def schemaDiff (path : String) (a b : Schema) : List String :=
  optDiff (· == ·) path "$ref" a.ref b.ref ++
  optDiff (· == ·) path "type" a.type b.type ++
  optDiff (fun x y => Json.beqList x y) path "enum" a.enum b.enum ++
  optDiff (· == ·) path "pattern" a.pattern b.pattern ++
  (if a.multipleOf1 == b.multipleOf1 then [] else [s!"{path}/multipleOf"]) ++
  optDiff (· == ·) path "minimum" a.minimum b.minimum ++
  optDiff (· == ·) path "maximum" a.maximum b.maximum ++
  optDiff (· == ·) path "minItems" a.minItems b.minItems ++
  optDiff (· == ·) path "maxItems" a.maxItems b.maxItems ++
  (if a.uniqueItems == b.uniqueItems then [] else [s!"{path}/uniqueItems"]) ++
  (match a.items, b.items with
   | none, none => []
   | some x, some y => schemaDiff (path ++ "/items") x y
   | _, _ => [s!"{path}/items(presence)"]) ++
  (match a.itemsTuple, b.itemsTuple with
   | none, none => []
   | some x, some y => listDiff (path ++ "/items[]") x y
   | _, _ => [s!"{path}/items[](presence)"]) ++
  (if a.props.map (·.1) == b.props.map (·.1) then
     (a.props.zip b.props).flatMap (fun (p, q) => schemaDiff (path ++ "/properties/" ++ p.1) p.2 q.2)
   else [s!"{path}/properties(keys: {a.props.map (·.1)} vs {b.props.map (·.1)})"]) ++
  (if a.required == b.required then [] else [s!"{path}/required({a.required} vs {b.required})"]) ++
  (if a.addlForbidden == b.addlForbidden then [] else [s!"{path}/additionalProperties:false"]) ++
  (match a.addlSchema, b.addlSchema with
   | none, none => []
   | some x, some y => schemaDiff (path ++ "/additionalProperties") x y
   | _, _ => [s!"{path}/additionalProperties(presence)"]) ++
  listDiff (path ++ "/anyOf") a.anyOf b.anyOf ++
  listDiff (path ++ "/allOf") a.allOf b.allOf
where
  listDiff (path : String) (xs ys : List Schema) : List String :=
    if xs.length != ys.length then [s!"{path}(length {xs.length} vs {ys.length})"]
    else ((xs.zip ys).zipIdx).flatMap (fun ((x, y), i) => schemaDiff s!"{path}/{i}" x y)

open QcelVerif.Gen.SchemaC09 in
def tie : String :=
  let diffs := exported.flatMap (fun (name, root, defs) =>
    (match lookupDecl env name with
     | some d => schemaDiff name (declSchema d) root
     | none => [s!"{name}: no declaration"]) ++
    defs.flatMap (fun (dn, ds) =>
      match lookupDecl env dn with
      | some d => schemaDiff s!"{name}#/definitions/{dn}" (declSchema d) ds
      | none => [s!"{name}#/definitions/{dn}: no declaration"]))
  if diffs.isEmpty then "ok" else "diff " ++ " ; ".intercalate (diffs.take 12)

open QcelVerif.Gen.SchemaC09 in
def exportedOf (name : String) : Option (Schema × List (String × Schema)) :=
  (exported.find? (fun e => e.1 == name)).map (·.2)

def tf (b : Bool) : String := if b then "T" else "F"

open QcelVerif.Gen.SchemaC09 in
def conf (model : String) (payload : String) : String :=
  match parseVal payload.toList, exportedOf model with
  | some (v, []), some (root, defs) =>
    let j := emit env v
    s!"{tf (hasType env fuelT v (.model model))} {tf (validate defs fuelV root j)} {showJson j}"
  | _, _ => "bad-op"

open QcelVerif.Gen.SchemaC09 in
def buildOp (model : String) (payload : String) : String :=
  match parseVal payload.toList, exportedOf model with
  | some (v, []), some (root, defs) =>
    (match QcelVerif.ResultKwargs.build model v with
     | some (ok, uq, some val) =>
       let j := emit env val
       s!"ok {tf ok} {tf uq} {tf (hasType env fuelT val (.model model))} {tf (validate defs fuelV root j)} {showJson j}"
     | some (ok, uq, none) => s!"refused {tf ok} {tf uq}"
     | none => "bad-op")
  | _, _ => "bad-op"

def valOp (model : String) (payload : String) : String :=
  match parseJson payload.toList, exportedOf model with
  | some (j, []), some (root, defs) => tf (validate defs fuelV root j)
  | _, _ => "bad-op"

/-! ### molrec <-> schema (part b) -/

open QcelVerif.MolSchema

/-- items terminated by `sep`: "" -> [], "a," -> ["a"], "," -> [""] -/
def termList (s : String) (sep : Char) : Option (List String) :=
  match (splitOnChar s sep).reverse with
  | last :: rest => if last.isEmpty then some rest.reverse else none
  | [] => none

def optOf {α} (f : String → Option α) (s : String) : Option (Option α) :=
  match s.toList with
  | ['N'] => some none
  | 'S' :: t => (f (String.ofList t)).map some
  | _ => none

def strP (s : String) : Option String := decodeStr s.toList
def boolP (s : String) : Option Bool := if s == "T" then some true else if s == "F" then some false else none
def listP {α} (f : String → Option α) (s : String) : Option (List α) := (termList s ',') >>= (·.mapM f)
def connP (s : String) : Option (List (Nat × Nat × Rat)) :=
  listP (fun t => match splitOnChar t ':' with
    | [a, b, c] => do pure ((← parseNat? a), (← parseNat? b), (← parseRat? c))
    | _ => none) s
def fragsP (s : String) : Option (List (List Int)) := (termList s ';') >>= (·.mapM (listP parseInt?))

def showList {α} (f : α → String) (l : List α) : String := String.join (l.map (fun x => f x ++ ","))
def showOpt {α} (f : α → String) : Option α → String
  | none => "N"
  | some x => "S" ++ f x
def showConn (l : List (Nat × Nat × Rat)) : String := showList (fun (a, b, c) => s!"{a}:{b}:{showRat c}") l
def showFrags (l : List (List Int)) : String := String.join (l.map (fun f => showList toString f ++ ";"))
def showBool (b : Bool) : String := tf b

def showMolDict (m : MolDict Rat) : String :=
  "|".intercalate [
    showOpt (showList encodeStr) m.symbols, showOpt (showList showRat) m.geometry, showOpt (showList showRat) m.masses,
    showOpt (showList toString) m.atomicNumbers, showOpt (showList toString) m.massNumbers,
    showOpt (showList encodeStr) m.atomLabels, showOpt (showList showBool) m.real, showOpt encodeStr m.name,
    showOpt encodeStr m.comment, showOpt showRat m.charge, showOpt toString m.mult, showOpt showFrags m.fragments,
    showOpt (showList showRat) m.fragCharges, showOpt (showList toString) m.fragMults, showOpt showBool m.fixCom,
    showOpt showBool m.fixOri, showOpt encodeStr m.fixSym, showOpt showConn m.connectivity, showOpt showBool m.validated]

def parseMolDict : List String → Option (MolDict Rat)
  | [sy, ge, ma, an, mn, al, re, nm, co, ch, mu, fr, fc, fm, fx, fo, fs, cn, va] => do
    pure { symbols := ← optOf (listP strP) sy, geometry := ← optOf (listP parseRat?) ge,
           masses := ← optOf (listP parseRat?) ma, atomicNumbers := ← optOf (listP parseInt?) an,
           massNumbers := ← optOf (listP parseInt?) mn, atomLabels := ← optOf (listP strP) al,
           real := ← optOf (listP boolP) re, name := ← optOf strP nm, comment := ← optOf strP co,
           charge := ← optOf parseRat? ch, mult := ← optOf parseInt? mu, fragments := ← optOf fragsP fr,
           fragCharges := ← optOf (listP parseRat?) fc, fragMults := ← optOf (listP parseInt?) fm,
           fixCom := ← optOf boolP fx, fixOri := ← optOf boolP fo, fixSym := ← optOf strP fs,
           connectivity := ← optOf connP cn, validated := ← optOf boolP va }
  | _ => none

def parseMolrec : List String → Option (Molrec Rat)
  | [un, iu, ge, ea, ez, em, ma, re, lb, se, fc, fm, ch, mu, fx, fo, fs, nm, co, cn] => do
    let units ← if un == "Bohr" then some Units.bohr else if un == "Angstrom" then some Units.angstrom else none
    pure { units := units, iutau := ← optOf parseRat? iu, geom := ← listP parseRat? ge, elea := ← listP parseInt? ea,
           elez := ← listP parseInt? ez, elem := ← listP strP em, mass := ← listP parseRat? ma,
           real := ← listP boolP re, elbl := ← listP strP lb, seps := ← listP parseNat? se,
           fragCharges := ← listP parseRat? fc, fragMults := ← listP parseInt? fm, charge := ← parseRat? ch,
           mult := ← parseInt? mu, fixCom := ← boolP fx, fixOri := ← boolP fo, fixSym := ← optOf strP fs,
           name := ← optOf strP nm, comment := ← optOf strP co, connectivity := ← optOf connP cn }
  | _ => none

def toSchemaOp (v dflt fgv : String) (rest : List String) : String :=
  match (if v == "1" then some Version.v1 else if v == "2" then some Version.v2 else none),
        parseRat? dflt, strP fgv, parseMolrec rest with
  | some ver, some d, some fgs, some r =>
    let sd := toSchema d (fun _ => fgs) r ver
    let (tag, md) := match sd.molecule with
      | some m => ("M", m)
      | none => ("T", sd.top)
    s!"{showOpt encodeStr sd.schemaName}|{showOpt toString sd.schemaVersion}|{tag}|{showMolDict md}"
  | _, _, _, _ => "bad-op"

def showErr : Err → String
  | .validation => "err Validation"
  | .key => "err other:KeyError"
  | .index => "err other:IndexError"

def showArgs (a : FAArgs Rat) : String :=
  "|".intercalate [
    showList showRat a.geom, showOpt (showList toString) a.elea, showOpt (showList toString) a.elez,
    showList encodeStr a.elem, showOpt (showList showRat) a.mass, showOpt (showList showBool) a.real,
    showOpt (showList encodeStr) a.elbl, showOpt encodeStr a.name, showOpt showBool a.fixCom, showOpt showBool a.fixOri,
    showOpt encodeStr a.fixSym, showList toString a.seps, showOpt (showList showRat) a.fragCharges,
    showOpt (showList toString) a.fragMults, showOpt showRat a.charge, showOpt toString a.mult,
    showOpt encodeStr a.comment, showOpt showConn a.connectivity]

def fromSchemaOp (nm ver tag : String) (rest : List String) : String :=
  match optOf strP nm, optOf parseInt? ver, parseMolDict rest with
  | some n, some v, some md =>
    let sd : Option (SchemaDict Rat) :=
      if tag == "M" then some { schemaName := n, schemaVersion := v, molecule := some md, top := emptyDict }
      else if tag == "T" then some { schemaName := n, schemaVersion := v, molecule := none, top := md }
      else if tag == "0" then some { schemaName := n, schemaVersion := v, molecule := none, top := emptyDict }
      else none
    match sd with
    | some d => (match fromSchemaArgs d with | .ok a => "ok " ++ showArgs a | .error e => showErr e)
    | none => "bad-op"
  | _, _, _ => "bad-op"

/-! ### the source-derived voice (Model/MolSchemaAst.lean at Gen/MolSchemaSrc.lean) -/

def showSErr : Src.SErr → String
  | .err e => showErr e
  | .stuck => "src-stuck"

def srcToSchemaOp (v dflt fgv np cp : String) (rest : List String) : String :=
  if !QcelVerif.MolSchema.Gen.translationOk then "src-untranslated" else
  match parseInt? v, parseRat? dflt, strP fgv, boolP np, boolP cp, parseMolrec rest with
  | some dt, some d, some fgs, some npOut, some copy, some r =>
    let E : Src.Env Rat := { conv := fun _ _ => d, fg := fun _ => fgs, units := "Bohr", npOut := npOut, copy := copy }
    match Src.evalToSchema QcelVerif.MolSchema.Gen.toSchemaFn E dt (Src.recDict (.opaque 0) r) with
    | .error e => showSErr e
    | .ok (o, caller) =>
      let sd := Src.decode o
      let (tag, md) := match sd.molecule with
        | some m => ("M", m)
        | none => ("T", sd.top)
      let cg := match caller with
        | .nums l => showList showRat l
        | _ => "?"
      s!"{showOpt encodeStr sd.schemaName}|{showOpt toString sd.schemaVersion}|{tag}|{showMolDict md}|{cg}"
  | _, _, _, _, _, _ => "bad-op"

def srcFromSchemaOp (nm ver tag : String) (rest : List String) : String :=
  if !QcelVerif.MolSchema.Gen.translationOk then "src-untranslated" else
  match optOf strP nm, optOf parseInt? ver, parseMolDict rest with
  | some n, some v, some md =>
    let sd : Option (SchemaDict Rat) :=
      if tag == "M" then some { schemaName := n, schemaVersion := v, molecule := some md, top := emptyDict }
      else if tag == "T" then some { schemaName := n, schemaVersion := v, molecule := none, top := md }
      else if tag == "0" then some { schemaName := n, schemaVersion := v, molecule := none, top := emptyDict }
      else none
    match sd with
    | some d =>
      (match Src.evalFromSchema QcelVerif.MolSchema.Gen.fromSchemaFn (Src.encode d) with
       | .ok a => "ok " ++ showArgs a
       | .error e => showSErr e)
    | none => "bad-op"
  | _, _, _ => "bad-op"

/-! ### Molecule.__init__ / dict() around the schema functions (part c) -/

open QcelVerif.MolDict in
/-- one coordinate through `float_prep(·, 8)` as numpy evaluates it: `rint(fl(x * 1e8))`, zero band, and the
correctly rounded quotient by `1e8` (the double that is stored) -/
def prepCoord (x : Rat) : Rat :=
  QcelVerif.Hash.rndDouble
    ((QcelVerif.Hash.prepArr QcelVerif.Hash.rndDouble QcelVerif.Hash.GEOMETRY_NOISE (.val x)).toDbl
      QcelVerif.Hash.GEOMETRY_NOISE).toRat

def constructOp (nm ver dflt fgv dms : String) (rest : List String) : String :=
  match optOf strP nm, optOf parseInt? ver, parseRat? dflt, strP fgv, listP parseRat? dms,
        parseMolDict (rest.take 19), parseMolrec (rest.drop 19) with
  | some n, some v, some d, some fgs, some dm, some kw, some r =>
    let tbl := r.elem.zip dm
    let P : QcelVerif.MolDict.Params Rat :=
      { dflt := d, fg := fun _ => fgs, massOf := fun s => (assoc s tbl).getD 0, prep := prepCoord,
        title := QcelVerif.MolDict.titleAscii }
    if dm.length != r.elem.length then "bad-op" else
    match QcelVerif.MolDict.construct P (fun _ => .ok r) n v kw with
    | .error e => showErr e
    | .ok m =>
      let fixed := match QcelVerif.MolDict.rebuild P (fun _ => .ok r) n v (QcelVerif.MolDict.dictOf m) with
        | .ok m' => decide (m' = m)
        | .error _ => false
      let sd := molDict d (fun _ => fgs) r
      let mv := QcelVerif.MolDict.molVal (some (n.getD "qcschema_molecule")) (some (v.getD 2)) m []
      let ht := hasType QcelVerif.Gen.SchemaC09.env fuelT mv (.model "Molecule")
      s!"ok|{showMolDict m}|{tf fixed}|{tf (QcelVerif.MolDict.agreesB P.massOf kw sd)}|{tf (QcelVerif.MolDict.singleOkB sd)}|{tf ht}|{showJson (emit QcelVerif.Gen.SchemaC09.env mv)}"
  | _, _, _, _, _, _, _ => "bad-op"

def step (line : String) : String :=
  match splitOnChar line '|' with
  | ["tie"] => tie
  | ["wf"] => tf (Env.wf QcelVerif.Gen.SchemaC09.env)
  | ["conf", m, p] => conf m p
  | ["val", m, p] => valOp m p
  | ["build", m, p] => buildOp m p
  | ["pat", p, s] => (match strP p, strP s with | some p, some s => tf (matchPat p s) | _, _ => "bad-op")
  | "toschema" :: v :: d :: fgv :: rest => toSchemaOp v d fgv rest
  | "fromschema" :: nm :: ver :: tag :: rest => fromSchemaOp nm ver tag rest
  | "srctoschema" :: v :: d :: fgv :: np :: cp :: rest => srcToSchemaOp v d fgv np cp rest
  | "srcfromschema" :: nm :: ver :: tag :: rest => srcFromSchemaOp nm ver tag rest
  | "construct" :: nm :: ver :: d :: fgv :: dms :: rest => constructOp nm ver d fgv dms rest
  | _ => "bad-op"

end C09Drv

def main : IO Unit := mainLoop C09Drv.step
