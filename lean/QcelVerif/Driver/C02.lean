import QcelVerif.Model.ConstantsShipped
import QcelVerif.Model.ConstantsSrc
import QcelVerif.Lib.Proto
/-! Line-protocol driver for the C02 model.

  G <ctx> <mode> <hex name>   ctx ∈ 2014 | 2018 | default ; mode ∈ get | tuple | attr | item
      -> `ok f <bits>` | `ok d <hex label>|<hex units>|<sign> <coeff> <exp>|<hex comment>|<hex doi or N>` | `err KeyError` | `err AttributeError`
  K <ctx>                     -> `ok <hex key>,<hex key>,…`        (pc keys in insertion order)
  A <ctx>                     -> `ok <hex attr>,…`                 (float attributes in first-set order)
  D <add|sub|mul|div> <hex decimal text> <hex decimal text> -> `ok <sign> <coeff> <exp>` | `err`
  F <hex decimal text>        -> `ok <sign> <coeff> <exp> <bits>`  (Decimal(text) and float(Decimal(text))) | `err`
  S <ctx> <hex name>          -> `ok e <dec|none> | s <dec|none> | m <dec|none>`   three views of one computed entry:
      e = the SOURCE-DERIVED tuple of exactly that name (Gen/ContextSrc.lean, translated from context.py) evaluated on the
          table the code evaluates it on (`none`: no such tuple — legacy names, calorie);
      s = the entry under the lower-cased name in the context built from the source-derived pieces (`pcSrc`);
      m = the same entry in the hand-written model's context (specification formulas)
  M <hex text>                -> `ok <hex mangleSrc text> <hex mangle text>`   (source translate table | model)
-/
open QcelVerif QcelVerif.Constants QcelVerif.PStr QcelVerif.Proto

def hexVal (c : Char) : Option Nat :=
  if c.isDigit then some (c.toNat - 48)
  else if 'a' ≤ c ∧ c ≤ 'f' then some (c.toNat - 87) else none

def unhex : List Char → Option (List Nat)
  | [] => some []
  | [_] => none
  | a :: b :: t => do
      let x ← hexVal a; let y ← hexVal b; let r ← unhex t
      pure ((x * 16 + y) :: r)

def hexDigit (n : Nat) : Char := if n < 10 then Char.ofNat (48 + n) else Char.ofNat (87 + n)
def hexOf (b : List Nat) : String := String.ofList (b.flatMap (fun c => [hexDigit (c / 16), hexDigit (c % 16)]))

/-- unpack without the 96-byte limit of `PStr.unpack` (driver output only) -/
partial def unpackAny (n : Nat) (acc : List Nat := []) : List Nat :=
  if n ≤ 1 then acc else unpackAny (n / 256) ((n % 256) :: acc)

def showDec (d : Dec) : String := s!"{if d.neg then 1 else 0} {d.coeff} {d.exp}"

def showDatum (d : Datum) : String :=
  "ok d " ++ hexOf (unpackAny d.label) ++ "|" ++ hexOf (unpackAny d.units) ++ "|" ++ showDec d.data ++ "|" ++
    hexOf (unpackAny d.comment) ++ "|" ++ (match d.doi with | some x => hexOf (unpackAny x) | none => "N")

def showErr : Err → String
  | .keyError => "err KeyError"
  | .attributeError => "err AttributeError"

structure Ctxs where
  c14 : Option Ctx
  c18 : Option Ctx
  s14 : Option PC := pcSrc2014
  s18 : Option PC := pcSrc2018
  p14 : Option PC := Src.pre2014
  p18 : Option PC := Src.pre2018

def showOptDec : Option Dec → String
  | some d => showDec d
  | none => "none"

def entryOf (o : Option PC) (name : List Nat) : Option Dec :=
  match o with
  | some pc => (pcFind pc (pack (lower name))).map (·.data)
  | none => none

def stepS (cs : Ctxs) (cn : String) (name : List Nat) : String :=
  let (is18, known) := if cn == "2018" then (true, true) else if cn == "2014" || cn == "default" then (false, true) else (false, false)
  if !known then "bad-op"
  else
    let pre := if is18 then cs.p18 else cs.p14
    let defs := if is18 then Src.defs2018 else Src.defs2014
    let e := srcValue pre defs name
    let s := entryOf (if is18 then cs.s18 else cs.s14) name
    let m := entryOf ((if is18 then cs.c18 else cs.c14).map (·.pc)) name
    s!"ok e {showOptDec e} | s {showOptDec s} | m {showOptDec m}"

def pick (cs : Ctxs) (name : String) : Option (Option Ctx) :=
  if name == "2014" then some cs.c14
  else if name == "2018" then some cs.c18
  else if name == "default" then some cs.c14      -- `constants = PhysicalConstantsContext("CODATA2014")` (context.py:534)
  else none

def stepC02 (cs : Ctxs) (line : String) : String :=
  match splitOnChar line ' ' with
  | ["G", cn, mode, payload] =>
    match pick cs cn, unhex payload.toList with
    | some (some c), some name =>
      if mode == "get" then (match c.getFloat name with | .ok b => s!"ok f {b}" | .error e => showErr e)
      else if mode == "tuple" then (match c.getDatum name with | .ok d => showDatum d | .error e => showErr e)
      else if mode == "item" then (match c.item name with | .ok d => showDatum d | .error e => showErr e)
      else if mode == "attr" then (match c.attr name with | .ok b => s!"ok f {b}" | .error e => showErr e)
      else "bad-op"
    | some none, some _ => "err construction"
    | _, _ => "bad-op"
  | ["K", cn] =>
    match pick cs cn with
    | some (some c) => "ok " ++ ",".intercalate (c.pc.map (fun kv => hexOf (unpackAny kv.1)))
    | some none => "err construction"
    | none => "bad-op"
  | ["A", cn] =>
    match pick cs cn with
    | some (some c) => "ok " ++ ",".intercalate (c.attrs.map (fun kv => hexOf (unpackAny kv.1)))
    | some none => "err construction"
    | none => "bad-op"
  | ["D", op, a, b] =>
    match unhex a.toList, unhex b.toList with
    | some ta, some tb =>
      match Dec.parse ta, Dec.parse tb with
      | some x, some y =>
        if op == "add" then "ok " ++ showDec (Dec.add x y)
        else if op == "sub" then "ok " ++ showDec (Dec.sub x y)
        else if op == "mul" then "ok " ++ showDec (Dec.mul x y)
        else if op == "div" then (match Dec.div x y with | some r => "ok " ++ showDec r | none => "err")
        else "bad-op"
      | _, _ => "err"
    | _, _ => "bad-op"
  | ["S", cn, payload] =>
    match unhex payload.toList with
    | some name => stepS cs cn name
    | none => "bad-op"
  | ["M", payload] =>
    match unhex payload.toList with
    | some t => "ok " ++ hexOf (mangleSrc t) ++ " " ++ hexOf (mangle t)
    | none => "bad-op"
  | ["F", a] =>
    match unhex a.toList with
    | some ta => (match Dec.parse ta with | some x => s!"ok {showDec x} {x.toF64}" | none => "err")
    | none => "bad-op"
  | _ => "bad-op"

def main : IO Unit := do
  let cs : Ctxs := { c14 := ctx2014, c18 := ctx2018 }
  mainLoop (stepC02 cs)
