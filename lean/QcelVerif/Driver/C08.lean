import QcelVerif.Model.ToString
import QcelVerif.Model.ToStringSrc
import QcelVerif.Lib.Proto
/-!
Line-protocol driver for the C08 model.  One case per line, fields separated by `|`:

  0 dtype (lower-case name, or `raw:h<hex>` = the caller's string as given: the model lower-cases it)
  | 1 req (D,B,A,nm,pm, or `raw:h<hex>` = the caller's `units=` string as given: the model applies capitalize()/lower()) | 2 atom_format (N or h<hex>) | 3 ghost_format | 4 width | 5 prec
  | 6 stored (B,A) | 7 input_units_to_au (N or rational) | 8 bohr2angstroms | 9 1.0/bohr2angstroms
  | 10 conversion_factor(stored, units) (N or rational) | 11 name (N or h<hex>) | 12 charge | 13 mult
  | 14 fragment_separators (comma) | 15 fragment_charges | 16 fragment_multiplicities | 17 fix_com | 18 fix_orientation
  | 19 fix_symmetry (N or h<hex>) | 20 bonds `a,b,order;…` | 21 atoms `;`-separated, each
       elea,elez,h<elem>,h<mass>,h<elbl>,real, then 3 × (x, product, signbit, h<text>)

Answer: `ok|h<text>|<fields>|<keywords>`, `err <kind>`, `bad-product <iat>`, `bad-fixed <iat>`, `bad-op`.
-/
open QcelVerif QcelVerif.ToString QcelVerif.Proto QcelVerif.FixedFmt

def hexVal (c : Char) : Option Nat :=
  if c.isDigit then some (c.toNat - 48)
  else if 'a'.toNat ≤ c.toNat ∧ c.toNat ≤ 'f'.toNat then some (c.toNat - 87) else none

def unhexGo : List Char → Option Str
  | [] => some []
  | a :: b :: t => do
      let x ← hexVal a
      let y ← hexVal b
      let r ← unhexGo t
      pure (Char.ofNat (x * 16 + y) :: r)
  | _ => none

/-- `h<hex>` → string -/
def unhex? (s : String) : Option Str :=
  match s.toList with
  | 'h' :: t => unhexGo t
  | _ => none

def optHex? (s : String) : Option (Option Str) :=
  if s == "N" then some none else (unhex? s).map some

def hexDigit (n : Nat) : Char := if n < 10 then Char.ofNat (48 + n) else Char.ofNat (87 + n)

def hexOf (s : Str) : String :=
  String.ofList ('h' :: (s.map fun c => [hexDigit (c.toNat / 16 % 16), hexDigit (c.toNat % 16)]).flatten)

def parseDtype? (s : String) : Option Dtype :=
  match s with
  | "xyz" => some .xyz | "xyz+" => some .xyzp | "cfour" => some .cfour | "gamess" => some .gamess
  | "molpro" => some .molpro | "nwchem" => some .nwchem | "orca" => some .orca | "psi4" => some .psi4
  | "qchem" => some .qchem | "terachem" => some .terachem | "turbomole" => some .turbomole
  | "madness" => some .madness | "mrchem" => some .mrchem | "nglview-sdf" => some .sdf
  | _ => none

def parseReq? (s : String) : Option Req :=
  match s with
  | "D" => some .dflt | "B" => some .bohr | "A" => some .angstrom | "nm" => some .nm | "pm" => some .pm
  | _ => none

/-- field 0: a dtype name, or the caller's raw string (`raw:h<hex>`) which the model lower-cases itself -/
def parseDtypeField? (s : String) : Option Dtype :=
  match s.toList with
  | 'r' :: 'a' :: 'w' :: ':' :: t => (unhex? (String.ofList t)).bind QcelVerif.ToString.Src.dtypeOfRaw
  | _ => parseDtype? s

/-- field 1: a request code, or the caller's raw `units=` string (`raw:h<hex>`) -/
def parseReqField? (s : String) : Option Req :=
  match s.toList with
  | 'r' :: 'a' :: 'w' :: ':' :: t => (unhex? (String.ofList t)).bind QcelVerif.ToString.Src.reqOfRaw
  | _ => parseReq? s

def parseStored? (s : String) : Option SUnit :=
  match s with | "B" => some .bohr | "A" => some .angstrom | _ => none

def parseBool? (s : String) : Option Bool :=
  match s with | "1" => some true | "0" => some false | _ => none

def optRat? (s : String) : Option (Option Rat) :=
  if s == "N" then some none else (parseRat? s).map some

def parseCoords? : List String → Option (List Coord)
  | [] => some []
  | x :: p :: n :: t :: rest => do
      let x ← parseRat? x
      let p ← parseRat? p
      let n ← parseBool? n
      let t ← unhex? t
      let r ← parseCoords? rest
      pure (⟨x, p, n, t⟩ :: r)
  | _ => none

def parseAtom? (s : String) : Option (Atom × List Coord) :=
  match splitOnChar s ',' with
  | ea :: ez :: em :: ms :: lb :: rl :: cs => do
      let ea ← parseInt? ea
      let ez ← parseNat? ez
      let em ← unhex? em
      let ms ← unhex? ms
      let lb ← unhex? lb
      let rl ← parseBool? rl
      let cs ← parseCoords? cs
      if cs.length ≠ 3 then none
      else pure (⟨ea, ez, em, ms, lb, rl, cs.map (·.text)⟩, cs)
  | _ => none

def parseBond? (s : String) : Option (Nat × Nat × Nat) :=
  match splitOnChar s ',' with
  | [a, b, o] => do
      let a ← parseNat? a
      let b ← parseNat? b
      let o ← parseRat? o
      if o < 0 then none else pure (a, b, o.floor.toNat)       -- int(b)
  | _ => none

def listOf? {α} (s : String) (sep : Char) (f : String → Option α) : Option (List α) :=
  if s.isEmpty then some [] else (splitOnChar s sep).mapM f

def showKw (kv : Str × KwVal) : String :=
  hexOf kv.1 ++ "=" ++
    match kv.2 with
    | .int i => "i" ++ toString i
    | .str s => "s" ++ hexOf s
    | .bool b => if b then "bT" else "bF"
    | .none => "n"

def showErr : Err → String
  | .keyError => "err KeyError" | .valueError => "err ValueError"
  | .indexError => "err IndexError" | .unsupported => "err Unsupported"

def stepC08 (line : String) : String :=
  match splitOnChar line '|' with
  | [d, rq, af, gf, w, pr, st, iu, b2a, ib2a, cv, nm, ch, mu, sp, fc, fm, fcm, fo, fs, bd, ats] =>
    let parsed : Option (Opts × Nat × Consts × Mol × List (List Coord)) := do
      let d ← parseDtypeField? d
      let rq ← parseReqField? rq
      let af ← optHex? af
      let gf ← optHex? gf
      let w ← parseNat? w
      let pr ← parseNat? pr
      let st ← parseStored? st
      let iu ← optRat? iu
      let b2a ← parseRat? b2a
      let ib2a ← parseRat? ib2a
      let cv ← optRat? cv
      let nm ← optHex? nm
      let ch ← parseInt? ch
      let mu ← parseInt? mu
      let sp ← listOf? sp ',' parseNat?
      let fc ← listOf? fc ',' parseInt?
      let fm ← listOf? fm ',' parseInt?
      let fcm ← parseBool? fcm
      let fo ← parseBool? fo
      let fs ← optHex? fs
      let bd ← listOf? bd ';' parseBond?
      let ats ← listOf? ats ';' parseAtom?
      pure (⟨d, rq, af, gf, w, st, iu.isSome⟩, pr, ⟨b2a, ib2a, iu, cv⟩,
            ⟨ats.map (·.1), nm, ch, mu, sp, fc, fm, fcm, fo, fs, bd⟩, ats.map (·.2))
    match parsed with
    | none => "bad-op"
    | some (o, prec, c, m, coords) =>
      match render o m with
      | .error e => showErr e
      | .ok r =>
        match checkParams o prec c coords with
        | .badProduct i => s!"bad-product {i}"
        | .badFixed i => s!"bad-fixed {i}"
        | .noFactor => "bad-op"
        | .ok => "ok|" ++ hexOf r.text ++ "|" ++ ",".intercalate (r.fields.map hexOf) ++ "|" ++
                   ";".intercalate (r.keywords.map showKw)
  | _ => "bad-op"

def main : IO Unit := mainLoop stepC08
