import QcelVerif.Model.RadiiShipped
import QcelVerif.Model.RadiiFactor
import QcelVerif.Model.RadiiSrc
import QcelVerif.Lib.Proto
/-! Line-protocol driver for the C17 model.

  get <c|v> <rt 0|1> <i INT | s HEX> <missing: N | p/q> <units: N | xHEX> <conv for that target unit: - | HEXSRC=p/q;...>
      -> ok value p/q | ok datum xLABEL xUNITS d:neg:coeff:exp <xCOMMENT|N> <xDOI|N> | err <kind>
  tou <d:neg:coeff:exp | f:p/q | a:p/q,...> <factor p/q>   -> ok value p/q | ok values p/q,...
  mk <kind> <numeric 0|1>                                   -> ok 0|1 | err Validation
  keys <c|v>                                                -> ok xHEX,xHEX,... (first-assignment order)

ops with the unit factor DERIVED from the regenerated CODATA set (Model/RadiiFactor.lean; nothing numeric is
taken from the implementation except, for `factor`, the double to be judged):
  factor <2014|2018> <xSRC> <xDST> <implementation's double p/q | ->
      -> ok <exact factor p/q> <rnd64 of it p/q> <withinTol: 1|0|->      | err Conv (unit outside the quantifier)
  getfull <2014|2018> <c|v> <rt 0|1> <i INT | s HEX> <missing: N | p/q> <units: N | xHEX>   -> as `get`
  toufull <2014|2018> <xUNITS of the Datum> <target: N | xHEX> <payload>                    -> as `tou` | err Conv

ops through the bodies REGENERATED FROM THE SOURCE (Gen/RadiiSrc.lean run by the interpreter of Model/RadiiAst.lean;
the dictionary is the one the source's `__init__` builds from the data files):
  srcget <c|v> <rt 0|1> <i INT | s HEX> <missing: N | p/q> <units: N | xHEX> <conv …>         -> as `get` (same fields) | err <Exn>
  srctoufull <2014|2018> <xUNITS of the Datum> <target: N | xHEX> <payload>                  -> as `toufull`
  srckeys <c|v>                                                                              -> as `keys`
-/
open QcelVerif QcelVerif.PT QcelVerif.PStr QcelVerif.Proto QcelVerif.Radii

def hexVal17 (c : Char) : Option Nat :=
  if c.isDigit then some (c.toNat - 48)
  else if 'a' ≤ c ∧ c ≤ 'f' then some (c.toNat - 87) else none

def unhex17 : List Char → Option (List Nat)
  | [] => some []
  | [_] => none
  | a :: b :: t => do
      let x ← hexVal17 a; let y ← hexVal17 b; let r ← unhex17 t
      pure ((x * 16 + y) :: r)

def hexDigit (n : Nat) : Char := if n < 10 then Char.ofNat (48 + n) else Char.ofNat (87 + n)
def toHex (b : Bytes) : String := String.ofList ("x".toList ++ b.flatMap (fun c => [hexDigit (c / 16), hexDigit (c % 16)]))
def optHex : Option Bytes → String
  | none => "N"
  | some b => toHex b

def showPayload : Payload → String
  | .dec n c e => s!"d:{if n then 1 else 0}:{c}:{e}"
  | .flt x => "f:" ++ showRat x
  | .arr xs => "a:" ++ ",".intercalate (xs.map showRat)

def showOut : Except Err Out → String
  | .ok (.value x) => "ok value " ++ showRat x
  | .ok (.values xs) => "ok values " ++ ",".intercalate (xs.map showRat)
  | .ok (.datum d) => s!"ok datum {toHex d.label} {toHex d.units} {showPayload d.data} {optHex d.comment} {optHex d.doi}"
  | .error .NotAnElement => "err NotAnElement"
  | .error .DataUnavailable => "err DataUnavailable"
  | .error .Conv => "err Conv"

def parseConv (s : String) : Option (List (Bytes × Rat)) :=
  if s == "-" then some []
  else (splitOnChar s ';').mapM fun item =>
    match splitOnChar item '=' with
    | [u, f] => do
        let ub ← unhex17 u.toList
        let fr ← parseRat? f
        pure (ub, fr)
    | _ => none

def convOf (l : List (Bytes × Rat)) (u : Bytes) : Option Rat := (l.find? (fun p => p.1 == u)).map (·.2)

def parsePayload (s : String) : Option Payload :=
  match splitOnChar s ':' with
  | ["d", n, c, e] => do
      let nb ← (if n == "1" then some true else if n == "0" then some false else none)
      let cn ← parseNat? c
      let ei ← parseInt? e
      pure (.dec nb cn ei)
  | ["f", x] => (parseRat? x).map .flt
  | ["a", xs] => ((splitOnChar xs ',').mapM parseRat?).map .arr
  | _ => none

def parseKind (s : String) : Option DataKind :=
  if s == "float" then some .float else if s == "int" then some .int else if s == "bool" then some .bool
  else if s == "complex" then some .complex else if s == "ndarray" then some .ndarray
  else if s == "decimal" then some .decimal else if s == "str" then some .str
  else if s == "list" then some .list else if s == "none" then some .none else none

def dedup (l : List Bytes) : List Bytes := l.foldl (fun acc k => if acc.contains k then acc else acc ++ [k]) []

def tableOf (s : String) : Option (Option Table) :=
  if s == "c" then some covLoaded else if s == "v" then some vdwLoaded else none

def codataOf (s : String) : Option Units.Codata :=
  if s == "2014" then some Units.Gen.codata2014 else if s == "2018" then some Units.Gen.codata2018 else none

def xhex? (s : String) : Option Bytes :=
  match s.toList with
  | 'x' :: h => unhex17 h
  | _ => none

def optXhex? (s : String) : Option (Option Bytes) :=
  if s == "N" then some none else (xhex? s).map some

def showSrcOut : Except Src.Exn Out → String
  | .ok o => showOut (.ok o)
  | .error .notAnElement => "err NotAnElement"
  | .error .dataUnavailable => "err DataUnavailable"
  | .error .conv => "err Conv"
  | .error .keyError => "err KeyError"
  | .error .assertion => "err Assertion"
  | .error .stuck => "err Stuck"

def srcTableOf (s : String) : Option (Option Table) :=
  if s == "c" then some Src.srcCovLoaded else if s == "v" then some Src.srcVdwLoaded else none

def stepC17 (line : String) : String :=
  match splitOnChar line ' ' with
  | ["srcget", set, rt, kind, payload, miss, units, conv] =>
    let arg : Option PyVal :=
      if kind == "i" then (parseInt? payload).map PyVal.int
      else if kind == "s" then (unhex17 payload.toList).map PyVal.str
      else none
    let missing : Option (Option Rat) := if miss == "N" then some none else (parseRat? miss).map some
    let rtb : Option Bool := if rt == "1" then some true else if rt == "0" then some false else none
    match srcTableOf set, arg, missing, rtb, parseConv conv, optXhex? units with
    | some tab, some a, some m, some r, some cv, some u =>
      match tab with
      | none => "err Load"
      | some t =>
        -- the factors on the line are those towards the unit the CALLER means (omitted = the documented default bohr);
        -- which unit the body actually asks `conversion_factor` for is the body's business
        let dst := u.getD bBohr
        let convF : Bytes → Bytes → Option Rat := fun src d => if d == dst then convOf cv src else none
        showSrcOut (if set == "c" then Src.srcCovGet shipped t convF a r u m else Src.srcVdwGet shipped t convF a r u m)
    | _, _, _, _, _, _ => "bad-op"
  | ["srctoufull", yr, u1, u2, p] =>
    match codataOf yr, xhex? u1, optXhex? u2, parsePayload p with
    | some cd, some ub, some tb, some pl =>
      showSrcOut (Src.srcToUnits (convModel cd) { label := [], units := ub, data := pl, comment := none, doi := none } tb)
    | _, _, _, _ => "bad-op"
  | ["srckeys", set] =>
    match srcTableOf set with
    | some (some t) => "ok " ++ ",".intercalate ((dedup (t.map (·.1))).map toHex)
    | some none => "err Load"
    | none => "bad-op"
  | ["factor", yr, src, dst, fi] =>
    let fimpl : Option (Option Rat) := if fi == "-" then some none else (parseRat? fi).map some
    match codataOf yr, xhex? src, xhex? dst, fimpl with
    | some cd, some sb, some db, some f =>
      match LUnit.ofName sb, LUnit.ofName db with
      | some su, some du =>
        match factorQ cd su du with
        | .ok q =>
          let tol := match f with
            | none => "-"
            | some x => if withinTol x q then "1" else "0"
          s!"ok {showRat q} {showRat (rnd64 q)} {tol}"
        | .error _ => "err Conv"
      | _, _ => "err Conv"
    | _, _, _, _ => "bad-op"
  | ["getfull", yr, set, rt, kind, payload, miss, units] =>
    let arg : Option PyVal :=
      if kind == "i" then (parseInt? payload).map PyVal.int
      else if kind == "s" then (unhex17 payload.toList).map PyVal.str
      else none
    let missing : Option (Option Rat) := if miss == "N" then some none else (parseRat? miss).map some
    let rtb : Option Bool := if rt == "1" then some true else if rt == "0" then some false else none
    match codataOf yr, tableOf set, arg, missing, rtb, optXhex? units with
    | some cd, some tab, some a, some m, some r, some u =>
      match tab with
      | none => "err Load"
      | some t => showOut (getFull cd shipped t a r u m)
    | _, _, _, _, _, _ => "bad-op"
  | ["toufull", yr, u1, u2, p] =>
    match codataOf yr, xhex? u1, optXhex? u2, parsePayload p with
    | some cd, some ub, some tb, some pl =>
      showOut (Datum.toUnitsFull cd { label := [], units := ub, data := pl, comment := none, doi := none } tb)
    | _, _, _, _ => "bad-op"
  | ["get", set, rt, kind, payload, miss, units, conv] =>
    let arg : Option PyVal :=
      if kind == "i" then (parseInt? payload).map PyVal.int
      else if kind == "s" then (unhex17 payload.toList).map PyVal.str
      else none
    let missing : Option (Option Rat) := if miss == "N" then some none else (parseRat? miss).map some
    let rtb : Option Bool := if rt == "1" then some true else if rt == "0" then some false else none
    let un : Option (Option Bytes) :=
      if units == "N" then some none
      else match units.toList with
        | 'x' :: h => (unhex17 h).map some
        | _ => none
    match tableOf set, arg, missing, rtb, parseConv conv, un with
    | some tab, some a, some m, some r, some cv, some u =>
      match tab with
      | none => "err Load"
      | some t =>
        -- the factors on the line are those towards the unit this call resolves to
        let dst := u.getD bBohr
        showOut (getU shipped t (fun src d => if d == dst then convOf cv src else none) a r u m)
    | _, _, _, _, _, _ => "bad-op"
  | ["tou", p, f] =>
    match parsePayload p, parseRat? f with
    | some pl, some fr => showOut (.ok (pl.scale fr))
    | _, _ => "bad-op"
  | ["mk", k, n] =>
    match parseKind k, (if n == "1" then some true else if n == "0" then some false else none) with
    | some kd, some nb =>
      match validateData kd nb with
      | some b => if b then "ok 1" else "ok 0"
      | none => "err Validation"
    | _, _ => "bad-op"
  | ["keys", set] =>
    match tableOf set with
    | some (some t) => "ok " ++ ",".intercalate ((dedup (t.map (·.1))).map toHex)
    | some none => "err Load"
    | none => "bad-op"
  | _ => "bad-op"

def main : IO Unit := mainLoop stepC17
