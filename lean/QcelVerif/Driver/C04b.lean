import QcelVerif.Model.ReconC06
import QcelVerif.Lib.Proto
/-!
Second line-protocol driver for the C04 model: the whole `from_arrays` / `from_schema` pipeline in
Lean END TO END.  Same 26-field lines as `Driver/C04.lean` (see there for the layout), but the per-atom
reconciliation is COMPUTED by the C06 model (`reconOfC06With shippedN rd64 …`, `Model/ReconC06.lean`)
instead of being looked up in the table of the implementation's own `reconcile_nucleus` answers
(field 25, which is parsed by nobody here and may be empty).

Two more ops, `FAq` / `FSq`: the same call, answered with `sc T|F n` — whether every one of the `n` atoms
of the returned record is `SelfConsistent` (`selfConsistentB`, `Props/C04C06.lean: selfConsistentB_iff`),
i.e. whether `from_arrays_idempotent_c06_partial` applies to this record — or with the refusal.

The per-element range table is memoised exactly as in `Driver/C06.lean` (`lookupRange_memo`:
the memo table is transparent, so the reconciler run here is `reconOfC06 rd64` —
`Props/C04C06.lean`, `driver_recon_eq`).  The parsing helpers are copies of those in
`Driver/C04.lean` (a second `main` cannot import the first).
-/
open QcelVerif QcelVerif.FromArrays QcelVerif.Proto

namespace C04bDrv

def pStr? (s : String) : Option String :=
  match s.toList with
  | '\'' :: t => some (String.ofList t)
  | _ => none

def pChars? (s : String) : Option (List Char) := (pStr? s).map String.toList

def pOpt {α} (p : String → Option α) (s : String) : Option (Option α) :=
  if s == "~" then some none else (p s).map some

def pBool? (s : String) : Option Bool :=
  if s == "T" then some true else if s == "F" then some false else none

def pList {α} (p : String → Option α) (s : String) : Option (List α) :=
  match s.toList with
  | 'L' :: t => if t.isEmpty then some [] else (splitOnChar (String.ofList t) ',').mapM p
  | _ => none

def pOptList {α} (p : String → Option α) (s : String) : Option (Option (List α)) :=
  if s == "~" then some none else (pList p s).map some

def pTri? (s : String) : Option Tri :=
  if s == "~" then some .none else if s == "T" then some .tt else if s == "F" then some .ff
  else if s == "X" then some .other else none

def pIdx? (s : String) : Option (Option Int) :=
  if s == "x" then some none else (parseInt? s).map some

def pBond? (s : String) : Option BondIn :=
  match splitOnChar s ':' with
  | [a, b, o] => do
      let a ← pIdx? a
      let b ← pIdx? b
      let o ← parseRat? o
      pure (.mk a b o)
  | _ => some .bad

def pFrag? (s : String) : Option (List Nat) :=
  if s == "e" then some [] else (splitOnChar s ':').mapM parseNat?

def sStr (s : String) : String := "'" ++ s
def sChars (s : List Char) : String := "'" ++ String.ofList s
def sOpt {α} (f : α → String) : Option α → String
  | none => "~"
  | some x => f x
def sList {α} (f : α → String) (l : List α) : String := "L" ++ ",".intercalate (l.map f)
def sBool (b : Bool) : String := if b then "T" else "F"
def sBond (b : Bond) : String := s!"{b.1}:{b.2.1}:{showRat b.2.2}"

def showRec (r : Molrec) : String :=
  "|".intercalate
    [ "ok", sChars r.units, sOpt showRat r.iutau, sOpt sStr r.name, sOpt sStr r.comment,
      sOpt (sList sBond) r.conn, sList showRat r.geom,
      sList toString r.elea, sList toString r.elez, sList sStr r.elem, sList showRat r.mass,
      sList sBool r.real, sList sStr r.elbl, sList toString r.seps,
      toString r.c, sList toString r.fc, toString r.m, sList toString r.fm,
      sBool r.fixCom, sBool r.fixOrient, sOpt sChars r.fixSymm ]

def showRes : Except Err Molrec → String
  | .ok r => showRec r
  | .error .validation => "err Validation"
  | .error (.other cls) => "err " ++ cls

/-- ops `FAq` / `FSq`: is every atom of the returned record `SelfConsistent` for the call's `mtol`
(the hypothesis of `from_arrays_idempotent_c06_partial`)?  `sc T|F <number of atoms>` -/
def showSC (mtol : Rat) : Except Err Molrec → String
  | .ok r =>
    let ok := (recNucs r).all (selfConsistentB Nucleus.shippedN Nucleus.rd64 mtol)
    s!"sc {sBool ok} {(recNucs r).length}"
  | e => showRes e

def step (rng : Nat → Option Nucleus.Range) (line : String) : String :=
  match splitOnChar line '|' with
  | [op, st, geom, elea, elez, elem, mass, real, elbl, name, comment, units, iutau, fcom, forient, fsymm,
     seps, fc, fm, c, m, conn, sname, sver, frags, table] =>
    let r : Option String := do
      let (minimal, speclabel, nonphysical, zgf, mtol, tooclose, angToAu) ←
        match splitOnChar st ' ' with
        | [a, b, c, d, e, f, g] => do
          pure ((← pBool? a), (← pBool? b), (← pBool? c), (← pBool? d), (← parseRat? e), (← parseRat? f), (← parseRat? g))
        | _ => none
      let inp : Inp := {
        geom := ← pOptList parseRat? geom
        elea := ← pOptList (pOpt parseInt?) elea
        elez := ← pOptList (pOpt parseInt?) elez
        elem := ← pOptList (pOpt pStr?) elem
        mass := ← pOptList (pOpt parseRat?) mass
        real := ← pOptList (pOpt pBool?) real
        elbl := ← pOptList (pOpt pStr?) elbl
        name := ← pOpt pStr? name
        comment := ← pOpt pStr? comment
        units := ← pChars? units
        iutau := ← pOpt parseRat? iutau
        fixCom := ← pTri? fcom
        fixOrient := ← pTri? forient
        fixSymm := ← pOpt pChars? fsymm
        seps := ← pOptList parseInt? seps
        fc := ← pOptList (pOpt parseInt?) fc
        fm := ← pOptList (pOpt parseInt?) fm
        c := ← pOpt parseInt? c
        m := ← pOpt parseInt? m
        conn := ← pOptList pBond? conn
        minimal := minimal, speclabel := speclabel, nonphysical := nonphysical
        mtol := mtol, tooclose := tooclose, zgf := zgf }
      let _ := table          -- the implementation's own answers (field 25) are NOT consulted
      let env : Env := { recon := reconOfC06With Nucleus.shippedN Nucleus.rd64 rng, angToAu := angToAu }
      if op == "FA" then
        pure (showRes (fromArrays env inp))
      else if op == "FAq" then
        pure (showSC inp.mtol (fromArrays env inp))
      else if op == "FS" || op == "FSq" then do
        let sname ← pOpt pChars? sname
        let sver ← pOpt parseInt? sver
        let frags ← pOptList pFrag? frags
        let r := fromSchema env { schemaName := sname, schemaVersion := sver, fragments := frags, body := inp }
        pure (if op == "FS" then showRes r else showSC dfltMtol r)
      else none
    r.getD "bad-op"
  | _ => "bad-op"

end C04bDrv

def main : IO Unit := do
  let tbl := Nucleus.memoRange Nucleus.shippedN Nucleus.rd64 (Gen.PT.elements.map (·.2.1))
  mainLoop (C04bDrv.step (Nucleus.lookupRange Nucleus.shippedN Nucleus.rd64 tbl))

