import QcelVerif.Model.Serialize
import QcelVerif.Model.JsonText
import QcelVerif.Model.JsonFloat
import QcelVerif.Model.SerializeSrc
import QcelVerif.Lib.Proto
/-!
Line-protocol driver for the C10 model.

value tree = prefix token stream, tokens separated by one space:
  N | T | F | I<int> | D<16 hex> | S<hex or -> | B<hex or -> | A<n> v*n | M<n> (k v)*n | X<dtype hex>:<d0,d1,..>:<data hex or ->

ops:
  mp <tree>          hex of the msgpack-ext payload bytes
  mpd <hex>          msgpack(-ext) decode + object hook  -> tree | err <kind>
  jx <tree>          JSON value tree written by json-ext
  jxd <tree>         object hook over a parsed JSON value tree -> tree | err <kind>
  auto str|bytes     parse_raw's automatic encoding
  reader <enc>       reader family run for an encoding
  reads <reader> <enc>
  reshape <n> <m> <len>   ok | none   (v.reshape(n, m) on a flat list of length len)
  jt json|json-ext <tree>   T <the JSON text serialize(v, enc) writes> | err <kind>   (Model/JsonText.lean, run with the
                            concrete float codec of Model/JsonFloat.lean; `floatOk` is EVALUATED for every float of the
                            tree — `err float-hyp` if the hypothesis of the text theorems fails for one of them)
  jtd hook|plain <hex of the UTF-8 text>   the model's JSON parser on a text (+ object hook for `hook`) -> tree | err <kind>
  mpf <tree>          hex of the plain-msgpack payload bytes (ndarray leaves as flat element lists) | err <kind>
  disp <hex of the encoding string or ->   ser=<callee|KeyError> de-str=<callee|KeyError|Assertion> de-bytes=<…>

THREE-WAY: the ops mp, mpd, jx, jxd, jt, jtd hook, mpf and disp answer `<hand model> || <source-derived>` where the right
side is computed by the evaluator of Model/SerializeSrc.lean on Gen/SerializeSrc.lean (the translation of
util/serialization.py regenerated on every run: dispatch -> wrapper -> keyword arguments -> hook body -> walker) and is
abbreviated to `=` when it is the same string as the left side.  The harness compares the left side with the
implementation and demands `=` on the right.
-/
open QcelVerif QcelVerif.Ser QcelVerif.Proto
open QcelVerif.Ser.Src (Exc)

def hexStr (b : Bytes) : String := if b.isEmpty then "-" else String.ofList (hex b)

def unhexStr? (s : String) : Option Bytes := if s == "-" then some [] else unhex s.toList

mutual
  partial def showVal : Val → List String
    | .nil => ["N"]
    | .bool true => ["T"]
    | .bool false => ["F"]
    | .int i => [s!"I{i}"]
    | .f64 b => ["D" ++ hexStr b]
    | .str b => ["S" ++ hexStr b]
    | .bin b => ["B" ++ hexStr b]
    | .arr l => s!"A{l.length}" :: (l.map showVal).flatten
    | .map l => s!"M{l.length}" :: (l.map fun (k, v) => showVal k ++ showVal v).flatten
    | .nd dt shape data => ["X" ++ hexStr dt ++ ":" ++ showNatList shape ++ ":" ++ hexStr data]
end

def showTree (v : Val) : String := " ".intercalate (showVal v)

def tail1 (s : String) : String := String.ofList (s.toList.drop 1)

mutual
  /-- parse one value from a token list; fuel = number of tokens -/
  partial def parseVal : List String → Option (Val × List String)
    | [] => none
    | tok :: rest =>
      match tok.toList with
      | ['N'] => some (.nil, rest)
      | ['T'] => some (.bool true, rest)
      | ['F'] => some (.bool false, rest)
      | 'I' :: _ => (parseInt? (tail1 tok)).map fun i => (.int i, rest)
      | 'D' :: _ => (unhexStr? (tail1 tok)).bind fun b => if b.length = 8 then some (.f64 b, rest) else none
      | 'S' :: _ => (unhexStr? (tail1 tok)).map fun b => (.str b, rest)
      | 'B' :: _ => (unhexStr? (tail1 tok)).map fun b => (.bin b, rest)
      | 'A' :: _ => (parseNat? (tail1 tok)).bind fun n => (parseVals n rest).map fun (l, r) => (.arr l, r)
      | 'M' :: _ => (parseNat? (tail1 tok)).bind fun n => (parsePairs n rest).map fun (l, r) => (.map l, r)
      | 'X' :: _ =>
        match splitOnChar (tail1 tok) ':' with
        | [dt, sh, data] => do
            let dt ← unhexStr? dt
            let shape ← parseNatList? sh ','
            let data ← unhexStr? data
            pure (.nd dt shape data, rest)
        | _ => none
      | _ => none
  partial def parseVals : Nat → List String → Option (List Val × List String)
    | 0, r => some ([], r)
    | n + 1, r => do
        let (v, r1) ← parseVal r
        let (l, r2) ← parseVals n r1
        pure (v :: l, r2)
  partial def parsePairs : Nat → List String → Option (List (Val × Val) × List String)
    | 0, r => some ([], r)
    | n + 1, r => do
        let (k, r1) ← parseVal r
        let (v, r2) ← parseVal r1
        let (l, r3) ← parsePairs n r2
        pure ((k, v) :: l, r3)
end

def parseTree? (toks : List String) : Option Val :=
  match parseVal toks with
  | some (v, []) => some v
  | _ => none

def showHookErr : HookErr → String
  | .keyData => "err KeyData"
  | .badBuffer => "err BadBuffer"
  | .badShape => "err BadShape"

def showDecErr : DecErr → String
  | .truncated => "err Truncated"
  | .badHead _ => "err BadHead"
  | .extra => "err Extra"
  | .hook e => showHookErr e

def parseEnc? : String → Option Enc
  | "json" => some .json
  | "json-ext" => some .jsonExt
  | "msgpack" => some .msgpack
  | "msgpack-ext" => some .msgpackExt
  | _ => none

def showEnc : Enc → String
  | .json => "json" | .jsonExt => "json-ext" | .msgpack => "msgpack" | .msgpackExt => "msgpack-ext"

def parseReader? : String → Option Reader
  | "pyd-json" => some .pydJson
  | "json-ext" => some .jsonExt
  | "msgpack-ext" => some .msgpackExt
  | _ => none

def showReader : Reader → String
  | .pydJson => "pyd-json" | .jsonExt => "json-ext" | .msgpackExt => "msgpack-ext"

/-- non-empty space-separated tokens; a fold (tail-recursive), because payload lines can be > 1M characters and the
interpreter's stack does not survive one frame per character -/
def splitSpaces (s : String) : List String :=
  let step : List String × List Char → Char → List String × List Char := fun (acc, cur) c =>
    if c == ' ' then (if cur.isEmpty then acc else String.ofList cur.reverse :: acc, []) else (acc, c :: cur)
  let (acc, cur) := s.toList.foldl step ([], [])
  (if cur.isEmpty then acc else String.ofList cur.reverse :: acc).reverse

def showJErr : JErr → String
  | .fuel => "err Fuel" | .eof => "err Eof" | .badChar => "err BadChar" | .badLit => "err BadLit"
  | .badNum => "err BadNum" | .badEsc => "err BadEsc" | .ctrlInStr => "err CtrlInStr"
  | .loneSurrogate => "err LoneSurrogate" | .extra => "err Extra" | .expectColon => "err ExpectColon"
  | .expectKey => "err ExpectKey" | .expectSep => "err ExpectSep"

def codec : FloatCodec := F64.concreteCodec

/-- `serialize(v, enc)` for the two text encodings, with the per-float hypothesis of the text theorems checked -/
def jsonTextOf (enc : String) (v : Val) : String :=
  let w? : Option Val := if enc == "json-ext" then some (jxEnc v) else flatEnc v
  match w? with
  | none => "err unsupported-dtype"
  | some w =>
    match toJ w with
    | none => "err not-json"
    | some j => if twf codec j then "T " ++ String.ofList (printV codec j) else "err float-hyp"


def showExc : Exc → String
  | .hook e => showHookErr e
  | .flatDtype => "err unsupported-dtype"
  | .typeError => "err TypeError"
  | .raised x => "err raised:" ++ x
  | .assertion => "err Assertion"
  | .unsupported => "err src-unsupported"

def three (hand src : String) : String := hand ++ " || " ++ (if src == hand then "=" else src)

/-- source-derived counterpart of `jsonTextOf` -/
def jsonTextOfSrc (enc : String) (v : Val) : String :=
  match Src.encodeSrc (asciiBytes enc) v with
  | .error e => showExc e
  | .ok (.jsonDumps, w) =>
    (match toJ w with
     | none => "err not-json"
     | some j => if twf codec j then "T " ++ String.ofList (printV codec j) else "err float-hyp")
  | .ok _ => "err src-wrong-writer"

def bytesOfSrcStr (enc : String) (v : Val) : String :=
  match Src.bytesOfSrc (asciiBytes enc) v with
  | .ok b => hexStr b
  | .error e => showExc e

def lowerStr (s : String) : String := String.ofList (s.toList.map fun c => if 'A' ≤ c ∧ c ≤ 'Z' then Char.ofNat (c.toNat + 32) else c)

def dispHand (s : String) : String :=
  match parseEnc? (lowerStr s) with
  | none => "ser=KeyError de-str=KeyError de-bytes=KeyError"
  | some .json => "ser=json_dumps de-str=json_loads de-bytes=Assertion"
  | some .jsonExt => "ser=jsonext_dumps de-str=jsonext_loads de-bytes=jsonext_loads"
  | some .msgpack => "ser=msgpack_dumps de-str=Assertion de-bytes=msgpack_loads"
  | some .msgpackExt => "ser=msgpackext_dumps de-str=Assertion de-bytes=msgpackext_loads"

def dispSrc (enc : Bytes) : String :=
  let sh (r : Except Exc (String × List Val × List (String × Ser.Ast.Expr))) : String :=
    match r with
    | .ok (fn, _, _) => fn
    | .error (.raised x) => x
    | .error .assertion => "Assertion"
    | .error e => showExc e
  "ser=" ++ sh (Src.runTail Ser.Gen.Src.serialize [.nil, .str enc])
    ++ " de-str=" ++ sh (Src.runTail Ser.Gen.Src.deserialize [.str [], .str enc])
    ++ " de-bytes=" ++ sh (Src.runTail Ser.Gen.Src.deserialize [.bin [], .str enc])

def stepC10 (line : String) : String :=
  match splitSpaces line with
  | "jt" :: enc :: toks =>
    if enc == "json" || enc == "json-ext" then
      match parseTree? toks with
      | some v => three (jsonTextOf enc v) (jsonTextOfSrc enc v)
      | none => "bad-op"
    else "bad-op"
  | ["jtd", mode, hx] =>
    match unhexStr? hx with
    | none => "bad-op"
    | some bs =>
      match utf8Dec bs with
      | none => "err not-utf8"
      | some cs =>
        match jsonParse codec cs with
        | .error e => showJErr e
        | .ok j =>
          if mode == "plain" then showTree (ofJ j)
          else if mode == "hook" then
            three (match jxDec (ofJ j) with
                   | .ok v => showTree v
                   | .error e => showHookErr e)
                  (match Src.decW Src.jxHookSrc (ofJ j) with
                   | .ok v => showTree v
                   | .error e => showExc e)
          else "bad-op"
  | "mpf" :: toks =>
    match parseTree? toks with
    | some v =>
      three (match flatEnc v with
             | some w => hexStr (mpEnc w)
             | none => "err unsupported-dtype") (bytesOfSrcStr "msgpack" v)
    | none => "bad-op"
  | "mp" :: toks =>
    match parseTree? toks with
    | some v => three (hexStr (mpEnc v)) (bytesOfSrcStr "msgpack-ext" v)
    | none => "bad-op"
  | ["mpd", hx] =>
    match unhexStr? hx with
    | some bs =>
      three (match mpDecode bs with
             | .ok v => showTree v
             | .error e => showDecErr e)
            (match Src.mpDecodeSrc bs with
             | .ok v => showTree v
             | .error e => showDecErr e)
    | none => "bad-op"
  | "jx" :: toks =>
    match parseTree? toks with
    | some v => three (showTree (jxEnc v))
        (match Src.encodeSrc (asciiBytes "json-ext") v with
         | .ok (.jsonDumps, w) => showTree w
         | .ok _ => "err src-wrong-writer"
         | .error e => showExc e)
    | none => "bad-op"
  | "jxd" :: toks =>
    match parseTree? toks with
    | some v =>
      three (match jxDec v with
             | .ok v' => showTree v'
             | .error e => showHookErr e)
            (match Src.decW Src.jxHookSrc v with
             | .ok v' => showTree v'
             | .error e => showExc e)
    | none => "bad-op"
  | ["disp", hx] =>
    match unhexStr? hx with
    | some b =>
      match utf8Dec b with
      | some cs => three (dispHand (String.ofList cs)) (dispSrc b)
      | none => "bad-op"
    | none => "bad-op"
  | ["auto", "str"] => showEnc (autoEnc .str)
  | ["auto", "bytes"] => showEnc (autoEnc .bytes)
  | ["reader", e] =>
    match parseEnc? e with
    | some e => showReader (readerOf e)
    | none => "bad-op"
  | ["reads", r, e] =>
    match parseReader? r, parseEnc? e with
    | some r, some e => if reads r e then "yes" else "no"
    | _, _ => "bad-op"
  | ["reshape", n, m, len] =>
    match parseNat? n, parseNat? m, parseNat? len with
    | some n, some m, some len =>
      match reshapeRows n m (List.replicate len ()) with
      | some rows => s!"ok {rows.length}"
      | none => "none"
    | _, _, _ => "bad-op"
  | _ => "bad-op"

def main : IO Unit := mainLoop stepC10
