import QcelVerif.Model.MeasureRadii
import QcelVerif.Lib.Proto
/-!
Second line-protocol driver for C18: `guess_connectivity` evaluated from *symbols*, the radii taken
from the tables regenerated from `/repo` (`Gen/Radii.lean`, `Gen/PT.lean`) through C17's model of
`CovalentRadii.get`.  Executed at `K = ℚ`.

Fields are separated by `|`; symbols are hex-encoded UTF-8; `conv` lists the unit factors towards
bohr obtained from the implementation (`HEXUNIT=p/q;…`, `-` = none), as in the C17 driver.

  RAD|conv|HEXSYM;HEXSYM;…          -> RAD p/q p/q …        (`E` where the look-up raises something else)
  CS|thr|dc|conv|HEXSYM:x,y,z;…     -> C 0-1 0-2 …          (same format as `C|` of Driver/C18.lean)
                                     | CS err                (a radius look-up raises)
-/
open QcelVerif QcelVerif.Measure QcelVerif.Proto QcelVerif.PStr

abbrev QR := Rat

def hexValR (c : Char) : Option Nat :=
  if c.isDigit then some (c.toNat - 48)
  else if 'a' ≤ c ∧ c ≤ 'f' then some (c.toNat - 87) else none

def unhexR : List Char → Option (List Nat)
  | [] => some []
  | [_] => none
  | a :: b :: t => do
      let x ← hexValR a; let y ← hexValR b; let r ← unhexR t
      pure ((x * 16 + y) :: r)

def parseConvR (s : String) : Option (List (Bytes × Rat)) :=
  if trimStr s == "-" then some []
  else (splitOnChar s ';').mapM fun item =>
    match splitOnChar item '=' with
    | [u, f] => do
        let ub ← unhexR u.toList
        let fr ← parseRat? f
        pure (ub, fr)
    | _ => none

def parseV3R? (s : String) : Option (V3 QR) :=
  match splitOnChar s ',' with
  | [a, b, c] => do
      let x ← parseRat? a
      let y ← parseRat? b
      let z ← parseRat? c
      pure ⟨x, y, z⟩
  | _ => none

def parseSymAtom? (s : String) : Option (Bytes × V3 QR) :=
  match splitOnChar s ':' with
  | [h, p] => do
      let sym ← unhexR h.toList
      let p ← parseV3R? p
      pure (sym, p)
  | _ => none

def stepC18Radii (line : String) : String :=
  match splitOnChar line '|' with
  | ["RAD", conv, syms] =>
    match parseConvR conv, (splitOnChar syms ';').mapM (fun h => unhexR h.toList) with
    | some cv, some ss =>
      "RAD " ++ " ".intercalate (ss.map fun s =>
        match connRadius cv s with
        | some r => showRat r
        | none => "E")
    | _, _ => "bad-op"
  | ["CS", thr, dc, conv, atoms] =>
    let dc? : Option (Option QR) := if trimStr dc == "N" then some none else (parseRat? dc).map some
    match parseRat? thr, dc?, parseConvR conv, (splitOnChar atoms ';').mapM parseSymAtom? with
    | some thr, some dc, some cv, some l =>
      match guessConnectivitySym (connRadius cv) thr dc l with
      | none => "CS err"
      | some con =>
        trimStr ("C " ++ " ".intercalate (con.map fun (i, j, v) =>
          match v with
          | none => s!"{i}-{j}"
          | some v => s!"{i}-{j}:{showRat v}"))
    | _, _, _, _ => "bad-op"
  | _ => "bad-op"

def main : IO Unit := mainLoop stepC18Radii
