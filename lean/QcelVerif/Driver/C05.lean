import QcelVerif.Model.ChgMult
import QcelVerif.Model.ChgMultSrc
import QcelVerif.Lib.Proto
/-! Line-protocol driver for the C05 model.
  `frags|c|fc|m|fm|zgf`        -> answer of the hand model `vfc`
  `3|frags|c|fc|m|fm|zgf`      -> `<answer of vfc> ## <answer of vfcSrcLazy>` (rules and candidate lists as
                                  regenerated from chgmult.py, `Gen/ChgMultSrc.lean`, run by the evaluator of
                                  `Model/ChgMultAst.lean`; rule list assessed lazily)
  `4|frags|c|fc|m|fm|zgf`      -> `<answer of vfc> ## <answer of vfcSrc>` (every rule assessed for every candidate, as
                                  `reconcile` does; several times slower)
  `R|frags|c|fc|m|fm|zgf`      -> the candidate lists of the source-derived procedure for the effective specification:
                                  `c=<..> fc=<..;..> m=<..> fm=<..;..>` (or `raise`) -/
open QcelVerif QcelVerif.ChgMult QcelVerif.Proto

def parseFrags? (s : String) : Option (List (List Int)) :=
  (splitOnChar s ';').mapM (fun f => parseIntList? f ',')

def parseInp? (fr c fc m fm z : String) : Option Inp :=
  match parseFrags? fr, parseOptInt? c, parseOptIntList? fc ' ', parseOptInt? m, parseOptIntList? fm ' ' with
  | some fr, some c, some fc, some m, some fm =>
    some { frags := fr, c := c, fc := fc, m := m, fm := fm, zgf := trimStr z == "1" }
  | _, _, _, _, _ => none

def showRes : Except Err Out → String
  | .ok o => s!"ok {o.c} {showIntList o.fc} {o.m} {showIntList o.fm}"
  | .error .validation => "err Validation"
  | .error .malformed => "err malformed"


def showRanges (i : Inp) : String :=
  match Ast.evalDims (Ast.envOf (effective i) none) QcelVerif.Gen.ChgMultSrc.genDims with
  | none => "raise"
  | some r =>
    let ll (x : List (List Int)) := ";".intercalate (x.map showIntList)
    s!"c={showIntList r.c} fc={ll r.fc} m={showIntList r.m} fm={ll r.fm}"

def stepC05 (line : String) : String :=
  match splitOnChar line '|' with
  | [fr, c, fc, m, fm, z] =>
    match parseInp? fr c fc m fm z with
    | some i => showRes (vfc i)
    | none => "bad-op"
  | ["3", fr, c, fc, m, fm, z] =>
    match parseInp? fr c fc m fm z with
    | some i => showRes (vfc i) ++ " ## " ++ showRes (vfcSrcLazy i)
    | none => "bad-op"
  | ["4", fr, c, fc, m, fm, z] =>
    match parseInp? fr c fc m fm z with
    | some i => showRes (vfc i) ++ " ## " ++ showRes (vfcSrc i)
    | none => "bad-op"
  | ["R", fr, c, fc, m, fm, z] =>
    match parseInp? fr c fc m fm z with
    | some i => showRanges i
    | none => "bad-op"
  | _ => "bad-op"

def main : IO Unit := mainLoop stepC05
