import QcelVerif.Model.ChgMult
import QcelVerif.Lib.Proto
/-! Line-protocol driver for the C05 model.  `frags|c|fc|m|fm|zgf` -/
open QcelVerif QcelVerif.ChgMult QcelVerif.Proto

def parseFrags? (s : String) : Option (List (List Int)) :=
  (splitOnChar s ';').mapM (fun f => parseIntList? f ',')

def stepC05 (line : String) : String :=
  match splitOnChar line '|' with
  | [fr, c, fc, m, fm, z] =>
    match parseFrags? fr, parseOptInt? c, parseOptIntList? fc ' ', parseOptInt? m, parseOptIntList? fm ' ' with
    | some fr, some c, some fc, some m, some fm =>
      match vfc { frags := fr, c := c, fc := fc, m := m, fm := fm, zgf := trimStr z == "1" } with
      | .ok o => s!"ok {o.c} {showIntList o.fc} {o.m} {showIntList o.fm}"
      | .error .validation => "err Validation"
      | .error .malformed => "err malformed"
    | _, _, _, _, _ => "bad-op"
  | _ => "bad-op"

def main : IO Unit := mainLoop stepC05
