import QcelVerif.Model.Munkres
import QcelVerif.Model.MunkresFloat
import QcelVerif.Model.Hash
import QcelVerif.Gen.MunkresSrc
import QcelVerif.Lib.Proto
/-! Line-protocol driver for C14.

* `T|ndim|n|m|dt|e e e …`  full step trace of the Munkres model
    → `ok|steps|pairs|reduced|cert|state#state#…`   or `err|<kind>`
* `R|ndim|n|m|dt|e e e …`  result only → `ok|steps|pairs|reduced|cert`
* `K|n|m|cost…|i,j i,j …|reduced…`  run the *proved* certificate checker on somebody else's answer
    → `cert|assign|rowsinc|exact|gap`
* `F|ndim|n|m|dt|e e e …|w`  the run IN THE WORK DTYPE `w` ∈ f64 i64 u64 (`Model/MunkresFloat.lean: solveFloat` with
  IEEE round-to-nearest-even / two's-complement wrap at every `+`/`−` of the work matrix), full trace
    → `<as T>@M|B|inside|spread|same`   where `M` = max |entry|, `B` = `boundB M n m` (= 8·M) of `Props/C14Exact.lean`,
    `inside` = 1 iff the hypotheses of `float_exact_on_small_integers` (f64: integers, `B ≤ 2^53`) / `no_overflow_int64`
    (i64: `B < 2^63`) / `no_overflow_uint64` (u64: `B < 2^64`) hold (then the theorem says this line equals the `T` line),
    `spread` = 1 iff those of `no_overflow_int64_spread` hold (i64 only: `4·(max − min) < 2^63`),
    `same` = 1 iff the rounded run and the exact run of the model coincide (trace, pairs, reduced matrix)

* `TS|ndim|n|m|dt|e e e …`  the same line as `T`, computed by the SOURCE-DERIVED solver: `Gen/MunkresSrc.lean` (regenerated
  from scipy_hungarian.py by harness/c14_src.py on every run) evaluated by `Model/MunkresAst.lean` with `rnd = id`, on the fuel `capFuel` (`Props/C14Src.lean: solveCapped_ok`:
  an answer on it is the answer of `Prog.solve`; a program regenerated from a mutated source may not terminate)
* `FS|ndim|n|m|dt|e e e …|w`  the source-derived solver IN THE WORK DTYPE `w` (rounding at every `+`/`−` the source performs on
  `state.C`, in source order) → the part of the `F` line before `@`
(the harness compares implementation, hand model and source-derived run three ways, state by state)

`dt` ∈ f i b o; entries are `p`, `p/q`, `inf`, `-inf`, `nan` in row-major order.
state = `C…;marked digits;rowUnc bits;colUnc bits;z0r,z0c;r.c r.c …`
-/
open QcelVerif QcelVerif.Munkres QcelVerif.Assign QcelVerif.Proto

def parseEntry? (s : String) : Option Entry :=
  if s == "inf" then some .posInf
  else if s == "-inf" then some .negInf
  else if s == "nan" then some .nan
  else (parseRat? s).map .fin

def chunk {α} (m : Nat) : Nat → List α → List (List α)
  | 0, _ => []
  | k + 1, l => l.take m :: chunk m k (l.drop m)

def toMat {α} (n m : Nat) (l : List α) : Option (Mat α) :=
  if l.length == n * m then some ((chunk m n l).map List.toArray).toArray else none

def parseDT? (s : String) : Option DType :=
  if s == "f" then some .float else if s == "i" then some .int
  else if s == "b" then some .bool else if s == "o" then some .other else none

def showRats (a : Array Rat) : String := " ".intercalate (a.toList.map showRat)
def showMat (M : Mat Rat) : String := " ".intercalate (M.toList.flatMap fun r => r.toList.map showRat)
def showBits (a : Array Bool) : String := String.ofList (a.toList.map fun b => if b then '1' else '0')
def showMarks (M : Mat Nat) : String :=
  String.ofList (M.toList.flatMap fun r => r.toList.map fun x => Char.ofNat (48 + x))
def showPairs (l : Pairs) : String := " ".intercalate (l.map fun p => s!"{p.1},{p.2}")
def showState (s : State) : String :=
  ";".intercalate [showMat s.C, showMarks s.marked, showBits s.rowUnc, showBits s.colUnc,
    s!"{s.z0r},{s.z0c}", " ".intercalate (s.path.toList.map fun p => s!"{p.1}.{p.2}")]

def showErr : Err → String
  | .ndim => "ndim" | .dtype => "dtype" | .nonfinite => "nonfinite" | .fuel => "fuel" | .index => "index"

def parseInput? (nd n m dt ents : String) : Option Input := do
  let nd ← parseNat? nd
  let n ← parseNat? n
  let m ← parseNat? m
  let dt ← parseDT? dt
  if dt == .other || nd != 2 then
    return { ndim := nd, n := n, m := m, dt := dt, ent := #[] }
  let es ← (splitNonEmpty ents ' ').mapM parseEntry?
  -- integer / boolean arrays cannot hold inf or nan
  if (dt == .int || dt == .bool) && es.any (fun e => !e.isFinite) then none
  let M ← toMat n m es
  return { ndim := nd, n := n, m := m, dt := dt, ent := M }

def runSolve (full : Bool) (inp : Input) : String :=
  match solve inp with
  | .error e => "err|" ++ showErr e
  | .ok o =>
    let cert := certOK inp.n inp.m inp.costFn (matFn o.red) o.pairs
    let head := "|".intercalate ["ok", String.join (o.trace.toList.map fun p => p.1.name), showPairs o.pairs,
      showMat o.red, if cert then "1" else "0"]
    if full then head ++ "|" ++ "#".intercalate (o.trace.toList.map fun p => showState p.2) else head

def absR (x : Rat) : Rat := if x < 0 then -x else x

def showOut (inp : Input) (full : Bool) (r : Except Err Output) : String :=
  match r with
  | .error e => "err|" ++ showErr e
  | .ok o =>
    let cert := certOK inp.n inp.m inp.costFn (matFn o.red) o.pairs
    let head := "|".intercalate ["ok", String.join (o.trace.toList.map fun p => p.1.name), showPairs o.pairs,
      showMat o.red, if cert then "1" else "0"]
    if full then head ++ "|" ++ "#".intercalate (o.trace.toList.map fun p => showState p.2) else head

def sameOut (a b : Except Err Output) : Bool :=
  match a, b with
  | .error e, .error e' => e == e'
  | .ok x, .ok y => x.pairs == y.pairs && x.red == y.red && x.trace == y.trace
  | _, _ => false

/-- the run in the work dtype, with the theorem's bound -/
def runFloat (w : String) (inp : Input) : String :=
  let rnd? : Option (Rat → Rat) :=
    if w == "f64" then some Hash.rndDouble else if w == "i64" then some wrapInt64
    else if w == "u64" then some wrapUInt64 else none
  match rnd? with
  | none => "bad-op"
  | some rnd =>
    let rF := solveFloat rnd inp
    let rE := solve inp
    let valid := inp.ndim == 2 && inp.dt != .other && inp.allFinite
    let lo := if valid then inp.minEntry else 0
    let hi := if valid then inp.maxEntry else 0
    let M := if absR lo < absR hi then absR hi else absR lo
    let B := boundB M inp.n inp.m
    let lim : Rat := if w == "f64" then 2 ^ 53 else if w == "i64" then 2 ^ 63 else 2 ^ 64
    let within := if w == "f64" then decide (B ≤ lim) else decide (B < lim)
    let inside := valid && inp.intBoxB (-M) M && within
    let spread := valid && w == "i64" && inp.intBoxB lo hi && decide (4 * (hi - lo) < 2 ^ 63)
    let b := fun (x : Bool) => if x then "1" else "0"
    showOut inp true rF ++ "@" ++ "|".intercalate [showRat M, showRat B, b inside, b spread, b (sameOut rF rE)]

/-- the source-derived solver (three-way comparison) -/
def runSrc (w : String) (inp : Input) : String :=
  let rnd? : Option (Rat → Rat) :=
    if w == "" then some id else if w == "f64" then some Hash.rndDouble else if w == "i64" then some wrapInt64
    else if w == "u64" then some wrapUInt64 else none
  match rnd? with
  | none => "bad-op"
  | some rnd => showOut inp true (QcelVerif.Gen.MunkresSrc.prog.solveCapped rnd inp)

def parsePair? (s : String) : Option (Nat × Nat) :=
  match splitOnChar s ',' with
  | [a, b] => do let a ← parseNat? a; let b ← parseNat? b; return (a, b)
  | _ => none

def runCert (n m cost pairs red : String) : String :=
  let r : Option String := do
    let n ← parseNat? n
    let m ← parseNat? m
    let c ← (splitNonEmpty cost ' ').mapM parseRat?
    let r ← (splitNonEmpty red ' ').mapM parseRat?
    let ps ← (splitNonEmpty pairs ' ').mapM parsePair?
    let C ← toMat n m c
    let R ← toMat n m r
    let cf := matFn C
    let rf := matFn R
    let b := fun (x : Bool) => if x then "1" else "0"
    let gap := match certGap n m cf rf ps with
      | some g => showRat g
      | none => "-"
    return "|".intercalate ["cert", b (isAssign n m ps), b (incB (ps.map Prod.fst)), b (certOK n m cf rf ps), gap]
  r.getD "bad-op"

def stepC14 (line : String) : String :=
  match splitOnChar line '|' with
  | [op, nd, n, m, dt, ents] =>
    if op == "T" || op == "R" then
      match parseInput? nd n m dt ents with
      | some inp => runSolve (op == "T") inp
      | none => "bad-op"
    else if op == "TS" then
      match parseInput? nd n m dt ents with
      | some inp => runSrc "" inp
      | none => "bad-op"
    else if op == "K" then runCert nd n m dt ents
    else "bad-op"
  | [op, nd, n, m, dt, ents, w] =>
    if op == "F" then
      match parseInput? nd n m dt ents with
      | some inp => runFloat w inp
      | none => "bad-op"
    else if op == "FS" then
      match parseInput? nd n m dt ents with
      | some inp => if w == "" then "bad-op" else runSrc w inp
      | none => "bad-op"
    else "bad-op"
  | _ => "bad-op"

def main : IO Unit := mainLoop stepC14
