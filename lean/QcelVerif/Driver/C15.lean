import QcelVerif.Model.Fragments
import QcelVerif.Model.Formula
import QcelVerif.Model.FormulaRe
import QcelVerif.Model.FragmentsSrc
import QcelVerif.Lib.Proto
/-! Line-protocol driver for the C15 models.

  gf|group|R|G|atoms(id:Z,..)|real(bits)|frags(a,b;c | N)|fc(.. | N)|fm(.. | N)|c|m
  ne|atoms|real|frags|fc|fm|c|m                  electrons of a molecule, total and per fragment
  nre|zeff,..|sel(a,b,.. | N)|n|d(0,1) d(0,2) ...  upper-triangle distances (rationals), row-major
  fs|order|sym,sym,..        of|order|formula        gm|order|chgmult|c|m|sym,sym,..

source-derived twins (the bodies regenerated from molecule.py / molecular_formula.py in Gen/FragmentsSrc.lean, run by the AST
evaluator; same arguments, same answer format as the hand-model line):
  sgf|...  sne|...  snre|...  sfs|...      an evaluator failure ("Python raises") of get_fragment is `err src`

the two regexes of order_molecular_formula, hand model AND generic engine on the AST generated from the source (text as hex
of ASCII bytes; strings in answers are s<hex>):
  cut|<hex>      -> ok <hand unmatched prefix>|<hand chunks s..,s..>|<engine re.findall(<cut>, text) s..,s..>
  spl|<hex>      -> ok <hand name>:<hand n>|<engine re.match(<split>, text): none | <group name>:<group count>:<name>:<n>>
  ofr|order|formula -> order_molecular_formula through the generated regexes: ok <str> | err other:ValueError | err other:AssertionError
  fi|k|<hex>     -> ok <re.finditer(probe k, text)>: items s<group 0>[/N|/s<group i>]* joined by ','   (probes: engine tests, not from the source)
-/
open QcelVerif QcelVerif.Proto QcelVerif.Fragments QcelVerif.Formula

def parseAtoms? (s : String) : Option (List (Nat × Int)) :=
  (splitNonEmpty s ',').mapM fun t =>
    match splitOnChar t ':' with
    | [a, z] => do let a ← parseNat? a; let z ← parseInt? z; pure (a, z)
    | _ => none

def parseBits? (s : String) : Option (List Bool) :=
  (trimStr s).toList.mapM fun c => if c == '1' then some true else if c == '0' then some false else none

def parseOptList? {β} (f : String → Option β) (s : String) : Option (Option β) :=
  if trimStr s == "N" then some none else (f s).map some

def parseFragsC15? (s : String) : Option (List (List Nat)) :=
  if trimStr s == "" then some [] else (splitOnChar s ';').mapM (fun f => parseNatList? f ',')

def showBits (l : List Bool) : String := String.ofList (l.map (fun b => if b then '1' else '0'))
def showFrags (l : List (List Nat)) : String := ";".intercalate (l.map showNatList)

def showErr : Err → String
  | .overlap => "err other:TypeError"
  | .index => "err other:IndexError"
  | .empty => "err other:ValueError"
  | .validation => "err Validation"

def parseMol? (at_ rl fr fc fm c m : String) : Option (Mol (Nat × Int)) := do
  let atoms ← parseAtoms? at_
  let real ← parseBits? rl
  let frags ← parseOptList? parseFragsC15? fr
  let fc ← parseOptList? (parseIntList? · ',') fc
  let fm ← parseOptList? (parseIntList? · ',') fm
  let c ← parseInt? c
  let m ← parseInt? m
  pure (withDefaults atoms real frags fc fm c m)

def showNel (mol : Mol (Nat × Int)) : String :=
  let per := (List.range mol.frags.length).map (fun k =>
    match nelectronsFrag (·.2) mol k with
    | some v => toString v
    | none => "X")
  s!"{nelectrons (·.2) mol}|{",".intercalate per}"

def showMol (mol : Mol (Nat × Int)) : String :=
  s!"{showNatList (mol.atoms.map (·.1))}|{showBits mol.real}|{showFrags mol.frags}|{showIntList mol.fc}|{showIntList mol.fm}|{mol.c}|{mol.m}|{showNel mol}"

def parseOrd? (s : String) : Option Order := parseOrder s

/-! source-derived twins -/

def showNelSrc (mol : Mol (Nat × Int)) : String :=
  let one (k : Option Nat) : String :=
    match FragSrc.srcNelectrons (·.2) mol k with
    | some v => toString v
    | none => "X"
  let per := (List.range mol.frags.length).map (fun k => one (some k))
  s!"{one none}|{",".intercalate per}"

def showMolSrc (mol : Mol (Nat × Int)) : String :=
  s!"{showNatList (mol.atoms.map (·.1))}|{showBits mol.real}|{showFrags mol.frags}|{showIntList mol.fc}|{showIntList mol.fm}|{mol.c}|{mol.m}|{showNelSrc mol}"

def stepGfSrc (mol : Mol (Nat × Int)) (r gh : List Nat) (g : Bool) : String :=
  match FragSrc.srcExtract mol r gh g with
  | none => "err src"
  | some k =>
    match k.toCtor mol with
    | none => "err src-arrays"
    | some c =>
      if c.atoms.isEmpty then showErr .empty
      else
        match construct (·.2) c with
        | .ok o => "ok " ++ showMolSrc o
        | .error e => showErr e

/-- upper-triangle list → distance function -/
def triDist (n : Nat) (d : List Rat) (i j : Nat) : Rat :=
  let (a, b) := if i < j then (i, j) else (j, i)
  -- index of (a,b), a<b, in row-major upper triangle
  d.getD (a * n - a * (a + 1) / 2 + (b - a - 1)) 0

def hexVal15 (c : Char) : Option Nat :=
  if '0' ≤ c && c ≤ '9' then some (c.toNat - 48) else if 'a' ≤ c && c ≤ 'f' then some (c.toNat - 87) else none

def unhex15 : List Char → Option (List Nat)
  | [] => some []
  | [_] => none
  | a :: b :: t => do
      let x ← hexVal15 a; let y ← hexVal15 b; let r ← unhex15 t
      pure ((x * 16 + y) :: r)

def hexDigit15 (n : Nat) : Char := if n < 10 then Char.ofNat (48 + n) else Char.ofNat (87 + n)
def hex15 (b : List Nat) : String := String.ofList (b.flatMap fun c => [hexDigit15 (c / 16), hexDigit15 (c % 16)])
def hexS (b : List Nat) : String := "s" ++ hex15 b
def hexItems (l : List (List Nat)) : String := ",".intercalate (l.map hexS)
def hexOpt : Option (List Nat) → String
  | some b => hexS b
  | none => "N"

def showFound (ngroups : Nat) (f : Regex.Found) : String :=
  hexS f.text ++ String.join ((List.range ngroups).map fun i => "/" ++ hexOpt (f.group (i + 1)))

def stepRegex (op : String) (args : List String) : Option String :=
  match op, args with
  | "cut", [h] =>
    (unhex15 h.toList).map fun b =>
      let l := ofCodes b
      let (pre, ms) := cutUpper l
      s!"ok {hexS (toCodes pre)}|{hexItems (ms.map toCodes)}|{hexItems (Gen.FormulaRegex.cut.findall0 b)}"
  | "spl", [h] =>
    (unhex15 h.toList).map fun b =>
      let l := ofCodes b
      let (k, n) := splitCount l
      let eng := match Gen.FormulaRegex.split.matchPrefix b with
        | none => "none"
        | some st =>
          let r := match splitCountRe l with
            | some (k', n') => s!"{hexS (toCodes k'.toList)}:{n'}"
            | none => "X"
          s!"{hexOpt (st.group Gen.FormulaRegex.nameGroup)}:{hexOpt (st.group Gen.FormulaRegex.countGroup)}:{r}"
      s!"ok {hexS (toCodes k.toList)}:{n}|{eng}"
  | "fi", [k, h] =>
    match parseNat? k, unhex15 h.toList with
    | some k, some b =>
      match Gen.FormulaRegex.probes[k]? with
      | some (r, ng) => some ("ok " ++ ",".intercalate ((r.finditer b).map (showFound ng)))
      | none => none
    | _, _ => none
  | _, _ => none

def stepC15 (line : String) : String :=
  match splitOnChar line '|' with
  | ["cut", h] => (stepRegex "cut" [h]).getD "bad-op"
  | ["spl", h] => (stepRegex "spl" [h]).getD "bad-op"
  | ["fi", k, h] => (stepRegex "fi" [k, h]).getD "bad-op"
  | ["ofr", o, f] =>
    match parseOrd? o with
    | some ord =>
      match orderFormulaRe f ord with
      | .ok s => "ok " ++ s
      | .error .invalid => "err other:ValueError"
      | .error .assertion => "err other:AssertionError"
    | none => "err other:ValueError"
  | ["gf", g, r, gh, at_, rl, fr, fc, fm, c, m] =>
    match parseBits? g, parseNatList? r ',', parseNatList? gh ',', parseMol? at_ rl fr fc fm c m with
    | some [g], some r, some gh, some mol =>
      match getFragment (·.2) mol r gh g with
      | .ok o => "ok " ++ showMol o
      | .error e => showErr e
    | _, _, _, _ => "bad-op"
  | ["sgf", g, r, gh, at_, rl, fr, fc, fm, c, m] =>
    match parseBits? g, parseNatList? r ',', parseNatList? gh ',', parseMol? at_ rl fr fc fm c m with
    | some [g], some r, some gh, some mol => stepGfSrc mol r gh g
    | _, _, _, _ => "bad-op"
  | ["sne", at_, rl, fr, fc, fm, c, m] =>
    match parseMol? at_ rl fr fc fm c m with
    | some mol => "ok " ++ showNelSrc mol
    | none => "bad-op"
  | ["snre", z, sel, n, d] =>
    match parseIntList? z ',', parseOptList? (parseNatList? · ',') sel, parseNat? n,
        (splitNonEmpty d ' ').mapM parseRat? with
    | some z, some sel, some n, some d =>
      if z.length != n || d.length != n * (n - 1) / 2 then "bad-op"
      else
        -- the line carries Z*real per atom and the atom list of one fragment: atomic_numbers := z, real := all true,
        -- fragments := [sel], ifr := 0 (or None when the whole molecule is meant)
        let r : Option Rat := match sel with
          | some fr => FragSrc.srcNre n z (List.replicate n true) [fr] (triDist n d) (some 0)
          | none => FragSrc.srcNre n z (List.replicate n true) [] (triDist n d) none
        match r with
        | some v => "ok " ++ showRat v
        | none => "err src"
    | _, _, _, _ => "bad-op"
  | ["sfs", o, syms] =>
    match parseOrd? o with
    | some ord =>
      match FragSrc.srcFromSymbols (if syms == "" then [] else splitOnChar syms ',') ord with
      | some s => "ok " ++ s
      | none => "err other:ValueError"
    | none => "err other:ValueError"
  | ["ne", at_, rl, fr, fc, fm, c, m] =>
    match parseMol? at_ rl fr fc fm c m with
    | some mol => "ok " ++ showNel mol
    | none => "bad-op"
  | ["nre", z, sel, n, d] =>
    match parseIntList? z ',', parseOptList? (parseNatList? · ',') sel, parseNat? n,
        (splitNonEmpty d ' ').mapM parseRat? with
    | some z, some sel, some n, some d =>
      if z.length != n || d.length != n * (n - 1) / 2 then "bad-op"
      else "ok " ++ showRat (nreMol z (triDist n d) sel)
    | _, _, _, _ => "bad-op"
  | ["fs", o, syms] =>
    match parseOrd? o with
    | some ord => "ok " ++ fromSymbols (if syms == "" then [] else splitOnChar syms ',') ord
    | none => "err other:ValueError"
  | ["of", o, f] =>
    match parseOrd? o with
    | some ord =>
      match orderFormula f ord with
      | some s => "ok " ++ s
      | none => "err other:ValueError"
    | none => "err other:ValueError"
  | ["gm", o, cm, c, m, syms] =>
    match parseOrd? o, parseBits? cm, parseInt? c, parseInt? m with
    | some ord, some [cm], some c, some m =>
      "ok " ++ decorate (fromSymbols (if syms == "" then [] else splitOnChar syms ',') ord) c m cm
    | none, some _, some _, some _ => "err other:ValueError"
    | _, _, _, _ => "bad-op"
  | _ => "bad-op"

def main : IO Unit := mainLoop stepC15
