import QcelVerif.Model.Orient
import QcelVerif.Model.OrientApprox
import QcelVerif.Model.OrientSrc
import QcelVerif.Lib.Proto
/-!
Line-protocol driver for the C16 model, executed at `K = ℚ`.

input :  `orient|d|m₁ … mₙ|x₁ y₁ z₁ … xₙ yₙ zₙ|v00 v01 v02 v10 … v22|l0 l1 l2`
         (every number an exact rational `p/q` of the double the implementation saw; `d` = geometry_noise)
output:  `ok|K|Y|S|R|T|B|SRC`
           K : 3n integers, `float_prep(·, d)` of the model geometry in units of 10^-d
           Y : 3n integers, `⌊y·10^20⌋` of the model geometry before rounding
           S : the three column signs and, per column, the 0-based index of the deciding atom (-1: none)
           R : certificate residuals `⌈r·10^20⌉` for VᵀV-1, VVᵀ-1, VᵀTV-diag(l), then `asc` (1/0)
           T : the six independent tensor entries xx xy xz yy yz zz as `⌊t·10^12⌋`
           B : `⌈S·10^30⌉ ⌈B_off·10^30⌉ ⌈B_diag·10^30⌉` = `inertiaBounds` (Model/OrientApprox.lean) for this call:
               `S = Σ|mᵢ||xᵢ-c|²`, `B_off = r₃ + r₁·S`, `B_diag = r₃ + (3r₂ + r₁)·S` with `r` the exact residuals of `R`;
               `Props/C16Approx.lean: inertia_diagonal_driver` proves that the inertia tensor of the model's oriented
               geometry (the exact `Y`) is within `B_off` (off-diagonal) / `B_diag` (diagonal, of `l`) of `diag l`
           SRC : THREE-WAY — the code regenerated from molecule.py on this run (`Gen/OrientSrc.lean`, evaluated by
               `Model/OrientAst.lean` at ℚ through `Model/OrientSrc.lean`) against the hand model, exactly:
               `src c t r g n p` with 1/0 for: centring vector = `com`, tensor handed to eigh = `orientTensor`, geometry after
               `np.dot(new_geometry, evecs)` = `rotate (center …) V`, returned geometry = `orientCore …`, `geom_noise` = `noiseQ`, the source's `float_prep(·, d)` of every entry of the
               returned geometry = `floatPrepK d · / 10^d`;
               when the returned geometry differs: `;` + the source-derived `K` (or `err <class>`)
         `err ZeroDivision` / `err Shape` (when the source-derived function refuses with the same class; otherwise
         `err …|src=<what the source-derived function returned>`);  anything unparsable: `bad-op`
-/
open QcelVerif QcelVerif.Orient QcelVerif.Proto

def parseRats? (s : String) : Option (List Rat) := (splitNonEmpty s ' ').mapM parseRat?

def toV3s : List Rat → Option (List (V3 Rat))
  | [] => some []
  | a :: b :: c :: t => (toV3s t).map (fun r => ⟨a, b, c⟩ :: r)
  | _ => none

def scaledFloor (e : Nat) (r : Rat) : Int := Rat.floor (r * ((10 : Rat) ^ e))
def scaledCeil (e : Nat) (r : Rat) : Int := - Rat.floor (-(r * ((10 : Rat) ^ e)))

def noiseQ : Rat := 1 / 100000000   -- geom_noise = 10 ** (-GEOMETRY_NOISE), GEOMETRY_NOISE = 8

/-- index of the atom that decides the sign of a column (first with `¬ |v| < noise`) -/
def decider (col : List Rat) : Int :=
  match col.findIdx? (fun v => !(decide (|v| < noiseQ))) with
  | some i => i
  | none => -1

def p3 (p : V3 Rat) : OrientAst.P3 Rat := ⟨p.x, p.y, p.z⟩
def t3 (A : M3 Rat) : OrientAst.T3 Rat := ⟨A.xx, A.xy, A.xz, A.yx, A.yy, A.yz, A.zx, A.zy, A.zz⟩

def eqOk {α : Type} [DecidableEq α] (r : Except OrientAst.Err α) (a : α) : Bool :=
  match r with
  | .ok b => decide (b = a)
  | .error _ => false

def errName : OrientAst.Err → String
  | .zeroDivision => "ZeroDivision"
  | .shape => "Shape"
  | .index => "Index"

def b01 (b : Bool) : String := if b then "1" else "0"

/-- what the source-derived function returned, for the error lines -/
def srcShow {α : Type} : Except OrientAst.Err α → String
  | .ok _ => "ok"
  | .error e => "err " ++ errName e

def stepC16 (line : String) : String :=
  match splitOnChar line '|' with
  | [op, d, ms, xs, v, l] =>
    if trimStr op != "orient" then "bad-op" else
    match parseNat? d, parseRats? ms, (parseRats? xs).bind toV3s, parseRats? v, parseRats? l with
    | some d, some ms, some xs, some [v00, v01, v02, v10, v11, v12, v20, v21, v22], some [l0, l1, l2] =>
      let V : M3 Rat := ⟨v00, v01, v02, v10, v11, v12, v20, v21, v22⟩
      let pxs := xs.map p3
      let srcG := OrientSrc.srcOrient ms pxs (t3 V)
      let srcT := OrientSrc.srcTensor ms pxs
      match orientCore noiseQ ms xs V with
      | .error .zeroDivision =>
        match srcG, srcT with
        | .error .zeroDivision, .error .zeroDivision => "err ZeroDivision"
        | _, _ => s!"err ZeroDivision|src={srcShow srcG},{srcShow srcT}"
      | .error .shape =>
        match srcG, srcT with
        | .error .shape, .error .shape => "err Shape"
        | _, _ => s!"err Shape|src={srcShow srcG},{srcShow srcT}"
      | .ok g =>
        let ks := (floatPrepGeom d g).foldr (fun k acc => k.1 :: k.2.1 :: k.2.2 :: acc) []
        let ys := g.foldr (fun p acc => scaledFloor 20 p.x :: scaledFloor 20 p.y :: scaledFloor 20 p.z :: acc) []
        let g1 := rotate (center ms xs) V
        let st := phaseLoop noiseQ g1
        let T := orientTensor ms xs
        let r := certResiduals T V ⟨l0, l1, l2⟩
        let asc := if l0 ≤ l1 ∧ l1 ≤ l2 then "1" else "0"
        let S := s!"{showRat st.1.2} {showRat st.2.1.2} {showRat st.2.2.2} {decider (g1.map (·.x))} {decider (g1.map (·.y))} {decider (g1.map (·.z))}"
        let R := s!"{scaledCeil 20 r.1} {scaledCeil 20 r.2.1} {scaledCeil 20 r.2.2} {asc}"
        let Ts := s!"{scaledFloor 12 T.xx} {scaledFloor 12 T.xy} {scaledFloor 12 T.xz} {scaledFloor 12 T.yy} {scaledFloor 12 T.yz} {scaledFloor 12 T.zz}"
        let B := inertiaBoundsOf r (absS ms (center ms xs))
        let Bs := s!"{scaledCeil 30 B.1} {scaledCeil 30 B.2.1} {scaledCeil 30 B.2.2}"
        let cOk := eqOk (OrientSrc.srcCentre ms pxs) (p3 (com ms xs))
        let tOk := eqOk srcT (t3 T)
        let rOk := eqOk (OrientSrc.srcRotated ms pxs (t3 V)) (g1.map p3)
        let gOk := eqOk srcG (g.map p3)
        let nOk := decide (OrientSrc.srcNoiseQ = noiseQ)
        let extra :=
          if gOk then "" else
          match srcG with
          | .error e => ";err " ++ errName e
          | .ok g' =>
            let ks' := (floatPrepGeom d (g'.map (fun p => (⟨p.x, p.y, p.z⟩ : V3 Rat)))).foldr (fun k acc => k.1 :: k.2.1 :: k.2.2 :: acc) []
            ";" ++ " ".intercalate (ks'.map toString)
        -- float_prep as read from the source, entry by entry, on the model geometry: `k / 10^d`
        let tenD : Rat := (10 : Rat) ^ d
        let pOk := g.all (fun q =>
          decide (OrientSrc.srcPrep d q.x = (floatPrepK d q.x : Rat) / tenD) &&
          decide (OrientSrc.srcPrep d q.y = (floatPrepK d q.y : Rat) / tenD) &&
          decide (OrientSrc.srcPrep d q.z = (floatPrepK d q.z : Rat) / tenD))
        let SRC := s!"src {b01 cOk} {b01 tOk} {b01 rOk} {b01 gOk} {b01 nOk} {b01 pOk}{extra}"
        s!"ok|{" ".intercalate (ks.map toString)}|{" ".intercalate (ys.map toString)}|{S}|{R}|{Ts}|{Bs}|{SRC}"
    | _, _, _, _, _ => "bad-op"
  | _ => "bad-op"

def main : IO Unit := mainLoop stepC16
