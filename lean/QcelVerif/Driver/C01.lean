import QcelVerif.Model.PTShipped
import QcelVerif.Model.PeriodicSrcShipped
import QcelVerif.Model.Dec
import QcelVerif.Lib.Proto
/-! Line-protocol driver for the C01 model:
`<accessor> <strict 0|1> i <int> [<method>]` | `<accessor> <strict> s <hex bytes> [<method>]`
accessors: key Z E name A mass massbits (IEEE bits of float(mass)) period group.
Output, THREE-WAY material on every line: `<hand model> || <source-derived>` where each side is
`ok <value>` / `err NotAnElement` (source-derived side: `err other:<Class>` for any other exception class) / `bad-op`.
The hand-model side is `Model/PeriodicTable.lean` over the generated tables; the source-derived side executes the
statements translated from periodic_table.py (`Gen/PeriodicSrc.lean`) over dictionaries built from the generated
arrays in the translated construction order, under the Python method name `<method>` when given (second names go
through the translated class-level bindings). -/
open QcelVerif QcelVerif.PT QcelVerif.PStr QcelVerif.Proto

def hexVal (c : Char) : Option Nat :=
  if c.isDigit then some (c.toNat - 48)
  else if 'a' ≤ c ∧ c ≤ 'f' then some (c.toNat - 87) else none

def unhex : List Char → Option (List Nat)
  | [] => some []
  | [_] => none
  | a :: b :: t => do
      let x ← hexVal a; let y ← hexVal b; let r ← unhex t
      pure ((x * 16 + y) :: r)

def showStr (n : Nat) : String := toStr (unpack n)

def fmt (o : Option String) : String := match o with | some s => "ok " ++ s | none => "err NotAnElement"

def handSide (acc : String) (a : PyVal) (strict : Bool) : String :=
  if acc == "key" then fmt ((shipped.resolve a strict).map showStr)
  else if acc == "Z" then fmt ((shipped.toZ a strict).map toString)
  else if acc == "E" then fmt ((shipped.toE a strict).map showStr)
  else if acc == "name" then fmt ((shipped.toName a strict).map showStr)
  else if acc == "A" then fmt ((shipped.toA a).map toString)
  else if acc == "mass" then fmt ((shipped.toMass a).map showStr)
  else if acc == "massbits" then fmt ((shipped.toMass a).bind (fun m => (Dec.parse (unpack m)).map (fun d => toString d.toF64)))
  else if acc == "period" then fmt ((shipped.toPeriod a).map toString)
  else if acc == "group" then fmt ((shipped.toGroup a).map (fun g => match g with | some n => toString n | none => "None"))
  else "bad-op"

def excName : Src.Exc → String
  | .NotAnElementError => "NotAnElement"
  | .KeyError => "other:KeyError" | .ValueError => "other:ValueError" | .AttributeError => "other:AttributeError"
  | .AssertionError => "other:AssertionError" | .TypeError => "other:TypeError" | .IndexError => "other:IndexError"
  | .NameError => "other:NameError" | .unsupported => "other:<outside the modelled subset>"

def fmtE (e : Except Src.Exc String) : String := match e with | .ok s => "ok " ++ s | .error x => "err " ++ excName x

def accName? (m : String) : Option Src.AccName :=
  if m == "to_Z" then some .to_Z else if m == "to_E" then some .to_E else if m == "to_element" then some .to_element
  else if m == "to_A" then some .to_A else if m == "to_mass" then some .to_mass
  else if m == "to_atomic_number" then some .to_atomic_number else if m == "to_symbol" then some .to_symbol
  else if m == "to_name" then some .to_name else if m == "to_mass_number" then some .to_mass_number
  else none

def valStr : Src.Val → Except Src.Exc String
  | .int i => .ok (toString i)
  | .pstr n => .ok (showStr n)
  | .str s => .ok (toStr s)
  | _ => .error .unsupported

def optStr (o : Option Nat) : String := match o with | some n => toString n | none => "None"

def srcSide (acc : String) (a : PyVal) (strict : Bool) (method : Option String) : String :=
  let E := Src.Env.ofSource
  let viaAcc (dflt : Src.AccName) : Except Src.Exc Src.Val :=
    match method with
    | none => Src.accessorRun E dflt a strict
    | some m => (match accName? m with | some n => Src.accessorRun E n a strict | none => .error .unsupported)
  if acc == "key" then fmtE ((Src.resolveSrc a strict).map showStr)
  else if acc == "Z" then fmtE (viaAcc .to_Z >>= valStr)
  else if acc == "E" then fmtE (viaAcc .to_E >>= valStr)
  else if acc == "name" then fmtE (viaAcc .to_element >>= valStr)
  else if acc == "A" then fmtE (viaAcc .to_A >>= valStr)
  else if acc == "mass" then fmtE (viaAcc .to_mass >>= valStr)
  else if acc == "massbits" then
    fmtE (viaAcc .to_mass >>= fun v => match v with
      | .pstr m => (match Dec.parse (unpack m) with | some d => .ok (toString d.toF64) | none => .error .unsupported)
      | _ => .error .unsupported)
  else if acc == "period" then fmtE ((Src.toPeriodSrc E a).map optStr)
  else if acc == "group" then fmtE ((Src.toGroupSrc E a).map optStr)
  else "bad-op"

def stepC01 (line : String) : String :=
  let go (acc st kind payload : String) (method : Option String) : String :=
    let arg : Option PyVal :=
      if kind == "i" then (parseInt? payload).map PyVal.int
      else if kind == "s" then (unhex payload.toList).map PyVal.str
      else none
    match arg with
    | none => "bad-op"
    | some a =>
      if st != "0" && st != "1" then "bad-op" else
      let strict := st == "1"
      let h := handSide acc a strict
      if h == "bad-op" then "bad-op" else h ++ " || " ++ srcSide acc a strict method
  match splitOnChar line ' ' with
  | [acc, st, kind, payload] => go acc st kind payload none
  | [acc, st, kind, payload, m] => if (accName? m).isSome then go acc st kind payload (some m) else "bad-op"
  | _ => "bad-op"

def main : IO Unit := mainLoop stepC01
