import QcelVerif.Model.PTShipped
import QcelVerif.Model.Dec
import QcelVerif.Lib.Proto
/-! Line-protocol driver for the C01 model:  `<accessor> <strict 0|1> i <int>` | `<accessor> <strict> s <hex bytes>`
accessors: key Z E name A mass massbits (IEEE bits of float(mass)) period group.  Output `ok <value>` / `err NotAnElement` / `bad-op`. -/
open QcelVerif QcelVerif.PT QcelVerif.PStr QcelVerif.Proto

def hexVal (c : Char) : Option Nat :=
  if c.isDigit then some (c.toNat - 48)
  else if 'a' ≤ c ∧ c ≤ 'f' then some (c.toNat - 87) else none

def unhex : List Char → Option (List Nat)
  | [] => some []
  | [_] => none
  | a :: b :: t => do
      let x ← hexVal a; let y ← hexVal b; let r ← unhex t
      pure ((x * 16 + y) :: r)

def showStr (n : Nat) : String := toStr (unpack n)

def stepC01 (line : String) : String :=
  match splitOnChar line ' ' with
  | [acc, st, kind, payload] =>
    let arg : Option PyVal :=
      if kind == "i" then (parseInt? payload).map PyVal.int
      else if kind == "s" then (unhex payload.toList).map PyVal.str
      else none
    match arg with
    | none => "bad-op"
    | some a =>
      let strict := st == "1"
      let fmt (o : Option String) : String := match o with | some s => "ok " ++ s | none => "err NotAnElement"
      if acc == "key" then fmt ((shipped.resolve a strict).map showStr)
      else if acc == "Z" then fmt ((shipped.toZ a strict).map toString)
      else if acc == "E" then fmt ((shipped.toE a strict).map showStr)
      else if acc == "name" then fmt ((shipped.toName a strict).map showStr)
      else if acc == "A" then fmt ((shipped.toA a).map toString)
      else if acc == "mass" then fmt ((shipped.toMass a).map showStr)
      else if acc == "massbits" then fmt ((shipped.toMass a).bind (fun m => (Dec.parse (unpack m)).map (fun d => toString d.toF64)))
      else if acc == "period" then fmt ((shipped.toPeriod a).map toString)
      else if acc == "group" then fmt ((shipped.toGroup a).map (fun g => match g with | some n => toString n | none => "None"))
      else "bad-op"
  | _ => "bad-op"

def main : IO Unit := mainLoop stepC01
