import QcelVerif.Model.HashConcrete
import QcelVerif.Gen.HashSrc
import QcelVerif.Lib.Proto
/-! Line-protocol driver for the C11 model.

  hash|symbols|masses_|charge|mult|real_|geometry|fragments_|fragment_charges_|fragment_multiplicities_|connectivity_|defaultmasses
      -> ok <canon fields, '|'-separated> TAB <preimage string>
  cons|geometry|connectivity        -> ok <stored geometry (scaled, signed)>|<stored connectivity>
  prep|k|a or s|doubles             -> ok <rounded values>      (float_prep array / scalar branch)

doubles: `nz` (= -0.0) or `p/q` / integer (exact value); lists are space separated; `N` = None.

THREE-WAY: every answer carries, after a TAB, the same quantity computed by the generic evaluator of
`Model/HashAst.lean` at the terms `Gen/HashSrc.lean` holds (re-read from the source by `harness/c11_src.py` on this
run): `hash` -> … TAB <source-derived canon fields> TAB <source-derived preimage>; `cons`, `prep` -> … TAB <source-derived answer>.
`src-untranslated` when the translator refused the source; `src-error` where the source-derived function raises.
-/
open QcelVerif QcelVerif.Hash QcelVerif.Proto QcelVerif.Hash.Src

def parseDbl? (s : String) : Option Dbl :=
  let t := trimStr s
  if t == "nz" then some .negZero else (parseRat? t).map .val

def parseDblList? (s : String) : Option (List Dbl) := (splitNonEmpty s ' ').mapM parseDbl?

def optField? {α} (p : String → Option α) (s : String) : Option (Option α) :=
  if trimStr s == "N" then some none else (p s).map some

def parseBool? (s : String) : Option Bool :=
  if s == "1" then some true else if s == "0" then some false else none

def parseBoolList? (s : String) : Option (List Bool) := (splitNonEmpty s ',').mapM parseBool?

def parseFrags? (s : String) : Option (List (List Int)) :=
  if trimStr s == "E" then some [] else (splitOnChar s ';').mapM (fun f => parseIntList? f ',')

def parseBond? (s : String) : Option Bond :=
  match splitOnChar s ',' with
  | [a, b, o] => do
      let a ← parseNat? a
      let b ← parseNat? b
      let o ← parseRat? o
      some ⟨a, b, o⟩
  | _ => none

def parseBonds? (s : String) : Option (List Bond) :=
  if trimStr s == "E" then some [] else (splitOnChar s ';').mapM parseBond?

def symOk (s : String) : Bool := !s.isEmpty && s.toList.all Char.isAlpha

def parseSyms? (s : String) : Option (List (List Char)) :=
  (splitNonEmpty s ',').mapM (fun t => if symOk t then some t.toList else none)

def parseMassTable? (s : String) : Option (List (List Char × Dbl)) :=
  (splitNonEmpty s ',').mapM (fun t =>
    match splitOnChar t '=' with
    | [k, v] => (parseDbl? v).map (fun d => (k.toList, d))
    | _ => none)

def showRd (r : Rd) : String := (if r.neg then "-" else "+") ++ toString r.mag
def showRds (l : List Rd) : String := " ".intercalate (l.map showRd)
def showBond (b : Bond) : String := s!"{b.a},{b.b},{showRat b.order}"
def showBonds : Option (List Bond) → String
  | none => "N"
  | some [] => "E"
  | some l => ";".intercalate (l.map showBond)
def showFrags (l : List (List Int)) : String :=
  if l.isEmpty then "E" else ";".intercalate (l.map showIntList)

/-- the concrete parameters (`Model/HashConcrete.lean: concreteParams`: `fl := rndDouble`, `reprF := reprRd`,
`reprB := reprRat` — proved to satisfy `FlOk` / the printing hypotheses in `Props/C11Concrete.lean`);
`sha1` left to the harness -/
def drvParams (tbl : List (List Char × Dbl)) : Params (List Char) :=
  concreteParams (fun s => (tbl.lookup s).getD (.val 0)) id

/-! ### the source-derived voice -/

/-- a value on its way through the source-derived `float_prep`, shown as a signed integer scaled by `10^k0` (the harness's
convention for the field); a value that never went through `float_prep` is shown as `raw` -/
def showValAt (k0 : Nat) : Val → String
  | .raw _ => "raw"
  | .rd k r =>
    let sgn := if r.neg then "-" else "+"
    if k ≤ k0 then sgn ++ toString (r.mag * 10 ^ (k0 - k)) else s!"{sgn}{r.mag}e-{k}"

def showValsAt (k0 : Nat) (l : List Val) : String := " ".intercalate (l.map (showValAt k0))

/-- the decimals the harness prints a rounded field with -/
def fieldK0 : FieldName → Nat
  | .masses => 6
  | .geometry => 8
  | _ => 4

def showFieldVal (f : FieldName) : FieldVal → String
  | .strs l => ",".intercalate (l.map String.ofList)
  | .floats _ l => showValsAt (fieldK0 f) l
  | .float v => showValAt (fieldK0 f) v
  | .int n => toString n
  | .bools l => ",".intercalate (l.map (fun b => if b then "1" else "0"))
  | .intss l => showFrags l
  | .ints l => showIntList l
  | .bonds o => showBonds o
  | .typeError => "TypeError"

def rawMarker : Dbl → List Char := fun _ => "<float that did not go through float_prep>".toList

def srcHashAnswer (P : Params (List Char)) (m : Mol) : String :=
  if !Gen.translationOk then "src-untranslated\tsrc-untranslated"
  else
    "|".intercalate (Gen.getHash.fields.map (fun f => showFieldVal f (srcFieldVal Gen.floatPrep Gen.getHash P m f)))
      ++ "\t" ++ String.ofList (srcHash Gen.floatPrep Gen.getHash P rawMarker m)

def srcPrepAnswer (k : Nat) (ty : PyType) (xs : List Dbl) : String :=
  if !Gen.translationOk then "src-untranslated"
  else match xs.mapM (floatPrep Gen.floatPrep rndDouble k ty) with
    | some vs => "ok " ++ showValsAt k vs
    | none => "src-error"

def srcConsAnswer (m : Mol) : String :=
  if !Gen.translationOk then "src-untranslated"
  else match srcConstruct Gen.floatPrep Gen.consFn Gen.connFn rndDouble m with
    | none => "src-error"
    | some s =>
      -- the stored doubles as the constructor's float_prep left them, the stored bonds, and the stored doubles once more
      -- through the source-derived array branch at the hash's decimals for geometry (what `get_hash` will see)
      let k := Gen.consFn.defaultNoise
      let stored := match m.geometry.mapM (floatPrep Gen.floatPrep rndDouble k .ndarray) with
        | some vs => showValsAt 8 vs
        | none => "src-error"
      let again := match s.geometry.mapM (floatPrep Gen.floatPrep rndDouble 8 .ndarray) with
        | some vs => showValsAt 8 vs
        | none => "src-error"
      "ok " ++ stored ++ "|" ++ showBonds s.connectivity ++ "|" ++ again

def stepHash (f : List String) : String :=
  match f with
  | [sy, ms, c, mu, re, ge, fr, fc, fm, co, dm] =>
    match parseSyms? sy, optField? parseDblList? ms, parseDbl? c, parseInt? mu,
          optField? parseBoolList? re, parseDblList? ge, optField? parseFrags? fr,
          optField? parseDblList? fc, optField? (fun s => parseIntList? s ',') fm,
          optField? parseBonds? co, parseMassTable? dm with
    | some sy, some ms, some c, some mu, some re, some ge, some fr, some fc, some fm, some co, some dm =>
      -- an unset `masses_` needs a default mass for every symbol (never defaulted silently)
      if ms.isNone && !(sy.all (fun s => (dm.lookup s).isSome)) then "bad-op"
      else
        let P := drvParams dm
        let m : Mol := { symbols := sy, masses := ms, charge := c, mult := mu, real := re, geometry := ge,
                         fragments := fr, fragCharges := fc, fragMults := fm, connectivity := co }
        let k := canon P m
        let cs := "|".intercalate
          [ ",".intercalate (k.symbols.map String.ofList), showRds k.masses, showRd k.charge, toString k.mult,
            ",".intercalate (k.real.map (fun b => if b then "1" else "0")), showRds k.geometry,
            showFrags k.fragments, showRds k.fragCharges, showIntList k.fragMults, showBonds k.connectivity ]
        "ok " ++ cs ++ "\t" ++ String.ofList (hash P m) ++ "\t" ++ srcHashAnswer P m
    | _, _, _, _, _, _, _, _, _, _, _ => "bad-op"
  | _ => "bad-op"

def stepC11 (line : String) : String :=
  match splitOnChar line '|' with
  | "hash" :: rest => stepHash rest
  | ["cons", ge, co] =>
    match parseDblList? ge, optField? parseBonds? co with
    | some ge, some co =>
      let m : Mol := { symbols := [], masses := none, charge := .val 0, mult := 1, real := none, geometry := ge,
                       fragments := none, fragCharges := none, fragMults := none, connectivity := co }
      let s := construct rndDouble m
      -- the stored doubles, re-read as scaled integers (exact: they are k-decimal values)
      "ok " ++ showRds (m.geometry.map (prepArr rndDouble GEOMETRY_NOISE)) ++ "|" ++ showBonds s.connectivity
        ++ "|" ++ showRds (s.geometry.map (prepArr rndDouble GEOMETRY_NOISE)) ++ "\t" ++ srcConsAnswer m
    | _, _ => "bad-op"
  | ["prep", k, mode, xs] =>
    match parseNat? k, parseDblList? xs with
    | some k, some xs =>
      if mode == "a" then "ok " ++ showRds (xs.map (prepArr rndDouble k)) ++ "\t" ++ srcPrepAnswer k .ndarray xs
      else if mode == "s" then "ok " ++ showRds (xs.map (prepScalar k)) ++ "\t" ++ srcPrepAnswer k .float xs
      else "bad-op"
    | _, _ => "bad-op"
  | _ => "bad-op"

def main : IO Unit := mainLoop stepC11
