import QcelVerif.Model.Orient

/-!
# C16 — the explicit bounds the driver prints next to every eigen-frame certificate

`Model/Orient.lean` computes, per captured `numpy.linalg.eigh` call, the three residuals
`(‖VᵀV-1‖, ‖VVᵀ-1‖, ‖VᵀTV-diag l‖)` (max-entry norm, exact rationals).  The functions below turn
those residuals into the bounds proved in `Props/C16Approx.lean`
(`inertia_diagonal_approx` / `inertia_diagonal_driver`): how far the inertia tensor of the ORIENTED
geometry — recomputed by the model from the rotated, phased coordinates — can be from `diag l`.

Nothing here changes the model of the code; these are *bound* functions evaluated by the driver
(`Driver/C16.lean`, output field `B`) with the very definitions the theorems are about.
-/

namespace QcelVerif.Orient

section Ordered
variable {K : Type} [Field K] [LinearOrder K] [IsStrictOrderedRing K]

/-- `Σ |mᵢ| |pᵢ|²` — for non-negative masses this is `tr(inertia ms g) / 2` (`absS_eq_half_trace`) -/
def absS (ms : List K) (g : List (V3 K)) : K := wsumF V3.normSq (ms.map (fun m => |m|)) g

/-- bound on the off-diagonal entries of the oriented inertia tensor: `ε₂ + εa·S`
(`εa ≥ ‖VᵀV-1‖`, `ε₂ ≥ ‖VᵀTV-diag l‖`, `S = absS`) -/
def inertiaBoundOff (εa ε₂ S : K) : K := ε₂ + εa * S

/-- bound on `|I_aa - l_a|` for the diagonal entries: `ε₂ + (3 εb + εa)·S`  (`εb ≥ ‖VVᵀ-1‖`) -/
def inertiaBoundDiag (εa εb ε₂ S : K) : K := ε₂ + (3 * εb + εa) * S

/-- `(S, B_off, B_diag)` from a residual triple `r = (‖VᵀV-1‖, ‖VVᵀ-1‖, ‖VᵀTV-diag l‖)` and `S` -/
def inertiaBoundsOf (r : K × K × K) (S : K) : K × K × K :=
  (S, inertiaBoundOff r.1 r.2.2 S, inertiaBoundDiag r.1 r.2.1 r.2.2 S)

/-- what the driver prints for one call (it evaluates `inertiaBoundsOf` on the residual triple it has
already computed for the `R` field — the same value by definition) -/
def inertiaBounds (ms : List K) (xs : List (V3 K)) (V : M3 K) (l : V3 K) : K × K × K :=
  inertiaBoundsOf (certResiduals (orientTensor ms xs) V l) (absS ms (center ms xs))

end Ordered

end QcelVerif.Orient
