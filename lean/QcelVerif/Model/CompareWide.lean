import QcelVerif.Model.Compare
/-
C19 extension (core Lean only; the driver imports this file).

(C) `recErrsW` / `compareRecursiveW`: the recursion of `_compare_recursive` (testing.py:314-396 at /repo HEAD 5bfcfbf) on the pairs
    that `Model/Compare.lean` answers with `unmodelled`:
      * expected list vs computed str / dict: one entry "Expected computed to be a list or array" (335-337,
        repair 8b4dd2e); expected list vs ndarray: `len(computed)` exists, the list is zipped with the rows (numpy
        scalars for a 1-d array, sub-arrays otherwise) (339-351);
      * an exact leaf (str/int/bool/complex/np.bool_/np.complex128) vs an ndarray, or a numpy exact scalar vs a
        list: `expected != computed` is an element-wise array whose truth value is its only element when the
        size is 1; for every other size `bool()` raises ValueError, which the code now counts as a mismatch
        (326-333, repair 91c6178);
      * ragged `computed` under a numeric / ndarray leaf: `np.array` raises inside the helper's `try`, the
        verdict is False (126-131, 250-253).
    Still `unmodelled`: one side mixing text and numbers in an *exact* array comparison, a numpy scalar vs a
    list that contains a dict, ragged / dict-containing `expected` handed directly to the helpers.
    Dictionary keys are arbitrary strings in both models (dots, "root", ...): names are plain concatenations.

(A) `compareMolrecs`: `compare_molrecs` (testing.py:518-617, bond sort as repaired by ef204ac): `massage_dicts` on both records, then
    `compare_recursive(xptd, cptd, atol, rtol, forgive)`.  `relative_geoms='align'` (B787 alignment) is not
    modelled; every other value takes the 'exact' path in the code.

(B) `protoCompare`: `ProtoModel.compare` (models/basemodels.py:181-198) = `compare_recursive(self, other, **kwargs)`
    on the `.dict()` trees with the keyword defaults atol=1e-6, rtol=1e-16 (as the doubles they are).
-/
namespace QcelVerif.Compare

/-! ## (C) the wide recursion -/

inductive ItemW where
  | err (e : Err)
  | unmodelled
  deriving DecidableEq, Repr

/-- what iterating over an ndarray of shape `n :: rest` yields -/
def arrRows (k : Kind) (n : Nat) (rest : List Nat) (fl : List Sc) : List Tree :=
  match rest with
  | [] => (fl.take n).map Tree.sc
  | _ :: _ =>
    let sz := rest.foldl (· * ·) 1
    (List.range n).map (fun i => Tree.arr k rest ((fl.drop (i * sz)).take sz))

/-- `len(computed)` / `zip(..., computed)`: `none` = `len()` raises TypeError -/
def asSeq : Tree → Option (List Tree)
  | .list cs => some cs
  | .sc (.str _) => none      -- not reached: str / dict are answered before `len()` (335-337)
  | .dict _ => none
  | .arr _ [] _ => none
  | .arr k (n :: rest) fl => some (arrRows k n rest fl)
  | .sc _ => none

/-- `compare_values` inside the recursion, with ragged / mixed `computed` (np.array raises in the `try`: False) -/
def compareValuesW (o : VOpts) (e c : Tree) : Res :=
  match flatten e with
  | .unmodelled => .unmodelled
  | _ =>
    match compareValues o e c with
    | .unmodelled => .verdict false
    | r => r

/-- `compare` inside the recursion: ragged `computed`, or one holding a dict (object array, never equal to a
    non-object element), gives False -/
def compareExactW (phase : Bool) (e c : Tree) : Res :=
  match flatten e with
  | .ok fe =>
    match fe.kind with
    | none => .unmodelled
    | some _ =>
      match flatten c with
      | .unmodelled | .notArrayLike => .verdict false
      | .ok _ => compareExact phase e c
  | _ => .unmodelled

def verdictOfW (name : String) (tag : Nat) : Res → List ItemW
  | .verdict true => []
  | .verdict false => [.err ⟨name, tag⟩]
  | .raised _ => [.unmodelled]
  | .unmodelled => [.unmodelled]

/-- truth value of the element-wise `expected != computed` over `data` (all the elements of the array) -/
def sizeRule (name : String) (s : Sc) (data : List Sc) : List ItemW :=
  match data with
  | [t] => if scEq s t then [] else [.err ⟨name, 2⟩]
  | _ => [.err ⟨name, 2⟩]      -- size ≠ 1: `bool()` raises ValueError, caught: mismatch (329-331)

/-- `expected != computed` for an exact leaf -/
def exactLeafW (name : String) (s : Sc) : Tree → List ItemW
  | .sc t => if scEq s t then [] else [.err ⟨name, 2⟩]
  | .list l =>
    if s.isNumpy then
      match flatten (.list l) with
      | .ok f => sizeRule name s f.data
      | .unmodelled => [.err ⟨name, 2⟩]     -- ragged: np.asarray raises ValueError as well: mismatch
      | .notArrayLike => [.unmodelled]
    else [.err ⟨name, 2⟩]
  | .dict _ => [.err ⟨name, 2⟩]
  | .arr _ _ fl => sizeRule name s fl

mutual
def recErrsW (o : ROpts) (name : String) : Tree → Tree → List ItemW
  | .sc (.str s), c => exactLeafW name (.str s) c
  | .sc (.int n), c => exactLeafW name (.int n) c
  | .sc (.bool b), c => exactLeafW name (.bool b) c
  | .sc (.cpx z), c => exactLeafW name (.cpx z) c
  | .sc (.npcpx z), c => exactLeafW name (.npcpx z) c
  | .sc (.npbool b), c => exactLeafW name (.npbool b) c
  | .list es, c =>
    match c with
    | .sc (.str _) | .dict _ => [.err ⟨name, 8⟩]            -- 335-337 "Expected computed to be a list or array"
    | c =>
      match asSeq c with
      | none => [.err ⟨name, 3⟩]
      | some cs => if es.length ≠ cs.length then [.err ⟨name, 3⟩] else recListW o name 0 es cs
  | .dict ekv, c =>
    match c with
    | .dict ckv =>
      (if ckv.any (fun p => !hasKey p.1 ekv) then [.err ⟨name, 0⟩] else [])
      ++ (if ekv.any (fun p => !hasKey p.1 ckv) then [.err ⟨name, 1⟩] else [])
      ++ recDictW o name ekv ckv
    | _ => [.err ⟨name, 7⟩]
  | .sc (.flt x), c => verdictOfW name 4 (compareValuesW ⟨o.atol, o.rtol, false, o.phase, false⟩ (.sc (.flt x)) c)
  | .sc (.npflt x), c => verdictOfW name 4 (compareValuesW ⟨o.atol, o.rtol, false, o.phase, false⟩ (.sc (.npflt x)) c)
  | .sc (.npint n), c => verdictOfW name 4 (compareValuesW ⟨o.atol, o.rtol, false, o.phase, false⟩ (.sc (.npint n)) c)
  | .arr k sh fl, c =>
    if k = .flt then verdictOfW name 4 (compareValuesW ⟨o.atol, o.rtol, false, o.phase, false⟩ (.arr k sh fl) c)
    else verdictOfW name 4 (compareExactW o.phase (.arr k sh fl) c)
  | .sc .none, c => if isNone c then [] else [.err ⟨name, 5⟩]
def recListW (o : ROpts) (name : String) : Nat → List Tree → List Tree → List ItemW
  | i, e :: es, c :: cs => recErrsW o (name ++ "." ++ toString i) e c ++ recListW o name (i + 1) es cs
  | _, _, _ => []
def recDictW (o : ROpts) (name : String) : List (String × Tree) → List (String × Tree) → List ItemW
  | [], _ => []
  | (k, e) :: rest, ckv =>
    (match lookup k ckv with
     | some c => recErrsW o (name ++ "." ++ k) e c
     | none => [])
    ++ recDictW o name rest ckv
end

def errsOfW : List ItemW → List Err
  | [] => []
  | .err e :: t => e :: errsOfW t
  | _ :: t => errsOfW t

/-- `compare_recursive` over the wide recursion -/
def compareRecursiveW (atol rtol : Rat) (forgive : Option (List String)) (phase : PhaseOpt) (e c : Tree) : Res :=
  if 1 ≤ atol then .raised .valueError else
  let items := recErrsW ⟨atol, rtol, false⟩ "root" e c
  if items.contains .unmodelled then .unmodelled else
  let errors := errsOfW items
  let nitems := recErrsW ⟨atol, rtol, true⟩ "root" e c
  if (!errors.isEmpty && phase.truthy) && nitems.contains .unmodelled then .unmodelled else
  match phaseStage phase ((errsOfW nitems).map Err.name) errors with
  | none => .raised .valueError
  | some errors =>
    match forgiveStage forgive errors with
    | none => .raised .valueError
    | some errors => .verdict errors.isEmpty

/-! ## (B) `ProtoModel.compare` -/

/-- the double `1.0e-6` -/
def atolDefault : Rat := (4722366482869645 : Rat) / 4722366482869645213696
/-- the double `1.0e-16` -/
def rtolDefault : Rat := (2028240960365167 : Rat) / 20282409603651670423947251286016

/-- keyword arguments forwarded by `ProtoModel.compare(other, **kwargs)`; absent = `compare_recursive`'s default -/
structure CompareKw where
  atol : Option Rat := none
  rtol : Option Rat := none
  forgive : Option (List String) := none
  phase : PhaseOpt := .off

/-- `self.compare(other, **kw)` on the `.dict()` trees of the two models -/
def protoCompare (kw : CompareKw) (selfDict otherDict : Tree) : Res :=
  compareRecursiveW (kw.atol.getD atolDefault) (kw.rtol.getD rtolDefault) kw.forgive kw.phase selfDict otherDict

/-! ## (A) `compare_molrecs` -/

inductive MExc where
  | valueError | keyError | typeError | overflowError
  deriving DecidableEq, Repr

inductive MErr where
  | raised (e : MExc)
  | unmodelled
  deriving DecidableEq, Repr

inductive MRes where
  | verdict (b : Bool)
  | raised (e : MExc)
  | unmodelled
  deriving DecidableEq, Repr

/-- `dicary[k] = f(dicary[k])` when `k in dicary` (position kept) -/
def mapKey (k : String) (f : Tree → Except MErr Tree) : List (String × Tree) → Except MErr (List (String × Tree))
  | [] => .ok []
  | (k', v) :: t =>
    if k == k' then
      match f v with
      | .ok v' => .ok ((k', v') :: t)            -- keys are unique: first hit is the only one
      | .error e => .error e
    else
      match mapKey k f t with
      | .ok t' => .ok ((k', v) :: t')
      | .error e => .error e

/-- 541-542 `[str(f) for f in dicary["fragment_files"]]`: modelled for text entries only -/
def normFiles : Tree → Except MErr Tree
  | .list l => if l.all (fun t => match t with | .sc (.str _) => true | _ => false) then .ok (.list l) else .error .unmodelled
  | .arr .str [_] fl => .ok (.list (fl.map Tree.sc))
  | _ => .error .unmodelled

/-- `int(x)` truncates toward zero -/
def truncQ (q : Rat) : Int := Int.tdiv q.num (q.den : Int)

/-- 550 `(s if s is None else int(s))` -/
def sepElem : Tree → Except MErr Tree
  | .sc .none => .ok (.sc .none)
  | .sc (.int n) | .sc (.npint n) => .ok (.sc (.int n))
  | .sc (.bool b) | .sc (.npbool b) => .ok (.sc (.int (if b then 1 else 0)))
  | .sc (.flt (.fin q)) | .sc (.npflt (.fin q)) => .ok (.sc (.int (truncQ q)))
  | .sc (.flt .nan) | .sc (.npflt .nan) => .error (.raised .valueError)
  | .sc (.flt _) | .sc (.npflt _) => .error (.raised .overflowError)
  | .sc (.str _) => .error (.raised .valueError)          -- non-numeric text
  | .sc (.cpx _) | .sc (.npcpx _) => .error (.raised .typeError)
  | .list _ | .dict _ => .error (.raised .typeError)
  | .arr _ _ _ => .error .unmodelled

def mapE (f : Tree → Except MErr Tree) : List Tree → Except MErr (List Tree)
  | [] => .ok []
  | t :: ts =>
    match f t with
    | .error e => .error e
    | .ok t' =>
      match mapE f ts with
      | .error e => .error e
      | .ok ts' => .ok (t' :: ts')

/-- 549-550 -/
def normSeps : Tree → Except MErr Tree
  | .list l => (mapE sepElem l).map Tree.list
  | .arr _ [n] fl => (mapE sepElem ((fl.take n).map Tree.sc)).map Tree.list
  | .arr _ [] _ => .error (.raised .typeError)          -- iteration over a 0-d array
  | .arr _ _ _ => .error .unmodelled
  | .sc (.str _) | .dict _ => .error .unmodelled
  | .sc _ => .error (.raised .typeError)                -- not iterable

/-- 552-553 `dicary["provenance"].pop("version")` -/
def normProv : Tree → Except MErr Tree
  | .dict kv => if hasKey "version" kv then .ok (.dict (kv.filter (fun p => !(p.1 == "version")))) else .error (.raised .keyError)
  | _ => .error .unmodelled

/-- ordered numbers as bond atom indices (`min` / `max` / sort key) -/
def ordKey : Tree → Option Rat
  | .sc (.int n) | .sc (.npint n) => some (n : Rat)
  | .sc (.flt (.fin q)) | .sc (.npflt (.fin q)) => some q
  | _ => none

/-- 556 `(min(at1, at2), max(at1, at2), bo)`: Python's `min`/`max` return the first argument on ties -/
def bondElem : Tree → Except MErr Tree
  | .list [a, b, bo] =>
    match ordKey a, ordKey b, ordKey bo with      -- the bond order takes part in the tuple sort: numbers only
    | some x, some y, some _ => .ok (.list [if y < x then b else a, if x < y then b else a, bo])
    | _, _, _ => .error .unmodelled
  | .list _ => .error (.raised .valueError)               -- unpacking a tuple of the wrong length
  | .sc (.str _) | .dict _ | .arr _ _ _ => .error .unmodelled
  | .sc _ => .error (.raised .typeError)

/-- the sort key of a normalised bond: the tuple itself -/
def bondKey : Tree → Rat × Rat × Rat
  | .list [a, b, bo] => ((ordKey a).getD 0, (ordKey b).getD 0, (ordKey bo).getD 0)
  | _ => (0, 0, 0)

/-- Python's tuple `<=` on number triples, written with `≤` only -/
def lexLe (a b : Rat × Rat × Rat) : Prop :=
  a.1 ≤ b.1 ∧ (b.1 ≤ a.1 → (a.2.1 ≤ b.2.1 ∧ (b.2.1 ≤ a.2.1 → a.2.2 ≤ b.2.2)))

instance (a b : Rat × Rat × Rat) : Decidable (lexLe a b) := by unfold lexLe; exact inferInstance

/-- stable insertion by the whole tuple (557 `conn.sort()`, repair ef204ac) -/
def insertBond (t : Tree) : List Tree → List Tree
  | [] => [t]
  | u :: us => if lexLe (bondKey t) (bondKey u) then t :: u :: us else u :: insertBond t us

def sortBonds : List Tree → List Tree
  | [] => []
  | t :: ts => insertBond t (sortBonds ts)

/-- 555-558 -/
def normConn : Tree → Except MErr Tree
  | .list l => (mapE bondElem l).map (fun l' => Tree.list (sortBonds l'))
  | .sc (.str _) | .dict _ | .arr _ _ _ => .error .unmodelled
  | .sc _ => .error (.raised .typeError)

/-- `massage_dicts` (536-560) -/
def massage : Tree → Except MErr Tree
  | .dict kv =>
    match mapKey "fragment_files" normFiles kv with
    | .error e => .error e
    | .ok kv1 =>
      match mapKey "fragment_separators" normSeps kv1 with
      | .error e => .error e
      | .ok kv2 =>
        match mapKey "provenance" normProv kv2 with
        | .error e => .error e
        | .ok kv3 =>
          match mapKey "connectivity" normConn kv3 with
          | .error e => .error e
          | .ok kv4 => .ok (.dict kv4)
  | _ => .error .unmodelled

inductive RelGeoms where
  | exact | align | other
  deriving DecidableEq, Repr

def MRes.ofRes : Res → MRes
  | .verdict b => .verdict b
  | .raised .valueError => .raised .valueError
  | .unmodelled => .unmodelled

/-- `compare_molrecs(expected, computed, atol=, rtol=, forgive=, relative_geoms=)` -/
def compareMolrecs (atol rtol : Rat) (forgive : Option (List String)) (rg : RelGeoms) (e c : Tree) : MRes :=
  match massage e with                                     -- 562
  | .error (.raised x) => .raised x
  | .error .unmodelled => .unmodelled
  | .ok e' =>
    match massage c with                                   -- 563
    | .error (.raised x) => .raised x
    | .error .unmodelled => .unmodelled
    | .ok c' =>
      if rg = .align then .unmodelled                      -- 567-605 (B787): not modelled
      else MRes.ofRes (compareRecursiveW atol rtol forgive .off e' c')   -- 565-566, 607-617

end QcelVerif.Compare
