import QcelVerif.Model.Constants
import QcelVerif.Gen.Codata2014
import QcelVerif.Gen.Codata2018
/-! The two contexts built from the shipped tables (generated from `/repo` on every run). -/
namespace QcelVerif.Constants
open QcelVerif

/-- `PhysicalConstantsContext("CODATA2014").pc` -/
def pc2014 : Option PC := buildPC 2014 Gen.Codata2014.doi Gen.Codata2014.shipped
/-- `PhysicalConstantsContext("CODATA2018").pc` -/
def pc2018 : Option PC := buildPC 2018 Gen.Codata2018.doi Gen.Codata2018.shipped

def ctx2014 : Option Ctx := build 2014 Gen.Codata2014.doi Gen.Codata2014.shipped
def ctx2018 : Option Ctx := build 2018 Gen.Codata2018.doi Gen.Codata2018.shipped
end QcelVerif.Constants
