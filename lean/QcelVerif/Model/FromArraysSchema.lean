import QcelVerif.Model.ReconC06
/-!
C04 — `to_schema` for a validated record stored in ANY validated unit, and what `from_schema` makes of
its output (the schema round trip).  Core Lean only (imported by `Driver/C04c.lean`).

`Model/FromArrays.lean` has `toSchema` for a record already in Bohr.  Here (to_schema.py:40-100,
`dtype ∈ {1, 2}`, `units='Bohr'`):

  * `exportGeom`   to_schema.py:42-49 — `geom` untouched when the record is in Bohr; `geom * input_units_to_au`
                   when it is in Angstrom and carries its own factor; else `geom * conversion_factor(units, 'Bohr')`.
                   `geom * f` is numpy's elementwise IEEE product: each coordinate is `fl (x * f)` with `fl` the
                   rounding of ONE binary64 multiplication (a parameter; the driver runs `rd64`).
  * `toSchemaU`    to_schema.py:51-99 — the dictionary; `nat = geom.shape[0] // 3`, `name` defaulted with
                   `formula_generator(elem)` (a parameter: C15's business), the fragment pattern
                   `np.split(np.arange(nat), fragment_separators)`.  The `{"molecule": …}` nesting of dtype 1
                   is the only difference between the two dtypes apart from `schema_name`/`schema_version`;
                   `from_schema` undoes it at from_schema.py:27-35, so `FromArrays.Schema` is flat
                   (`Model/MolSchema.lean`, C09, has the nesting; `Props/C04Schema.lean` relates the two).
  * `schemaInp`    from_schema.py:60-90 — the keyword arguments `from_schema` hands to `from_arrays` for such
                   a dictionary, once `contiguize_from_fragment_pattern` has returned.
  * `schemaImage`  the record the round trip is proved to return (`Props/C04Schema.lean: schema_roundtrip`):
                   `r` except `units = 'Bohr'`, no `input_units_to_au`, `name` filled in, geometry as exported,
                   separators canonical (`[clamp(s) for s in seps]`; the same list when none is negative).

Parameters taken from outside (`SchemaParams`): `formula_generator`, `constants.conversion_factor(·, 'Bohr')`,
the rounding of one product, and the `nonphysical=` keyword of `from_schema`.
-/
namespace QcelVerif.FromArrays

structure SchemaParams where
  formula : List String → String      -- `formula_generator(molrec["elem"])` (to_schema.py:53)
  cf : List Char → Rat                -- `constants.conversion_factor(molrec["units"], "Bohr")` (49)
  fl : Rat → Rat                      -- rounding of one binary64 product
  nonphysical : Bool                  -- `from_schema(molschema, nonphysical=…)`

/-- the factor the stored geometry is multiplied with when the record is not in Bohr (46-49) -/
def exportFactor (P : SchemaParams) (r : Molrec) : Rat :=
  if r.units = sAngstrom then r.iutau.getD (P.cf r.units) else P.cf r.units

/-- to_schema.py:42-49 with `units = "Bohr"` -/
def exportGeom (P : SchemaParams) (r : Molrec) : List Rat :=
  if r.units = sBohr then r.geom                                           -- 44-45: `pass`
  else r.geom.map (fun x => P.fl (x * exportFactor P r))                   -- 46-49

/-- to_schema.py:51-99 for `dtype ∈ {1, 2}` -/
def toSchemaU (P : SchemaParams) (r : Molrec) (dtype : Int) : Schema :=
  let g := exportGeom P r
  let nat := g.length / 3                                                  -- 51
  { schemaName := some (if dtype = 1 then "qcschema_input".toList else "qcschema_molecule".toList)
    schemaVersion := some dtype
    fragments := some (npSplit (List.range nat) r.seps)                    -- 84-85
    body :=
      { geom := some g
        elea := some (r.elea.map some), elez := some (r.elez.map some), elem := some (r.elem.map some)
        mass := some (r.mass.map some), real := some (r.real.map some), elbl := some (r.elbl.map some)
        name := some (r.name.getD (P.formula r.elem)), comment := r.comment
        units := sBohr, iutau := none
        fixCom := Tri.ofBool r.fixCom, fixOrient := Tri.ofBool r.fixOrient, fixSymm := r.fixSymm
        seps := none, fc := some (r.fc.map some), fm := some (r.fm.map some)
        c := some r.c, m := some r.m
        conn := r.conn.map (·.map bondBack)
        minimal := false, speclabel := false, nonphysical := P.nonphysical, mtol := dfltMtol
        tooclose := dfltTooclose, zgf := false } }

/-- the separators `contiguize_from_fragment_pattern` recovers from the pattern written for `seps`:
the (non-negative) cut points themselves -/
def canonSeps (nat : Nat) (seps : List Int) : List Int := seps.map (fun s => ((pyClamp nat s : Nat) : Int))

/-- from_schema.py:60-90: the arguments of the `from_arrays` call for the dictionary `toSchemaU P r _` -/
def schemaInp (P : SchemaParams) (r : Molrec) : Inp :=
  { geom := some (exportGeom P r)
    elea := some (r.elea.map some), elez := some (r.elez.map some), elem := some (r.elem.map some)
    mass := some (r.mass.map some), real := some (r.real.map some), elbl := some (r.elbl.map some)
    name := some (r.name.getD (P.formula r.elem)), comment := r.comment
    units := sBohr, iutau := none
    fixCom := Tri.ofBool r.fixCom, fixOrient := Tri.ofBool r.fixOrient, fixSymm := r.fixSymm
    seps := some (canonSeps ((exportGeom P r).length / 3) r.seps)
    fc := some (r.fc.map some), fm := some (r.fm.map some)
    c := some r.c, m := some r.m
    conn := r.conn.map (·.map bondBack)
    minimal := false, speclabel := false, nonphysical := P.nonphysical, mtol := dfltMtol
    tooclose := dfltTooclose, zgf := false }

/-- what `from_schema (to_schema r)` is proved to return -/
def schemaImage (P : SchemaParams) (r : Molrec) : Molrec :=
  { r with
    units := sBohr, iutau := none
    name := some (r.name.getD (P.formula r.elem))
    geom := exportGeom P r
    seps := canonSeps r.elem.length r.seps }

/-- an atom of a record as the clues of the next call (`A = -1` is `None`, from_arrays.py:638-641);
the same function as `clueOf` of `Props/C04.lean` (`feedClue_eq_clueOf`) -/
def feedClue (o : Nuc) : Clue :=
  { A := if o.A = -1 then none else some o.A, Z := some o.Z, E := some o.E,
    mass := some o.mass, real := some o.real, label := some o.label }

/-- the settings `from_schema` validates every atom with (from_schema.py:84-88: `speclabel=False`, the
caller's `nonphysical`, the default `mtol`) -/
def schemaSettings (P : SchemaParams) : NucSettings :=
  { speclabel := false, nonphysical := P.nonphysical, mtol := dfltMtol }

/-- the three hypotheses of `schema_roundtrip` that are not part of the record invariant, as one
executable test (`roundtripHypB_iff`): at least one atom; the exported geometry passes the default
overlap screen; every atom re-validates to itself under `from_schema`'s settings -/
def roundtripHypB (env : Env) (P : SchemaParams) (r : Molrec) : Bool :=
  (r.elem.length != 0)
  && (match validateGeometry dfltTooclose (exportGeom P r) with
      | .ok _ => true
      | .error _ => false)
  && (recNucs r).all (fun u =>
      match env.recon (schemaSettings P) (feedClue u) with
      | .ok u' => decide (u' = u)
      | .error _ => false)

end QcelVerif.FromArrays
