import QcelVerif.Model.KabschUnique
/-!
# C12 (mirror clause) — definitions: the reflection `y → −y`, planarity, scalar triple product

The code mirrors a geometry by `algeom[:, 1] *= -1.0` **before** subtracting the shift and rotating
(`AlignmentMill.align_coordinates`, models/align.py:80-83; `B787`'s mirror pass builds its trial geometry the same
way, align.py:218-221 `ccgeom[:, 1] *= -1.0`) — `V3.mirrorY` in `Model/Kabsch.lean`.  As a matrix acting on rows it
is `reflY = diag(1, −1, 1)` (the `frame` of `align_hessian`, models/align.py:121).

`Planar c`     : all position vectors of `c` are orthogonal to one non-zero vector `n` (they lie in a plane through
                 the origin; for a centred geometry `centre g`: the molecule is planar — collinear included).
`NonPlanar c`  : three of the position vectors have a non-zero scalar triple product.
`Props/C12Mirror.lean` proves `NonPlanar c ↔ ¬ Planar c` over every linearly ordered field.
-/
namespace QcelVerif.Kabsch
variable {K : Type}

section Ring
variable [CommRing K]

/-- `diag(1, −1, 1)`: the reflection `y → −y` as a matrix (`np.diag([1.0, -1.0, 1.0])`, models/align.py:121) -/
def reflY : M3 K := ⟨1, 0, 0, 0, -1, 0, 0, 0, 1⟩

/-- scalar triple product `[a, b, d] = (a × b)·d` = determinant of the matrix with rows `a, b, d` -/
def triple (a b d : V3 K) : K := (V3.cross a b).dot d

/-- the matrix with rows `a, b, d` -/
def ofRows (a b d : V3 K) : M3 K := ⟨a.x, a.y, a.z, b.x, b.y, b.z, d.x, d.y, d.z⟩

/-- all position vectors lie in one plane through the origin (normal `n ≠ 0`) -/
def Planar (c : List (V3 K)) : Prop := ∃ n : V3 K, n ≠ V3.zero ∧ ∀ a ∈ c, a.dot n = 0

/-- three of the position vectors are linearly independent -/
def NonPlanar (c : List (V3 K)) : Prop := ∃ a ∈ c, ∃ b ∈ c, ∃ d ∈ c, triple a b d ≠ 0

end Ring

section Field
variable [Field K]

/-- the reflection through the plane with normal `n`:  `I − 2 n nᵀ/|n|²` (fixes the plane, flips `n`) -/
def reflPlane (n : V3 K) : M3 K :=
  let s := n.nrm2
  ⟨1 - 2 * n.x * n.x / s, -(2 * n.x * n.y / s), -(2 * n.x * n.z / s),
   -(2 * n.y * n.x / s), 1 - 2 * n.y * n.y / s, -(2 * n.y * n.z / s),
   -(2 * n.z * n.x / s), -(2 * n.z * n.y / s), 1 - 2 * n.z * n.z / s⟩

end Field

end QcelVerif.Kabsch
