/-
IEEE-754 binary64 values as exact rationals, and the one primitive the radii code needs:
round-to-nearest, ties-to-even, to a 53-bit significand (`rnd64`).  Python `float(Decimal)`
(correctly rounded decimal -> double) is `rnd64` of the exact decimal value; `a * b` on two doubles
is `rnd64` of the exact product.  Exponent range is NOT modelled (no overflow, no subnormals): the
radii, their unit factors and products lie between 1e-13 and 1e4.   Core Lean only.
(DESIGN.md §1.4 plans a shared `F64` library; it does not exist yet, this is C17's own minimal one.)
-/
namespace QcelVerif.Radii

/-- `⌊log2 q⌋` for `q > 0` -/
def ilog2 (q : Rat) : Int :=
  let k : Int := (Nat.log2 q.num.toNat : Int) - (Nat.log2 q.den : Int)
  -- 2^(k-1) < q < 2^(k+1)
  if (2 : Rat) ^ k ≤ q then k else k - 1

/-- round half to even of a non-negative rational to an integer -/
def roundHalfEven (s : Rat) : Int :=
  let fl := s.floor
  let r := s - (fl : Rat)
  if r < 1 / 2 then fl else if 1 / 2 < r then fl + 1 else if fl % 2 = 0 then fl else fl + 1

/-- binary exponent of the unit in the last place of the double nearest `q` (`q > 0`) -/
def ulpExp (q : Rat) : Int := ilog2 q - 52

/-- round a positive rational to 53 significant bits, nearest-even -/
def rndPos (q : Rat) : Rat :=
  let e := ulpExp q
  ((roundHalfEven (q / (2 : Rat) ^ e) : Int) : Rat) * (2 : Rat) ^ e

/-- nearest double (as an exact rational), ties to even; exponent range unbounded -/
def rnd64 (q : Rat) : Rat :=
  if q = 0 then 0 else if q < 0 then -(rndPos (-q)) else rndPos q

/-- `x` is representable with a 53-bit significand: `x = m·2^e` with `|m| ≤ 2^53` at the ulp scale of `x` -/
def isF64 (x : Rat) : Bool :=
  if x = 0 then true
  else
    let a := if x < 0 then -x else x
    let s := a / (2 : Rat) ^ (ulpExp a)
    s.den == 1

/-- independent acceptance test "`x` is a double nearest to `q`, ties to even" (`q > 0`): `x` has a
53-bit significand `m` at exponent `e`, lies within half a unit in the last place of `q`, and on an
exact tie `m` is even. Stated without reference to `rnd64`. -/
def isNearestEven (q x : Rat) : Bool :=
  if q ≤ 0 then false
  else
    let e := ulpExp x
    let m := x / (2 : Rat) ^ e
    let ulp := (2 : Rat) ^ e
    let err := if x < q then q - x else x - q
    decide (0 < x) && m.den == 1 && decide ((2 : Rat) ^ (52 : Nat) ≤ m) && decide (m < (2 : Rat) ^ (53 : Nat)) &&
      (decide (2 * err < ulp) || (decide (2 * err = ulp) && m.num % 2 == 0)) &&
      -- the neighbour below a power of two is half as far: exclude it being closer
      (decide (m ≠ (2 : Rat) ^ (52 : Nat)) || decide (x ≤ q) || decide (4 * err ≤ ulp))

/-- float multiplication -/
def fmul (a b : Rat) : Rat := rnd64 (a * b)

/-- value of a decimal `±coeff·10^exp` -/
def decVal (neg : Bool) (coeff : Nat) (exp : Int) : Rat :=
  let v : Rat := (coeff : Rat) * (10 : Rat) ^ exp
  if neg then -v else v

/-- Python `float(Decimal)` -/
def ofDec (neg : Bool) (coeff : Nat) (exp : Int) : Rat := rnd64 (decVal neg coeff exp)

end QcelVerif.Radii
