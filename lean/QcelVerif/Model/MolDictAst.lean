import QcelVerif.Model.MolSchemaAst
import QcelVerif.Model.MolDict
/-!
C09 (c, source tie) — a generic evaluator for the statements of `_filter_defaults` (qcelemental/models/molecule.py) as
re-read from the source (`Src.FilterFn`, Model/MolSchemaAst.lean).  The dictionary is the hand model's `MolDict K`; its keys are
addressed BY NAME through `Src.encMol` (reading) and `popField` (removing), the same naming `Props/C09Src.lean` uses for
`to_schema` / `from_schema`.  `Props/C09SrcFilter.lean` proves the evaluator at the generated term equal to the hand model
`MolDict.filterDefaults`.  Core Lean only.
-/
namespace QcelVerif.MolSchema.Src
open QcelVerif.MolSchema

/-- `d.pop(k)` for the keys `_filter_defaults` can name: KeyError when absent; another key has no meaning here -/
def popField {K : Type} (k : String) (d : MolDict K) : Except SErr (MolDict K) :=
  let chk {α : Type} (o : Option α) (d' : MolDict K) : Except SErr (MolDict K) :=
    match o with
    | some _ => .ok d'
    | none => .error (.err .key)
  if k = "atomic_numbers" then chk d.atomicNumbers { d with atomicNumbers := none }
  else if k = "mass_numbers" then chk d.massNumbers { d with massNumbers := none }
  else if k = "masses" then chk d.masses { d with masses := none }
  else if k = "real" then chk d.real { d with real := none }
  else if k = "atom_labels" then chk d.atomLabels { d with atomLabels := none }
  else if k = "connectivity" then chk d.connectivity { d with connectivity := none }
  else if k = "fragments" then chk d.fragments { d with fragments := none }
  else if k = "fragment_charges" then chk d.fragCharges { d with fragCharges := none }
  else if k = "fragment_multiplicities" then chk d.fragMults { d with fragMults := none }
  else .error .stuck

def popAll {K : Type} (d : MolDict K) : List String → Except SErr (MolDict K)
  | [] => .ok d
  | k :: t => (match popField k d with | .error e => .error e | .ok d' => popAll d' t)

/-- one guard; `nat`, `dm`: the two locals computed first -/
def evalFCond {K : Type} [DecidableEq K] (nat : Nat) (dm : List K) (d : MolDict K) : FCond → Except SErr Bool
  | .massesEqualDefault k =>
    (match encMol d k with | some (.nums ms) => .ok (decide (dm = ms)) | some _ => .error .stuck | none => .error (.err .key))
  | .allTrue k =>
    (match encMol d k with | some (.bools l) => .ok (l.all id) | some _ => .error .stuck | none => .error (.err .key))
  | .allEmptyLabels k =>
    (match encMol d k with
     | some (.strs l) => .ok (decide (l = List.replicate nat "")) | some _ => .error .stuck | none => .error (.err .key))
  | .getIsNone k => (match encMol d k with | some .none => .ok true | _ => .ok false)
  | .isSingleFragment k =>
    (match encMol d k with
     | some (.frags f) => .ok (decide (f = [arange nat])) | some _ => .error .stuck | none => .error (.err .key))

def evalFStmts {K : Type} [DecidableEq K] (nat : Nat) (dm : List K) : List FStmt → MolDict K → Except SErr (MolDict K)
  | [], d => .ok d
  | .pop k :: t, d => (match popField k d with | .error e => .error e | .ok d' => evalFStmts nat dm t d')
  | .ifPops c ks :: t, d =>
    match evalFCond nat dm d c with
    | .error e => .error e
    | .ok true => (match popAll d ks with | .error e => .error e | .ok d' => evalFStmts nat dm t d')
    | .ok false => evalFStmts nat dm t d

def evalFilter {K : Type} [DecidableEq K] (fn : FilterFn) (massOf : String → K) (d : MolDict K) : Except SErr (MolDict K) :=
  match encMol d fn.natKey with
  | none => .error (.err .key)
  | some (.strs s1) =>
    (match encMol d fn.massSymKey with
     | none => .error (.err .key)
     | some (.strs s2) => evalFStmts s1.length (s2.map massOf) fn.stmts d
     | some _ => .error .stuck)
  | some _ => .error .stuck

end QcelVerif.MolSchema.Src
