import QcelVerif.Model.RegexEngine
/-!
`re.findall` / `re.finditer` for the generic regex engine of `Model/RegexEngine.lean` (added for C15; core Lean only,
nothing property specific).

CPython (`Modules/_sre/sre.c: pattern_findall`, `sre_lib.h: SRE(search)`), version ≥ 3.7:

  * the scan keeps a cursor `start`; `search` reports the first way to match (backtracking order) at the leftmost start
    position ≥ the cursor where there is one;
  * after a match the cursor moves to the END of the match, so reported matches never overlap;
  * empty-match rule (`state.must_advance`): after an EMPTY match at position `p` the next search starts at `p` again but
    a match that is empty at `p` is rejected there (the matcher backtracks into the next way to match; a non-empty match
    starting at `p` is accepted), and positions after `p` are tried without that restriction.  After a NON-empty match
    ending at `p` an empty match at `p` IS accepted (the 3.7 change: `re.findall('x*', 'xa') == ['x', '', '']`);
  * the scan stops when the cursor has passed the end of the string or `search` finds nothing.

`scan` walks the string structurally, one character per step, with a counter `skip` of the characters still covered by the
last reported match (or `1` when the position is abandoned), so it needs no fuel.
-/
namespace QcelVerif.Regex

/-- how a pattern is used at its call site (emitted by translators for the record; `…_shape` theorems pin them) -/
inductive Entry where
  | «match» | fullmatch | search | findall | finditer
  deriving Repr, DecidableEq

/-- one reported match: the matched text (`group(0)`) and the captures -/
structure Found where
  text : List Nat
  caps : Caps
  deriving Repr, DecidableEq

def Found.group (f : Found) (i : Nat) : Option (List Nat) := f.caps.lookup i

/-- the first way to match `r` with the cursor before `s` (captures reset, as `state_reset` does); with `adv` the ways
that consume nothing are rejected (`must_advance`) -/
def matchAt (r : Re) (adv : Bool) (prev : Option Nat) (s : List Nat) : Option St :=
  r.bt (fun st' => if adv && st'.rest.length == s.length then none else some st') ⟨prev, s, []⟩

def foundOf (s : List Nat) (st : St) : Found := ⟨takeDiff s st.rest, st.caps⟩

/-- what `findall` reports with its cursor before `s` (a position not covered by an earlier match), and how many
characters it steps over before the next unrestricted attempt:
  * no match here                       → nothing, step 1
  * a non-empty match                   → it, step over it
  * an empty match, then (`must_advance`) a non-empty one at the same place → both, step over the second
  * an empty match and nothing non-empty → it, step 1 -/
def atPos (r : Re) (prev : Option Nat) (s : List Nat) : List Found × Nat :=
  match matchAt r false prev s with
  | none => ([], 1)
  | some st1 =>
    if st1.rest.length < s.length then ([foundOf s st1], s.length - st1.rest.length)
    else
      match matchAt r true prev s with
      | some st2 => ([foundOf s st1, foundOf s st2], s.length - st2.rest.length)
      | none => ([foundOf s st1], 1)

/-- `skip` = characters still to step over before the next attempt -/
def scan (r : Re) : Nat → Option Nat → List Nat → List Found
  | _ + 1, _, [] => []
  | k + 1, _, c :: t => scan r k (some c) t
  | 0, prev, [] => (atPos r prev []).1
  | 0, prev, c :: t =>
    let p := atPos r prev (c :: t)
    p.1 ++ scan r (p.2 - 1) (some c) t

/-- `[m for m in re.finditer(p, s)]` as (group(0), captures) -/
def Re.finditer (r : Re) (s : List Nat) : List Found := scan r 0 none s

/-- `re.findall(p, s)` for a pattern WITHOUT capturing groups: the matched texts -/
def Re.findall0 (r : Re) (s : List Nat) : List (List Nat) := (r.finditer s).map (·.text)

/-- `re.findall(p, s)` for a pattern with exactly one capturing group: that group's text ('' when it did not participate) -/
def Re.findall1 (r : Re) (s : List Nat) : List (List Nat) := (r.finditer s).map fun f => (f.group 1).getD []

end QcelVerif.Regex
