/-
Model of the result-model validators of QCElemental (C20).  Core Lean only.

Sources followed (line numbers of /repo at commit 2c95a77, i.e. after the five C20 `fix:` commits):
  * qcelemental/models/results.py:263-305   `_validate_poles` (all six dipoles + quadrupole), `_validate_derivs`
  * qcelemental/models/results.py:449-514   `_assert1d`, `_assert2d_nao_x`, `_assert2d` (incl. coulomb/exchange), `_assert_exists`
  * qcelemental/models/results.py:659-668   `_validate_return_result` (hessian: `v.reshape(nsq, nsq)` since /repo 5bfcfbf)
  * qcelemental/models/results.py:670-779   `_wavefunction_protocol`, `_stdout_protocol`, `_native_file_protocol` (always=True)
  * qcelemental/models/procedures.py:128-153 `_trajectory_protocol`
  * qcelemental/models/basis.py:45-74,181-231  shell validators, `nfunctions`, `_check_atom_map`, `_check_nbf`, `_calculate_nbf`

Abstraction: an array is its *shape* (`List Nat`); its size is the product of the shape.  numpy
`reshape` to a fully specified shape succeeds iff the sizes agree, `reshape(n, -1)` iff `n ≠ 0 ∧ n ∣ size`,
`reshape(-1, 3)` iff `3 ∣ size`, `reshape(-1)` always.  A Python dict with known key universe is a
function `Key → Option Value`.  pydantic's behaviour (validators run in field order, a failed field is
absent from `values`, `ValueError` is collected into one `ValidationError` listing locations, any other
exception escapes at once) is folded into the functions below and is tied differentially.
-/
namespace QcelVerif.Protocols

/-! ## shapes and numpy reshape -/

abbrev Shape := List Nat

def prod : List Nat → Nat
  | [] => 1
  | x :: xs => x * prod xs

/-- `np.asarray(v).reshape(target)` for a fully specified target -/
def reshapeExact (target : Shape) (s : Shape) : Option Shape :=
  if prod target = prod s then some target else none

/-- `v.reshape(n, -1)` -/
def reshapeRows (n : Nat) (s : Shape) : Option Shape :=
  if n = 0 then none else if prod s % n = 0 then some [n, prod s / n] else none

/-- `v.reshape(-1, 3)` -/
def reshapeCols3 (s : Shape) : Option Shape :=
  if prod s % 3 = 0 then some [prod s / 3, 3] else none

/-- `v.reshape(-1)` -/
def reshapeFlat (s : Shape) : Option Shape := some [prod s]

def isqrtAux (n : Nat) : Nat → Nat
  | 0 => 0
  | k + 1 => if (k + 1) * (k + 1) ≤ n then k + 1 else isqrtAux n k

/-- `int(v.size ** 0.5)` (exact integer square root; the float computation agrees for sizes < 2^52) -/
def isqrt (n : Nat) : Nat := isqrtAux n n

/-- `nsq = int(v.size**0.5); v = v.reshape(nsq, nsq)` -/
def reshapeSquare (s : Shape) : Option Shape :=
  let r := isqrt (prod s)
  if r * r = prod s then some [r, r] else none

/-! ## errors -/

inductive Err where
  /-- pydantic `ValidationError`; the failing locations, in field order -/
  | validation (locs : List String)
  /-- `qcelemental.exceptions.ValidationError` raised by `BasisSet._check_nbf` (escapes pydantic) -/
  | nbfMismatch
  deriving Repr, DecidableEq

/-! ## AtomicResultProperties (results.py:263-305) -/

inductive PropArr where
  | return_gradient | return_hessian
  | scf_dipole_moment | scf_quadrupole_moment | scf_total_gradient | scf_total_hessian
  | mp2_dipole_moment | ccsd_dipole_moment | ccsd_prt_pr_dipole_moment
  | ccsdt_dipole_moment | ccsdtq_dipole_moment
  deriving Repr, DecidableEq

/-- declaration order of the array fields -/
def PropArr.all : List PropArr :=
  [.return_gradient, .return_hessian, .scf_dipole_moment, .scf_quadrupole_moment, .scf_total_gradient,
   .scf_total_hessian, .mp2_dipole_moment, .ccsd_dipole_moment, .ccsd_prt_pr_dipole_moment,
   .ccsdt_dipole_moment, .ccsdtq_dipole_moment]

def PropArr.name : PropArr → String
  | .return_gradient => "return_gradient" | .return_hessian => "return_hessian"
  | .scf_dipole_moment => "scf_dipole_moment" | .scf_quadrupole_moment => "scf_quadrupole_moment"
  | .scf_total_gradient => "scf_total_gradient" | .scf_total_hessian => "scf_total_hessian"
  | .mp2_dipole_moment => "mp2_dipole_moment" | .ccsd_dipole_moment => "ccsd_dipole_moment"
  | .ccsd_prt_pr_dipole_moment => "ccsd_prt_pr_dipole_moment"
  | .ccsdt_dipole_moment => "ccsdt_dipole_moment" | .ccsdtq_dipole_moment => "ccsdtq_dipole_moment"

inductive PropRule where
  | gradient | hessian | dipole | quadrupole
  deriving Repr, DecidableEq

/-- which validator is attached to which field -/
def propRule : PropArr → PropRule
  | .return_gradient | .scf_total_gradient => .gradient
  | .return_hessian | .scf_total_hessian => .hessian
  | .scf_dipole_moment | .mp2_dipole_moment | .ccsd_dipole_moment | .ccsd_prt_pr_dipole_moment
  | .ccsdt_dipole_moment | .ccsdtq_dipole_moment => .dipole
  | .scf_quadrupole_moment => .quadrupole

/-- one field through its validator; `natom` is `values.get("calcinfo_natom")` -/
def applyPropRule (natom : Option Nat) (r : PropRule) (s : Shape) : Option Shape :=
  match r with
  | .dipole => reshapeExact [3] s
  | .quadrupole => reshapeExact [3, 3] s
  | .gradient => match natom with
      | none => none                              -- "Please also set ``calcinfo_natom``!"
      | some n => reshapeExact [n, 3] s
  | .hessian => match natom with
      | none => none
      | some n => reshapeExact [3 * n, 3 * n] s

structure PropsIn where
  natom : Option Nat
  arr : PropArr → Option Shape

def propOut (p : PropsIn) (k : PropArr) : Option (Option Shape) :=
  (p.arr k).map (applyPropRule p.natom (propRule k))

def propFails (p : PropsIn) : List PropArr :=
  PropArr.all.filter (fun k => propOut p k == some none)

/-- `AtomicResultProperties(**p)`: the failing fields, or the validated object -/
def validateProps (p : PropsIn) : Except (List PropArr) PropsIn :=
  match propFails p with
  | [] => .ok { natom := p.natom, arr := fun k => (propOut p k).join }
  | l => .error l

/-! ## BasisSet (basis.py) -/

inductive Harm where
  | spherical | cartesian
  deriving Repr, DecidableEq

structure Shell where
  harm : Harm
  am : List Nat          -- angular_momentum (non-empty)
  nexp : Nat             -- len(exponents) ≥ 1
  rows : List Nat        -- lengths of the rows of `coefficients` (non-empty)
  deriving Repr, DecidableEq

/-- `ElectronShell.nfunctions` (basis.py:62-74) -/
def nfunctions (h : Harm) : List Nat → Nat
  | [] => 0
  | l :: ls =>
    (match h with
     | .spherical => 2 * l + 1
     | .cartesian => (l + 1) * (l + 2) / 2) + nfunctions h ls

def Shell.nfunctions (s : Shell) : Nat := QcelVerif.Protocols.nfunctions s.harm s.am

/-- `_check_coefficient_length` then `_check_general_contraction_or_fused` (basis.py:45-60) -/
def Shell.ok (s : Shell) : Bool :=
  s.rows.all (· == s.nexp) && (s.am.length ≤ 1 || s.am.length == s.rows.length)

structure Center where
  id : Nat
  shells : List Shell
  deriving Repr, DecidableEq

structure BasisIn where
  centers : List Center          -- center_data (unique ids)
  atomMap : List Nat             -- atom_map
  nbf : Option Nat               -- supplied nbf
  deriving Repr, DecidableEq

def Center.nfunctions (c : Center) : Nat := (c.shells.map Shell.nfunctions).foldr (· + ·) 0

def findCenter (cs : List Center) (i : Nat) : Option Center := cs.find? (fun c => c.id == i)

/-- `_calculate_nbf` (basis.py:213-231); unknown centres cannot occur after `_check_atom_map` -/
def calcNbf (cs : List Center) : List Nat → Nat
  | [] => 0
  | a :: as => (match findCenter cs a with | some c => c.nfunctions | none => 0) + calcNbf cs as

def enumFrom {α : Type} : Nat → List α → List (Nat × α)
  | _, [] => []
  | n, x :: xs => (n, x) :: enumFrom (n + 1) xs

/-- locations of shell errors inside one centre -/
def centerLocs (c : Center) : List String :=
  if c.shells.isEmpty then [s!"center_data.c{c.id}.electron_shells"]
  else (enumFrom 0 c.shells).filterMap (fun (i, s) =>
    if s.ok then none else some s!"center_data.c{c.id}.electron_shells.{i}.coefficients")

def flatten {α : Type} : List (List α) → List α
  | [] => []
  | l :: ls => l ++ flatten ls

inductive BasisErr where
  | fields (locs : List String)
  | nbfMismatch
  deriving Repr, DecidableEq

/-- `BasisSet(**b)`; on success `nbf` is the computed count -/
def validateBasis (b : BasisIn) : Except BasisErr BasisIn :=
  match flatten (b.centers.map centerLocs) with
  | l@(_ :: _) => .error (.fields l)               -- center_data failed: atom_map / nbf validators pass on
  | [] =>
    if b.atomMap.all (fun a => (findCenter b.centers a).isSome) then
      let n := calcNbf b.centers b.atomMap
      match b.nbf with
      | none => .ok { b with nbf := some n }
      | some v => if v = n then .ok b else .error .nbfMismatch
    else .error (.fields ["atom_map"])              -- nbf validator passes on (KeyError on values["atom_map"])

/-! ## WavefunctionProperties -/

inductive Spin where
  | a | b
  deriving Repr, DecidableEq

inductive ArrBase where
  | h_core | h_effective | scf_orbitals | scf_density | scf_fock | scf_eigenvalues | scf_occupations
  | scf_coulomb | scf_exchange | localized_orbitals | localized_fock
  deriving Repr, DecidableEq

inductive PtrBase where
  | orbitals | density | fock | eigenvalues | occupations
  deriving Repr, DecidableEq

structure ArrKey where
  base : ArrBase
  spin : Spin
  deriving Repr, DecidableEq

structure PtrKey where
  base : PtrBase
  spin : Spin
  deriving Repr, DecidableEq

def ArrBase.all : List ArrBase :=
  [.h_core, .h_effective, .scf_orbitals, .scf_density, .scf_fock, .scf_eigenvalues, .scf_occupations,
   .scf_coulomb, .scf_exchange, .localized_orbitals, .localized_fock]

def PtrBase.all : List PtrBase := [.orbitals, .density, .fock, .eigenvalues, .occupations]

/-- declaration order (results.py:342-420): `x_a, x_b` pairs -/
def ArrKey.all : List ArrKey := flatten (ArrBase.all.map (fun b => [⟨b, .a⟩, ⟨b, .b⟩]))
def PtrKey.all : List PtrKey := flatten (PtrBase.all.map (fun b => [⟨b, .a⟩, ⟨b, .b⟩]))

def Spin.suffix : Spin → String
  | .a => "_a" | .b => "_b"

def ArrBase.name : ArrBase → String
  | .h_core => "h_core" | .h_effective => "h_effective" | .scf_orbitals => "scf_orbitals"
  | .scf_density => "scf_density" | .scf_fock => "scf_fock" | .scf_eigenvalues => "scf_eigenvalues"
  | .scf_occupations => "scf_occupations" | .scf_coulomb => "scf_coulomb" | .scf_exchange => "scf_exchange"
  | .localized_orbitals => "localized_orbitals" | .localized_fock => "localized_fock"

def PtrBase.name : PtrBase → String
  | .orbitals => "orbitals" | .density => "density" | .fock => "fock"
  | .eigenvalues => "eigenvalues" | .occupations => "occupations"

def ArrKey.name (k : ArrKey) : String := k.base.name ++ k.spin.suffix
def PtrKey.name (k : PtrKey) : String := k.base.name ++ k.spin.suffix

/-- the wavefunction payload: `β` is whatever sits under "basis" -/
structure Wfn (β : Type) where
  restricted : Option Bool
  basis : Option β
  arr : ArrKey → Option Shape
  ptr : PtrKey → Option ArrKey

inductive WfnProto where
  | all | orbitals_and_eigenvalues | occupations_and_eigenvalues | return_results | none
  deriving Repr, DecidableEq

/-- `return_keep` (results.py:705-722); `none` for the protocols that do not filter by pointer -/
def keepList : WfnProto → Option (List PtrKey)
  | .all => none
  | .none => none
  | .return_results => some PtrKey.all
  | .orbitals_and_eigenvalues => some [⟨.orbitals, .a⟩, ⟨.orbitals, .b⟩, ⟨.eigenvalues, .a⟩, ⟨.eigenvalues, .b⟩]
  | .occupations_and_eigenvalues => some [⟨.occupations, .a⟩, ⟨.occupations, .b⟩, ⟨.eigenvalues, .a⟩, ⟨.eigenvalues, .b⟩]

/-- `for k in list(wfn.keys()): if k.endswith("_b"): wfn.pop(k)` (results.py:692-696) -/
def dropBeta {β : Type} (w : Wfn β) : Wfn β :=
  { w with
    arr := fun k => if k.spin = .b then none else w.arr k
    ptr := fun k => if k.spin = .b then none else w.ptr k }

def setArr {β : Type} (w : Wfn β) (k : ArrKey) (v : Shape) : Wfn β :=
  { w with arr := fun k' => if k' = k then some v else w.arr k' }

def setPtr {β : Type} (w : Wfn β) (k : PtrKey) (v : ArrKey) : Wfn β :=
  { w with ptr := fun k' => if k' = k then some v else w.ptr k' }

/-- the loop `for rk in return_keep` (results.py:727-737); a pointer whose target is not in the dict raises
`ValueError` inside the (pre) validator, i.e. the field `wavefunction` fails validation -/
def keepLoop {β : Type} (w : Wfn β) : List PtrKey → Wfn β → Except Err (Wfn β)
  | [], ret => .ok ret
  | rk :: rest, ret =>
    match w.ptr rk with
    | none => keepLoop w rest ret                       -- `if key is None: continue`
    | some key =>
      match w.arr key with
      | none => .error (.validation ["wavefunction"])    -- `if key not in wfn: raise ValueError(...)`
      | some v => keepLoop w rest (setArr (setPtr ret rk key) key v)

/-- `AtomicResult._wavefunction_protocol` (results.py:670-741) on a supplied dict -/
def wfnProtocol {β : Type} (p : WfnProto) (w : Wfn β) : Except Err (Option (Wfn β)) :=
  match w.restricted with
  | none => .error (.validation ["wavefunction"])       -- "`restricted` is required."
  | some r =>
    let w1 := if r then dropBeta w else w
    match p with
    | .none => .ok none
    | p =>
      match keepList p with
      | none => .ok (some w1)                            -- "all"
      | some keep =>
        match keepLoop w1 keep
            { restricted := some r, basis := w1.basis, arr := fun _ => none, ptr := fun _ => none } with
        | .ok ret => .ok (some ret)
        | .error e => .error e

/-! ### WavefunctionProperties validators (results.py:449-514) -/

inductive ArrRule where
  | square      -- `_assert2d`       : (nbf, nbf)
  | rows        -- `_assert2d_nao_x` : (nbf, -1)   (scf_orbitals, localized_orbitals)
  | flat        -- `_assert1d`       : (-1,)
  | unvalidated -- no validator registered
  deriving Repr, DecidableEq

def arrRule : ArrBase → ArrRule
  | .h_core | .h_effective | .scf_density | .scf_fock | .scf_coulomb | .scf_exchange => .square
  | .scf_orbitals | .localized_orbitals => .rows     -- localized_orbitals: since /repo ddb6df6
  | .scf_eigenvalues | .scf_occupations => .flat
  | .localized_fock => .unvalidated

/-- `nbf = none`: `values.get("basis")` is None ("Do not raise multiple errors": pass through) -/
def applyArrRule (nbf : Option Nat) (r : ArrRule) (s : Shape) : Option Shape :=
  match r with
  | .flat => reshapeFlat s
  | .unvalidated => some s
  | .square => match nbf with
      | none => some s
      | some n => reshapeExact [n, n] s
  | .rows => match nbf with
      | none => some s
      | some n => reshapeRows n s

def arrOut {β : Type} (nbf : Option Nat) (w : Wfn β) (k : ArrKey) : Option (Option Shape) :=
  (w.arr k).map (applyArrRule nbf (arrRule k.base))

def arrFails {β : Type} (nbf : Option Nat) (w : Wfn β) : List ArrKey :=
  ArrKey.all.filter (fun k => arrOut nbf w k == some none)

/-- `_assert_exists`: `values.get(v, None) is None` — the target is absent or failed its validator -/
def ptrBad {β : Type} (nbf : Option Nat) (w : Wfn β) (pk : PtrKey) : Bool :=
  match w.ptr pk with
  | none => false
  | some ak => (arrOut nbf w ak).join.isNone

def ptrFails {β : Type} (nbf : Option Nat) (w : Wfn β) : List PtrKey :=
  PtrKey.all.filter (ptrBad nbf w)

/-- the `basis` field (required; a nested BasisSet): validated basis and error locations, or the escaping nbf error -/
def basisStage (b : Option BasisIn) : Except Err (Option BasisIn × List String) :=
  match b with
  | none => .ok (none, ["basis"])                                    -- field required
  | some b =>
    match validateBasis b with
    | .ok b' => .ok (some b', [])
    | .error (.fields l) => .ok (none, l.map (fun s => "basis." ++ s))
    | .error .nbfMismatch => .error .nbfMismatch

/-- failing locations, in field order; `b'` is `values.get("basis")` -/
def wfnLocs (b' : Option BasisIn) (blocs : List String) (w : Wfn BasisIn) : List String :=
  blocs
    ++ (if w.restricted.isNone then ["restricted"] else [])
    ++ (arrFails (b'.bind (·.nbf)) w).map ArrKey.name
    ++ (ptrFails (b'.bind (·.nbf)) w).map PtrKey.name

/-- `WavefunctionProperties(**w)` -/
def validateWfn (w : Wfn BasisIn) : Except Err (Wfn BasisIn) :=
  match basisStage w.basis with
  | .error e => .error e
  | .ok (b', blocs) =>
    match wfnLocs b' blocs w with
    | [] => .ok { restricted := w.restricted, basis := b',
                  arr := fun k => (arrOut (b'.bind (·.nbf)) w k).join, ptr := w.ptr }
    | l => .error (.validation l)

/-! ## return_result (results.py:659-668) -/

inductive Driver where
  | energy | gradient | hessian | properties
  deriving Repr, DecidableEq

inductive RR where
  | scalar                 -- a float
  | dict                   -- a dict of properties
  | arr (s : Shape)
  deriving Repr, DecidableEq

/-- the shape `np.asarray(v)` has -/
def RR.asShape : RR → Shape
  | .scalar => []
  | .dict => []
  | .arr s => s

def validateRR (d : Driver) (v : RR) : Option RR :=
  match d with
  | .gradient => (reshapeCols3 v.asShape).map .arr
  | .hessian => (reshapeSquare v.asShape).map .arr
  | _ => some v

/-! ## stdout, native_files, trajectory protocols -/

/-- `_stdout_protocol` (results.py:743-755) -/
def stdoutProtocol {α : Type} (keep : Bool) (v : Option α) : Option α :=
  if keep then v else none

inductive NativePolicy where
  | all | input | none
  deriving Repr, DecidableEq

/-- a `Dict[str, Any]` of files: file name id ↦ content (`none` = Python `None`); name 0 is "input" -/
abbrev Files (γ : Type) := List (Nat × Option γ)

/-- `files.get(k, None)` -/
def filesGet {γ : Type} (f : Files γ) (k : Nat) : Option γ :=
  match f.find? (fun e => e.1 == k) with
  | some e => e.2
  | none => none

/-- `_native_file_protocol` (results.py:757-777) on a supplied dict -/
def nativeProtocol {γ : Type} (p : NativePolicy) (f : Files γ) : Files γ :=
  match p with
  | .all => f
  | .none => []
  | .input => [(0, filesGet f 0)]

/-- the field as pydantic sees it: the validator is `always=True`, an unsupplied field is the default `{}` -/
def nativeField {γ : Type} (p : NativePolicy) (f : Option (Files γ)) : Files γ :=
  nativeProtocol p (f.getD [])

inductive TrajPolicy where
  | all | initial_and_final | final | none
  deriving Repr, DecidableEq

/-- `v[-1]` -/
def lastOf {α : Type} : α → List α → α
  | x, [] => x
  | _, y :: ys => lastOf y ys

/-- `OptimizationResult._trajectory_protocol` (procedures.py:131-153) -/
def trajectoryProtocol {α : Type} (p : TrajPolicy) (v : List α) : List α :=
  match p with
  | .all => v
  | .none => []
  | .initial_and_final =>
    if v.length > 2 then
      match v with
      | [] => v                                 -- unreachable
      | x :: xs => [x, lastOf x xs]             -- `[v[0], v[-1]]`
    else v
  | .final =>
    if v.length > 1 then
      match v with
      | [] => v                                 -- unreachable
      | x :: xs => [lastOf x xs]                -- `[v[-1]]`
    else v

/-! ## AtomicResult: all validators together -/

structure ARIn (γ σ : Type) where
  wp : WfnProto
  so : Bool
  nf : NativePolicy
  driver : Driver
  props : PropsIn
  wfn : Option (Wfn BasisIn)
  rr : RR
  stdout : Option σ
  native : Option (Files γ)

structure AROut (γ σ : Type) where
  props : PropsIn
  wfn : Option (Wfn BasisIn)
  rr : RR
  stdout : Option σ
  native : Files γ

/-- the `wavefunction` field: pre-validator, then the nested model -/
def wfnField (p : WfnProto) (w : Option (Wfn BasisIn)) : Except Err (Option (Wfn BasisIn)) :=
  match w with
  | none => .ok none
  | some w =>
    match wfnProtocol p w with
    | .error e => .error e
    | .ok none => .ok none
    | .ok (some w1) =>
      match validateWfn w1 with
      | .ok w2 => .ok (some w2)
      | .error (.validation l) => .error (.validation (l.map (fun s => "wavefunction." ++ s)))
      | .error e => .error e

/-- `AtomicResult(**i)`; field order: properties, wavefunction, return_result, stdout, native_files.
Exceptions that are not `ValueError` (qcelemental's own ValidationError from the nbf check) escape as soon
as they are raised; `ValueError`s are collected. -/
def atomicResult {γ σ : Type} (i : ARIn γ σ) : Except Err (AROut γ σ) :=
  let (pv, plocs) : Option PropsIn × List String :=
    match validateProps i.props with
    | .ok p => (some p, [])
    | .error l => (none, l.map (fun k => "properties." ++ k.name))
  match wfnField i.wp i.wfn with
  | .error (.validation wl) =>
    .error (.validation (plocs ++ wl ++ (if (validateRR i.driver i.rr).isNone then ["return_result"] else [])))
  | .error e => .error e
  | .ok w =>
    match pv, validateRR i.driver i.rr with
    | some p, some r =>
      .ok { props := p, wfn := w, rr := r, stdout := stdoutProtocol i.so i.stdout,
            native := nativeField i.nf i.native }
    | _, r => .error (.validation (plocs ++ (if r.isNone then ["return_result"] else [])))

end QcelVerif.Protocols
