import QcelVerif.Lib.PStr
/-
The documented build rule of the shipped periodic table
(`raw_data/nist_data/build_periodic_table.py:218-297`), restated over the raw SRD-144 records:

  * rename Uut/Uup/Uus;
  * isotopes in file order, key = symbol ++ mass-number string; D and T are emitted under both
    spellings (alias first, then own symbol);
  * mass = the leading `[0-9.]+` of "Relative Atomic Mass" (uncertainty dropped), kept as text;
  * bare element = isotope with the largest isotopic composition (first on ties), else the
    longest-lived isotope from the side table, looked up among the rows emitted so far;
  * element rows (Z, symbol, capitalised name).

`none` = the script would raise.  Core Lean only (kernel-evaluated by `decide +kernel`).
-/
namespace QcelVerif.PTBuild
open QcelVerif.PStr

/-- (EA, _EE, A, mass) with packed strings -/
abbrev Row := Nat × Nat × Nat × Nat

def assoc (l : List (Nat × Nat)) (k : Nat) : Option Nat :=
  match l with
  | [] => none
  | (a, b) :: t => if a == k then some b else assoc t k

/-- `re.match(r"(?P<value>[\d.]+)…", s).group("value")` -/
def valuePrefix (s : Bytes) : Option Bytes :=
  let p := s.takeWhile (fun c => isDigit c || c == 46)
  if p.isEmpty then none else some p

/-- exact value of a decimal string `digits[.digits]` as (coefficient, number of fractional digits);
`none` where `float()` would raise (no digit at all, or two points). -/
def decimalOf (s : Bytes) : Option (Nat × Nat) :=
  let ip := s.takeWhile isDigit
  let rest := s.dropWhile isDigit
  match rest with
  | [] => if ip.isEmpty then none else some (digitsVal ip, 0)
  | 46 :: fp =>
      if fp.all isDigit && !(ip.isEmpty && fp.isEmpty) then some (digitsVal (ip ++ fp), fp.length) else none
  | _ => none

/-- `a > b` for exact decimals (the script compares `float(...)`; the tabulated compositions are
far apart compared with double spacing, so exact comparison decides the same way) -/
def decGt (a b : Nat × Nat) : Bool := a.1 * 10 ^ b.2 > b.1 * 10 ^ a.2

/-- all-digit string to Nat (`int(str)` on the raw "Mass Number"/"Atomic Number" fields) -/
def intOf (s : Bytes) : Option Nat := if !s.isEmpty && s.all isDigit then some (digitsVal s) else none

/-- first index-match in file order over a reversed accumulator: `masses[EA.index(key)]` -/
def findFirstRev (accRev : List Row) (key : Nat) : Option Nat :=
  accRev.foldl (fun found r => if r.1 == key then some r.2.2.2 else found) none

structure IsoState where
  rowsRev : List Row                       -- emitted rows, newest first
  best : Option (Nat × Nat × (Nat × Nat))  -- (mass, A, composition) of the most common isotope so far

/-- one iteration of the isotope loop (build_periodic_table.py:234-271) -/
def isoStep (aliases : List (Nat × Nat)) (st : IsoState)
    (iso : Nat × Nat × Nat × Option Nat) : Option IsoState := do
  let (sym, massNo, relMass, comp) := iso
  let massB ← valuePrefix (unpack relMass)
  let mass := pack massB
  let a ← intOf (unpack massNo)
  let rows :=
    match assoc aliases sym with
    | some al => (sym, pack [72], a, mass) :: (al, pack [72], a, mass) :: st.rowsRev   -- "H" = [72]
    | none => (pack (unpack sym ++ unpack massNo), sym, a, mass) :: st.rowsRev
  match comp with
  | none => pure { rowsRev := rows, best := st.best }
  | some c =>
      let cB ← valuePrefix (unpack c)
      let cv ← decimalOf cB
      let cur := match st.best with | some b => b.2.2 | none => (0, 0)
      if decGt cv cur then pure { rowsRev := rows, best := some (mass, a, cv) }
      else pure { rowsRev := rows, best := st.best }

def isoLoop (aliases : List (Nat × Nat)) : List (Nat × Nat × Nat × Option Nat) → IsoState → Option IsoState
  | [], st => some st
  | i :: t, st => (isoStep aliases st i).bind (isoLoop aliases t)

structure Acc where
  rowsRev : List Row
  elemsRev : List (Nat × Nat × Nat)

/-- one iteration of the element loop (228-287) -/
def elemStep (names : List Nat) (longest aliases : List (Nat × Nat)) (acc : Acc)
    (el : Nat × Nat × List (Nat × Nat × Nat × Option Nat)) : Option Acc := do
  let (sym, zStr, isos) := el
  let st ← isoLoop aliases isos { rowsRev := acc.rowsRev, best := none }
  let last ← isos.getLast?                    -- `diso` after the loop (NameError if there was none)
  let (m, a) ←
    match st.best with
    | some b => some (b.1, b.2.1)
    | none => do
        let a ← assoc longest last.1
        let key := pack (unpack sym ++ natDigits a)
        let m ← findFirstRev st.rowsRev key
        pure (m, a)
  let z ← intOf (unpack zStr)
  let nm ← if z = 0 then names.getLast? else names[z - 1]?      -- Python: element_names[z - 1]
  pure { rowsRev := (sym, sym, a, m) :: st.rowsRev,
         elemsRev := (z, sym, pack (capitalize (unpack nm))) :: acc.elemsRev }

def elemLoop (names : List Nat) (longest aliases : List (Nat × Nat)) :
    List (Nat × Nat × List (Nat × Nat × Nat × Option Nat)) → Acc → Option Acc
  | [], acc => some acc
  | e :: t, acc => (elemStep names longest aliases acc e).bind (elemLoop names longest aliases t)

/-- the rename pass (220-226) -/
def rename (newnames : List (Nat × Nat)) (data : List (Nat × Nat × List (Nat × Nat × Nat × Option Nat))) :
    List (Nat × Nat × List (Nat × Nat × Nat × Option Nat)) :=
  data.map fun el =>
    ((assoc newnames el.1).getD el.1, el.2.1,
      el.2.2.map fun (iso : Nat × Nat × Nat × Option Nat) => ((assoc newnames iso.1).getD iso.1, iso.2))

/-- the whole script: (element rows, nuclide rows) in file order -/
def rebuild (data : List (Nat × Nat × List (Nat × Nat × Nat × Option Nat)))
    (names : List Nat) (longest aliases newnames : List (Nat × Nat)) :
    Option (List (Nat × Nat × Nat) × List Row) :=
  let x := pack [88]          -- "X"
  let x0 := pack [88, 48]     -- "X0"
  let zr := pack [48]         -- "0"
  let init : Acc := { rowsRev := [(x0, x, 0, zr), (x, x, 0, zr)],
                      elemsRev := [(0, x, pack [68, 117, 109, 109, 121])] }
  (elemLoop names longest aliases (rename newnames data) init).map fun acc =>
    (acc.elemsRev.reverse, acc.rowsRev.reverse)

end QcelVerif.PTBuild
