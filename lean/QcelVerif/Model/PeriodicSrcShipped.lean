import QcelVerif.Model.PeriodicSrcEval
import QcelVerif.Model.PTShipped
import QcelVerif.Gen.PeriodicSrc
/-!
C01 — the source-derived lookup functions: the translated program of `Gen/PeriodicSrc.lean` run
(1) over the hand model's tables (`resolveSrcT T`, any table `T`) and (2) over dictionaries built from the
generated arrays the way `__init__` builds them (`Env.ofSource`; `resolveSrc`).  Core Lean only (the driver
imports this file).
-/
namespace QcelVerif.PT.Src
open QcelVerif QcelVerif.PStr

/-! ### (a) -/
/-- `to_period`'s ladder as translated, on an atomic number -/
def periodSrc (z : Nat) : Option Nat := Ladder.eval Gen.PeriodicSrc.periodLadder Gen.PeriodicSrc.periodElse z
/-- `to_group`'s ladder as translated -/
def groupSrc (z : Nat) : Option Nat := Ladder.eval Gen.PeriodicSrc.groupLadder Gen.PeriodicSrc.groupElse z

/-! ### (b) over any table of the hand model -/
/-- the translated `_resolve_atom_to_key` over the hand model's tables -/
def resolveSrcT (T : Tables) (a : PyVal) (strict : Bool) : Except Exc Nat :=
  resolveProg (Env.ofTables T) Gen.PeriodicSrc.innerBody Gen.PeriodicSrc.outerBody a strict

def accessorOf (n : AccName) : Option Accessor :=
  let target := match Gen.PeriodicSrc.aliases.find? (·.1 == n) with | some p => p.2 | none => n
  Gen.PeriodicSrc.accessors.find? (·.name == target)

/-- a translated accessor body (or the accessor a second name is bound to) over an environment -/
def accessorRun (E : Env) (n : AccName) (a : PyVal) (strict : Bool) : Except Exc Val :=
  match accessorOf n with
  | some acc => acc.run E Gen.PeriodicSrc.innerBody Gen.PeriodicSrc.outerBody a strict
  | none => .error .unsupported

/-! ### (c) the dictionaries as `__init__` builds them from the generated arrays -/

/-- the arrays of the data file, as `tools/gen_periodic.py` emits them (strings packed) -/
def column : ArrayName → List Nat
  | .Z => Gen.PT.elements.map (·.1)
  | .E => Gen.PT.elements.map (·.2.1)
  | .name => Gen.PT.elements.map (·.2.2)
  | .EA => Gen.PT.nuclides.map (·.1)
  | .EE => Gen.PT.nuclides.map (·.2.1)
  | .A => Gen.PT.nuclides.map (·.2.2.1)
  | .mass => Gen.PT.nuclides.map (·.2.2.2)

/-- `self.<attr>`: the data array `__init__` assigns to it -/
def attr (a : ArrayName) : List Nat :=
  match Gen.PeriodicSrc.arrayDefs.find? (·.1 == a) with
  | some p => column p.2
  | none => []

def dictArrays (d : DictName) : Option (ArrayName × ArrayName) :=
  (Gen.PeriodicSrc.dictDefs.find? (·.1 == d)).map (·.2)

/-- `zip(self.<keys>, self.<values>)` of dictionary `d` -/
def dictRows (d : DictName) : List (Nat × Nat) :=
  match dictArrays d with
  | some (k, v) => (attr k).zip (attr v)
  | none => []

/-- `dict(zip(…))`: inserted in order, later duplicate wins -/
def dictTreeSpec (d : DictName) : Bst Nat := buildDict (dictRows d)

/-! the seven dictionaries as constants (built once when the driver runs) -/
def tree_el2z : Bst Nat := dictTreeSpec .el2z
def tree_z2el : Bst Nat := dictTreeSpec .z2el
def tree_element2el : Bst Nat := dictTreeSpec .element2el
def tree_el2element : Bst Nat := dictTreeSpec .el2element
def tree_eliso2mass : Bst Nat := dictTreeSpec .eliso2mass
def tree_eliso2el : Bst Nat := dictTreeSpec .eliso2el
def tree_eliso2a : Bst Nat := dictTreeSpec .eliso2a

def dictTree : DictName → Bst Nat
  | .el2z => tree_el2z | .z2el => tree_z2el | .element2el => tree_element2el | .el2element => tree_el2element
  | .eliso2mass => tree_eliso2mass | .eliso2el => tree_eliso2el | .eliso2a => tree_eliso2a

theorem dictTree_eq (d : DictName) : dictTree d = dictTreeSpec d := by cases d <;> rfl

def isIntArray (a : ArrayName) : Bool := Gen.PeriodicSrc.intArrays.contains a

/-- a run-time value as a key of an array of ints / of strs: `none` = can never be equal to an entry -/
def keyOf (intKeys : Bool) : Val → Except Exc (Option Nat)
  | .int i => .ok (if intKeys then (if i < 0 then none else some i.toNat) else none)
  | .str s => .ok (if intKeys then none else some (pack s))
  | .pstr n => .ok (if intKeys then none else some n)
  | _ => .error .unsupported

def wrap (intVals : Bool) (n : Nat) : Val := if intVals then .int n else .pstr n

/-- the environment `__init__` sets up, from the generated arrays, in the translated construction order -/
def Env.ofSource : Env where
  dictGet d k :=
    match dictArrays d with
    | none => .error .unsupported
    | some (ka, va) =>
      match keyOf (isIntArray ka) k with
      | .error x => .error x
      | .ok none => .error .KeyError
      | .ok (some n) =>
        match (dictTree d).lookup n with
        | some v => .ok (wrap (isIntArray va) v)
        | none => .error .KeyError
  inList l k :=
    match l with
    | .E =>
      (match keyOf (isIntArray l) k with
       | .error x => .error x
       | .ok none => .ok false
       | .ok (some n) => .ok ((attr l).contains n))
    | _ => .error .unsupported

/-- the translated `_resolve_atom_to_key` over the dictionaries built as the source builds them -/
def resolveSrc (a : PyVal) (strict : Bool) : Except Exc Nat :=
  resolveProg Env.ofSource Gen.PeriodicSrc.innerBody Gen.PeriodicSrc.outerBody a strict

/-- `to_period` / `to_group` as translated: `Z = self.to_Z(atom)` (no `strict`), then the ladder -/
def toPeriodSrc (E : Env) (a : PyVal) : Except Exc (Option Nat) :=
  match accessorRun E .to_Z a false with
  | .ok (.int z) => if z < 0 then .error .unsupported else .ok (periodSrc z.toNat)
  | .ok _ => .error .unsupported
  | .error x => .error x
def toGroupSrc (E : Env) (a : PyVal) : Except Exc (Option Nat) :=
  match accessorRun E .to_Z a false with
  | .ok (.int z) => if z < 0 then .error .unsupported else .ok (groupSrc z.toNat)
  | .ok _ => .error .unsupported
  | .error x => .error x

end QcelVerif.PT.Src
