import QcelVerif.Model.MolText
import QcelVerif.Model.RegexOps
import QcelVerif.Gen.FromStringRegex
/-!
C07 — the recognisers of the text layer, twice:

  * `…Re`    what `from_string.py` / `filter_comments` compute: the generic regex engine (`Model/RegexEngine.lean`, `Model/RegexOps.lean`)
             run on the ASTs that `harness/c07_regex.py` regenerates from the source on every run (`Gen/FromStringRegex.lean`),
             through the entry point the code uses (`re.sub` of a `\A…\Z` pattern = one match at the start; `re.sub(…, r"\1", …)`;
             `.match`), reading the groups the callbacks read, by NAME (the translator emits the number of every named group)
  * `…Hand`  the same answer computed by M1's hand-written recognisers (`Model/MolText.lean`, unchanged), projected to the same type

`Props/C07Regex.lean` proves `…Re = …Hand` for every string; `Driver/C07c.lean` prints both next to each other and the harness
compares them with CPython's `re` on the very (pattern, flags) the translator emitted.  Core Lean only.

Strings of M1 are `List Char`, strings of the engine `List Nat` (code points): `toBytes` / `ofBytes`.
-/
namespace QcelVerif.MolText
open QcelVerif.Regex
open QcelVerif.Gen

def toBytes (s : Str) : List Nat := s.map Char.toNat
def ofBytes (b : List Nat) : Str := b.map Char.ofNat

/-- text of a named group of a successful match -/
def grp (st : St) (i : Nat) : Option Str := (st.group i).map ofBytes

/-! ## NUMBER on a whole token, SEP as a splitter (the two devices M1 tokenises lines with) -/

/-- `re.compile(NUMBER, re.VERBOSE).fullmatch(token)` -/
def isNumberRe (t : Str) : Bool := (FromStringRegex.number.fullMatch (toBytes t)).isSome
def isNumberHand (t : Str) : Bool := isNumber t

/-- `re.split(SEP, line)` -/
def splitSepRe (s : Str) : Option (List Str) := (split FromStringRegex.sep (toBytes s)).map fun l => l.map ofBytes
def splitSepHand (s : Str) : Option (List Str) := some (splitSep s)

/-! ## `filter_comments`:  `re.sub(<comment>, r"\1", string)` -/

def filterCommentsRe (s : Str) : Option Str := (subGroup FromStringRegex.comment 1 (toBytes s)).map ofBytes
def filterCommentsHand (s : Str) : Option Str := some (filterComments s)

/-! ## xyz count line (from_string.py `_filter_xyz`, line 0) -/

/-- `re.sub(xyz1strict, "", line)`: consumed iff the pattern matches; the value of `nat` (read by nobody) is the line -/
def xyz1strictRe (s : Str) : Option Str :=
  (FromStringRegex.xyz1strict.matchPrefix (toBytes s)).bind fun st => grp st FromStringRegex.xyz1strictG.nat
def xyz1strictHand (s : Str) : Option Str := if isNatLine s then some s else none

/-- `re.sub(xyz1, process_bohrang, line)`: `if group("uang") … elif group("ubohr") …` (Python truthiness) -/
def xyz1Re (s : Str) : Option (Option Bool) :=
  (FromStringRegex.xyz1.matchPrefix (toBytes s)).map fun st =>
    if truthy st FromStringRegex.xyz1G.uang then some false
    else if truthy st FromStringRegex.xyz1G.ubohr then some true
    else none
def xyz1Hand (s : Str) : Option (Option Bool) := matchXyz1 s

/-! ## CHGMULT lines: `xyz2` (prefix match on xyz+ line 1), `cgmp` (whole line, psi4) — groups `chg`, `mult` as texts -/

def xyz2Re (s : Str) : Option (Str × Str) :=
  (FromStringRegex.xyz2.matchPrefix (toBytes s)).bind fun st =>
    match grp st FromStringRegex.xyz2G.chg, grp st FromStringRegex.xyz2G.mult with
    | some c, some m => some (c, m)
    | _, _ => none
/-- M1: the charge token is the separator-free prefix (`matchXyz2` parses exactly that token) -/
def xyz2Hand (s : Str) : Option (Str × Str) := (matchXyz2 s).map fun cm => (s.takeWhile (fun c => !isSep c), cm.2)

def cgmpRe (s : Str) : Option (Str × Str) :=
  (FromStringRegex.cgmp.matchPrefix (toBytes s)).bind fun st =>
    match grp st FromStringRegex.cgmpG.chg, grp st FromStringRegex.cgmpG.mult with
    | some c, some m => some (c, m)
    | _, _ => none
/-- M1: `classify` says `.cgmp`; the charge token is the first separator field -/
def cgmpHand (s : Str) : Option (Str × Str) :=
  match classify s with
  | .cgmp _ m => some ((splitSep s).headD [], m)
  | _ => none

/-! ## atom lines -/

def atomGroups (st : St) (n x y z : Nat) : Option (Str × Str × Str × Str) :=
  match grp st n, grp st x, grp st y, grp st z with
  | some a, some b, some c, some d => some (a, b, c, d)
  | _, _, _, _ => none

def atomRe (s : Str) : Option (Str × Str × Str × Str) :=
  (FromStringRegex.atomCartesian.matchPrefix (toBytes s)).bind fun st =>
    atomGroups st FromStringRegex.atomCartesianG.nucleus FromStringRegex.atomCartesianG.x FromStringRegex.atomCartesianG.y
      FromStringRegex.atomCartesianG.z
/-- M1: `classify` says `.atom`; the texts are the four separator fields -/
def atomHand (s : Str) : Option (Str × Str × Str × Str) :=
  match classify s, splitSep s with
  | .atom n _ _ _, [_, x, y, z] => some (n, x, y, z)
  | _, _ => none

def atomStrictRe (s : Str) : Option (Str × Str × Str × Str) :=
  (FromStringRegex.atomCartesianStrict.matchPrefix (toBytes s)).bind fun st =>
    atomGroups st FromStringRegex.atomCartesianStrictG.nucleus FromStringRegex.atomCartesianStrictG.x
      FromStringRegex.atomCartesianStrictG.y FromStringRegex.atomCartesianStrictG.z
def atomStrictHand (s : Str) : Option (Str × Str × Str × Str) :=
  match atomHand s with
  | some (n, x, y, z) => if isSimpleNucleus n then some (n, x, y, z) else none
  | none => none

/-! ## keyword lines (`_filter_universals`) -/

def comRe (s : Str) : Bool := (FromStringRegex.com.matchPrefix (toBytes s)).isSome
def comHand (s : Str) : Bool := classify s == .com
def orientRe (s : Str) : Bool := (FromStringRegex.orient.matchPrefix (toBytes s)).isSome
def orientHand (s : Str) : Bool := classify s == .orient

/-- `process_bohrang`: `some true` = Bohr, `some false` = Angstrom, `some none`: matched, neither group truthy (cannot happen) -/
def unitsRe (s : Str) : Option (Option Bool) :=
  (FromStringRegex.bohrang.matchPrefix (toBytes s)).map fun st =>
    if truthy st FromStringRegex.bohrangG.uang then some false
    else if truthy st FromStringRegex.bohrangG.ubohr then some true
    else none
def unitsHand (s : Str) : Option (Option Bool) :=
  match classify s with
  | .units b => some (some b)
  | _ => none

/-- `process_symmetry`: `group("pg").lower()` -/
def symRe (s : Str) : Option Str :=
  (FromStringRegex.symmetry.matchPrefix (toBytes s)).bind fun st => (grp st FromStringRegex.symmetryG.pg).map lowerS
def symHand (s : Str) : Option Str :=
  match classify s with
  | .sym pg => some pg
  | _ => none

/-! ## efp, one-line form (`efpxyzabc`, on a stripped one-line fragment) -/

def efpRe (s : Str) : Option (Str × List Str) :=
  (FromStringRegex.efpxyzabc.matchPrefix (toBytes s)).bind fun st =>
    match grp st FromStringRegex.efpxyzabcG.efpfile,
      [FromStringRegex.efpxyzabcG.x, FromStringRegex.efpxyzabcG.y, FromStringRegex.efpxyzabcG.z, FromStringRegex.efpxyzabcG.a,
       FromStringRegex.efpxyzabcG.b, FromStringRegex.efpxyzabcG.c].mapM (grp st) with
    | some f, some h => some (f, h)
    | _, _ => none
def efpHand (s : Str) : Option (Str × List Str) :=
  match classify s with
  | .efp f _ => some (f, ((splitSep s).drop 2).take 6)
  | _ => none

/-! ## fragment markers: `re.split(fragment_marker, text)` seen through what the callers do next (strip, split lines, strip,
drop empty lines) against M1's line view (a stripped line that is `--`) -/

def linesOf (s : Str) : List Str := ((splitLines s).map strip).filter fun l => !l.isEmpty

def fragsRe (s : Str) : Option (List (List Str)) :=
  (split FromStringRegex.fragmentMarker (toBytes s)).map fun fs => fs.map fun f => linesOf (ofBytes f)

def splitOnMarker : List Str → List (List Str)
  | [] => [[]]
  | l :: ls =>
    match splitOnMarker ls with
    | [] => [[]]
    | h :: r => if classify l == .marker then [] :: h :: r else (l :: h) :: r

def fragsHand (s : Str) : Option (List (List Str)) := some (splitOnMarker (linesOf s))

end QcelVerif.MolText
