import Mathlib.Algebra.Order.Field.Basic
import Mathlib.Algebra.Order.Field.Rat
import Mathlib.Algebra.Order.Ring.Abs
import Mathlib.Algebra.Order.Floor.Ring
import Mathlib.Data.Rat.Floor

/-!
# C16 — model of `Molecule._orient_molecule_internal` / `orient_molecule` / the `orient=` flag

Source: `qcelemental/models/molecule.py`
  * 1074-1117  `_orient_molecule_internal` (centre on mass, inertia tensor, `eigh`, rotation, phase loop)
  * 1134-1152  `_inertial_tensor`
  * 381-382    `values["geometry"] = float_prep(self._orient_molecule_internal(), geometry_noise)`
  * 564-568    `orient_molecule` = `Molecule(orient=True, **self.dict())`
  * 60-68      `float_prep` (array branch): `np.around(a, k)` then `a[|a| < 5**-(k+1)] = 0`

Everything is written over a generic scalar type `K` (commutative ring for the linear algebra, field for
the centring, linearly ordered field for the phase loop, floor ring for the rounding) and is executed
by the driver at `K = ℚ` on the exact rational values of the doubles the implementation received.

The eigen-solver (`numpy.linalg.eigh`) is **not** modelled: its output `V` (matrix of column
eigenvectors) and `l` (eigenvalues) are parameters.  `certResiduals` / `isEigFrame` is the per-call
certificate the driver evaluates exactly: `VᵀV ≈ 1`, `VVᵀ ≈ 1`, `VᵀTV ≈ diag l`, `l` ascending.
-/

namespace QcelVerif.Orient

/-- a point / row of the `(N,3)` geometry array -/
structure V3 (K : Type) where
  x : K
  y : K
  z : K
deriving Repr, DecidableEq

/-- a 3×3 matrix, entry `rc` = row `r`, column `c` -/
structure M3 (K : Type) where
  xx : K
  xy : K
  xz : K
  yx : K
  yy : K
  yz : K
  zx : K
  zy : K
  zz : K
deriving Repr, DecidableEq

/-! ## linear algebra over a commutative ring -/
section Ring
variable {K : Type} [CommRing K]

namespace V3
def zero : V3 K := ⟨0, 0, 0⟩
def add (p q : V3 K) : V3 K := ⟨p.x + q.x, p.y + q.y, p.z + q.z⟩
def sub (p q : V3 K) : V3 K := ⟨p.x - q.x, p.y - q.y, p.z - q.z⟩
def smul (a : K) (p : V3 K) : V3 K := ⟨a * p.x, a * p.y, a * p.z⟩
def normSq (p : V3 K) : K := p.x * p.x + p.y * p.y + p.z * p.z
/-- squared distance -/
def distSq (p q : V3 K) : K := normSq (sub p q)
/-- row vector times matrix: `np.dot(row, V)`  (molecule.py:1092) -/
def mulMat (p : V3 K) (V : M3 K) : V3 K :=
  ⟨p.x * V.xx + p.y * V.yx + p.z * V.zx,
   p.x * V.xy + p.y * V.yy + p.z * V.zy,
   p.x * V.xz + p.y * V.yz + p.z * V.zz⟩
/-- multiply the three columns by `sx, sy, sz` (`new_geometry[:, x] *= -1` accumulates into these) -/
def flip (sx sy sz : K) (p : V3 K) : V3 K := ⟨sx * p.x, sy * p.y, sz * p.z⟩
end V3

namespace M3
def zero : M3 K := ⟨0, 0, 0, 0, 0, 0, 0, 0, 0⟩
def one : M3 K := ⟨1, 0, 0, 0, 1, 0, 0, 0, 1⟩
def diag (a b c : K) : M3 K := ⟨a, 0, 0, 0, b, 0, 0, 0, c⟩
def add (A B : M3 K) : M3 K :=
  ⟨A.xx + B.xx, A.xy + B.xy, A.xz + B.xz, A.yx + B.yx, A.yy + B.yy, A.yz + B.yz, A.zx + B.zx, A.zy + B.zy, A.zz + B.zz⟩
def sub (A B : M3 K) : M3 K :=
  ⟨A.xx - B.xx, A.xy - B.xy, A.xz - B.xz, A.yx - B.yx, A.yy - B.yy, A.yz - B.yz, A.zx - B.zx, A.zy - B.zy, A.zz - B.zz⟩
def smul (a : K) (A : M3 K) : M3 K :=
  ⟨a * A.xx, a * A.xy, a * A.xz, a * A.yx, a * A.yy, a * A.yz, a * A.zx, a * A.zy, a * A.zz⟩
def tr (A : M3 K) : M3 K := ⟨A.xx, A.yx, A.zx, A.xy, A.yy, A.zy, A.xz, A.yz, A.zz⟩
def mul (A B : M3 K) : M3 K :=
  ⟨A.xx * B.xx + A.xy * B.yx + A.xz * B.zx, A.xx * B.xy + A.xy * B.yy + A.xz * B.zy, A.xx * B.xz + A.xy * B.yz + A.xz * B.zz,
   A.yx * B.xx + A.yy * B.yx + A.yz * B.zx, A.yx * B.xy + A.yy * B.yy + A.yz * B.zy, A.yx * B.xz + A.yy * B.yz + A.yz * B.zz,
   A.zx * B.xx + A.zy * B.yx + A.zz * B.zx, A.zx * B.xy + A.zy * B.yy + A.zz * B.zy, A.zx * B.xz + A.zy * B.yz + A.zz * B.zz⟩
/-- `pᵀ q` -/
def outer (p q : V3 K) : M3 K :=
  ⟨p.x * q.x, p.x * q.y, p.x * q.z, p.y * q.x, p.y * q.y, p.y * q.z, p.z * q.x, p.z * q.y, p.z * q.z⟩
end M3

/-- `V` is orthogonal (both products, so that no determinant argument is needed) -/
def Orth (V : M3 K) : Prop := M3.mul (M3.tr V) V = M3.one ∧ M3.mul V (M3.tr V) = M3.one

/-- `Σ mᵢ` — `np.average` normalises by the sum of the weights -/
def massSum : List K → K
  | [] => 0
  | m :: ms => m + massSum ms

/-- `Σ mᵢ pᵢ` (numerator of `np.average(geom, axis=0, weights=m)`) -/
def wsum : List K → List (V3 K) → V3 K
  | m :: ms, p :: ps => V3.add (V3.smul m p) (wsum ms ps)
  | _, _ => V3.zero

/-- `np.sum(weight * f(geom))` for a per-row quantity `f` -/
def wsumF (f : V3 K → K) : List K → List (V3 K) → K
  | m :: ms, p :: ps => m * f p + wsumF f ms ps
  | _, _ => 0

/-- `_inertial_tensor(geom, weight=…)`, molecule.py:1134-1152, entry by entry -/
def inertia (ms : List K) (g : List (V3 K)) : M3 K :=
  let dxx := wsumF (fun p => p.y * p.y + p.z * p.z) ms g      -- :1143  y**2 + z**2
  let dyy := wsumF (fun p => p.x * p.x + p.z * p.z) ms g      -- :1144
  let dzz := wsumF (fun p => p.x * p.x + p.y * p.y) ms g      -- :1145
  let oxy := -1 * wsumF (fun p => p.x * p.y) ms g             -- :1149  -1.0 * sum(w x y)
  let oxz := -1 * wsumF (fun p => p.x * p.z) ms g             -- :1150
  let oyz := -1 * wsumF (fun p => p.y * p.z) ms g             -- :1151
  ⟨dxx, oxy, oxz, oxy, dyy, oyz, oxz, oyz, dzz⟩

/-- `np.dot(new_geometry, evecs)` -/
def rotate (g : List (V3 K)) (V : M3 K) : List (V3 K) := g.map (fun p => V3.mulMat p V)

end Ring

/-! ## centring (needs division) -/
section Field
variable {K : Type} [Field K]

/-- `np.average(geom, axis=0, weights=m)` when the weights do not sum to zero -/
def com (ms : List K) (xs : List (V3 K)) : V3 K := V3.smul (1 / massSum ms) (wsum ms xs)

/-- `new_geometry -= np.average(...)`, molecule.py:1086 -/
def center (ms : List K) (xs : List (V3 K)) : List (V3 K) := xs.map (fun p => V3.sub p (com ms xs))

end Field

/-! ## the phase loop (needs an order) -/
section Ordered
variable {K : Type} [Field K] [LinearOrder K] [IsStrictOrderedRing K]

/-- One visit of the inner loop body (molecule.py:1101-1113) for one column `x`.
State = `(phase_check[x], s)` where `s ∈ {1,-1}` is the sign the column has been multiplied by so far;
the in-place array entry read by the code is therefore `s * v` with `v` the entry before the loop. -/
def colStep (noise : K) (st : Bool × K) (v : K) : Bool × K :=
  if st.1 then st                                   -- if phase_check[x]: continue
  else
    let val := st.2 * v                             -- val = new_geometry[num, x]
    if |val| < noise then st                        -- if abs(val) < geom_noise: continue
    else (true, if val < 0 then -st.2 else st.2)    -- phase_check[x] = True; if val < 0: new_geometry[:, x] *= -1

/-- the outer loop over atoms (molecule.py:1100-1116).  The `break` when all three flags are set only
skips iterations in which every column would `continue`, so it is omitted. -/
def phaseLoop (noise : K) (g : List (V3 K)) : (Bool × K) × (Bool × K) × (Bool × K) :=
  g.foldl (fun st r => (colStep noise st.1 r.x, colStep noise st.2.1 r.y, colStep noise st.2.2 r.z))
    ((false, 1), (false, 1), (false, 1))

/-- geometry after the phase loop -/
def phase (noise : K) (g : List (V3 K)) : List (V3 K) :=
  let st := phaseLoop noise g
  g.map (V3.flip st.1.2 st.2.1.2 st.2.2.2)

inductive Err where
  | zeroDivision   -- np.average: "Weights sum to zero, can't be normalized"
  | shape          -- weights and geometry of different length
deriving Repr, DecidableEq

/-- `_orient_molecule_internal` with the eigenvector matrix `V` as a parameter. -/
def orientCore (noise : K) (ms : List K) (xs : List (V3 K)) (V : M3 K) : Except Err (List (V3 K)) :=
  if ms.length ≠ xs.length then .error .shape
  else if massSum ms = 0 then .error .zeroDivision
  else .ok (phase noise (rotate (center ms xs) V))

/-- the tensor handed to `eigh` (molecule.py:1089) -/
def orientTensor (ms : List K) (xs : List (V3 K)) : M3 K := inertia ms (center ms xs)

/-- A molecule as far as orientation is concerned: masses, geometry and *everything else* (`rest`:
symbols, real, charges, multiplicities, fragments, connectivity, identifiers, extras, …). -/
structure Mol (K : Type) (α : Type) where
  masses : List K
  geometry : List (V3 K)
  rest : α

/-- `Molecule(orient=True, **mol.dict())` before the final rounding: only `geometry` is assigned
(molecule.py:381-382). -/
def orientMol {α : Type} (noise : K) (m : Mol K α) (V : M3 K) : Except Err (Mol K α) :=
  match orientCore noise m.masses m.geometry V with
  | .ok g => .ok { m with geometry := g }
  | .error e => .error e

/-! ### per-call certificate for the eigen-solver output -/

def M3.maxAbs (A : M3 K) : K :=
  max |A.xx| (max |A.xy| (max |A.xz| (max |A.yx| (max |A.yy| (max |A.yz| (max |A.zx| (max |A.zy| |A.zz|)))))))

/-- residuals `(‖VᵀV-1‖, ‖VVᵀ-1‖, ‖VᵀTV-diag l‖)` in the max-entry norm -/
def certResiduals (T V : M3 K) (l : V3 K) : K × K × K :=
  (M3.maxAbs (M3.sub (M3.mul (M3.tr V) V) M3.one),
   M3.maxAbs (M3.sub (M3.mul V (M3.tr V)) M3.one),
   M3.maxAbs (M3.sub (M3.mul (M3.mul (M3.tr V) T) V) (M3.diag l.x l.y l.z)))

/-- `V, l` is an eigen-frame of `T` up to `eo` (orthogonality) and `ed` (diagonalisation), eigenvalues ascending -/
def isEigFrame (T V : M3 K) (l : V3 K) (eo ed : K) : Bool :=
  let r := certResiduals T V l
  decide (r.1 ≤ eo) && decide (r.2.1 ≤ eo) && decide (r.2.2 ≤ ed) && decide (l.x ≤ l.y) && decide (l.y ≤ l.z)

end Ordered

/-! ## `float_prep` (array branch) -/
section Floor
variable {K : Type} [Field K] [LinearOrder K] [IsStrictOrderedRing K] [FloorRing K]

/-- round to nearest integer, ties to even (`np.rint`) -/
def roundHalfEven (t : K) : Int :=
  let f := Int.floor t
  let r := t - (f : K)
  if r < 1 / 2 then f
  else if 1 / 2 < r then f + 1
  else if f % 2 = 0 then f else f + 1

/-- `float_prep(v, d)` for one entry, as an integer number of units of `10^-d`:
`np.around(v, d)` = `rint(v * 10^d) / 10^d`, then entries with `|r| < 5^-(d+1)` become `0`
(molecule.py:66-68).  `|k| / 10^d < 5^-(d+1)  ↔  |k| * 5^(d+1) < 10^d`. -/
def floatPrepK (d : Nat) (v : K) : Int :=
  let k := roundHalfEven (v * (10 : K) ^ d)
  if k.natAbs * 5 ^ (d + 1) < 10 ^ d then 0 else k

def floatPrepGeom (d : Nat) (g : List (V3 K)) : List (Int × Int × Int) :=
  g.map (fun p => (floatPrepK d p.x, floatPrepK d p.y, floatPrepK d p.z))

end Floor

end QcelVerif.Orient
