/-!
# A small numeric-expression AST for the measurement formulas of QCElemental (property C18)

`harness/c18_src.py` reads `qcelemental/util/misc.py` (`compute_distance`, `compute_angle`,
`compute_dihedral`, the helper `_norm`) and `qcelemental/molutil/connectivity.py`
(`guess_connectivity`'s pair loop) with Python's `ast` on every run and emits their bodies as terms of
the types below into `Gen/MeasureSrc.lean`.  This file is **Mathlib-free** (the driver imports it).

Semantics are *per row*: every numpy array of the source is either an `(n, 3)` array — one `Vec` per
row, type `VE` — or an `(n,)` array / Python scalar — one scalar per row, type `SE`.  The leading axis
(`np.atleast_2d`, broadcasting of 1 row against n) is handled outside the AST exactly as in
`Model/Measure.lean` (`bcast`, `zipWith…`).

The scalar operations are NOT fixed: an evaluator takes an `Ops K` record.  Three records are used:
* `Props/C18Src.lean`: `fieldOps` over any ordered field with `sqrt / arccos / arctan2 / π / degrees`
  as parameters, instantiated at ℝ with Mathlib's `Real.sqrt`, `Real.arccos`, `Complex.arg`;
* `exactOps` below: carrier `Option K`; `+ − × ÷`, literals — and `none` for every transcendental:
  evaluates exactly the sub-expressions that are handed to `sqrt / arccos / arctan2`;
* `quadOps N` below: carrier `Option (K × K)`, the pair `(a, b)` standing for `a + b·√N`
  (`√N` a formal symbol with `√N·√N = N`); `sqrt` of the element `N` is `(0, 1)`, `sqrt` of anything
  else and every other transcendental is `none`.  This evaluates the dihedral's `(x, y)` exactly.
-/
namespace QcelVerif.MeasureAst

/-- one row of an `(n, 3)` array -/
structure Vec (K : Type) where
  x : K
  y : K
  z : K
deriving Repr, DecidableEq

/-- the scalar operations an evaluator needs -/
structure Ops (K : Type) where
  add : K → K → K
  sub : K → K → K
  mul : K → K → K
  div : K → K → K
  neg : K → K
  ofInt : Int → K
  /-- `np.sqrt` -/
  sqrt : K → K
  /-- `np.arccos` -/
  arccos : K → K
  /-- `np.arctan2(y, x)` — first argument first -/
  arctan2 : K → K → K
  /-- `np.clip(x, lo, hi)` -/
  clip : K → K → K → K
  /-- `np.pi` -/
  pi : K
  /-- `np.degrees` -/
  degrees : K → K

mutual
/-- per-row scalar expressions -/
inductive SE where
  | lit (i : Int)                    -- Python int / integral float literal
  | svar (i : Nat)                   -- scalar input (connectivity: r_x, r_j, threshold)
  | pi                               -- `np.pi`
  | neg (a : SE)
  | add (a b : SE)
  | sub (a b : SE)
  | mul (a b : SE)
  | div (a b : SE)
  | dot (a b : VE)                   -- `np.einsum("ij,ij->i", a, b)`
  | sqrt (a : SE)                    -- `np.sqrt`
  | arccos (a : SE)                  -- `np.arccos`
  | clip (a lo hi : SE)              -- `np.clip(a, lo, hi)`
  | arctan2 (y x : SE)               -- `np.arctan2(y, x)`
  | degrees (a : SE)                 -- `np.degrees`
  | ifDegrees (t e : SE)             -- `if degrees: return t  else: return e`
/-- per-row vector expressions -/
inductive VE where
  | pt (i : Nat)                     -- i-th point argument (after `np.atleast_2d`)
  | add (a b : VE)
  | sub (a b : VE)
  | scale (s : SE) (v : VE)          -- `s * v` (Python scalar) / `s[:, None] * v` (per-row scalar)
  | divS (v : VE) (s : SE)           -- `v / s[:, None]`
  | cross (a b : VE)                 -- `np.cross(a, b)`
end

/-- inputs of one row -/
structure Env (K : Type) where
  pt : Nat → Vec K
  sv : Nat → K
  degrees : Bool

section eval
variable {K : Type}

mutual
def evalS (o : Ops K) (ρ : Env K) : SE → K
  | .lit i => o.ofInt i
  | .svar i => ρ.sv i
  | .pi => o.pi
  | .neg a => o.neg (evalS o ρ a)
  | .add a b => o.add (evalS o ρ a) (evalS o ρ b)
  | .sub a b => o.sub (evalS o ρ a) (evalS o ρ b)
  | .mul a b => o.mul (evalS o ρ a) (evalS o ρ b)
  | .div a b => o.div (evalS o ρ a) (evalS o ρ b)
  | .dot a b =>
      let u := evalV o ρ a
      let v := evalV o ρ b
      o.add (o.add (o.mul u.x v.x) (o.mul u.y v.y)) (o.mul u.z v.z)
  | .sqrt a => o.sqrt (evalS o ρ a)
  | .arccos a => o.arccos (evalS o ρ a)
  | .clip a lo hi => o.clip (evalS o ρ a) (evalS o ρ lo) (evalS o ρ hi)
  | .arctan2 y x => o.arctan2 (evalS o ρ y) (evalS o ρ x)
  | .degrees a => o.degrees (evalS o ρ a)
  | .ifDegrees t e => if ρ.degrees then evalS o ρ t else evalS o ρ e
def evalV (o : Ops K) (ρ : Env K) : VE → Vec K
  | .pt i => ρ.pt i
  | .add a b =>
      let u := evalV o ρ a
      let v := evalV o ρ b
      ⟨o.add u.x v.x, o.add u.y v.y, o.add u.z v.z⟩
  | .sub a b =>
      let u := evalV o ρ a
      let v := evalV o ρ b
      ⟨o.sub u.x v.x, o.sub u.y v.y, o.sub u.z v.z⟩
  | .scale s v =>
      let c := evalS o ρ s
      let u := evalV o ρ v
      ⟨o.mul c u.x, o.mul c u.y, o.mul c u.z⟩
  | .divS v s =>
      let c := evalS o ρ s
      let u := evalV o ρ v
      ⟨o.div u.x c, o.div u.y c, o.div u.z c⟩
  | .cross a b =>
      let u := evalV o ρ a
      let v := evalV o ρ b
      ⟨o.sub (o.mul u.y v.z) (o.mul u.z v.y), o.sub (o.mul u.z v.x) (o.mul u.x v.z),
       o.sub (o.mul u.x v.y) (o.mul u.y v.x)⟩
end

end eval

/-! ## the arguments handed to `np.sqrt`, in evaluation order -/

mutual
def radicandsS : SE → List SE
  | .lit _ => []
  | .svar _ => []
  | .pi => []
  | .neg a => radicandsS a
  | .add a b => radicandsS a ++ radicandsS b
  | .sub a b => radicandsS a ++ radicandsS b
  | .mul a b => radicandsS a ++ radicandsS b
  | .div a b => radicandsS a ++ radicandsS b
  | .dot a b => radicandsV a ++ radicandsV b
  | .sqrt a => radicandsS a ++ [a]
  | .arccos a => radicandsS a
  | .clip a lo hi => radicandsS a ++ radicandsS lo ++ radicandsS hi
  | .arctan2 y x => radicandsS y ++ radicandsS x
  | .degrees a => radicandsS a
  | .ifDegrees t e => radicandsS t ++ radicandsS e
def radicandsV : VE → List SE
  | .pt _ => []
  | .add a b => radicandsV a ++ radicandsV b
  | .sub a b => radicandsV a ++ radicandsV b
  | .scale s v => radicandsS s ++ radicandsV v
  | .divS v s => radicandsV v ++ radicandsS s
  | .cross a b => radicandsV a ++ radicandsV b
end

/-! ## exact evaluation: everything up to the transcendental functions -/

section exact
variable {K : Type} [Add K] [Sub K] [Mul K] [Div K] [Neg K] [IntCast K]

/-- carrier `Option K`: field operations exact, every transcendental function `none` -/
def exactOps : Ops (Option K) where
  add a b := do let a ← a; let b ← b; pure (a + b)
  sub a b := do let a ← a; let b ← b; pure (a - b)
  mul a b := do let a ← a; let b ← b; pure (a * b)
  div a b := do let a ← a; let b ← b; pure (a / b)
  neg a := do let a ← a; pure (-a)
  ofInt i := some ((i : Int) : K)
  sqrt _ := none
  arccos _ := none
  arctan2 _ _ := none
  clip _ _ _ := none
  pi := none
  degrees _ := none

/-- carrier `Option (K × K)`: `(a, b)` stands for `a + b·s` with `s·s = N` (`s = √N` formal).
Division is by the conjugate: `1/(c + d s) = (c − d s)/(c² − d² N)`. -/
def quadOps [DecidableEq K] (N : K) : Ops (Option (K × K)) where
  add a b := do let a ← a; let b ← b; pure (a.1 + b.1, a.2 + b.2)
  sub a b := do let a ← a; let b ← b; pure (a.1 - b.1, a.2 - b.2)
  mul a b := do let a ← a; let b ← b; pure (a.1 * b.1 + a.2 * b.2 * N, a.1 * b.2 + a.2 * b.1)
  div a b := do
    let a ← a
    let b ← b
    let nrm := b.1 * b.1 - b.2 * b.2 * N
    pure ((a.1 * b.1 - a.2 * b.2 * N) / nrm, (a.2 * b.1 - a.1 * b.2) / nrm)
  neg a := do let a ← a; pure (-a.1, -a.2)
  ofInt i := some (((i : Int) : K), ((0 : Int) : K))
  sqrt a := do
    let a ← a
    if a.1 = N ∧ a.2 = ((0 : Int) : K) then pure (((0 : Int) : K), ((1 : Int) : K)) else none
  arccos _ := none
  arctan2 _ _ := none
  clip _ _ _ := none
  pi := none
  degrees _ := none

def Env.some (ρ : Env K) : Env (Option K) where
  pt i := ⟨Option.some (ρ.pt i).x, Option.some (ρ.pt i).y, Option.some (ρ.pt i).z⟩
  sv i := Option.some (ρ.sv i)
  degrees := ρ.degrees

def Env.quad (ρ : Env K) : Env (Option (K × K)) where
  pt i := ⟨Option.some ((ρ.pt i).x, ((0 : Int) : K)), Option.some ((ρ.pt i).y, ((0 : Int) : K)),
           Option.some ((ρ.pt i).z, ((0 : Int) : K))⟩
  sv i := Option.some (ρ.sv i, ((0 : Int) : K))
  degrees := ρ.degrees

/-- exact part of a distance-shaped result `sqrt r`: the value of `r` -/
def exactDist (ρ : Env K) : SE → Option K
  | .sqrt r => evalS exactOps ρ.some r
  | _ => none

/-- exact part of an angle-shaped result `π − arccos(clip(num / (sqrt r₁ * sqrt r₂), −1, 1))`
(also under `ifDegrees (degrees ·) ·`): `(num, r₁·r₂)` — the arccos argument is `num / √(r₁ r₂)`. -/
def exactAngle (ρ : Env K) : SE → Option (K × K)
  | .sub .pi (.arccos (.clip (.div num (.mul (.sqrt r1) (.sqrt r2))) (.lit (-1)) (.lit 1))) => do
      let n ← evalS exactOps ρ.some num
      let a ← evalS exactOps ρ.some r1
      let b ← evalS exactOps ρ.some r2
      pure (n, a * b)
  | _ => none

/-- exact part of a dihedral-shaped result `arctan2(y, x)` whose only radicand is `N`:
evaluate `x`, `y` in `K(√N)`; the code's `x` must be rational (`x = x₀`), `y` a pure multiple of
`√N` (`y = y₁ √N`); returns `(N x₀, N y₁, N)`, i.e. `x = XN / N`, `y = Y / √N`. -/
def exactDihedral [DecidableEq K] (ρ : Env K) : SE → Option (K × K × K)
  | .arctan2 y x =>
      match radicandsS (.arctan2 y x) with
      | r :: _ => do
          let N ← evalS exactOps ρ.some r
          let xv ← evalS (quadOps N) ρ.quad x
          let yv ← evalS (quadOps N) ρ.quad y
          if xv.2 = ((0 : Int) : K) ∧ yv.1 = ((0 : Int) : K) then pure (N * xv.1, N * yv.2, N) else none
      | [] => none
  | _ => none

/-- the radian branch of `if degrees: return np.degrees(a) else: return a` -/
def radianBranch : SE → SE
  | .ifDegrees _ e => e
  | e => e

end exact

/-! ## `guess_connectivity`'s pair loop (connectivity.py:44-57) -/

inductive Cmp where
  | lt | le | gt | ge
deriving Repr, DecidableEq

/-- what the translator reads off the loop:
```
for x in range(geometry.shape[0]):
    diffs = geometry[x] - geometry[x + geomOff :]
    dists = einsum(diffs, diffs);  np.sqrt(dists, out=dists)        -- `dist`, over pt 0 = geometry[x], pt 1 = slice row
    cutoff = (radii[x] + radii[x + radOff :]) * threshold            -- `cutoff`, over svar 0 = radii[x], svar 1 = slice radius, svar 2 = threshold
    where = np.where(dists <cmp> cutoff)[0];  where += x + whereOff
    for atom2 in where: con.append((x, atom2))                       -- `pairFirstIsX`
``` -/
structure ConnSpec where
  geomOff : Nat
  radOff : Nat
  whereOff : Nat
  cmp : Cmp
  dist : SE
  cutoff : SE
  pairFirstIsX : Bool

/-- an atom: radius and position -/
structure AtomS (K : Type) where
  r : K
  p : Vec K

section conn
variable {K : Type}

def connEnv (thr : K) (a b : AtomS K) (rb : K) : Env K where
  pt i := if i = 0 then a.p else b.p
  sv i := if i = 0 then a.r else if i = 1 then rb else thr
  degrees := false

/-- inner `np.where(dists cmp cutoff)[0] + x + whereOff`, one `(x, atom2)` pair per hit.
`test d c` decides `d cmp c` for the evaluated `dist`, `cutoff`. -/
def srcConnRow (spec : ConnSpec) (test : Env K → Bool) (thr : K) (x : Nat) (a : AtomS K) :
    Nat → List (AtomS K) → List K → List (Nat × Nat)
  | _, [], _ => []
  | _, _, [] => []
  | k, b :: rest, rb :: rrest =>
      (if test (connEnv thr a b rb) then
         [if spec.pairFirstIsX then (x, k + x + spec.whereOff) else (k + x + spec.whereOff, x)]
       else []) ++ srcConnRow spec test thr x a (k + 1) rest rrest

/-- outer `for x in range(n)`: `l` is the suffix of the atom list starting at `x` -/
def srcConnFrom (spec : ConnSpec) (test : Env K → Bool) (thr : K) :
    Nat → List (AtomS K) → List (Nat × Nat)
  | _, [] => []
  | x, a :: rest =>
      srcConnRow spec test thr x a 0 ((a :: rest).drop spec.geomOff)
          (((a :: rest).drop spec.radOff).map AtomS.r)
        ++ srcConnFrom spec test thr (x + 1) rest

def srcConn (spec : ConnSpec) (test : Env K → Bool) (thr : K) (atoms : List (AtomS K)) :
    List (Nat × Nat) :=
  srcConnFrom spec test thr 0 atoms

end conn

section connExact
variable {K : Type} [Add K] [Sub K] [Mul K] [Div K] [Neg K] [IntCast K] [LT K] [LE K]
  [DecidableLT K] [DecidableLE K]

/-- `√d2 cmp c` decided without the root (for the non-negative root `√d2`, `d2 ≥ 0`):
`√d2 < c ↔ 0 < c ∧ d2 < c²`, `√d2 ≤ c ↔ 0 ≤ c ∧ d2 ≤ c²`, and their negations. -/
def cmpSqrt (zero : K) : Cmp → K → K → Bool
  | .lt, d2, c => decide (zero < c ∧ d2 < c * c)
  | .le, d2, c => decide (zero ≤ c ∧ d2 ≤ c * c)
  | .gt, d2, c => !decide (zero ≤ c ∧ d2 ≤ c * c)
  | .ge, d2, c => !decide (zero < c ∧ d2 < c * c)

/-- exact test for a `ConnSpec` whose `dist` is `sqrt r`: evaluate `r` and `cutoff` exactly -/
def exactTest (spec : ConnSpec) (ρ : Env K) : Option Bool :=
  match spec.dist with
  | .sqrt r => do
      let d2 ← evalS exactOps ρ.some r
      let c ← evalS exactOps ρ.some spec.cutoff
      pure (cmpSqrt (((0 : Int) : K)) spec.cmp d2 c)
  | _ => none

end connExact

end QcelVerif.MeasureAst
