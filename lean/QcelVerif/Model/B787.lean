/-!
# C12 — model of the `B787` driver loop and of the `permutative` candidate generator (core Lean only)

* `loop` / `run` : align.py:143-241 — the trial loop: best-so-far bookkeeping on the RMSDs rounded to
  8 decimals (`np.around(temp_rmsd, decimals=8)`), the optional mirror trial per ordering, the early
  exit under `mols_align`.  RMSDs are integers in units of 1e-8 Å (exactly what the rounding yields);
  `aconv` is the smallest number of units `k` with `float(k·1e-8) ≥ a_convergence`, so that the
  implementation's float test `best_rmsd < a_convergence` is `best < aconv`.
  The per-trial RMSD itself (Kabsch + `eigh`) is an *input* here; `Model/Kabsch.lean` covers it.
* `candidates` : align.py:296-345,402-405,423-431 with `algorithm='permutative'`.
-/
namespace QcelVerif.B787

/-- rounded RMSD of the plain and of the mirrored trial of one candidate ordering (units of 1e-8 Å) -/
structure Trial where
  plain : Int
  mir : Int
deriving Repr

structure Cfg where
  /-- `run_mirror` (align.py:47) -/
  runMirror : Bool
  /-- result of the pre-test align.py:118-137 (irrelevant when `runMirror = false`) -/
  superimposable : Bool
  runToCompletion : Bool
  aconv : Int
deriving Repr

structure State where
  best : Int
  /-- index of the held candidate ordering and its mirror flag (`hold_solution`) -/
  sel : Option (Nat × Bool)
  /-- `ocount` -/
  ocount : Nat
deriving Repr, DecidableEq

/-- `best_rmsd = 100.0` [Å] (align.py:144) in units of 1e-8 Å -/
def best0 : Int := 10000000000

def init : State := { best := best0, sel := none, ocount := 0 }

def mirrorOn (cfg : Cfg) : Bool := cfg.runMirror && !cfg.superimposable

/-- one `if temp_rmsd < best_rmsd: … break` block (align.py:205-214 / 232-241); `true` = break -/
def update (cfg : Cfg) (st : State) (i : Nat) (m : Bool) (v : Int) : State × Bool :=
  let st := { st with ocount := st.ocount + 1 }
  if v < st.best then
    ({ st with best := v, sel := some (i, m) }, !cfg.runToCompletion && decide (v < cfg.aconv))
  else (st, false)

def loop (cfg : Cfg) : Nat → List Trial → State → State
  | _, [], st => st
  | i, t :: ts, st =>
    match update cfg st i false t.plain with
    | (st1, true) => st1
    | (st1, false) =>
      if mirrorOn cfg then
        match update cfg st1 i true t.mir with
        | (st2, true) => st2
        | (st2, false) => loop cfg (i + 1) ts st2
      else loop cfg (i + 1) ts st1

inductive Err where
  /-- `hold_solution` is still `None` at align.py:249 → AttributeError -/
  | noSolution
  /-- `sorted(runiq) != sorted(cuniq)` → ValidationError (align.py:115,313) -/
  | validation
deriving Repr, DecidableEq

def run (cfg : Cfg) (trials : List Trial) : Except Err State :=
  let st := loop cfg 0 trials init
  match st.sel with
  | none => .error .noSolution
  | some _ => .ok st

/-! ## permutative candidate orderings -/

/-- every element with the remaining ones (in order) -/
def picks {α : Type} : List α → List (α × List α)
  | [] => []
  | a :: t => (a, t) :: (picks t).map (fun p => (p.1, a :: p.2))

/-- `itertools.permutations(l)` in its emission order (lexicographic in positions) -/
def permsFuel {α : Type} : Nat → List α → List (List α)
  | _, [] => [[]]
  | 0, _ :: _ => []
  | f + 1, a :: t => (picks (a :: t)).flatMap (fun p => (permsFuel f p.2).map (fun r => p.1 :: r))

def perms {α : Type} (l : List α) : List (List α) := permsFuel l.length l

/-- `itertools.product(*gs)` (leftmost slowest) -/
def product {α : Type} : List (List α) → List (List α)
  | [] => [[]]
  | g :: gs => g.flatMap (fun x => (product gs).map (fun r => x :: r))

/-- distinct values in order of first appearance (keys of the `where` dict, align.py:318-320) -/
def firstSeen : List Nat → List Nat
  | [] => []
  | a :: t => a :: (firstSeen t).filter (fun b => b != a)

/-- `where[k]` : positions holding class `k` -/
def positions (k : Nat) (cls : List Nat) : List Nat :=
  (List.range cls.length).filter (fun i => cls[i]? == some k)

/-- consecutive-pair distances `[D[a,b] for a,b in zip(g, g[1:])]` (align.py:338,340); a missing matrix
    entry is an IndexError, modelled as `none` -/
def chainDists (D : List (List Rat)) : List Nat → Option (List Rat)
  | a :: b :: t => do
    let row ← D[a]?
    let d ← row[b]?
    let rest ← chainDists D (b :: t)
    pure (d :: rest)
  | _ => some []

/-- `np.allclose(x, y, atol=atol)` on two equally long lists: `|x−y| ≤ atol + rtol·|y|`, exactly -/
def allcloseL (rtol atol : Rat) : List Rat → List Rat → Bool
  | x :: xs, y :: ys => decide ((x - y).abs ≤ atol + rtol * y.abs) && allcloseL rtol atol xs ys
  | [], [] => true
  | _, _ => false

/-- `filter_permutative(rgp, cgp)` (align.py:330-344) -/
def filterPermutative (rtol atol : Rat) (RR CC : List (List Rat)) (rgp cgp : List Nat) : List (List Nat) :=
  match chainDists RR rgp with
  | none => []
  | some bnbn =>
    (perms cgp).filter (fun pm =>
      match chainDists CC pm with
      | none => false
      | some cncn => allcloseL rtol atol bnbn cncn)

/-- `atpat[idx] = group[iidx]` for `idx = where_k[iidx]` (align.py:427-431) -/
def assemble (n : Nat) (groups : List (List Nat × List Nat)) : Option (List Nat) :=
  let tbl : List (Nat × Nat) := groups.flatMap (fun g => g.1.zip g.2)
  (List.range n).mapM (fun i => tbl.lookup i)

/-- `_plausible_atom_orderings(ref, current, rgeom, cgeom, algorithm='permutative')` given the two
    distance matrices (`distance_matrix` is taken as an input: its square roots are not rational). -/
def candidates (rtol atol : Rat) (ref cur : List Nat) (RR CC : List (List Rat)) :
    Except Err (List (List Nat)) :=
  if !(ref.isPerm cur) then .error .validation
  else
    let keys := firstSeen ref
    let wheres := keys.map (fun k => positions k ref)
    let gens := keys.map (fun k => filterPermutative rtol atol RR CC (positions k ref) (positions k cur))
    .ok ((product gens).filterMap (fun cpmut => assemble ref.length (wheres.zip cpmut)))

end QcelVerif.B787
