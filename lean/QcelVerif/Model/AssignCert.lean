/-
C14 — the optimality certificate for the linear-sum-assignment problem (core Lean only).

`linear_sum_assignment(cost, return_cost=True)` (qcelemental/util/scipy_hungarian.py:19-132)
returns `(row_ind, col_ind), reduced`.  This file defines, over exact rationals (every finite
double *is* a rational), what it means for such a return value to be a *certificate of
optimality* and gives an executable checker.  Soundness of the checker — a certified answer is
a minimum over ALL complete assignments, for every n × m — is proved in `Props/C14.lean`.

A matrix is accessed through a function `Nat → Nat → Rat` together with its shape `(n, m)`, so
the theorems do not depend on how the driver stores it.
-/
namespace QcelVerif.Assign

/-- chosen (row, column) pairs, in the order the solver returns them -/
abbrev Pairs := List (Nat × Nat)

/-- `cost_matrix[row_ind, col_ind].sum()` -/
def total (c : Nat → Nat → Rat) (l : Pairs) : Rat := (l.map fun p => c p.1 p.2).sum

def swap (p : Nat × Nat) : Nat × Nat := (p.2, p.1)

/-- transposed access -/
def tr (c : Nat → Nat → Rat) : Nat → Nat → Rat := fun i j => c j i

def nodupB : List Nat → Bool
  | [] => true
  | a :: l => !l.contains a && nodupB l

/-- strictly increasing (`row_ind` "will be sorted") -/
def incB : List Nat → Bool
  | [] => true
  | [_] => true
  | a :: b :: l => decide (a < b) && incB (b :: l)

/-- A *complete assignment* of an `n × m` matrix: `min n m` in-range pairs, no row repeated, no
column repeated (so every line of the smaller side is used exactly once). -/
def isAssign (n m : Nat) (l : Pairs) : Bool :=
  (l.length == min n m)
    && l.all (fun p => decide (p.1 < n) && decide (p.2 < m))
    && nodupB (l.map Prod.fst)
    && nodupB (l.map Prod.snd)

/-- `p i j` for every `i < n`, `j < m` -/
def allIdx (n m : Nat) (p : Nat → Nat → Bool) : Bool :=
  (List.range n).all fun i => (List.range m).all fun j => p i j

/-! ### potentials read off the returned reduced matrix

If `reduced = cost − uᵢ − vⱼ` then `D := cost − reduced` has `D i j = uᵢ + vⱼ`; normalising
`v₀ = 0` gives `uᵢ = D i 0`, `vⱼ = D 0 j − D 0 0`.  The checker *recomputes* the residual from
these potentials and compares it with `reduced` on every entry — this is the clause "differs from
the input only by adding a constant to each row and each column". -/

def uPot (c red : Nat → Nat → Rat) (i : Nat) : Rat := c i 0 - red i 0
def vPot (c red : Nat → Nat → Rat) (j : Nat) : Rat := (c 0 j - red 0 j) - (c 0 0 - red 0 0)
def resid (c red : Nat → Nat → Rat) (i j : Nat) : Rat := c i j - uPot c red i - vPot c red j

/-- Exact certificate for a matrix that is at least as wide as tall (`n ≤ m`, the orientation
Munkres works in).  Last clause: an unmatched column's potential is at least every matched
column's (needed only when `n < m`; it is what makes weak duality go through for rectangular
matrices). -/
def wideOK (n m : Nat) (c red : Nat → Nat → Rat) (σ : Pairs) : Bool :=
  isAssign n m σ
    && allIdx n m (fun i j => resid c red i j == red i j)
    && allIdx n m (fun i j => decide (0 ≤ red i j))
    && σ.all (fun p => red p.1 p.2 == 0)
    && (List.range m).all (fun k =>
          (σ.map Prod.snd).contains k || σ.all (fun p => decide (vPot c red p.2 ≤ vPot c red k)))

/-- The exact certificate for any shape: rows increasing, and the wide certificate in the
orientation with at least as many columns as rows. -/
def certOK (n m : Nat) (c red : Nat → Nat → Rat) (σ : Pairs) : Bool :=
  incB (σ.map Prod.fst)
    && (if n ≤ m then wideOK n m c red σ else wideOK m n (tr c) (tr red) (σ.map swap))

/-! ### the same certificate with measured slack (for float runs, where `reduced` equals
`cost − u − v` only up to rounding).  The checker computes in exact arithmetic how far the
returned data is from a certificate and turns it into a bound on the optimality gap. -/

def negPart (x : Rat) : Rat := if x < 0 then -x else 0
def posPart (x : Rat) : Rat := if 0 < x then x else 0
def maxL (l : List Rat) : Rat := l.foldl (fun a x => if a < x then x else a) 0

/-- largest violation of `resid ≥ 0` -/
def epsOf (n m : Nat) (c red : Nat → Nat → Rat) : Rat :=
  maxL ((List.range n).map fun i => maxL ((List.range m).map fun j => negPart (resid c red i j)))

/-- largest violation of "matched column potential ≤ unmatched column potential" -/
def deltaOf (m : Nat) (c red : Nat → Nat → Rat) (σ : Pairs) : Rat :=
  maxL ((List.range m).map fun k =>
    if (σ.map Prod.snd).contains k then 0
    else maxL (σ.map fun p => posPart (vPot c red p.2 - vPot c red k)))

def wideGap (n m : Nat) (c red : Nat → Nat → Rat) (σ : Pairs) : Rat :=
  total (resid c red) σ + (n : Rat) * epsOf n m c red + (n : Rat) * deltaOf m c red σ

/-- `some g`: the pairs are a complete assignment and `total σ ≤ total τ + g` for every complete
assignment `τ` (theorem `certGap_sound`); `none`: not a complete assignment at all. -/
def certGap (n m : Nat) (c red : Nat → Nat → Rat) (σ : Pairs) : Option Rat :=
  if isAssign n m σ then
    some (if n ≤ m then wideGap n m c red σ else wideGap m n (tr c) (tr red) (σ.map swap))
  else none

end QcelVerif.Assign
