import QcelVerif.Model.ConstantsShipped
import QcelVerif.Gen.ContextSrc
/-!
# `PhysicalConstantsContext.__init__` executed on the definitions REGENERATED FROM THE SOURCE

`Gen/ContextSrc.lean` (translator `harness/c02_src.py`, `ast` of `qcelemental/physical_constants/context.py`) holds, per
context string, what `__init__` does besides the constant loop: the literal-key insertions (the calorie-joule
relationship), the rename dict, every tuple of the `aliases` list with its Decimal expression tree, and the translate
table of the attribute names.  `buildPCFrom` executes them **in the code's own staging**:

 1. constant loop (context.py:89-97)            — `loadRows` of the hand-written model (shape checked by the translator)
 2. literal-key insertions (104-106)            — `addExtras`, data = the source's Decimal expression evaluated
 3. rename loop (142-144; no-op for 2014)       — `addRenames` on the SOURCE's dict
 4. the whole `aliases` list (146-193) is evaluated on that table — 2018: the three derived constants AND the 27
    aliases see the same table, none sees another alias (the hand-written `buildPC` instead evaluates the
    documentation's formulas on the table that already holds the derived constants)
 5. insertion loop (197-199)                    — `insertAliases`
 6. attribute loop (201-204)                    — `buildAttrsWith` the SOURCE's translate table

`Expr.evalDec … [] evalFuel` (Model/Constants.lean, Model/Dec.lean) evaluates the source trees: the same Decimal
semantics as the specification's.  Core Lean only (the driver imports this file).
-/
namespace QcelVerif.Constants
open QcelVerif QcelVerif.PStr QcelVerif.Codata

/-- lookup in a `str.maketrans` table (character ↦ replacement, `[]` = deleted) -/
def transFind : List (Nat × List Nat) → Nat → Option (List Nat)
  | [], _ => none
  | (k, r) :: t, c => match Nat.beq k c with | true => some r | false => transFind t c

/-- what `str.translate` does to one character -/
def transChar (tbl : List (Nat × List Nat)) (c : Nat) : List Nat :=
  match transFind tbl c with | some r => r | none => [c]

/-- `s.translate(table)` -/
def mangleWith (tbl : List (Nat × List Nat)) : Bytes → Bytes
  | [] => []
  | c :: t => transChar tbl c ++ mangleWith tbl t

/-- `label.translate(self._transtable)` with the table read from the source -/
def mangleSrc (s : Bytes) : Bytes := mangleWith Gen.ContextSrc.transTable s

/-- stage 2: `self.pc[key] = Datum(label, units, <decimal expr>, comment=…)` for literal keys, in order;
`none` = the expression raised -/
def addExtras : List (Bytes × AliasDef) → PC → Option PC
  | [], pc => some pc
  | (key, a) :: t, pc =>
    match a.expr.evalDec pc [] evalFuel with
    | some v => addExtras t (pcSet pc (pack key) ⟨pack a.name, pack a.units, v, pack a.comment, none⟩)
    | none => none

/-- `self.pc` after `__init__`, every piece except the constant loop taken from the translated source -/
def buildPCFrom (extras : List (Bytes × AliasDef)) (renames : List (Bytes × Bytes)) (defs : List AliasDef)
    (doi : Nat) (rows : List ShippedRow) : Option PC := do
  let pc1 ← loadRows doi rows []
  let pc2 ← addExtras extras pc1
  let pc3 ← addRenames renames pc2
  let av ← evalAll pc3 [] defs
  pure (insertAliases av pc3)

/-- stage 6 with a given translate table -/
def buildAttrsWith (tbl : List (Nat × List Nat)) : PC → List (Nat × Nat) → List (Nat × Nat)
  | [], acc => acc
  | (_, d) :: t, acc => buildAttrsWith tbl t (attrSet acc (pack (mangleWith tbl (unpack d.label))) d.data.toF64)

namespace Src
open Gen.ContextSrc

/-- the complete `aliases` list of a context, in the code's order -/
def defs2014 : List AliasDef := initial2014 ++ extended2014
def defs2018 : List AliasDef := initial2018 ++ extended2018

/-- the table the alias tuples are evaluated on (after stages 1-3) -/
def pre (extras : List (Bytes × AliasDef)) (renames : List (Bytes × Bytes)) (doi : Nat) (rows : List ShippedRow) : Option PC := do
  let pc1 ← loadRows doi rows []
  let pc2 ← addExtras extras pc1
  addRenames renames pc2

def pre2014 : Option PC := pre extras2014 renames2014 Gen.Codata2014.doi Gen.Codata2014.shipped
def pre2018 : Option PC := pre extras2018 renames2018 Gen.Codata2018.doi Gen.Codata2018.shipped

end Src

/-- `PhysicalConstantsContext("CODATA2014").pc`, source-derived -/
def pcSrc2014 : Option PC :=
  buildPCFrom Gen.ContextSrc.extras2014 Gen.ContextSrc.renames2014 Src.defs2014 Gen.Codata2014.doi Gen.Codata2014.shipped
/-- `PhysicalConstantsContext("CODATA2018").pc`, source-derived -/
def pcSrc2018 : Option PC :=
  buildPCFrom Gen.ContextSrc.extras2018 Gen.ContextSrc.renames2018 Src.defs2018 Gen.Codata2018.doi Gen.Codata2018.shipped

def ctxSrc2014 : Option Ctx := pcSrc2014.map (fun pc => ⟨2014, pc, buildAttrsWith Gen.ContextSrc.transTable pc []⟩)
def ctxSrc2018 : Option Ctx := pcSrc2018.map (fun pc => ⟨2018, pc, buildAttrsWith Gen.ContextSrc.transTable pc []⟩)

/-- the source-derived definition named `n` (case-sensitive, as written in the tuple) and its Decimal on the table the
code evaluates it on -/
def srcValue (pre : Option PC) (defs : List AliasDef) (n : Bytes) : Option Dec :=
  match pre, findAlias defs n with
  | some pc, some a => a.expr.evalDec pc [] evalFuel
  | _, _ => none

end QcelVerif.Constants
