import QcelVerif.Model.Munkres
/-!
C14 — the Munkres model with a ROUNDING FUNCTION at every arithmetic operation (core Lean only; the
driver imports this file).

`Model/Munkres.lean` computes in exact rationals.  The implementation computes in the work dtype of
`state.C` (scipy_hungarian.py:103-110 after the fix: bool → int64, int8/16/32 and uint8/16/32 → int64,
float16/32 → float64; int64, uint64 and float64 stay as they are).  The only places where the work
dtype does arithmetic are

* `_step1`  line 170  `state.C -= state.C.min(axis=1)[:, np.newaxis]`     one subtraction per entry
* `_step6`  line 295  `state.C[~state.row_uncovered] += minval`           one addition per entry of a covered row
* `_step6`  line 296  `state.C[:, state.col_uncovered] -= minval`         one subtraction per entry of an uncovered column

(`min`, `== 0`, `argmax` compare and select, they never round).  `solveFloat rnd` is `solve` with
`rnd` applied to the result of each of these operations, and nothing else changed: with
`rnd := rndDouble` (round-to-nearest-even, `Model/Hash.lean`) it is the float64 run, with
`rnd := wrapInt64` the int64 run.  `Props/C14Exact.lean` proves `solveFloat rnd inp = solve inp`
whenever `rnd` is the identity on the (explicitly bounded) values the exact run produces.
-/
namespace QcelVerif.Munkres
open QcelVerif.Assign

/-- the starring loop of `_step1` (lines 174-181) on a given row-reduced matrix `C` -/
def step1With (C : Mat Rat) (s : State) : State × Option Step :=
  let s' : State := Id.run do
    let mut mk := s.marked
    let mut ru := s.rowUnc
    let mut cu := s.colUnc
    for i in [0:C.size] do
      for j in [0:(C.getD i #[]).size] do
        if get2 C i j == 0 && cu.getD j false && ru.getD i false then
          mk := set2 mk i j 1
          cu := cu.set! j false
          ru := ru.set! i false
    return { s with C := C, marked := mk, rowUnc := ru, colUnc := cu }
  (clearCovers s', some .s3)

/-- line 170 with every difference rounded -/
def redCF (rnd : Rat → Rat) (C : Mat Rat) : Mat Rat :=
  C.map fun r => let mn := rowMin r; r.map (fun x => rnd (x - mn))

/-- `_step1` in the work dtype -/
def step1F (rnd : Rat → Rat) (s : State) : State × Option Step := step1With (redCF rnd s.C) s

/-- `np.min(np.min(C[row_uncovered], axis=0)[col_uncovered])`: the smallest uncovered value (line 293-294) -/
def minval6 (s : State) : Rat :=
  let vals : Array Rat := Id.run do
    let mut acc : Array Rat := #[]
    for i in [0:s.C.size] do
      if s.rowUnc.getD i false then
        let r := s.C.getD i #[]
        for j in [0:r.size] do
          if s.colUnc.getD j false then acc := acc.push (r.getD j 0)
    return acc
  rowMin vals

/-- lines 295-296 with the sum and the difference rounded (in that order: an entry of a covered row
and an uncovered column is first increased, then decreased) -/
def C6F (rnd : Rat → Rat) (s : State) (mv : Rat) : Mat Rat :=
  s.C.mapIdx fun i r => r.mapIdx fun j x =>
    let x1 := if s.rowUnc.getD i false then x else rnd (x + mv)
    if s.colUnc.getD j false then rnd (x1 - mv) else x1

/-- `_step6` in the work dtype -/
def step6F (rnd : Rat → Rat) (s : State) : State × Option Step :=
  if s.rowUnc.any id && s.colUnc.any id then
    ({ s with C := C6F rnd s (minval6 s) }, some .s4)
  else (s, some .s4)

/-- steps 3, 4, 5 do no arithmetic in the work dtype -/
def doStepF (rnd : Rat → Rat) (st : Step) (s : State) : Except Err (State × Option Step) :=
  match st with
  | .s1 => .ok (step1F rnd s)
  | .s3 => .ok (step3 s)
  | .s4 => step4 s
  | .s5 => step5 s
  | .s6 => .ok (step6F rnd s)

def runStepsF (rnd : Rat → Rat) :
    Nat → Step → State → Array (Step × State) → Except Err (State × Array (Step × State))
  | 0, _, _, _ => .error .fuel
  | f + 1, st, s, tr =>
    match doStepF rnd st s with
    | .error e => .error e
    | .ok (s', next) =>
      let tr := tr.push (st, s')
      match next with
      | none => .ok (s', tr)
      | some st' => runStepsF rnd f st' s' tr

def solveWideF (rnd : Rat → Rat) (n m : Nat) (cost : Mat Rat) : Except Err (State × Array (Step × State)) :=
  let s0 := initState n m cost
  if n == 0 || m == 0 then .ok (s0, #[]) else runStepsF rnd (stepFuel n m) .s1 s0 #[]

/-- `linear_sum_assignment(cost_matrix, return_cost=True)` with the arithmetic of the work dtype -/
def solveFloat (rnd : Rat → Rat) (inp : Input) : Except Err Output :=
  if inp.ndim != 2 then .error .ndim
  else if inp.dt = .other then .error .dtype
  else if !inp.allFinite then .error .nonfinite
  else
    let cost : Mat Rat := inp.ent.map fun r => r.map Entry.val
    let n := inp.n
    let m := inp.m
    if m < n then
      match solveWideF rnd m n (transpose n m cost) with
      | .error e => .error e
      | .ok (s, tr) =>
        .ok { n := n, m := m, pairs := starPairs (transpose m n s.marked), red := transpose m n s.C, trace := tr }
    else
      match solveWideF rnd n m cost with
      | .error e => .error e
      | .ok (s, tr) => .ok { n := n, m := m, pairs := starPairs s.marked, red := s.C, trace := tr }

/-! ### the two concrete work dtypes -/

/-- two's-complement wrap-around of int64 arithmetic (`np.int64` addition/subtraction never raise);
a non-integer is left alone (never produced from integer input) -/
def wrapInt64 (x : Rat) : Rat :=
  if x.den = 1 then (((x.num + 2 ^ 63) % 2 ^ 64 - 2 ^ 63 : Int) : Rat) else x

/-- wrap-around of uint64 arithmetic -/
def wrapUInt64 (x : Rat) : Rat :=
  if x.den = 1 then ((x.num % 2 ^ 64 : Int) : Rat) else x

/-! ### the bound of `Props/C14Exact.lean`, executable (the driver reports it per case) -/

/-- `B(M, n, m) = 8·M`: every value the run computes lies in `[-8M, 8M]` — independent of the shape.
(working-matrix entries stay in `[0, 4M]`; the only larger values are the transient `x + minval`
of line 295 on entries that line 296 decreases again.) -/
def boundB (M : Rat) (_n _m : Nat) : Rat := 8 * M

/-- executable form of the hypothesis of the exactness theorems: every entry of the `n × m` input is an
integer in `[lo, hi]` (`Props/C14Exact.lean: intBoxB_sound`) -/
def Input.intBoxB (inp : Input) (lo hi : Rat) : Bool :=
  allIdx inp.n inp.m fun i j =>
    (inp.costFn i j).den == 1 && decide (lo ≤ inp.costFn i j) && decide (inp.costFn i j ≤ hi)

/-- smallest / largest entry of the `n × m` input (0 for an empty one) -/
def Input.minEntry (inp : Input) : Rat :=
  (List.range inp.n).foldl (fun a i => (List.range inp.m).foldl (fun a j => minR a (inp.costFn i j)) a) (inp.costFn 0 0)
def Input.maxEntry (inp : Input) : Rat :=
  (List.range inp.n).foldl (fun a i => (List.range inp.m).foldl
    (fun a j => if a < inp.costFn i j then inp.costFn i j else a) a) (inp.costFn 0 0)

end QcelVerif.Munkres
