import QcelVerif.Model.Kabsch
/-!
# C12 — model of `qcelemental/util/np_rand3drot.py : random_rotation_matrix` (Arvo's method)

The source, line by line (np_rand3drot.py:31-60):

```
theta, phi, z = randnums                              # three uniform numbers in [0, 1]
theta = (theta - 1 / 2) * deflection * 2 * np.pi      # rotation about the pole
phi = phi * 2 * np.pi                                 # direction of pole deflection
z = z * 2 * deflection                                # magnitude of pole deflection
r = np.sqrt(z)
V = (np.sin(phi) * r, np.cos(phi) * r, np.sqrt(2.0 - z))          # |V|² = 2  ("V has length sqrt(2)")
st = np.sin(theta); ct = np.cos(theta)
R = np.array(((ct, st, 0), (-st, ct, 0), (0, 0, 1)))
R_z_pi = np.diag([-1.0, -1.0, 1])
M = (np.outer(V, V) - np.eye(3)).dot(R).dot(R_z_pi)
```

`np.outer(V, V) − I` with `|V|² = 2` is `2 v vᵀ − I` for the unit vector `v = V/√2`: a Householder reflection up to
sign, i.e. the half-turn about `v` (determinant `+1`).

The model is over an arbitrary field `K`, with the three uniform numbers and `deflection` as arguments and the
transcendental functions `sin`, `cos`, `sqrt` and the constant `2π` as PARAMETERS (`sn cs sq : K → K`, `twoPi : K`):
`Props/C12RandRot.lean` proves that the result is a proper rotation for every choice of them satisfying the
normalisation the source relies on (`sin² + cos² = 1` at the two angles, `sqrt(x)² = x` at `z` and `2 − z`), and
instantiates it over ℝ with the real functions.  The driver (`Driver/C12.lean`, op `R`) executes it at `K = ℚ` with
the rational approximations at the end of this file (Taylor series / integer square root, error < 1e-30) on the
three doubles numpy's seeded generator produced.
-/
namespace QcelVerif.RandRot
open QcelVerif.Kabsch
variable {K : Type}

section Ring
variable [CommRing K]

/-- `np.outer(V, V) - np.eye(3)` (np_rand3drot.py:60) -/
def outerMinusOne (V : V3 K) : M3 K :=
  ⟨V.x * V.x - 1, V.x * V.y, V.x * V.z, V.y * V.x, V.y * V.y - 1, V.y * V.z, V.z * V.x, V.z * V.y, V.z * V.z - 1⟩

/-- `2 v vᵀ − I`: the same matrix written with the unit vector `v = V/√2` -/
def householderNeg (v : V3 K) : M3 K :=
  ⟨2 * v.x * v.x - 1, 2 * v.x * v.y, 2 * v.x * v.z, 2 * v.y * v.x, 2 * v.y * v.y - 1, 2 * v.y * v.z,
   2 * v.z * v.x, 2 * v.z * v.y, 2 * v.z * v.z - 1⟩

/-- `R = np.array(((ct, st, 0), (-st, ct, 0), (0, 0, 1)))` (np_rand3drot.py:52) -/
def rotZ (st ct : K) : M3 K := ⟨ct, st, 0, -st, ct, 0, 0, 0, 1⟩

/-- `R_z_pi = np.diag([-1.0, -1.0, 1])` (np_rand3drot.py:53) -/
def rotZpi : M3 K := ⟨-1, 0, 0, 0, -1, 0, 0, 0, 1⟩

/-- `V = (np.sin(phi) * r, np.cos(phi) * r, np.sqrt(2.0 - z))` (np_rand3drot.py:47) -/
def poleVector (sp cp r w : K) : V3 K := ⟨sp * r, cp * r, w⟩

/-- `M = (np.outer(V, V) - np.eye(3)).dot(R).dot(R_z_pi)` (np_rand3drot.py:60) -/
def assemble (V : V3 K) (st ct : K) : M3 K := ((outerMinusOne V).mul (rotZ st ct)).mul rotZpi

/-- the same with the unit vector: `M = (2 v vᵀ − I)·R_z(θ)·R_z(π)` -/
def assembleUnit (v : V3 K) (st ct : K) : M3 K := ((householderNeg v).mul (rotZ st ct)).mul rotZpi

end Ring

section Field
variable [Field K]

/-- `random_rotation_matrix(deflection, randnums=(u1, u2, u3))` with `sin`, `cos`, `sqrt`, `2π` supplied -/
def randomRotationMatrix (sn cs sq : K → K) (twoPi : K) (deflection u1 u2 u3 : K) : M3 K :=
  let theta := (u1 - 1 / 2) * deflection * twoPi
  let phi := u2 * twoPi
  let z := u3 * 2 * deflection
  let r := sq z
  let V := poleVector (sn phi) (cs phi) r (sq (2 - z))
  assemble V (sn theta) (cs theta)

end Field

/-! ## execution at ℚ: rational approximations of `2π`, `sin`, `cos`, `sqrt` (absolute error < 1e-30 on the
    arguments that occur: |angle| ≤ 2π, 0 ≤ x ≤ 2) -/

/-- precision of the intermediate roundings: 2⁻²⁰⁰ -/
def precBits : Nat := 200

/-- round down to a multiple of 2⁻²⁰⁰ -/
def roundQ (x : Rat) : Rat := mkRat (x * (2 ^ precBits : Nat)).floor (2 ^ precBits)

/-- `2π` to 60 decimals -/
def twoPiQ : Rat := mkRat 6283185307179586476925286766559005768394338798750211641949889 (10 ^ 60)

/-- `Σ_{k<n} term_k` with `term_{k+1} = −term_k·x²/((m+1)(m+2))`, `m` the degree of `term_k` -/
def taylorSum (x2 : Rat) : Nat → Nat → Rat → Rat → Rat
  | 0, _, _, acc => acc
  | n + 1, m, term, acc =>
    let t' := roundQ (-(term * x2) / (((m + 1) * (m + 2) : Nat) : Rat))
    taylorSum x2 n (m + 2) t' (acc + term)

/-- `sin x` by 40 Taylor terms (degree 79: remainder < (2π)^81/81! < 1e-55 for |x| ≤ 2π) -/
def sinQ (x : Rat) : Rat := let x := roundQ x; taylorSum (x * x) 40 1 x 0

/-- `cos x` by 40 Taylor terms -/
def cosQ (x : Rat) : Rat := let x := roundQ x; taylorSum (x * x) 40 0 1 0

/-- `sqrt x` for `x ≥ 0`: `⌊√(x·4¹⁰⁰)⌋/2¹⁰⁰` (error < 2⁻¹⁰⁰); `0` for `x < 0` (the caller rejects that domain) -/
def sqrtQ (x : Rat) : Rat :=
  if x ≤ 0 then 0 else mkRat (Nat.sqrt (x * (4 ^ 100 : Nat)).floor.toNat) (2 ^ 100)

/-- the driver's evaluation: the model at `K = ℚ` with the approximations above -/
def randomRotationMatrixQ (deflection u1 u2 u3 : Rat) : M3 Rat :=
  randomRotationMatrix sinQ cosQ sqrtQ twoPiQ deflection u1 u2 u3

end QcelVerif.RandRot
