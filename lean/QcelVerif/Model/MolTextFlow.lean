import QcelVerif.Model.MolText
/-!
# C07 — statement AST of the psi4 line filters of `qcelemental/molparse/from_string.py` and its evaluator

`harness/c07_flow.py` prints the bodies of `_filter_universals`, `_filter_mints` (with its nested `filter_fragment`),
`parse_as_psi4_ish` and the head / dtype dispatch of `from_string` statement by statement as terms of the types below
(`Gen/FromStringFlow.lean`); a statement the translator does not recognise becomes `.unknown "<source>"`, on which the evaluator
answers `outOfScope` and the shape obligations of `Props/C07Flow.lean` fail.

The evaluator runs on M1's LINE view (`MolText.Line`, the class of a stripped line): "pattern `p` matches the line" is read off
the class, which is exactly what the regex theorems of `Props/C07Regex.lean` license (`comHand s = (classify s == .com)`,
`cgmpHand`, `atomHand`, `unitsHand`, `symHand` are all defined through `classify` and proved equal to the generic engine on the
regenerated patterns).  A line emptied by a substitution is `none`; `line.strip()` is the identity on the already stripped lines
of `textLines`.  Core Lean only (the driver imports this file).
-/
namespace QcelVerif.C07Flow
open QcelVerif.MolText

/-- compiled module-level patterns the translated filters use -/
inductive Pat where
  | com | orient | bohrang | symmetry | cgmp | atomCartesian
  | atomVcart | atomZmat1 | atomZmat2 | atomZmat3 | atomZmat4 | variable
deriving DecidableEq, Repr

/-- keys of the `processed` dict -/
inductive Key where
  | fixCom | fixOrientation | fixSymmetry | units | molecularCharge | molecularMultiplicity | elbl | geom
  | fragmentSeparators | fragmentCharges | fragmentMultiplicities | geomUnsettled | variables
deriving DecidableEq, Repr

/-- named groups read by the callbacks -/
inductive G where
  | uang | ubohr | pg | chg | mult | nucleus | x | y | z
deriving DecidableEq, Repr

/-- right-hand sides of the callbacks' stores -/
inductive Val where
  | tt                      -- `True`
  | angstrom | bohr         -- the literals "Angstrom" / "Bohr"
  | none                    -- `None`
  | lowerGroup (g : G)      -- `matchobj.group(g).lower()`
  | strGroup (g : G)        -- `matchobj.group(g)`
  | floatGroup (g : G)      -- `_float(matchobj.group(g))`
  | intGroup (g : G)        -- `int(matchobj.group(g))`
deriving DecidableEq, Repr

/-- one statement of a callback body (`return ""` is implied and checked by the translator) -/
inductive Store where
  | set (k : Key) (v : Val)                                  -- `processed[k] = v`
  | append (k : Key) (v : Val)                               -- `processed[k].append(v)`
  | ifElif (g1 : G) (k1 : Key) (v1 : Val) (g2 : G) (k2 : Key) (v2 : Val)
      -- `if matchobj.group(g1): processed[k1] = v1 / elif matchobj.group(g2): processed[k2] = v2`
  | unknown (src : String)
deriving DecidableEq, Repr

inductive Flag where | com | orient | bohrang | symmetry | fcgmp
deriving DecidableEq, Repr

/-- where a statement sits with respect to `if unsettled: … else: …` -/
inductive Guard where | always | unsettled | settled
deriving DecidableEq, Repr

/-- statements inside `for line in string.split("\n"):` -/
inductive LStmt where
  | strip                                               -- `line = line.strip()`
  | subnIfNot (f : Flag) (p : Pat) (cb : List Store)     -- `if not f: line, f = re.subn(p, cb, line)`
  | sub (g : Guard) (p : Pat) (cb : List Store)          -- `line = re.sub(p, cb, line)`
  | keep                                                -- `if line: reconstitute.append(line)`
  | unknown (src : String)
deriving DecidableEq, Repr

/-- statements inside `for ifr, frag in enumerate(re.split(fragment_marker, string)):` -/
inductive FStmt where
  | stripFrag                                           -- `frag = frag.strip()`
  | sysOrFragment (p : Pat) (cb : List Store)
      -- `if ifr == 0 and p.match(frag): frag, _ = re.subn(p, cb, frag)  else: frag, processed = filter_fragment(frag)`
  | keepFrag                                            -- `if frag: reconstitute.append(frag)`
  | unknown (src : String)
deriving DecidableEq, Repr

/-- function-level statements -/
inductive Stmt where
  | initRecon                          -- `reconstitute = []` / `freconstitute = []`
  | initProcessed                      -- `processed = {}`
  | initList (g : Guard) (k : Key)     -- `processed[k] = []`
  | flagFalse (f : Flag)               -- `f = False`
  | forLines (body : List LStmt)       -- `for [iln,] line in [enumerate(]string.split("\n")[)]:`
  | forFrags (body : List FStmt)       -- `for ifr, frag in enumerate(re.split(fragment_marker, string)):`
  | startAtom                          -- `start_atom = len(processed["elbl"])`
  | sepIfStart                         -- `if start_atom > 0: processed["fragment_separators"].append(start_atom)`
  | ifNotFlag (f : Flag) (ss : List Store)   -- `if not f: <stores>`
  | retJoin (sep : String)             -- `return sep.join(reconstitute), processed`
  | unknown (src : String)
deriving DecidableEq, Repr

/-- the four line filters `parse_as_psi4_ish` chains -/
inductive Filter where | pubchem | universals | libefp | mints
deriving DecidableEq, Repr

/-- statements of `parse_as_psi4_ish` -/
inductive PStmt where
  | initMolinit                        -- `molinit = {}`
  | call (f : Filter) (passUnsettled : Bool)   -- `molstr, processed = _filter_f(molstr[, unsettled=unsettled])`
  | update                             -- `molinit.update(processed)`
  | raiseIfLeft (exc : String)         -- `if molstr: raise exc(...)`
  | ret                                -- `return molstr, molinit`
  | unknown (src : String)
deriving DecidableEq, Repr

/-- head of `from_string` (before the dtype dispatch) -/
inductive PreOp where | strip | filterComments | unknown (src : String)
deriving DecidableEq, Repr

/-! ## evaluator -/

structure Flags where
  com : Bool := false
  orient : Bool := false
  bohrang : Bool := false
  symmetry : Bool := false
  fcgmp : Bool := false
deriving DecidableEq, Repr

def Flags.get (fl : Flags) : Flag → Bool
  | .com => fl.com | .orient => fl.orient | .bohrang => fl.bohrang | .symmetry => fl.symmetry | .fcgmp => fl.fcgmp

def Flags.set (fl : Flags) (b : Bool) : Flag → Flags
  | .com => { fl with com := b } | .orient => { fl with orient := b } | .bohrang => { fl with bohrang := b }
  | .symmetry => { fl with symmetry := b } | .fcgmp => { fl with fcgmp := b }

/-- "pattern `p` matches the (stripped) line": the line's class (Props/C07Regex.lean: com / orient / units / sym / cgmp / atom
`_eq_regex`).  The psi4+ patterns are never run (guard `unsettled`). -/
def patHits (p : Pat) (l : Line) : Bool :=
  match p, l with
  | .com, .com => true
  | .orient, .orient => true
  | .bohrang, .units _ => true
  | .symmetry, .sym _ => true
  | .cgmp, .cgmp _ _ => true
  | .atomCartesian, .atom _ _ _ _ => true
  | _, _ => false

def grpStr : Line → G → Option Str
  | .sym pg, .pg => some pg          -- M1 keeps the lower-cased text (`sym_eq_regex` states it so)
  | .cgmp _ m, .mult => some m
  | .atom n _ _ _, .nucleus => some n
  | _, _ => none

def grpNum : Line → G → Option NumParts
  | .cgmp c _, .chg => some c
  | .atom _ x _ _, .x => some x
  | .atom _ _ y _, .y => some y
  | .atom _ _ _ z, .z => some z
  | _, _ => none

/-- truthiness of `matchobj.group(g)` for the unit groups (`units_eq_regex`: `.units true` = group ubohr took part) -/
def grpTruthy : Line → G → Bool
  | .units b, .uang => !b
  | .units b, .ubohr => b
  | _, _ => false

def unitOf : Val → Option Bool
  | .angstrom => some false
  | .bohr => some true
  | _ => none

/-- one store on M1's processed record; `none` = the store is outside what the evaluator interprets -/
def store1 (l : Line) (p : Processed) : Store → Option Processed
  | .set .fixCom .tt => some { p with fixCom := true }
  | .set .fixOrientation .tt => some { p with fixOrient := true }
  | .set .fixSymmetry (.lowerGroup g) => (grpStr l g).map fun s => { p with fixSym := some s }
  | .ifElif g1 .units v1 g2 .units v2 =>
    if grpTruthy l g1 then (unitOf v1).map fun u => { p with units := some u }
    else if grpTruthy l g2 then (unitOf v2).map fun u => { p with units := some u }
    else some p
  | .set .molecularCharge (.floatGroup g) => (grpNum l g).map fun n => { p with molChg := some n }
  | .set .molecularMultiplicity (.intGroup g) => (grpStr l g).map fun s => { p with molMult := some s }
  | .append .fragmentCharges (.floatGroup g) => (grpNum l g).map fun n => { p with fragChg := p.fragChg ++ [some n] }
  | .append .fragmentMultiplicities (.intGroup g) => (grpStr l g).map fun s => { p with fragMult := p.fragMult ++ [some s] }
  | .append .fragmentCharges .none => some { p with fragChg := p.fragChg ++ [none] }
  | .append .fragmentMultiplicities .none => some { p with fragMult := p.fragMult ++ [none] }
  | .append .elbl (.strGroup g) => (grpStr l g).map fun s => { p with elbl := p.elbl ++ [s] }
  | .append .geom (.floatGroup g) => (grpNum l g).map fun n => { p with geom := p.geom ++ [n] }
  | _ => none

def stores (l : Line) : List Store → Option Processed → Option Processed
  | [], p => p
  | s :: ss, p => stores l ss (p.bind fun q => store1 l q s)

/-- state while one line is processed: flags, the record, the line (`none` = emptied), the kept lines (reversed) -/
structure LState where
  fl : Flags := {}
  p : Option Processed := some {}
  recon : List Line := []          -- in order
  bad : Bool := false              -- an `.unknown` statement was met
deriving DecidableEq, Repr

def guardOn (uns : Bool) : Guard → Bool
  | .always => true | .unsettled => uns | .settled => !uns

def lstmt (uns : Bool) (st : LState) (cur : Option Line) : LStmt → LState × Option Line
  | .strip => (st, cur)
  | .subnIfNot f p cb =>
    if st.fl.get f then (st, cur) else
    (match cur with
     | some l => if patHits p l then ({ st with fl := st.fl.set true f, p := stores l cb st.p }, none) else (st, cur)
     | none => (st, cur))
  | .sub g p cb =>
    if !guardOn uns g then (st, cur) else
    if g == .unsettled then ({ st with bad := true }, cur) else     -- psi4+ callbacks are not interpreted
    (match cur with
     | some l => if patHits p l then ({ st with p := stores l cb st.p }, none) else (st, cur)
     | none => (st, cur))
  | .keep =>
    (match cur with
     | some l => if l == .blank then (st, cur) else ({ st with recon := st.recon ++ [l] }, cur)
     | none => (st, cur))
  | .unknown _ => ({ st with bad := true }, cur)

def lstmts (uns : Bool) : List LStmt → LState → Option Line → LState
  | [], st, _ => st
  | s :: ss, st, cur => let (st', cur') := lstmt uns st cur s; lstmts uns ss st' cur'

/-- `for line in string.split("\n"): body` -/
def forLines (uns : Bool) (body : List LStmt) : LState → List Line → LState
  | st, [] => st
  | st, l :: ls => forLines uns body (lstmts uns body st (some l)) ls

/-- function-level state -/
structure FnState where
  ls : LState := {}
  start : Nat := 0
  ret : Option (List Line) := none     -- the returned remnant (lines) once `return` ran
deriving DecidableEq, Repr

def stmt (uns : Bool) (input : List Line) (st : FnState) : Stmt → FnState
  | .initRecon => { st with ls := { st.ls with recon := [] } }
  | .initProcessed => st            -- one record is threaded through the filters (`molinit.update` of disjoint keys)
  | .initList _ _ => st             -- the lists start empty in the threaded record
  | .flagFalse f => { st with ls := { st.ls with fl := st.ls.fl.set false f } }
  | .forLines body => { st with ls := forLines uns body st.ls input }
  | .forFrags _ => { st with ls := { st.ls with bad := true } }    -- handled by `mintsEval`
  | .startAtom => { st with start := (st.ls.p.map (·.elbl.length)).getD 0 }
  | .sepIfStart => if st.start > 0 then { st with ls := { st.ls with p := st.ls.p.map fun q => { q with seps := q.seps ++ [st.start] } } } else st
  | .ifNotFlag f ss => if st.ls.fl.get f then st else { st with ls := { st.ls with p := stores .blank ss st.ls.p } }
  | .retJoin _ => { st with ret := some st.ls.recon }
  | .unknown _ => { st with ls := { st.ls with bad := true } }

def stmts (uns : Bool) (input : List Line) : List Stmt → FnState → FnState
  | [], st => st
  | s :: ss, st => stmts uns input ss (stmt uns input st s)

/-- run a line filter (`_filter_universals`, `filter_fragment`) on its input lines from a record: the record, the remnant
lines, and whether everything was interpretable -/
def runFilter (uns : Bool) (body : List Stmt) (p : Option Processed) (input : List Line) : Option Processed × List Line × Bool :=
  let st := stmts uns input body { ls := { p := p } }
  match st.ret with
  | some r => (st.ls.p, r, !st.ls.bad)
  | none => (st.ls.p, [], false)

/-! ### `_filter_mints`: the fragment loop -/

structure MState where
  p : Option Processed
  left : Bool := false        -- some fragment left a non-empty remnant
  ok : Bool := true
deriving DecidableEq, Repr

/-- one fragment through the loop body; `ifr0` = first iteration -/
def fstmts (uns : Bool) (ff : List Stmt) (ifr0 : Bool) (frag : List Line) : List FStmt → MState → Option (List Line) → MState
  | [], st, _ => st
  | .stripFrag :: r, st, cur => fstmts uns ff ifr0 frag r st cur
  | .sysOrFragment p cb :: r, st, cur =>
    (match cur with
     | some [l] =>
       if ifr0 && patHits p l then fstmts uns ff ifr0 frag r { st with p := stores l cb st.p } (some [])
       else
         let (q, rem, ok) := runFilter uns ff st.p [l]
         fstmts uns ff ifr0 frag r { st with p := q, ok := st.ok && ok } (some rem)
     | some ls =>
       let (q, rem, ok) := runFilter uns ff st.p ls
       fstmts uns ff ifr0 frag r { st with p := q, ok := st.ok && ok } (some rem)
     | none => fstmts uns ff ifr0 frag r { st with ok := false } cur)
  | .keepFrag :: r, st, cur =>
    (match cur with
     | some [] => fstmts uns ff ifr0 frag r st cur
     | some _ => fstmts uns ff ifr0 frag r { st with left := true } cur
     | none => fstmts uns ff ifr0 frag r { st with ok := false } cur)
  | .unknown _ :: r, st, cur => fstmts uns ff ifr0 frag r { st with ok := false } cur

def forFrags (uns : Bool) (ff : List Stmt) (body : List FStmt) : Bool → MState → List (List Line) → MState
  | _, st, [] => st
  | ifr0, st, f :: fs => forFrags uns ff body false (fstmts uns ff ifr0 f body st (some f)) fs

/-- `_filter_mints` on its fragments (the pieces of `re.split(fragment_marker, string)` as line lists): every statement other than
the fragment loop must be one of the initialisations / the final `return "\n--\n".join(reconstitute), processed` -/
def mintsEval (uns : Bool) (body ff : List Stmt) (p : Option Processed) (frags : List (List Line)) : MState :=
  body.foldl (fun st s =>
    match s with
    | .initRecon | .initProcessed | .initList _ _ | .retJoin _ => st
    | .forFrags b => forFrags uns ff b true st frags
    | _ => { st with ok := false }) { p := p }

/-! ### `parse_as_psi4_ish` and the head of `from_string` -/

structure Prog where
  pre : List PreOp                 -- `molstr = filter_comments(molstr.strip())`
  psi4Ish : List PStmt
  universals : List Stmt
  mints : List Stmt
  filterFragment : List Stmt

structure DState where
  p : Option Processed := some {}
  lines : List Line := []                       -- `molstr` as lines (before `_filter_libefp`)
  frags : Option (List (List Line)) := none     -- `molstr` as `--`-separated fragments (from `_filter_libefp` on)
  left : Bool := false                          -- `molstr` is non-empty after the last filter
  ok : Bool := true
  oos : Bool := false                           -- M1's declared out-of-scope classes (pubchem line, three-point efp form)
  result : Option Outcome := none

/-- `_filter_pubchem` and `_filter_libefp` are NOT translated: they act as in M1 (`Line.pubchem` is out of scope, `efpGo`). -/
def pstmt (prog : Prog) (uns : Bool) (st : DState) : PStmt → DState
  | .initMolinit => st
  | .update => st
  | .call .pubchem false => if st.lines.any (· == .pubchem) then { st with oos := true } else st
  | .call .universals false =>
    (match st.frags with
     | none => let (q, rem, ok) := runFilter uns prog.universals st.p st.lines
               { st with p := q, lines := rem, ok := st.ok && ok }
     | some _ => { st with ok := false })
  | .call .libefp false =>
    (match st.frags with
     | none => let e := efpGo (splitMarkers st.lines)
               { st with frags := some e.frags, p := st.p.map fun q => { q with efp := e.efp }, oos := st.oos || !e.scope }
     | some _ => { st with ok := false })
  | .call .mints true =>
    (match st.frags with
     | some fr =>
       let m := mintsEval uns prog.mints prog.filterFragment st.p (if fr.isEmpty then [[]] else fr)
       { st with p := m.p, left := m.left, ok := st.ok && m.ok, frags := some [] }
     | none => { st with ok := false })
  | .call _ _ => { st with ok := false }
  | .raiseIfLeft exc =>
    if st.result.isSome then st
    else if st.left then (if exc == "MoleculeFormatError" then { st with result := some .formatError } else { st with ok := false })
    else st
  | .ret =>
    if st.result.isSome then st else
    (match st.p with
     | some q => { st with result := some (.ok { q with isPsi4 := true }) }
     | none => { st with ok := false })
  | .unknown _ => { st with ok := false }

def pstmts (prog : Prog) (uns : Bool) : List PStmt → DState → DState
  | [], st => st
  | s :: ss, st => pstmts prog uns ss (pstmt prog uns st s)

/-- the source-derived psi4 reader on classified lines -/
def srcPsi4Lines (prog : Prog) (lines : List Line) : Outcome :=
  let st := pstmts prog false prog.psi4Ish { lines := lines }
  if st.oos then .outOfScope
  else if !st.ok then .outOfScope
  else st.result.getD .outOfScope

def preOps : List PreOp → Str → Option Str
  | [], s => some s
  | .strip :: r, s => preOps r (MolText.strip s)
  | .filterComments :: r, s => preOps r (filterComments s)
  | .unknown _ :: _, _ => none

/-- the source-derived reader of a text: head of `from_string`, `split("\n")` + `strip` of the filters' loops, then the route of the
dtype.  The xyz / xyz+ route (`_filter_xyz`) is NOT translated and is M1's. -/
def srcRead (prog : Prog) (d : Dtype) (s : Str) : Outcome :=
  match preOps prog.pre s with
  | none => .outOfScope
  | some t =>
    let lines := (splitLines t).map MolText.strip
    match d with
    | .xyz => parseXyzLines true lines
    | .xyzPlus => parseXyzLines false lines
    | .psi4 => srcPsi4Lines prog (lines.map classify)

end QcelVerif.C07Flow
