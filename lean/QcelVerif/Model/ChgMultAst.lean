import QcelVerif.Model.ChgMult
/-!
A small expression language for the decision logic of `chgmult.py::validate_and_fill_chgmult` and its evaluator
(C05, source-derived procedure).  Core Lean only (the driver imports it).

`harness/c05.py:gen_chgmult_src` reads `qcelemental/molparse/chgmult.py` by `ast` on every run and writes
`Gen/ChgMultSrc.lean`: every `cgmp_range.append(lambda c, fc, m, fm: …)` becomes a `RuleItem` (the `if`s guarding the
append become the guard, a `for ifr in …` around it becomes `RuleItem.each` with the loop index as bound variable 0),
every `cgmp_exact_*.append(…)` / `for m in [reversed](range(…)): cgmp_exact_*.append(m)` becomes a `Gen`.

Evaluation is `Option`-valued: `none` = "Python would raise here" (index out of range, arithmetic on `None`,
`.remove(None)` without a `None`, a rule or candidate expression that reads a candidate where there is none).  Nothing
is defaulted.  `and` / `or` / `all` / `any` / conditional expressions evaluate lazily, as Python does; the rule list
itself is evaluated in full (`[fn(...) for fn in cgmp_range]`).

Scope (as for the hand model): integers.  A float literal with an integral value is the integer; `isinstance(x, (int,
np.integer))` of an integer-typed expression is `True`.
-/
namespace QcelVerif.ChgMult.Ast
open QcelVerif.ChgMult

inductive Cmp where
  | eq | ne | lt | le | gt | ge
  deriving Repr, DecidableEq

def Cmp.eval : Cmp → Int → Int → Bool
  | .eq, x, y => x == y
  | .ne, x, y => x != y
  | .lt, x, y => decide (x < y)
  | .le, x, y => decide (x ≤ y)
  | .gt, x, y => decide (y < x)
  | .ge, x, y => decide (y ≤ x)

/-- lists of optional integers: the caller's per-fragment specification -/
inductive OLExpr where
  | fragCharges                      -- `fragment_charges`
  | fragMults                        -- `fragment_multiplicities`
  | removeNone (l : OLExpr)          -- `x = l[:]; x.remove(None)`
  deriving Repr, DecidableEq

mutual
  /-- integer-valued expressions -/
  inductive IExpr where
    | lit (v : Int)
    | candC                          -- lambda parameter `c`
    | candM                          -- lambda parameter `m`
    | bvar (k : Nat)                 -- bound variable (de Bruijn; loop index or comprehension variable)
    | ofOpt (o : OExpr)              -- an optional value used as a number (raises on `None`)
    | idx (l : LExpr) (i : IExpr)    -- `l[i]`
    | add (a b : IExpr)
    | sub (a b : IExpr)
    | mul (a b : IExpr)
    | mod (a b : IExpr)              -- Python `%` (floored)
    | neg (a : IExpr)
    | abs (a : IExpr)
    | max (a b : IExpr)
    | min (a b : IExpr)
    | sum (l : LExpr)                -- `sum(l)` / `np.sum(l)`
    | sumOver (l : LExpr) (body : IExpr)   -- `acc = 0; for v in l: acc += body(v)` (bound variable 0 = `v`)
    | sumTruthy (l : OLExpr)         -- `sum(filter(None, l))`
    | ite (c : BExpr) (a b : IExpr)  -- `a if c else b`
    | len (l : LExpr)
    | lenO (l : OLExpr)
    | nfr                            -- `len(felez)`
  /-- optional-integer-valued expressions -/
  inductive OExpr where
    | molCharge                      -- `molecular_charge`
    | molMult                        -- `molecular_multiplicity`
    | bvar (k : Nat)
    | idx (l : OLExpr) (i : IExpr)
  /-- integer-list-valued expressions -/
  inductive LExpr where
    | candFc                         -- lambda parameter `fc`
    | candFm                         -- lambda parameter `fm`
    | zeff                           -- `zeff` (all fragments, concatenated)
    | rowSums                        -- `[np.sum(f) for f in felez]`
    | felezRow (i : IExpr)           -- `felez[i]`
    | mapOpt (l : OLExpr) (body : IExpr)   -- `[body(v) for v in l]`, `v` optional (bound variable 0)
  /-- truth-valued expressions -/
  inductive BExpr where
    | tt
    | ff
    | and (a b : BExpr)
    | or (a b : BExpr)
    | not (a : BExpr)
    | cmp (op : Cmp) (a b : IExpr)
    | isNone (o : OExpr)             -- `o is None`
    | allI (l : LExpr) (body : BExpr)      -- `all(body(v) for v in l)`
    | anyI (l : LExpr) (body : BExpr)
    | allO (l : OLExpr) (body : BExpr)     -- `all(body(v) for v in l)`, `v` optional
    | anyO (l : OLExpr) (body : BExpr)
end

/-- one `cgmp_range.append(lambda …)` statement with what surrounds it -/
inductive RuleItem where
  | one (guard body : BExpr)                      -- `if guard: cgmp_range.append(lambda c, fc, m, fm: body)`
  | each (count : IExpr) (guard body : BExpr)     -- `for ifr in range(count): if guard: cgmp_range.append(lambda …, ifr=ifr: body)`

/-- one statement that appends candidate values to a list -/
inductive Gen where
  | val (guard : BExpr) (v : IExpr)                          -- `if guard: L.append(v)`
  | range (guard : BExpr) (rev : Bool) (lo hi : IExpr)       -- `if guard: for x in [reversed](range(lo, hi)): L.append(x)`

/-- a candidate statement inside `for ifr in range(count)` acting on `L[ifr]` (bound variable 0 = `ifr`) -/
structure PerFrag where
  count : IExpr
  item  : Gen

/-- the four search dimensions, each in source order -/
structure Dims where
  c  : List Gen
  fc : List PerFrag
  m  : List Gen
  fm : List PerFrag

/-- the candidate lists (`cgmp_exact_c`, `cgmp_exact_fc`, `cgmp_exact_m`, `cgmp_exact_fm`) -/
structure Ranges where
  c  : List Int
  fc : List (List Int)
  m  : List Int
  fm : List (List Int)
  deriving Repr, DecidableEq

/-- the order of the arguments of `itertools.product` in `reconcile` -/
inductive Dim where
  | c | fc | m | fm
  deriving Repr, DecidableEq

structure Env where
  e : Inp                      -- the (effective) specification: `felez`, `molecular_charge`, …
  o : Option Out               -- the candidate `(c, fc, m, fm)` inside a rule lambda; `none` elsewhere
  b : List (Option Int)        -- bound variables, innermost first

def Env.push (env : Env) (v : Option Int) : Env := { env with b := v :: env.b }
def Env.noCand (env : Env) : Env := { env with o := none }

/-- `range(a, b)` over Python ints -/
def pyRange (a b : Int) : List Int := (List.range (b - a).toNat).map (fun (k : Nat) => a + (k : Int))

/-- `l[i]` for `0 ≤ i < len(l)`; anything else is an error here (the source never indexes from the end) -/
def optNth {α} (l : List α) (i : Int) : Option α := if 0 ≤ i then l[i.toNat]? else none

/-- map with failure -/
def optMap {α β} : List α → (α → Option β) → Option (List β)
  | [], _ => some []
  | x :: t, f =>
    match f x with
    | none => none
    | some y =>
      match optMap t f with
      | none => none
      | some r => some (y :: r)

/-- lazy `all(...)`: stops at the first `False` -/
def optAll {α} : List α → (α → Option Bool) → Option Bool
  | [], _ => some true
  | x :: t, f =>
    match f x with
    | none => none
    | some false => some false
    | some true => optAll t f

/-- lazy `any(...)`: stops at the first `True` -/
def optAny {α} : List α → (α → Option Bool) → Option Bool
  | [], _ => some false
  | x :: t, f =>
    match f x with
    | none => none
    | some true => some true
    | some false => optAny t f

/-- all of `f 0 … f (n-1)`, every one evaluated -/
def optAllN : Nat → (Nat → Option Bool) → Option Bool
  | 0, _ => some true
  | n + 1, f =>
    match f 0, optAllN n (fun k => f (k + 1)) with
    | some a, some b => some (a && b)
    | _, _ => none

/-- `[f 0, …, f (n-1)]` with failure -/
def optTab {β} : Nat → (Nat → Option β) → Option (List β)
  | 0, _ => some []
  | n + 1, f =>
    match f 0, optTab n (fun k => f (k + 1)) with
    | some a, some r => some (a :: r)
    | _, _ => none

def evalOL (env : Env) : OLExpr → Option (List (Option Int))
  | .fragCharges => some env.e.fc
  | .fragMults => some env.e.fm
  | .removeNone l =>
    match evalOL env l with
    | none => none
    | some xs => if xs.any (·.isNone) then some (removeFirstNone xs) else none   -- `list.remove(x)`: ValueError

/-- Python's `%` -/
def pyMod (x y : Int) : Option Int := if y = 0 then none else some (Int.fmod x y)

def bind2 {α β γ} (a : Option α) (b : Option β) (f : α → β → Option γ) : Option γ :=
  match a with
  | none => none
  | some x =>
    match b with
    | none => none
    | some y => f x y

mutual
  def evalI (env : Env) : IExpr → Option Int
    | .lit v => some v
    | .candC => env.o.map (·.c)
    | .candM => env.o.map (·.m)
    | .bvar k =>
      match env.b[k]? with
      | some (some v) => some v
      | _ => none
    | .ofOpt o =>
      match evalO env o with
      | some (some v) => some v
      | _ => none
    | .idx l i => bind2 (evalL env l) (evalI env i) (fun xs k => optNth xs k)
    | .add a b => bind2 (evalI env a) (evalI env b) (fun x y => some (x + y))
    | .sub a b => bind2 (evalI env a) (evalI env b) (fun x y => some (x - y))
    | .mul a b => bind2 (evalI env a) (evalI env b) (fun x y => some (x * y))
    | .mod a b => bind2 (evalI env a) (evalI env b) pyMod
    | .neg a => (evalI env a).map (fun x => -x)
    | .abs a => (evalI env a).map (fun x => (x.natAbs : Int))
    | .max a b => bind2 (evalI env a) (evalI env b) (fun x y => some (if x < y then y else x))
    | .min a b => bind2 (evalI env a) (evalI env b) (fun x y => some (if y < x then y else x))
    | .sum l => (evalL env l).map isum
    | .sumOver l body =>
      match evalL env l with
      | none => none
      | some xs => (optMap xs (fun v => evalI (env.push (some v)) body)).map isum
    | .sumTruthy l => (evalOL env l).map sumKnown
    | .ite c a b =>
      match evalB env c with
      | none => none
      | some true => evalI env a
      | some false => evalI env b
    | .len l => (evalL env l).map (fun xs => (xs.length : Int))
    | .lenO l => (evalOL env l).map (fun xs => (xs.length : Int))
    | .nfr => some (env.e.frags.length : Int)
  def evalO (env : Env) : OExpr → Option (Option Int)
    | .molCharge => some env.e.c
    | .molMult => some env.e.m
    | .bvar k => env.b[k]?
    | .idx l i => bind2 (evalOL env l) (evalI env i) (fun xs k => optNth xs k)
  def evalL (env : Env) : LExpr → Option (List Int)
    | .candFc => env.o.map (·.fc)
    | .candFm => env.o.map (·.fm)
    | .zeff => some env.e.frags.flatten
    | .rowSums => some (env.e.frags.map isum)
    | .felezRow i =>
      match evalI env i with
      | none => none
      | some k => optNth env.e.frags k
    | .mapOpt l body =>
      match evalOL env l with
      | none => none
      | some xs => optMap xs (fun v => evalI (env.push v) body)
  def evalB (env : Env) : BExpr → Option Bool
    | .tt => some true
    | .ff => some false
    | .and a b =>
      match evalB env a with
      | some true => evalB env b
      | r => r
    | .or a b =>
      match evalB env a with
      | some false => evalB env b
      | r => r
    | .not a => (evalB env a).map (fun x => !x)
    | .cmp op a b => bind2 (evalI env a) (evalI env b) (fun x y => some (op.eval x y))
    | .isNone o => (evalO env o).map (·.isNone)
    | .allI l body =>
      match evalL env l with
      | none => none
      | some xs => optAll xs (fun v => evalB (env.push (some v)) body)
    | .anyI l body =>
      match evalL env l with
      | none => none
      | some xs => optAny xs (fun v => evalB (env.push (some v)) body)
    | .allO l body =>
      match evalOL env l with
      | none => none
      | some xs => optAll xs (fun v => evalB (env.push v) body)
    | .anyO l body =>
      match evalOL env l with
      | none => none
      | some xs => optAny xs (fun v => evalB (env.push v) body)
end

/-- is the rule appended (guard, evaluated when the list is built: no candidate), and if so what does it say -/
def evalGuarded (env : Env) (guard body : BExpr) : Option Bool :=
  match evalB env.noCand guard with
  | none => none
  | some false => some true
  | some true => evalB env body

def evalItem (env : Env) : RuleItem → Option Bool
  | .one g b => evalGuarded env g b
  | .each n g b =>
    match evalI env.noCand n with
    | none => none
    | some cnt => optAllN cnt.toNat (fun k => evalGuarded { env with b := [some (k : Int)] } g b)

/-- `all([fn(c, fc, m, fm) for fn in cgmp_range])` — every rule is evaluated -/
def evalRules (env : Env) : List RuleItem → Option Bool
  | [] => some true
  | r :: rs =>
    match evalItem env r, evalRules env rs with
    | some a, some b => some (a && b)
    | _, _ => none

/-- the same verdict computed lazily: stops at the first rule that says `False` (differs from `evalRules` only when a
later rule would raise; `Lemmas/ChgMultAst.lean: evalRulesLazy_of_evalRules`).  Used by the driver on every case line
because it is several times faster; the full evaluation runs on a sample. -/
def evalRulesLazy (env : Env) : List RuleItem → Option Bool
  | [] => some true
  | r :: rs =>
    match evalItem env r with
    | none => none
    | some false => some false
    | some true => evalRulesLazy env rs

def evalGen (env : Env) : Gen → Option (List Int)
  | .val g v =>
    match evalB env g with
    | none => none
    | some false => some []
    | some true => (evalI env v).map (fun x => [x])
  | .range g rev lo hi =>
    match evalB env g with
    | none => none
    | some false => some []
    | some true =>
      bind2 (evalI env lo) (evalI env hi) (fun a b => some (if rev then (pyRange a b).reverse else pyRange a b))

def evalGens (env : Env) : List Gen → Option (List Int)
  | [] => some []
  | g :: gs =>
    match evalGen env g, evalGens env gs with
    | some a, some r => some (a ++ r)
    | _, _ => none

/-- what the statements of one dimension append to `L[k]` -/
def evalPerFragAt (env : Env) (k : Nat) : List PerFrag → Option (List Int)
  | [] => some []
  | p :: ps =>
    match evalI env p.count with
    | none => none
    | some cnt =>
      match (if k < cnt.toNat then evalGen { env with b := [some (k : Int)] } p.item else some []),
            evalPerFragAt env k ps with
      | some a, some r => some (a ++ r)
      | _, _ => none

/-- `L = [[] for f in range(nfr)]` then the statements -/
def evalPerFrag (env : Env) (ps : List PerFrag) : Option (List (List Int)) :=
  optTab env.e.frags.length (fun k => evalPerFragAt env k ps)

def evalDims (env : Env) (d : Dims) : Option Ranges :=
  match evalGens env d.c, evalPerFrag env d.fc, evalGens env d.m, evalPerFrag env d.fm with
  | some c, some fc, some m, some fm => some { c := c, fc := fc, m := m, fm := fm }
  | _, _, _, _ => none

/-- the candidates of `reconcile` in `itertools.product` order (same construction as the hand model's `candidates`,
on given lists) -/
def candidatesOf (r : Ranges) : List Out :=
  (dedup r.c).flatMap fun c =>
  (prod (r.fc.map dedup)).flatMap fun fc =>
  (dedup r.m).flatMap fun m =>
  (prod (r.fm.map dedup)).map fun fm => { c := c, fc := fc, m := m, fm := fm }

/-- first candidate whose assessment is all-true; an assessment that raises ends the search -/
def searchFirst (p : Out → Option Bool) : List Out → Except Err Out
  | [] => .error .validation
  | o :: t =>
    match p o with
    | none => .error .malformed
    | some true => .ok o
    | some false => searchFirst p t

def envOf (e : Inp) (o : Option Out) : Env := { e := e, o := o, b := [] }

/-- `validate_and_fill_chgmult` with the rules and the candidate lists taken from a translation of the source
(`rules`, `dims`) and a way `ev` of assessing a candidate; the early screen, the `zero_ghost_fragments` rewriting,
`unique_everseen` and the product order are the hand model's.  An evaluation failure (a Python exception other than
ValidationError) is reported as `malformed`. -/
def vfcGen (ev : Env → List RuleItem → Option Bool) (rules : List RuleItem) (dims : Dims) (i : Inp) : Except Err Out :=
  if !wellFormed i then .error .malformed
  else if precheckFails i then .error .validation
  else
    match evalDims (envOf (effective i) none) dims with
    | none => .error .malformed
    | some r => searchFirst (fun o => ev (envOf (effective i) (some o)) rules) (candidatesOf r)

/-- every rule assessed for every candidate, as `reconcile` does -/
def vfcWith (rules : List RuleItem) (dims : Dims) (i : Inp) : Except Err Out := vfcGen evalRules rules dims i

/-- rules assessed lazily -/
def vfcWithLazy (rules : List RuleItem) (dims : Dims) (i : Inp) : Except Err Out := vfcGen evalRulesLazy rules dims i

end QcelVerif.ChgMult.Ast
