import QcelVerif.Model.Dec
/-!
# The documented build rule of the shipped CODATA tables

`raw_data/nist_data/build_physical_constants.py` (2014, from the SRD-121 JSON) and
`devtools/scripts/build_physical_constants_2018.py` (2018, from the fixed-width ASCII table):

    value = pc["Value"].strip()
    if uncertainty == "(exact)": value = value.replace("...", "")
    constants[pc["Quantity"].lower()] = {"quantity": Quantity, "unit": Unit [with ^-n -> ^{-n}, _90 -> _{90}],
                                         "value": value.replace(" ", ""), "uncertainty": uncertainty}

The translator hands over the raw column slices; everything else (stripping, dropping blank lines,
`...`, blanks inside numbers, lower-casing, the unit-markup relation) is here.  Core Lean only.
-/
namespace QcelVerif.Codata
open QcelVerif.PStr

/-- (name, value, uncertainty, unit) column slices / JSON fields, packed -/
abbrev RawRow := Nat × Nat × Nat × Nat
/-- (key, quantity, unit, value, uncertainty) of the shipped dict, packed -/
abbrev ShippedRow := Nat × Nat × Nat × Nat × Nat

/-- `s.replace("...", "")` -/
def dropDots : Bytes → Bytes
  | 46 :: 46 :: 46 :: t => dropDots t
  | c :: t => c :: dropDots t
  | [] => []

/-- `s.replace(" ", "")` -/
def removeSpaces (s : Bytes) : Bytes := s.filter (fun c => c != 32)

def exactTag : Bytes := b!"(exact)"

/-- the value text the build scripts store: `Value.strip()`, without `...` when the uncertainty is
`(exact)`, blanks deleted -/
def normValue (rawValue : Bytes) (isExact : Bool) : Bytes :=
  match isExact with
  | true => removeSpaces (dropDots (strip rawValue))
  | false => removeSpaces (strip rawValue)

/-- unit text with the exponent markup braces removed: `mol^{-1}` ~ `mol^-1`, `C_{90}` ~ `C_90` -/
def unitCore (u : Bytes) : Bytes := u.filter (fun c => c != 123 && c != 125)

/-! #### fixed-width columns, arithmetically on packed strings

Unpacking 60-byte columns byte by byte costs the kernel ~0.3 ms per byte; the two verbatim columns
(name, uncertainty) are therefore compared in the other direction: *the raw column is the shipped
text left-justified in its fixed-width column*, computed with a handful of big-number operations. -/

/-- length of a packed string shorter than 128 bytes: the largest `k` with `256^k ≤ p` (the tag bit
sits at position `8·len`), found greedily over the binary digits of `k` (`Nat.log2` is not
accelerated in the kernel) -/
def plen (p : Nat) : Nat :=
  [64, 32, 16, 8, 4, 2, 1].foldl
    (fun len s => match Nat.ble (256 ^ (len + s)) p with | true => len + s | false => len) 0

/-- `k` blanks as a base-256 number: `0x2020…20` -/
def blanks (k : Nat) : Nat := 32 * ((256 ^ k - 1) / 255)

/-- packed `s.ljust(w)` -/
def ljustP (w p : Nat) : Nat := p * 256 ^ (w - plen p) + blanks (w - plen p)

def firstByte (p : Nat) : Nat := p / 256 ^ (plen p - 1) % 256

/-- no leading or trailing blank (so that `col.strip() == s` iff `col == s.ljust(w)` up to blank runs) -/
def tidy (p : Nat) : Bool :=
  Nat.beq (plen p) 0 || (!Nat.beq (p % 256) 32 && !Nat.beq (firstByte p) 32)

/-- the packed column `col` (exactly `w` bytes) is `field` left-justified and blank-padded, and
`field` itself carries no outer blanks: i.e. `col.strip() == field` for a left-justified column -/
def colIs (w field col : Nat) : Bool :=
  tidy field && Nat.ble (plen field) w && Nat.beq (ljustP w field) col

/-- a column consisting of blanks only (or empty) -/
def isBlankP (p : Nat) : Bool := Nat.beq p (256 ^ plen p + blanks (plen p))

def isBlankRow (r : RawRow) : Bool := isBlankP r.1 && isBlankP r.2.1 && isBlankP r.2.2.1 && isBlankP r.2.2.2

def packedExact : Nat := pack exactTag

/-- **shipped row = line of the NIST ASCII table** (columns cut at 60/85/110):
key is the lower-cased name; the name column is the name left-justified; the value column, stripped,
without the `...` of exact values and without blanks, is the value text (so the Decimal has the same
digits and exponent — and it must parse); the uncertainty column is the uncertainty text
left-justified; the unit column, stripped, equals the unit up to `{}` exponent markup. -/
def rowMatchesTxt (s : ShippedRow) (r : RawRow) : Bool :=
  match s, r with
  | (key, quantity, unit, value, unc), (cName, cValue, cUnc, cUnit) =>
    Nat.beq key (pack (lower (unpack quantity))) &&
    colIs 60 quantity cName &&
    colIs 25 unc cUnc &&
    Nat.beq value (pack (normValue (unpack cValue) (Nat.beq unc packedExact))) &&
    (Dec.parse (unpack value)).isSome &&
    unitCore (unpack unit) == unitCore (strip (unpack cUnit))

/-- **shipped row = record of the SRD-121 JSON** under the 2014 build script: name, uncertainty and
unit verbatim, value normalised as above -/
def rowMatchesJson (s : ShippedRow) (r : RawRow) : Bool :=
  match s, r with
  | (key, quantity, unit, value, unc), (jName, jValue, jUnc, jUnit) =>
    Nat.beq key (pack (lower (unpack quantity))) &&
    Nat.beq quantity jName && Nat.beq unc jUnc && Nat.beq unit jUnit &&
    Nat.beq value (pack (normValue (unpack jValue) (Nat.beq jUnc packedExact)))

/-- row-by-row, in order; blank raw lines skipped; no row missing or extra -/
def tableMatchesTxt : List ShippedRow → List RawRow → Bool
  | ss, r :: rs =>
    match isBlankRow r with
    | true => tableMatchesTxt ss rs
    | false =>
      match ss with
      | s :: ss' => (match rowMatchesTxt s r with | true => tableMatchesTxt ss' rs | false => false)
      | [] => false
  | [], [] => true
  | _ :: _, [] => false

def tableMatchesJson : List ShippedRow → List RawRow → Bool
  | [], [] => true
  | s :: ss, r :: rs => (match rowMatchesJson s r with | true => tableMatchesJson ss rs | false => false)
  | _, _ => false

/-- tests (not properties) of the arithmetic column helpers -/
example : ljustP 5 (pack b!"ab") = pack b!"ab   " := by decide
example : colIs 5 (pack b!"ab") (pack b!"ab   ") = true := by decide
example : colIs 5 (pack b!"ab ") (pack b!"ab   ") = false := by decide
example : colIs 5 (pack b!"ab") (pack b!" ab  ") = false := by decide
example : colIs 5 (pack b!"") (pack b!"     ") = true := by decide
example : isBlankP (pack b!"   ") = true ∧ isBlankP (pack b!"") = true ∧ isBlankP (pack b!" a ") = false := by decide
example : normValue b!" 4.184 000 123... " true = b!"4.184000123" := by decide
example : normValue b!" 4.184 000 123... " false = b!"4.184000123..." := by decide

end QcelVerif.Codata
