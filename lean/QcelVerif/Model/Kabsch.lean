import Mathlib.Tactic.Ring
import Mathlib.Tactic.LinearCombination
import Mathlib.Algebra.Order.Field.Basic
import Mathlib.Algebra.Field.Rat
import Mathlib.Algebra.Order.Ring.Rat
/-!
# C12 — model of `kabsch_align` / `kabsch_quaternion` and of `AlignmentMill.align_coordinates`

Follows `qcelemental/molutil/align.py:434-554` and `qcelemental/models/align.py:70-87`
stage by stage over an arbitrary field `K` (theorems) and is executed at `K = ℚ` on the very
doubles the implementation received (every double is a dyadic rational).

The eigen-solver (`numpy.linalg.eigh`, align.py:538) is **not** modelled: the leading eigenvector
`q` is a *parameter* of the model.  What the model computes from `q` (U, T, residual) is exact, and
`isTopEig` is a proved certificate checker for "`q` is (nearly) a unit top eigenvector of `F`".

`weight=None` only (the only way `B787` calls it, align.py:194,221): `w = 1`, `sqrt(w) = 1`.
-/
namespace QcelVerif.Kabsch

@[ext] structure V3 (K : Type) where
  x : K
  y : K
  z : K

@[ext] structure M3 (K : Type) where
  a00 : K
  a01 : K
  a02 : K
  a10 : K
  a11 : K
  a12 : K
  a20 : K
  a21 : K
  a22 : K

/-- quaternion / 4-vector, `q[0..3]` -/
@[ext] structure Q4 (K : Type) where
  q0 : K
  q1 : K
  q2 : K
  q3 : K

/-- symmetric 4×4 matrix (upper triangle; align.py:530-535 writes both triangles with one value) -/
@[ext] structure S4 (K : Type) where
  f00 : K
  f01 : K
  f02 : K
  f03 : K
  f11 : K
  f12 : K
  f13 : K
  f22 : K
  f23 : K
  f33 : K

variable {K : Type}

section Ring
variable [CommRing K]

namespace V3
def zero : V3 K := ⟨0, 0, 0⟩
def add (a b : V3 K) : V3 K := ⟨a.x + b.x, a.y + b.y, a.z + b.z⟩
def sub (a b : V3 K) : V3 K := ⟨a.x - b.x, a.y - b.y, a.z - b.z⟩
def smul (k : K) (a : V3 K) : V3 K := ⟨k * a.x, k * a.y, k * a.z⟩
def dot (a b : V3 K) : K := a.x * b.x + a.y * b.y + a.z * b.z
def nrm2 (a : V3 K) : K := a.x * a.x + a.y * a.y + a.z * a.z
/-- `v[1] *= -1.0` (align.py:123,220; models/align.py:81) -/
def mirrorY (a : V3 K) : V3 K := ⟨a.x, -a.y, a.z⟩
end V3

namespace M3
def one : M3 K := ⟨1, 0, 0, 0, 1, 0, 0, 0, 1⟩
def zero : M3 K := ⟨0, 0, 0, 0, 0, 0, 0, 0, 0⟩
def add (A B : M3 K) : M3 K :=
  ⟨A.a00 + B.a00, A.a01 + B.a01, A.a02 + B.a02, A.a10 + B.a10, A.a11 + B.a11, A.a12 + B.a12,
   A.a20 + B.a20, A.a21 + B.a21, A.a22 + B.a22⟩
def smul (k : K) (A : M3 K) : M3 K :=
  ⟨k * A.a00, k * A.a01, k * A.a02, k * A.a10, k * A.a11, k * A.a12, k * A.a20, k * A.a21, k * A.a22⟩
def transpose (A : M3 K) : M3 K := ⟨A.a00, A.a10, A.a20, A.a01, A.a11, A.a21, A.a02, A.a12, A.a22⟩
def mul (A B : M3 K) : M3 K :=
  ⟨A.a00 * B.a00 + A.a01 * B.a10 + A.a02 * B.a20, A.a00 * B.a01 + A.a01 * B.a11 + A.a02 * B.a21,
   A.a00 * B.a02 + A.a01 * B.a12 + A.a02 * B.a22,
   A.a10 * B.a00 + A.a11 * B.a10 + A.a12 * B.a20, A.a10 * B.a01 + A.a11 * B.a11 + A.a12 * B.a21,
   A.a10 * B.a02 + A.a11 * B.a12 + A.a12 * B.a22,
   A.a20 * B.a00 + A.a21 * B.a10 + A.a22 * B.a20, A.a20 * B.a01 + A.a21 * B.a11 + A.a22 * B.a21,
   A.a20 * B.a02 + A.a21 * B.a12 + A.a22 * B.a22⟩
def det (A : M3 K) : K :=
  A.a00 * (A.a11 * A.a22 - A.a12 * A.a21) - A.a01 * (A.a10 * A.a22 - A.a12 * A.a20)
    + A.a02 * (A.a10 * A.a21 - A.a11 * A.a20)
/-- `tr(A·B)` -/
def trMul (A B : M3 K) : K :=
  A.a00 * B.a00 + A.a01 * B.a10 + A.a02 * B.a20 + A.a10 * B.a01 + A.a11 * B.a11 + A.a12 * B.a21
    + A.a20 * B.a02 + A.a21 * B.a12 + A.a22 * B.a22
end M3

/-- one row of `geom.dot(U)`: row vector times matrix -/
def rowMul (c : V3 K) (U : M3 K) : V3 K :=
  ⟨c.x * U.a00 + c.y * U.a10 + c.z * U.a20, c.x * U.a01 + c.y * U.a11 + c.z * U.a21,
   c.x * U.a02 + c.y * U.a12 + c.z * U.a22⟩

/-- `U.dot(v)`: matrix times column vector (align.py:496 `RR.dot(Rcentroid)`) -/
def matVec (U : M3 K) (v : V3 K) : V3 K :=
  ⟨U.a00 * v.x + U.a01 * v.y + U.a02 * v.z, U.a10 * v.x + U.a11 * v.y + U.a12 * v.z,
   U.a20 * v.x + U.a21 * v.y + U.a22 * v.z⟩

/-- `r ⊗ c`: contribution of one atom pair to `cov = Q.dot(P.T)` with `Q = R.T`, `P = C.T`
    (align.py:495,520): `cov[a,b] = Σ_i R[i,a]·C[i,b]` -/
def outer (r c : V3 K) : M3 K :=
  ⟨r.x * c.x, r.x * c.y, r.x * c.z, r.y * c.x, r.y * c.y, r.y * c.z, r.z * c.x, r.z * c.y, r.z * c.z⟩

/-- covariance of a list of (reference, concern) atom pairs -/
def cov : List (V3 K × V3 K) → M3 K
  | [] => M3.zero
  | (r, c) :: t => (outer r c).add (cov t)

/-- align.py:523-535 -/
def Fmat (cv : M3 K) : S4 K where
  f00 := cv.a00 + cv.a11 + cv.a22
  f11 := cv.a00 - cv.a11 - cv.a22
  f22 := -cv.a00 + cv.a11 - cv.a22
  f33 := -cv.a00 - cv.a11 + cv.a22
  f01 := cv.a12 - cv.a21
  f02 := cv.a20 - cv.a02
  f03 := cv.a01 - cv.a10
  f12 := cv.a01 + cv.a10
  f13 := cv.a02 + cv.a20
  f23 := cv.a12 + cv.a21

/-- align.py:542-552, entry by entry -/
def quatRot (q : Q4 K) : M3 K where
  a00 := q.q0 ^ 2 + q.q1 ^ 2 - q.q2 ^ 2 - q.q3 ^ 2
  a01 := 2 * (q.q1 * q.q2 - q.q0 * q.q3)
  a02 := 2 * (q.q1 * q.q3 + q.q0 * q.q2)
  a10 := 2 * (q.q1 * q.q2 + q.q0 * q.q3)
  a11 := q.q0 ^ 2 - q.q1 ^ 2 + q.q2 ^ 2 - q.q3 ^ 2
  a12 := 2 * (q.q2 * q.q3 - q.q0 * q.q1)
  a20 := 2 * (q.q1 * q.q3 - q.q0 * q.q2)
  a21 := 2 * (q.q2 * q.q3 + q.q0 * q.q1)
  a22 := q.q0 ^ 2 - q.q1 ^ 2 - q.q2 ^ 2 + q.q3 ^ 2

def Q4.nrm2 (q : Q4 K) : K := q.q0 ^ 2 + q.q1 ^ 2 + q.q2 ^ 2 + q.q3 ^ 2

/-- `qᵀ F q` -/
def quad (F : S4 K) (q : Q4 K) : K :=
  F.f00 * q.q0 ^ 2 + F.f11 * q.q1 ^ 2 + F.f22 * q.q2 ^ 2 + F.f33 * q.q3 ^ 2
    + 2 * (F.f01 * q.q0 * q.q1 + F.f02 * q.q0 * q.q2 + F.f03 * q.q0 * q.q3 + F.f12 * q.q1 * q.q2
      + F.f13 * q.q1 * q.q3 + F.f23 * q.q2 * q.q3)

/-- `s·I − F` -/
def shiftNeg (s : K) (F : S4 K) : S4 K :=
  ⟨s - F.f00, -F.f01, -F.f02, -F.f03, s - F.f11, -F.f12, -F.f13, s - F.f22, -F.f23, s - F.f33⟩

def vsum : List (V3 K) → V3 K
  | [] => V3.zero
  | v :: t => v.add (vsum t)

def sumNrm2 : List (V3 K) → K
  | [] => 0
  | v :: t => v.nrm2 + sumNrm2 t

/-- `Σ|r_i|²` over the paired atoms -/
def sumR2 : List (V3 K × V3 K) → K
  | [] => 0
  | (r, _) :: t => r.nrm2 + sumR2 t

/-- `Σ|c_i|²` over the paired atoms -/
def sumC2 : List (V3 K × V3 K) → K
  | [] => 0
  | (_, c) :: t => c.nrm2 + sumC2 t

/-- `Σ_i |r_i − c_i·U|²` : squared Frobenius norm of `R − C.dot(U)` (align.py:498-499) -/
def resid (U : M3 K) : List (V3 K × V3 K) → K
  | [] => 0
  | (r, c) :: t => (r.sub (rowMul c U)).nrm2 + resid U t

/-- squared Frobenius norm of `A − B` for two geometries (align.py:200,250) -/
def dist2 : List (V3 K) → List (V3 K) → K
  | a :: as, b :: bs => (a.sub b).nrm2 + dist2 as bs
  | _, _ => 0

/-- `AlignmentMill.align_coordinates(geom, reverse=False)` (models/align.py:70-87):
    mirror y, subtract shift, rotate (`.dot(rotation)`), then fancy-index by `atommap`.
    `none` = IndexError (negative indices, which numpy would wrap, are outside the model). -/
def alignCoords (mirror : Bool) (T : V3 K) (U : M3 K) (amap : List Nat) (geom : List (V3 K)) :
    Option (List (V3 K)) :=
  let g1 := if mirror then geom.map V3.mirrorY else geom
  let g2 := g1.map (fun v => rowMul (v.sub T) U)
  amap.mapM (fun i => g2[i]?)

/-! fraction-free elimination used by the positive-definiteness test -/

structure S3 (K : Type) where
  g00 : K
  g01 : K
  g02 : K
  g11 : K
  g12 : K
  g22 : K

structure S2 (K : Type) where
  h00 : K
  h01 : K
  h11 : K

/-- `m00·M' − m mᵀ` : fraction-free Schur complement of the (0,0) entry -/
def schur4 (M : S4 K) : S3 K :=
  ⟨M.f00 * M.f11 - M.f01 * M.f01, M.f00 * M.f12 - M.f01 * M.f02, M.f00 * M.f13 - M.f01 * M.f03,
   M.f00 * M.f22 - M.f02 * M.f02, M.f00 * M.f23 - M.f02 * M.f03, M.f00 * M.f33 - M.f03 * M.f03⟩

def schur3 (M : S3 K) : S2 K :=
  ⟨M.g00 * M.g11 - M.g01 * M.g01, M.g00 * M.g12 - M.g01 * M.g02, M.g00 * M.g22 - M.g02 * M.g02⟩

def schur2 (M : S2 K) : K := M.h00 * M.h11 - M.h01 * M.h01

end Ring

section Field
variable [Field K]

/-- `G.sum(axis=0) / N` (align.py:487-488) -/
def centroid (l : List (V3 K)) : V3 K :=
  let s := vsum l
  let n : K := (l.length : K)
  ⟨s.x / n, s.y / n, s.z / n⟩

def centre (l : List (V3 K)) : List (V3 K) := l.map (fun v => v.sub (centroid l))

structure KabschOut (K : Type) where
  shortcut : Bool
  /-- `RR` -/
  U : M3 K
  /-- `TT` -/
  T : V3 K
  /-- `‖R̃ − C̃·U‖²` ( = N·rmsd²/bohr2angstroms² ) -/
  res2 : K
  F : S4 K
  /-- `qᵀFq` -/
  lam : K
  n2 : K
  sr2 : K
  sc2 : K

variable [LinearOrder K]

/-- `np.array_equal(R, C)` (align.py:483; the shapes are already known to agree, align.py:109) -/
def geomEq : List (V3 K) → List (V3 K) → Bool
  | r :: rs, c :: cs => decide (r.x = c.x) && decide (r.y = c.y) && decide (r.z = c.z) && geomEq rs cs
  | [], [] => true
  | _, _ => false

/-- `kabsch_align(rgeom, cgeom, weight=None)` with the eigenvector `q` supplied (align.py:473-501). -/
def kabschAlign (R C : List (V3 K)) (q : Q4 K) : KabschOut K :=
  let Rt := centre R
  let Ct := centre C
  let pairs := Rt.zip Ct
  let F := Fmat (cov pairs)
  if geomEq R C then
    -- align.py:483-486 "can hit a mixed non-identity translation/rotation, so head off (only when exactly equal …)"
    { shortcut := true, U := M3.one, T := V3.zero, res2 := 0, F := F, lam := quad F q, n2 := q.nrm2,
      sr2 := sumR2 pairs, sc2 := sumC2 pairs }
  else
    let U := quatRot q
    { shortcut := false, U := U, T := (centroid C).sub (matVec U (centroid R)), res2 := resid U pairs,
      F := F, lam := quad F q, n2 := q.nrm2, sr2 := sumR2 pairs, sc2 := sumC2 pairs }

/-! ## certificate checker: fraction-free elimination test for positive definiteness -/

def posDef2 (M : S2 K) : Bool := decide (0 < M.h00) && decide (0 < schur2 M)
def posDef3 (M : S3 K) : Bool := decide (0 < M.g00) && posDef2 (schur3 M)
/-- all four (fraction-free) pivots positive -/
def posDef4 (M : S4 K) : Bool := decide (0 < M.f00) && posDef3 (schur4 M)

/-- certificate: `| |q|² − 1 | ≤ δ` and `(qᵀFq + ε)·I − F` passes the exact pivot test -/
def isTopEig (F : S4 K) (q : Q4 K) (δ ε : K) : Bool :=
  decide (|q.nrm2 - 1| ≤ δ) && posDef4 (shiftNeg (quad F q + ε) F)

end Field

end QcelVerif.Kabsch
