import QcelVerif.Model.B787
/-!
# C12 — ASTs for `filter_permutative` and for the best-so-far blocks of the `B787` trial loop (core Lean only)

`harness/c12_src.py` re-reads `qcelemental/molutil/align.py` on every run and writes `Gen/B787Src.lean`:
`filter : PermFilter` (align.py:330-344) and `loopBody : LoopBody` (align.py:188-241).  This file gives the terms their
meaning; `Props/C12Src.lean` proves the meaning equal to the hand model `Model/B787.lean` for all inputs.
-/
namespace QcelVerif.B787Ast
open QcelVerif.B787

/-! ## filter_permutative -/

inductive SeqE where
  | rgp
  | cgp
  | pm
  /-- `s[1:]` -/
  | tail (s : SeqE)
deriving Repr

inductive MatE where
  | rr
  | cc
deriving Repr

/-- `[mat[a, b] for a, b in zip(fst, snd)]` -/
structure ChainE where
  mat : MatE
  fst : SeqE
  snd : SeqE
deriving Repr

inductive ListName where
  | bnbn
  | cncn
deriving Repr

/-- `bnbn = …; for pm in itertools.permutations(permOf): cncn = …; if np.allclose(closeA, closeB, atol=…): yield yields` -/
structure PermFilter where
  bnbn : ChainE
  permOf : SeqE
  cncn : ChainE
  closeA : ListName
  closeB : ListName
  yields : SeqE
deriving Repr

structure SeqEnv where
  rgp : List Nat
  cgp : List Nat
  /-- the loop variable (empty outside the loop: the translator refuses `pm` there) -/
  pm : List Nat

def SeqE.eval (e : SeqEnv) : SeqE → List Nat
  | .rgp => e.rgp
  | .cgp => e.cgp
  | .pm => e.pm
  | .tail s => (s.eval e).tail

/-- `[D[a, b] for a, b in zip(xs, ys)]`; a missing matrix entry is an IndexError (`none`) -/
def zipDists (D : List (List Rat)) : List Nat → List Nat → Option (List Rat)
  | a :: as, b :: bs => do
    let row ← D[a]?
    let d ← row[b]?
    let rest ← zipDists D as bs
    pure (d :: rest)
  | _, _ => some []

def ChainE.eval (RR CC : List (List Rat)) (e : SeqEnv) (c : ChainE) : Option (List Rat) :=
  zipDists (match c.mat with | .rr => RR | .cc => CC) (c.fst.eval e) (c.snd.eval e)

def pickList (bn cn : List Rat) : ListName → List Rat
  | .bnbn => bn
  | .cncn => cn

/-- meaning of the translated `filter_permutative(rgp, cgp)` -/
def PermFilter.eval (f : PermFilter) (rtol atol : Rat) (RR CC : List (List Rat)) (rgp cgp : List Nat) : List (List Nat) :=
  match f.bnbn.eval RR CC ⟨rgp, cgp, []⟩ with
  | none => []
  | some bn =>
    ((perms (f.permOf.eval ⟨rgp, cgp, []⟩)).filter (fun pm =>
      match f.cncn.eval RR CC ⟨rgp, cgp, pm⟩ with
      | none => false
      | some cn => allcloseL rtol atol (pickList bn cn f.closeA) (pickList bn cn f.closeB))).map
      (fun pm => f.yields.eval ⟨rgp, cgp, pm⟩)

/-- `_plausible_atom_orderings(…, algorithm='permutative')` with the translated filter in place of the hand-written one
    (the class bookkeeping around it is the hand model's) -/
def candidatesSrc (f : PermFilter) (rtol atol : Rat) (ref cur : List Nat) (RR CC : List (List Rat)) :
    Except Err (List (List Nat)) :=
  if !(ref.isPerm cur) then .error .validation
  else
    let keys := firstSeen ref
    let wheres := keys.map (fun k => positions k ref)
    let gens := keys.map (fun k => f.eval rtol atol RR CC (positions k ref) (positions k cur))
    .ok ((product gens).filterMap (fun cpmut => assemble ref.length (wheres.zip cpmut)))

/-! ## the best-so-far blocks of the trial loop -/

inductive Var where
  | tempRmsd
  | bestRmsd
  | holdSolution
  | tempSolution
  | aConvergence
deriving Repr, DecidableEq

inductive CmpOp where
  | lt
  | le
  | gt
  | ge
deriving Repr

structure Cmp where
  op : CmpOp
  lhs : Var
  rhs : Var
deriving Repr

/-- `if test: assigns…; if not run_to_completion and brk: break` -/
structure UpdBlock where
  test : Cmp
  assigns : List (Var × Var)
  brk : Option Cmp
deriving Repr

structure LoopBody where
  /-- `mirror=` literal of the AlignmentMill built by the plain trial -/
  plainMirror : Bool
  plain : UpdBlock
  mirMirror : Bool
  mir : UpdBlock
deriving Repr

/-- the local variables the blocks read and write; solutions are (candidate index, mirror flag) -/
structure Locals where
  temp : Int
  best : Int
  hold : Option (Nat × Bool)
  tempSol : Nat × Bool
  aconv : Int

/-- numeric value of a variable (`none` for the two solution objects) -/
def Locals.num (l : Locals) : Var → Option Int
  | .tempRmsd => some l.temp
  | .bestRmsd => some l.best
  | .aConvergence => some l.aconv
  | _ => none

def CmpOp.eval : CmpOp → Int → Int → Bool
  | .lt, a, b => decide (a < b)
  | .le, a, b => decide (a ≤ b)
  | .gt, a, b => decide (a > b)
  | .ge, a, b => decide (a ≥ b)

/-- comparing anything but two numbers is outside the AST's meaning (`none`) -/
def Cmp.eval (l : Locals) (c : Cmp) : Option Bool := do
  let a ← l.num c.lhs
  let b ← l.num c.rhs
  pure (c.op.eval a b)

/-- one assignment `x = y`; only the two forms that type-check are given a meaning -/
def assign1 (l : Locals) : Var × Var → Option Locals
  | (.bestRmsd, y) => (l.num y).map (fun v => { l with best := v })
  | (.holdSolution, .tempSolution) => some { l with hold := some l.tempSol }
  | (.holdSolution, .holdSolution) => some l
  | _ => none

def assignAll : Locals → List (Var × Var) → Option Locals
  | l, [] => some l
  | l, a :: t => (assign1 l a).bind (fun l' => assignAll l' t)

/-- meaning of one translated block on the model's state: new state and `true` = break; `none` = ill-typed block -/
def UpdBlock.eval (b : UpdBlock) (cfg : Cfg) (st : State) (i : Nat) (m : Bool) (v : Int) : Option (State × Bool) :=
  let st := { st with ocount := st.ocount + 1 }
  let l : Locals := { temp := v, best := st.best, hold := st.sel, tempSol := (i, m), aconv := cfg.aconv }
  match b.test.eval l with
  | none => none
  | some false => some (st, false)
  | some true =>
    match assignAll l b.assigns with
    | none => none
    | some l' =>
      let st' : State := { st with best := l'.best, sel := l'.hold }
      match b.brk with
      | none => some (st', false)
      | some c =>
        match c.eval l' with
        | none => none
        | some r => some (st', !cfg.runToCompletion && r)

/-- the trial loop with the translated blocks (iteration over the candidate list, `ocount`, the guard
    `run_mirror and not superimposable` — demanded verbatim by the translator — as in the hand model) -/
def loopSrc (B : LoopBody) (cfg : Cfg) : Nat → List Trial → State → Option State
  | _, [], st => some st
  | i, t :: ts, st =>
    match B.plain.eval cfg st i B.plainMirror t.plain with
    | none => none
    | some (st1, true) => some st1
    | some (st1, false) =>
      if mirrorOn cfg then
        match B.mir.eval cfg st1 i B.mirMirror t.mir with
        | none => none
        | some (st2, true) => some st2
        | some (st2, false) => loopSrc B cfg (i + 1) ts st2
      else loopSrc B cfg (i + 1) ts st1

inductive RunSrc where
  | ok (st : State)
  | err (e : Err)
  /-- the translated block is ill-typed (only a mutated source can produce this) -/
  | illTyped
deriving Repr, DecidableEq

def runSrc (B : LoopBody) (cfg : Cfg) (trials : List Trial) : RunSrc :=
  match loopSrc B cfg 0 trials init with
  | none => .illTyped
  | some st =>
    match st.sel with
    | none => .err .noSolution
    | some _ => .ok st

end QcelVerif.B787Ast
