import QcelVerif.Model.AssignCert
/-
C14 — executable model of `qcelemental/util/scipy_hungarian.py` (core Lean only).

`solve` follows `linear_sum_assignment(cost_matrix, return_cost=True)` line by line:
validation (lines 93-104), transposition of tall matrices (106-111), the `_Hungary` state
(135-158), the state machine `_step1 … _step6` (165-296) with numpy's tie-breaking
(`np.nonzero` row-major, `np.argmax` = first maximum) and the final read-out (122-132).
Arithmetic is exact (`Rat`): on matrices whose float arithmetic is exact (integers, small dyadic
fractions) the model's step trace must equal the implementation's bit for bit.

Loops that are `while True` in Python run on fuel here; running out of fuel is an *error value*
(`Err.fuel`), never a default.  Termination of Munkres is not proved.
-/
namespace QcelVerif.Munkres
open QcelVerif.Assign

abbrev Mat (α : Type) := Array (Array α)

/-- one array entry as numpy sees it -/
inductive Entry where
  | fin (q : Rat)
  | posInf
  | negInf
  | nan
  deriving Repr, BEq, DecidableEq

instance : Inhabited Entry := ⟨.fin 0⟩

/-- `cost_matrix.dtype` classes the validation distinguishes -/
inductive DType where
  | float   -- np.floating
  | int     -- np.integer
  | bool    -- np.bool_  (line 103: astype(int))
  | other   -- str / object / anything that is not np.number or bool
  deriving Repr, DecidableEq

inductive Err where
  | ndim        -- line 94-95   ValueError("expected a matrix (2-d array) ...")
  | dtype       -- line 97-98   ValueError("expected a matrix containing numerical entries ...")
  | nonfinite   -- line 100-101 ValueError("matrix contains invalid numeric entries")
  | fuel        -- a `while` loop exceeded the model's fuel (no Python counterpart: would hang)
  | index       -- IndexError writing `path[count]` beyond its n+m rows (line 259/268)
  deriving Repr, DecidableEq

structure Input where
  ndim : Nat
  n : Nat
  m : Nat
  dt : DType
  /-- `n` rows of `m` entries (meaningful when `ndim = 2` and `dt ≠ other`) -/
  ent : Mat Entry

/-- `_Hungary` (lines 135-158); always in the wide orientation `n ≤ m` -/
structure State where
  C : Mat Rat
  rowUnc : Array Bool
  colUnc : Array Bool
  marked : Mat Nat            -- 0 plain, 1 starred, 2 primed
  z0r : Nat
  z0c : Nat
  /-- `path[k] = (row, col)`; `col` may be −1 (line 266) -/
  path : Array (Nat × Int)
  deriving Repr, BEq

inductive Step where
  | s1 | s3 | s4 | s5 | s6
  deriving Repr, BEq, DecidableEq

def Step.name : Step → String
  | .s1 => "1" | .s3 => "3" | .s4 => "4" | .s5 => "5" | .s6 => "6"

/-! ### small array helpers -/

def get2 {α} [Inhabited α] (M : Mat α) (i j : Nat) : α := (M.getD i #[]).getD j default
def set2 {α} (M : Mat α) (i j : Nat) (x : α) : Mat α := M.modify i (fun r => r.set! j x)
def nrows {α} (M : Mat α) : Nat := M.size
def ncols {α} (M : Mat α) : Nat := (M.getD 0 #[]).size

/-- `M.T` for an `n × m` matrix (shape passed explicitly so that 0-length axes survive) -/
def transpose {α} [Inhabited α] (n m : Nat) (M : Mat α) : Mat α :=
  (Array.range m).map fun j => (Array.range n).map fun i => get2 M i j

/-- `np.argmax(a == x)`: first index where the predicate holds, 0 if none -/
def firstIdx {α} (p : α → Bool) (a : Array α) : Nat := (a.findIdx? p).getD 0

def minR (a b : Rat) : Rat := if b < a then b else a

/-- `r.min()` of a non-empty row -/
def rowMin (r : Array Rat) : Rat := r.foldl minR (r.getD 0 0)

/-- `np.argmax` of the flattened matrix (first occurrence of the maximum) as `(row, col, value)`;
the matrix is non-empty whenever this is called. -/
def argmaxFlat (M : Mat Nat) : Nat × Nat × Nat := Id.run do
  let mut best : Nat × Nat × Nat := (0, 0, get2 M 0 0)
  for i in [0:M.size] do
    let r := M.getD i #[]
    for j in [0:r.size] do
      if best.2.2 < r.getD j 0 then best := (i, j, r.getD j 0)
  return best

/-- numpy index normalisation for `marked[r, c]` with `c = -1` -/
def wrapIdx (m : Nat) (c : Int) : Nat := if c < 0 then (Int.ofNat m + c).toNat else c.toNat

/-! ### the steps -/

/-- `_Hungary.__init__` -/
def initState (n m : Nat) (cost : Mat Rat) : State :=
  { C := cost
    rowUnc := Array.replicate n true
    colUnc := Array.replicate m true
    marked := Array.replicate n (Array.replicate m 0)
    z0r := 0, z0c := 0
    path := Array.replicate (n + m) (0, 0) }

def clearCovers (s : State) : State :=
  { s with rowUnc := Array.replicate s.rowUnc.size true, colUnc := Array.replicate s.colUnc.size true }

/-- `_step1` (lines 165-181): subtract row minima; star zeros greedily in row-major order. -/
def step1 (s : State) : State × Option Step :=
  let C := s.C.map fun r => let mn := rowMin r; r.map (· - mn)
  let s' : State := Id.run do
    let mut mk := s.marked
    let mut ru := s.rowUnc
    let mut cu := s.colUnc
    for i in [0:C.size] do
      for j in [0:(C.getD i #[]).size] do
        if get2 C i j == 0 && cu.getD j false && ru.getD i false then
          mk := set2 mk i j 1
          cu := cu.set! j false
          ru := ru.set! i false
    return { s with C := C, marked := mk, rowUnc := ru, colUnc := cu }
  (clearCovers s', some .s3)

/-- `_step3` (lines 184-194): cover starred columns; done when every row has a star. -/
def step3 (s : State) : State × Option Step :=
  let colU := s.colUnc.mapIdx fun j b => if s.marked.any (fun r => r.getD j 0 == 1) then false else b
  let stars := s.marked.foldl (fun a r => a + r.countP (· == 1)) 0
  ({ s with colUnc := colU }, if stars < s.C.size then some .s4 else none)

/-- the `while True` of `_step4` (lines 212-231).  `Cz` is `(C == 0).astype(int)`, `cov` is
`covered_C`.  Each pass that does not return covers a previously uncovered row, so `n + 1` fuel
is enough whenever the Python loop terminates the same way. -/
def step4Loop : Nat → Mat Nat → Mat Nat → State → Except Err (State × Option Step)
  | 0, _, _, _ => .error .fuel
  | f + 1, Cz, cov, s =>
    let (row, col, val) := argmaxFlat cov
    if val == 0 then .ok (s, some .s6)
    else
      let marked := set2 s.marked row col 2
      let starCol := firstIdx (· == 1) (marked.getD row #[])
      if get2 marked row starCol != 1 then
        .ok ({ s with marked := marked, z0r := row, z0c := col }, some .s5)
      else
        let rowU := s.rowUnc.set! row false
        let colU := s.colUnc.set! starCol true
        -- covered_C[:, col] = C[:, col] * row_uncovered
        let cov := cov.mapIdx fun i r => r.set! starCol (get2 Cz i starCol * (if rowU.getD i false then 1 else 0))
        -- covered_C[row] = 0
        let cov := cov.set! row (Array.replicate (cov.getD row #[]).size 0)
        step4Loop f Cz cov { s with marked := marked, rowUnc := rowU, colUnc := colU }

/-- `_step4` (lines 197-231) -/
def step4 (s : State) : Except Err (State × Option Step) :=
  let Cz : Mat Nat := s.C.map fun r => r.map fun x => if x == 0 then 1 else 0
  let cov : Mat Nat := Cz.mapIdx fun i r =>
    r.mapIdx fun j z => z * (if s.rowUnc.getD i false then 1 else 0) * (if s.colUnc.getD j false then 1 else 0)
  step4Loop (s.C.size + 1) Cz cov s

/-- `path[count] = v` with Python's bounds check -/
def pathSet (path : Array (Nat × Int)) (k : Nat) (v : Nat × Int) : Except Err (Array (Nat × Int)) :=
  if k < path.size then .ok (path.set! k v) else .error .index

/-- the `while True` of `_step5` (lines 250-269); returns `(count, path)` -/
def step5Loop (marked : Mat Nat) (m : Nat) :
    Nat → Nat → Array (Nat × Int) → Except Err (Nat × Array (Nat × Int))
  | 0, _, _ => .error .fuel
  | f + 1, count, path =>
    let pc := wrapIdx m (path.getD count (0, 0)).2
    -- first starred element in the column of the path's last entry
    let row := firstIdx (· == 1) (marked.map fun r => r.getD pc 0)
    if get2 marked row pc != 1 then .ok (count, path)
    else do
      let count := count + 1
      let path ← pathSet path count (row, (path.getD (count - 1) (0, 0)).2)
      -- first primed element in that row
      let prow := (path.getD count (0, 0)).1
      let col := firstIdx (· == 2) (marked.getD prow #[])
      let col' : Int := if get2 marked row col != 2 then -1 else Int.ofNat col
      let count := count + 1
      let path ← pathSet path count ((path.getD (count - 1) (0, 0)).1, col')
      step5Loop marked m f count path

/-- `_step5` (lines 234-281): flip stars along the alternating path, clear covers and primes. -/
def step5 (s : State) : Except Err (State × Option Step) := do
  let m := s.colUnc.size
  let path0 ← pathSet s.path 0 (s.z0r, Int.ofNat s.z0c)
  let (count, path) ← step5Loop s.marked m (s.rowUnc.size + m + 1) 0 path0
  let marked := Id.run do
    let mut mk := s.marked
    for i in [0:count + 1] do
      let p := path.getD i (0, 0)
      let c := wrapIdx m p.2
      if get2 mk p.1 c == 1 then mk := set2 mk p.1 c 0 else mk := set2 mk p.1 c 1
    return mk
  let marked := marked.map fun r => r.map fun x => if x == 2 then 0 else x
  return (clearCovers { s with marked := marked, path := path }, some .s3)

/-- `_step6` (lines 284-296) -/
def step6 (s : State) : State × Option Step :=
  if s.rowUnc.any id && s.colUnc.any id then
    -- np.min(C[row_uncovered], axis=0) then np.min(…[col_uncovered]) = min over uncovered × uncovered
    let vals : Array Rat := Id.run do
      let mut acc : Array Rat := #[]
      for i in [0:s.C.size] do
        if s.rowUnc.getD i false then
          let r := s.C.getD i #[]
          for j in [0:r.size] do
            if s.colUnc.getD j false then acc := acc.push (r.getD j 0)
      return acc
    let minval := rowMin vals
    let C := s.C.mapIdx fun i r => r.mapIdx fun j x =>
      let x1 := if s.rowUnc.getD i false then x else x + minval     -- C[~row_uncovered] += minval
      if s.colUnc.getD j false then x1 - minval else x1             -- C[:, col_uncovered] -= minval
    ({ s with C := C }, some .s4)
  else (s, some .s4)

def doStep (st : Step) (s : State) : Except Err (State × Option Step) :=
  match st with
  | .s1 => .ok (step1 s)
  | .s3 => .ok (step3 s)
  | .s4 => step4 s
  | .s5 => step5 s
  | .s6 => .ok (step6 s)

/-- `while step is not None: step = step(state)` (lines 119-120), recording the trace -/
def runSteps : Nat → Step → State → Array (Step × State) → Except Err (State × Array (Step × State))
  | 0, _, _, _ => .error .fuel
  | f + 1, st, s, tr =>
    match doStep st s with
    | .error e => .error e
    | .ok (s', next) =>
      let tr := tr.push (st, s')
      match next with
      | none => .ok (s', tr)
      | some st' => runSteps f st' s' tr

structure Output where
  n : Nat
  m : Nat
  /-- `np.nonzero(marked == 1)` zipped -/
  pairs : Pairs
  /-- `reduced_cost`, in the caller's orientation (`n × m`) -/
  red : Mat Rat
  trace : Array (Step × State)

/-- `not (np.isinf(x) | np.isnan(x))` -/
def Entry.isFinite : Entry → Bool
  | .fin _ => true
  | _ => false

/-- the value of a finite entry (0 for the others; never consulted for them) -/
def Entry.val : Entry → Rat
  | .fin q => q
  | _ => 0

/-- `not np.any(np.isinf(cost_matrix) | np.isnan(cost_matrix))` (line 100) -/
def Input.allFinite (inp : Input) : Bool :=
  inp.ent.toList.all fun r => r.toList.all Entry.isFinite

/-- row-major `np.nonzero(M == 1)` -/
def starPairs (M : Mat Nat) : Pairs := Id.run do
  let mut acc : Array (Nat × Nat) := #[]
  for i in [0:M.size] do
    let r := M.getD i #[]
    for j in [0:r.size] do
      if r.getD j 0 == 1 then acc := acc.push (i, j)
  return acc.toList

def stepFuel (n m : Nat) : Nat := 4 * (n + m) * (n + m) * (n + m) + 16

/-- lines 113-120 on a matrix already in the wide orientation (`n ≤ m`): build the state, run the
state machine unless an axis has length 0 -/
def solveWide (n m : Nat) (cost : Mat Rat) : Except Err (State × Array (Step × State)) :=
  let s0 := initState n m cost
  if n == 0 || m == 0 then .ok (s0, #[]) else runSteps (stepFuel n m) .s1 s0 #[]

/-- `linear_sum_assignment(cost_matrix, return_cost=True)` -/
def solve (inp : Input) : Except Err Output :=
  if inp.ndim != 2 then .error .ndim
  else if inp.dt = .other then .error .dtype
  else if !inp.allFinite then .error .nonfinite
  else
    -- bool → int is the identity on values (line 103-104)
    let cost : Mat Rat := inp.ent.map fun r => r.map Entry.val
    let n := inp.n
    let m := inp.m
    if m < n then
      -- lines 107-109 and 122-124: work on the transpose, transpose `marked` and `C` back
      match solveWide m n (transpose n m cost) with
      | .error e => .error e
      | .ok (s, tr) =>
        .ok { n := n, m := m, pairs := starPairs (transpose m n s.marked), red := transpose m n s.C, trace := tr }
    else
      match solveWide n m cost with
      | .error e => .error e
      | .ok (s, tr) => .ok { n := n, m := m, pairs := starPairs s.marked, red := s.C, trace := tr }

/-- function view of a stored matrix -/
def matFn (M : Mat Rat) : Nat → Nat → Rat := fun i j => get2 M i j

/-- the cost matrix of an input as exact rationals -/
def Input.costFn (inp : Input) : Nat → Nat → Rat := fun i j => (get2 inp.ent i j).val

/-- The certifying solver: Munkres, then the proved certificate check on its answer. -/
inductive CErr where
  | solver (e : Err)
  | notCertified
  deriving Repr, BEq, DecidableEq

def solveChecked (inp : Input) : Except CErr Output :=
  match solve inp with
  | .error e => .error (.solver e)
  | .ok o => if certOK inp.n inp.m inp.costFn (matFn o.red) o.pairs then .ok o else .error .notCertified

end QcelVerif.Munkres
