import QcelVerif.Model.RadiiFactor
/-
C17 — a small statement / expression language for the LOOKUP LOGIC of the radii classes, and its interpreter.

`harness/c17_src.py` re-reads, on every run, the bodies of
  * `CovalentRadii.get`, `VanderWaalsRadii.get`        (covalent_radii.py / vanderwaals_radii.py)
  * `Datum.to_units`                                    (datum.py)
  * `CovalentRadii.__init__`, `VanderWaalsRadii.__init__` (the row loop, the `aliases` list, the alias loop)
and prints them, statement by statement, as terms of `Stmt` / `Expr` / `InitSpec` below
(`Gen/RadiiSrc.lean`).  Nothing is interpreted by the translator: an `if` stays an `if`, `x is not None`
stays `isNotNone`, a bare name in a condition stays a truthiness test, `a and b` stays `and`.

The interpreter gives these terms their Python meaning over the value domain `V`.  The periodic-table
accessor `periodictable.to_E`, the dictionary of the radius set (`key in self.cr.keys()`, `self.cr[key]`)
and `constants.conversion_factor` are NAMED PRIMITIVES — exactly the parameters of the hand model
(`PT.Tables.toE`, `hasLabel`, `lookupK`, `convF`); floats are exact rationals of doubles, `*` is `fmul`
and `float(Decimal)` is `ofDec` (Model/RadiiF64.lean), as in the hand model.

Core Lean only (the driver imports this file).
-/
namespace QcelVerif.Radii.Src
open QcelVerif QcelVerif.PStr QcelVerif.PT QcelVerif.Radii

/-- what can be raised -/
inductive Exn where
  | keyError            -- `self.cr[identifier]` without such a key (caught by `except KeyError`)
  | notAnElement        -- raised by `periodictable.to_E`
  | dataUnavailable     -- `raise DataUnavailableError(...)`
  | conv                -- `constants.conversion_factor` raised
  | assertion           -- a failing `assert`
  | stuck               -- a type error / a construct applied to a value outside the model
  deriving DecidableEq, Repr

/-- Python values in the scope of these bodies -/
inductive V where
  | none
  | bool (b : Bool)
  | int (i : Int)
  | str (s : Bytes)
  /-- a `str` known by its packed key (what C01's `to_E` model returns) -/
  | sym (k : Nat)
  | flt (x : Rat)
  | dec (neg : Bool) (coeff : Nat) (exp : Int)
  | arr (xs : List Rat)
  | datum (d : Datum)
  deriving DecidableEq, Repr

inductive Field where
  | label | units | data
  deriving DecidableEq, Repr

inductive Expr where
  | var (i : Nat)
  | none
  | litFalse
  | litTrue
  /-- a string literal -/
  | str (s : Bytes)
  /-- `e.<field>` of a Datum -/
  | attr (e : Expr) (f : Field)
  /-- `e in self.<table>.keys()` -/
  | inKeys (e : Expr)
  /-- `periodictable.to_E(e)` -/
  | toE (e : Expr)
  /-- `self.<table>[e]` -/
  | tableGet (e : Expr)
  | isNone (e : Expr)
  | isNotNone (e : Expr)
  | isFalse (e : Expr)
  | isTrue (e : Expr)
  | not (e : Expr)
  | and (a b : Expr)
  | or (a b : Expr)
  /-- `isinstance(e, str)` -/
  | isStr (e : Expr)
  /-- `isinstance(e, Decimal)` -/
  | isDecimal (e : Expr)
  /-- `e.to_units(u)` -/
  | toUnits (e u : Expr)
  /-- `constants.conversion_factor(a, b)` -/
  | convFactor (a b : Expr)
  /-- `float(e)` -/
  | pyFloat (e : Expr)
  | mul (a b : Expr)
  /-- `a if c else b` -/
  | ifExp (c a b : Expr)
  deriving Repr

inductive Stmt where
  | pass
  | assign (i : Nat) (e : Expr)
  | ret (e : Expr)
  | raise (x : Exn)
  | assert (e : Expr)
  | ite (c : Expr) (a b : Stmt)
  | seq (a b : Stmt)
  /-- `try: body  except KeyError [as e]: handler` -/
  | tryKeyError (body handler : Stmt)
  deriving Repr

abbrev Env := Nat → V

def Env.set (env : Env) (i : Nat) (v : V) : Env := fun k => if k = i then v else env k

/-- Python truthiness -/
def V.truthy : V → Bool
  | .none => false
  | .bool b => b
  | .int i => i != 0
  | .str s => !s.isEmpty
  | .sym k => k != 1          -- `pack [] = 1`
  | .flt x => x != 0
  | .dec _ c _ => c != 0
  | .arr _ => true            -- (ambiguous for arrays of length > 1: not used as a condition in the translated bodies)
  | .datum _ => true

def payloadV : Payload → V
  | .dec n c e => .dec n c e
  | .flt x => .flt x
  | .arr xs => .arr xs

/-- the primitives the bodies are interpreted over -/
structure Prims where
  /-- `periodictable.to_E(atom)` (`none` = NotAnElementError) -/
  toE : PyVal → Option Nat
  /-- `key in self.<table>.keys()` for a `str` -/
  hasLabel : Bytes → Bool
  /-- `self.<table>[key]`, key packed -/
  lookupK : Nat → Option Datum
  /-- `constants.conversion_factor(src, dst)` (`none` = it raised) -/
  convF : Bytes → Bytes → Option Rat
  /-- `Datum.to_units` as seen from `get` (the translated body of datum.py, or nothing inside `to_units` itself) -/
  toUnits : Datum → V → Except Exn V

def eval (P : Prims) (env : Env) : Expr → Except Exn V
  | .var i => .ok (env i)
  | .none => .ok .none
  | .litFalse => .ok (.bool false)
  | .litTrue => .ok (.bool true)
  | .str s => .ok (.str s)
  | .attr e f =>
    match eval P env e with
    | .error x => .error x
    | .ok (.datum d) =>
      match f with
      | .label => .ok (.str d.label)
      | .units => .ok (.str d.units)
      | .data => .ok (payloadV d.data)
    | .ok _ => .error .stuck
  | .inKeys e =>
    match eval P env e with
    | .error x => .error x
    | .ok (.str s) => .ok (.bool (P.hasLabel s))
    | .ok (.int _) => .ok (.bool false)            -- an int never equals a str key
    | .ok _ => .error .stuck
  | .toE e =>
    match eval P env e with
    | .error x => .error x
    | .ok (.str s) => match P.toE (.str s) with | some k => .ok (.sym k) | none => .error .notAnElement
    | .ok (.int i) => match P.toE (.int i) with | some k => .ok (.sym k) | none => .error .notAnElement
    | .ok _ => .error .stuck
  | .tableGet e =>
    match eval P env e with
    | .error x => .error x
    | .ok (.str s) => match P.lookupK (pack s) with | some d => .ok (.datum d) | none => .error .keyError
    | .ok (.sym k) => match P.lookupK k with | some d => .ok (.datum d) | none => .error .keyError
    | .ok (.int _) => .error .keyError
    | .ok _ => .error .stuck
  | .isNone e =>
    match eval P env e with
    | .error x => .error x
    | .ok v => .ok (.bool (v == .none))
  | .isNotNone e =>
    match eval P env e with
    | .error x => .error x
    | .ok v => .ok (.bool (v != .none))
  | .isFalse e =>
    match eval P env e with
    | .error x => .error x
    | .ok v => .ok (.bool (v == .bool false))
  | .isTrue e =>
    match eval P env e with
    | .error x => .error x
    | .ok v => .ok (.bool (v == .bool true))
  | .not e =>
    match eval P env e with
    | .error x => .error x
    | .ok v => .ok (.bool (!v.truthy))
  | .and a b =>
    match eval P env a with
    | .error x => .error x
    | .ok v => if v.truthy then eval P env b else .ok v
  | .or a b =>
    match eval P env a with
    | .error x => .error x
    | .ok v => if v.truthy then .ok v else eval P env b
  | .isStr e =>
    match eval P env e with
    | .error x => .error x
    | .ok (.str _) => .ok (.bool true)
    | .ok (.sym _) => .ok (.bool true)
    | .ok _ => .ok (.bool false)
  | .isDecimal e =>
    match eval P env e with
    | .error x => .error x
    | .ok (.dec _ _ _) => .ok (.bool true)
    | .ok _ => .ok (.bool false)
  | .toUnits e u =>
    match eval P env e with
    | .error x => .error x
    | .ok (.datum d) =>
      match eval P env u with
      | .error x => .error x
      | .ok uv => P.toUnits d uv
    | .ok _ => .error .stuck
  | .convFactor a b =>
    match eval P env a with
    | .error x => .error x
    | .ok (.str sa) =>
      match eval P env b with
      | .error x => .error x
      | .ok (.str sb) => match P.convF sa sb with | some f => .ok (.flt f) | none => .error .conv
      | .ok _ => .error .conv                       -- pint refuses a non-string target (e.g. None)
    | .ok _ => .error .stuck
  | .pyFloat e =>
    match eval P env e with
    | .error x => .error x
    | .ok (.dec n c ex) => .ok (.flt (ofDec n c ex))
    | .ok (.flt x) => .ok (.flt x)
    | .ok _ => .error .stuck
  | .mul a b =>
    match eval P env a with
    | .error x => .error x
    | .ok (.flt f) =>
      match eval P env b with
      | .error x => .error x
      | .ok (.flt x) => .ok (.flt (fmul f x))
      | .ok (.arr xs) => .ok (.arr (xs.map (fmul f)))
      | .ok _ => .error .stuck                      -- float * Decimal is a TypeError
    | .ok _ => .error .stuck
  | .ifExp c a b =>
    match eval P env c with
    | .error x => .error x
    | .ok v => if v.truthy then eval P env a else eval P env b

/-- result of a statement: the environment afterwards and the returned value, if `return` was executed -/
def exec (P : Prims) : Stmt → Env → Except Exn (Env × Option V)
  | .pass, env => .ok (env, Option.none)
  | .assign i e, env =>
    match eval P env e with
    | .error x => .error x
    | .ok v => .ok (env.set i v, Option.none)
  | .ret e, env =>
    match eval P env e with
    | .error x => .error x
    | .ok v => .ok (env, some v)
  | .raise x, _ => .error x
  | .assert e, env =>
    match eval P env e with
    | .error x => .error x
    | .ok v => if v.truthy then .ok (env, Option.none) else .error .assertion
  | .ite c a b, env =>
    match eval P env c with
    | .error x => .error x
    | .ok v => if v.truthy then exec P a env else exec P b env
  | .seq a b, env =>
    match exec P a env with
    | .error x => .error x
    | .ok (env', some v) => .ok (env', some v)
    | .ok (env', Option.none) => exec P b env'
  | .tryKeyError body handler, env =>
    match exec P body env with
    | .error .keyError => exec P handler env    -- (assignments made in `body` before the raise: none in the translated shapes that the handler reads)
    | r => r

/-- a function call: run the body, falling off the end returns `None` -/
def call (P : Prims) (body : Stmt) (env : Env) : Except Exn V :=
  match exec P body env with
  | .error x => .error x
  | .ok (_, some v) => .ok v
  | .ok (_, Option.none) => .ok .none

/-- what `get` / `to_units` hand back, as the hand model's `Out` -/
def toOut : V → Except Exn Out
  | .flt x => .ok (.value x)
  | .arr xs => .ok (.values xs)
  | .datum d => .ok (.datum d)
  | _ => .error .stuck

/-- the result of a call as `get` / `to_units` hand it back -/
def outOf : Except Exn V → Except Exn Out
  | .error x => .error x
  | .ok v => toOut v

def emptyEnv : Env := fun _ => .none

def optBytesV : Option Bytes → V
  | some s => .str s
  | Option.none => .none
def optRatV : Option Rat → V
  | some x => .flt x
  | Option.none => .none
def atomV : PyVal → V
  | .int i => .int i
  | .str s => .str s

/-- `Datum.to_units(units)` through the translated body: variables 0 = self, 1 = units -/
def runToUnitsV (body : Stmt) (convF : Bytes → Bytes → Option Rat) (d : Datum) (units : V) : Except Exn V :=
  call { toE := fun _ => Option.none, hasLabel := fun _ => false, lookupK := fun _ => Option.none, convF := convF,
         toUnits := fun _ _ => .error .stuck } body ((emptyEnv.set 0 (.datum d)).set 1 units)

def runToUnits (body : Stmt) (convF : Bytes → Bytes → Option Rat) (d : Datum) (units : Option Bytes) : Except Exn Out :=
  outOf (runToUnitsV body convF d (optBytesV units))

/-- the primitives of `get`: C01's `to_E`, the dictionary of the radius set, `conversion_factor`, and
`Datum.to_units` as the translated body of datum.py -/
def getPrims (toUnitsBody : Stmt) (T : Tables) (t : Table) (convF : Bytes → Bytes → Option Rat) : Prims :=
  { toE := fun x => T.toE x false, hasLabel := hasLabel t, lookupK := lookupK t, convF := convF,
    toUnits := runToUnitsV toUnitsBody convF }

/-- `<set>.get(atom, return_tuple=…, units=…, missing=…)` through the translated bodies:
variables 0 = self (unused), 1 = atom, 2 = return_tuple, 3 = units, 4 = missing -/
def runGet (getBody toUnitsBody : Stmt) (T : Tables) (t : Table) (convF : Bytes → Bytes → Option Rat)
    (a : PyVal) (returnTuple : Bool) (units : Bytes) (missing : Option Rat) : Except Exn Out :=
  outOf (call (getPrims toUnitsBody T t convF) getBody
          ((((emptyEnv.set 1 (atomV a)).set 2 (.bool returnTuple)).set 3 (.str units)).set 4 (optRatV missing)))

/-- the hand model's errors inside the interpreter's -/
def liftErr : Except Err Out → Except Exn Out
  | .ok o => .ok o
  | .error .NotAnElement => .error .notAnElement
  | .error .DataUnavailable => .error .dataUnavailable
  | .error .Conv => .error .conv

/-! ### `__init__`: the row loop, the `aliases` list and the alias loop -/

/-- a component of a data row / an alias tuple -/
inductive FV where
  | s (b : Bytes)
  | pay (p : Payload)
  deriving DecidableEq, Repr

/-- argument expressions of the `Datum(...)` calls and of the dictionary key -/
inductive FieldE where
  /-- `row[i]` (the loop variable indexed, or the i-th name of the tuple unpacking) -/
  | item (i : Nat)
  /-- `Decimal(e)` -/
  | decimal (e : FieldE)
  /-- `e.capitalize()` -/
  | capitalize (e : FieldE)
  | nativeUnits     -- `self.native_units`
  | doi             -- `self.doi`
  deriving DecidableEq, Repr

/-- `Datum(label, units, data, comment=…?, doi=…?)` -/
structure DatumCall where
  label : FieldE
  units : FieldE
  data : FieldE
  comment : Option FieldE
  doi : Option FieldE
  deriving DecidableEq, Repr

/-- `for row in …: self.<table>[key] = Datum(…)` -/
structure Loop where
  key : FieldE
  ctor : DatumCall
  deriving DecidableEq, Repr

/-- an element of an `aliases` tuple: a string literal or `self.<table>["label"].data` -/
inductive AliasE where
  | str (s : Bytes)
  | tableData (label : Bytes)
  deriving DecidableEq, Repr

structure InitSpec where
  rowLoop : Loop
  aliases : List (List AliasE)
  aliasLoop : Option Loop
  deriving DecidableEq, Repr

def evalF (units doi : Bytes) (row : List FV) : FieldE → Option FV
  | .item i => row[i]?
  | .decimal e =>
    match evalF units doi row e with
    | some (.s b) => (parseDec b).map fun cs => .pay (.dec false cs.1 (-(cs.2 : Int)))
    | _ => Option.none
  | .capitalize e =>
    match evalF units doi row e with
    | some (.s b) => some (.s (PStr.capitalize b))
    | _ => Option.none
  | .nativeUnits => some (.s units)
  | .doi => some (.s doi)

def evalStr (units doi : Bytes) (row : List FV) (e : FieldE) : Option Bytes :=
  match evalF units doi row e with
  | some (.s b) => some b
  | _ => Option.none

/-- a keyword that is not passed stays unset (`none`); one that is passed must evaluate to a `str` -/
def evalOptStr (units doi : Bytes) (row : List FV) : Option FieldE → Option (Option Bytes)
  | Option.none => some Option.none
  | some e => (evalStr units doi row e).map some

def evalDatum (units doi : Bytes) (row : List FV) (c : DatumCall) : Option Datum := do
  let l ← evalStr units doi row c.label
  let u ← evalStr units doi row c.units
  let d ← match evalF units doi row c.data with
    | some (.pay p) => some p
    | _ => Option.none
  let cm ← evalOptStr units doi row c.comment
  let di ← evalOptStr units doi row c.doi
  pure { label := l, units := u, data := d, comment := cm, doi := di }

/-- one pass of a loop body: the (key, Datum) assignment -/
def evalLoop (units doi : Bytes) (lp : Loop) (row : List FV) : Option (Bytes × Datum) := do
  let k ← evalStr units doi row lp.key
  let d ← evalDatum units doi row lp.ctor
  pure (k, d)

/-- a data row as the tuple the file holds: 2 or 3 strings -/
def rowFV (r : Bytes × Bytes × Option Bytes) : List FV :=
  match r.2.2 with
  | some c => [.s r.1, .s r.2.1, .s c]
  | Option.none => [.s r.1, .s r.2.1]

def evalAliasE (base : Table) : AliasE → Option FV
  | .str s => some (.s s)
  | .tableData l => (lookupB base l).map fun d => .pay d.data

/-- `__init__`: the row loop, then the `aliases` list evaluated on the table so far, then the alias loop -/
def runInit (spec : InitSpec) (units doi : Bytes) (rows : List (Bytes × Bytes × Option Bytes)) : Option Table := do
  let base ← rows.mapM fun r => evalLoop units doi spec.rowLoop (rowFV r)
  match spec.aliasLoop with
  | Option.none => if spec.aliases.isEmpty then pure base else Option.none
  | some lp =>
    let tuples ← spec.aliases.mapM fun tp => tp.mapM (evalAliasE base)
    let al ← tuples.mapM fun tp => evalLoop units doi lp tp
    pure (base ++ al)

end QcelVerif.Radii.Src
