/-!
A small regular-expression AST and a generic backtracking matcher with CPython `re` semantics
(ordered alternation, greedy / lazy repetition with backtracking, capturing groups that keep the text of
their last completed iteration, conditional on a group, anchors).  Core Lean only, no property specifics:
the AST terms are *generated* from CPython's own parse tree (`re._parser.parse`) by a translator
(see `harness/c06.py:gen_nucleus_regex` -> `Gen/NucleusRegex.lean`).

Strings are byte lists (`List Nat`, ASCII): `\d`, `\w`, `\s` are the ASCII parts of CPython's Unicode
categories, and IGNORECASE is folded into the character classes by the translator (ASCII case pairs).

Two presentations of the same semantics:
  * `Re.bt`  — continuation-passing backtracking matcher (what the drivers run; stops at the first success)
  * `Re.ms`  — every way to match, as the list of resulting states in the order a backtracking matcher
               explores them (what the proofs reason about)
`Lemmas/RegexEngine.lean` proves `bt r k st = (ms r st).findSome? k` for every `r`, `k`, `st`.

Totality: a repetition entered with `n` characters left runs on fuel `n + 1`.  Every iteration of a body
that cannot match the empty string consumes a character (`ms_lt`), so the budget never truncates: any larger
budget gives the same matches (`rep_fuel_irrelevant`), for every repetition of an AST with `Re.wf` (no
repetition of a nullable body — the translator refuses to emit one, because CPython's treatment of empty
iterations is not modelled).
-/
namespace QcelVerif.Regex


/-! ## character classes (ASCII) -/

inductive Item where
  | ch (c : Nat)
  | range (lo hi : Nat)
  | digit | notDigit
  | word | notWord
  | space | notSpace
  deriving Repr, DecidableEq

def isDigitC (c : Nat) : Bool := 48 ≤ c && c ≤ 57
def isAlphaC (c : Nat) : Bool := (65 ≤ c && c ≤ 90) || (97 ≤ c && c ≤ 122)
def isWordC (c : Nat) : Bool := isAlphaC c || isDigitC c || c == 95
/-- `str.isspace()` on ASCII: \t \n \v \f \r, FS GS RS US, space -/
def isSpaceC (c : Nat) : Bool := (9 ≤ c && c ≤ 13) || (28 ≤ c && c ≤ 32)

def Item.mem : Item → Nat → Bool
  | .ch a, c => c == a
  | .range lo hi, c => lo ≤ c && c ≤ hi
  | .digit, c => isDigitC c
  | .notDigit, c => !isDigitC c
  | .word, c => isWordC c
  | .notWord, c => !isWordC c
  | .space, c => isSpaceC c
  | .notSpace, c => !isSpaceC c

/-- `[items]` / `[^items]` -/
def clsMem (neg : Bool) (items : List Item) (c : Nat) : Bool := (items.any fun i => i.mem c) != neg

/-! ## the AST -/

inductive Re where
  | eps
  | fail
  /-- one character of a (possibly negated) class; literals are one-item classes -/
  | cls (neg : Bool) (items : List Item)
  | seq (a b : Re)
  /-- ordered alternation: `a` is tried first -/
  | alt (a b : Re)
  /-- `r{lo,hi}` (`hi = none`: unbounded); greedy or lazy -/
  | rep (lo : Nat) (hi : Option Nat) (greedy : Bool) (r : Re)
  /-- capturing group number `i` -/
  | group (i : Nat) (r : Re)
  /-- `(?(i)yes|no)` -/
  | ifGroup (i : Nat) (yes no : Re)
  /-- `\A` (and `^` without MULTILINE) -/
  | bos
  /-- `\Z` -/
  | eos
  /-- `$` without MULTILINE: at the end or before a final newline -/
  | eolFinal
  /-- `^` with MULTILINE -/
  | bolMulti
  /-- `$` with MULTILINE -/
  | eolMulti
  /-- `\b` / `\B` -/
  | wordB (neg : Bool)
  deriving Repr, DecidableEq

/-! ## matcher state -/

abbrev Caps := List (Nat × List Nat)

structure St where
  /-- the character before the cursor; `none` at the start of the string -/
  prev : Option Nat
  /-- the text from the cursor on -/
  rest : List Nat
  /-- captures, most recently completed first -/
  caps : Caps
  deriving Repr, DecidableEq

def St.init (s : List Nat) : St := ⟨none, s, []⟩

/-- text of group `i` (`none`: did not participate) -/
def St.group (st : St) (i : Nat) : Option (List Nat) := st.caps.lookup i

/-- the text consumed between two cursors of the same string -/
def takeDiff (s0 s1 : List Nat) : List Nat := s0.take (s0.length - s1.length)

def St.capture (i : Nat) (st0 st1 : St) : St := { st1 with caps := (i, takeDiff st0.rest st1.rest) :: st1.caps }

def atWordB (st : St) : Bool :=
  (match st.prev with | some c => isWordC c | none => false) != (match st.rest with | c :: _ => isWordC c | [] => false)

/-- zero-width tests -/
def holdsAt : Re → St → Bool
  | .bos, st => st.prev.isNone
  | .eos, st => st.rest.isEmpty
  | .eolFinal, st => st.rest.isEmpty || st.rest == [10]
  | .bolMulti, st => st.prev.isNone || st.prev == some 10
  | .eolMulti, st => st.rest.isEmpty || st.rest.head? == some 10
  | .wordB neg, st => atWordB st != neg
  | _, _ => false

/-- one character -/
def stepCls (neg : Bool) (items : List Item) (st : St) : Option St :=
  match st.rest with
  | c :: t => if clsMem neg items c then some { st with prev := some c, rest := t } else none
  | [] => none

def decHi : Option Nat → Option Nat
  | some n => some (n - 1)
  | none => none

/-! ## backtracking matcher (continuation passing) -/

def orElseL {α} (x : Option α) (y : Unit → Option α) : Option α :=
  match x with
  | some v => some v
  | none => y ()

/-- `body{lo,hi}` then `k` -/
def repBt {α} (body : (St → Option α) → St → Option α) (lo : Nat) (hi : Option Nat) (greedy : Bool) :
    Nat → (St → Option α) → St → Option α
  | 0, k, st => if lo = 0 then k st else none
  | fuel + 1, k, st =>
    let more : Unit → Option α := fun _ =>
      if hi = some 0 then none else body (fun st' => repBt body (lo - 1) (decHi hi) greedy fuel k st') st
    let stop : Unit → Option α := fun _ => if lo = 0 then k st else none
    if greedy then orElseL (more ()) stop else orElseL (stop ()) more

def Re.bt {α} : Re → (St → Option α) → St → Option α
  | .eps, k, st => k st
  | .fail, _, _ => none
  | .cls neg items, k, st => match stepCls neg items st with | some st' => k st' | none => none
  | .seq a b, k, st => Re.bt a (fun st' => Re.bt b k st') st
  | .alt a b, k, st => orElseL (Re.bt a k st) fun _ => Re.bt b k st
  | .rep lo hi g r, k, st => repBt (fun k' st' => Re.bt r k' st') lo hi g (st.rest.length + 1) k st
  | .group i r, k, st => Re.bt r (fun st' => k (St.capture i st st')) st
  | .ifGroup i y n, k, st => if (st.group i).isSome then Re.bt y k st else Re.bt n k st
  | .bos, k, st => if holdsAt .bos st then k st else none
  | .eos, k, st => if holdsAt .eos st then k st else none
  | .eolFinal, k, st => if holdsAt .eolFinal st then k st else none
  | .bolMulti, k, st => if holdsAt .bolMulti st then k st else none
  | .eolMulti, k, st => if holdsAt .eolMulti st then k st else none
  | .wordB neg, k, st => if holdsAt (.wordB neg) st then k st else none

/-! ## list-of-successes semantics -/

def repMs (body : St → List St) (lo : Nat) (hi : Option Nat) (greedy : Bool) : Nat → St → List St
  | 0, st => if lo = 0 then [st] else []
  | fuel + 1, st =>
    let more := if hi = some 0 then [] else (body st).flatMap fun st' => repMs body (lo - 1) (decHi hi) greedy fuel st'
    let stop := if lo = 0 then [st] else []
    if greedy then more ++ stop else stop ++ more

def Re.ms : Re → St → List St
  | .eps, st => [st]
  | .fail, _ => []
  | .cls neg items, st => (stepCls neg items st).toList
  | .seq a b, st => (Re.ms a st).flatMap fun st' => Re.ms b st'
  | .alt a b, st => Re.ms a st ++ Re.ms b st
  | .rep lo hi g r, st => repMs (fun st' => Re.ms r st') lo hi g (st.rest.length + 1) st
  | .group i r, st => (Re.ms r st).map fun st' => St.capture i st st'
  | .ifGroup i y n, st => if (st.group i).isSome then Re.ms y st else Re.ms n st
  | .bos, st => if holdsAt .bos st then [st] else []
  | .eos, st => if holdsAt .eos st then [st] else []
  | .eolFinal, st => if holdsAt .eolFinal st then [st] else []
  | .bolMulti, st => if holdsAt .bolMulti st then [st] else []
  | .eolMulti, st => if holdsAt .eolMulti st then [st] else []
  | .wordB neg, st => if holdsAt (.wordB neg) st then [st] else []

/-! ## well-formedness: what the translator guarantees -/

/-- can match the empty string (syntactic over-approximation: conditionals and anchors count as nullable) -/
def Re.nullable : Re → Bool
  | .eps => true
  | .fail => false
  | .cls _ _ => false
  | .seq a b => a.nullable && b.nullable
  | .alt a b => a.nullable || b.nullable
  | .rep lo _ _ r => lo == 0 || r.nullable
  | .group _ r => r.nullable
  | .ifGroup _ y n => y.nullable || n.nullable
  | _ => true

/-- no repetition of a nullable body -/
def Re.wf : Re → Bool
  | .seq a b => a.wf && b.wf
  | .alt a b => a.wf && b.wf
  | .rep _ _ _ r => !r.nullable && r.wf
  | .group _ r => r.wf
  | .ifGroup _ y n => y.wf && n.wf
  | _ => true

/-! ## the `re` entry points -/

/-- `re.compile(p).match(s)`: the state after the match (cursor + captures) -/
def Re.matchPrefix (r : Re) (s : List Nat) : Option St := r.bt some (St.init s)

/-- `re.compile(p).fullmatch(s)` -/
def Re.fullMatch (r : Re) (s : List Nat) : Option St :=
  r.bt (fun st => if st.rest.isEmpty then some st else none) (St.init s)

/-- `re.compile(p).search(s)`: (start offset, state after the match) for the leftmost start that matches -/
def searchFrom (r : Re) : Nat → Option Nat → List Nat → Option (Nat × St)
  | pos, prev, [] => (r.bt some ⟨prev, [], []⟩).map fun st => (pos, st)
  | pos, prev, c :: t =>
    match r.bt some ⟨prev, c :: t, []⟩ with
    | some st => some (pos, st)
    | none => searchFrom r (pos + 1) (some c) t

def Re.search (r : Re) (s : List Nat) : Option (Nat × St) := searchFrom r 0 none s

end QcelVerif.Regex
