import QcelVerif.Model.RadiiAst
import QcelVerif.Model.RadiiShipped
import QcelVerif.Gen.RadiiSrc
/-! C17 — the source-derived lookup functions: the bodies regenerated from `/repo` (`Gen/RadiiSrc.lean`) run through
the interpreter of `Model/RadiiAst.lean`.  Core Lean only (the driver imports this file); the equalities with the hand
model are in `Props/C17Src.lean`. -/
namespace QcelVerif.Radii.Src
open QcelVerif QcelVerif.PStr QcelVerif.PT QcelVerif.Radii QcelVerif.Gen.RadiiSrc

/-- `Datum.to_units(units)` as the source has it -/
def srcToUnits (convF : Bytes → Bytes → Option Rat) (d : Datum) (units : Option Bytes) : Except Exn Out :=
  runToUnits toUnitsBody convF d units

/-- `CovalentRadii.get` as the source has it (`units = none`: keyword omitted, the source's default applies) -/
def srcCovGet (T : Tables) (t : Table) (convF : Bytes → Bytes → Option Rat) (a : PyVal) (rt : Bool)
    (units : Option Bytes) (missing : Option Rat) : Except Exn Out :=
  runGet covGetBody toUnitsBody T t convF a rt (units.getD covDefaultUnits) missing

/-- `VanderWaalsRadii.get` as the source has it -/
def srcVdwGet (T : Tables) (t : Table) (convF : Bytes → Bytes → Option Rat) (a : PyVal) (rt : Bool)
    (units : Option Bytes) (missing : Option Rat) : Except Exn Out :=
  runGet vdwGetBody toUnitsBody T t convF a rt (units.getD vdwDefaultUnits) missing

/-- the dictionaries the source's `__init__` builds from the shipped data files -/
def srcCovLoaded : Option Table := runInit covInit Gen.Radii.covUnits Gen.Radii.covDoi Gen.Radii.covRows
def srcVdwLoaded : Option Table := runInit vdwInit Gen.Radii.vdwUnits Gen.Radii.vdwDoi Gen.Radii.vdwRows
def srcCov : Table := srcCovLoaded.getD []
def srcVdw : Table := srcVdwLoaded.getD []

end QcelVerif.Radii.Src
