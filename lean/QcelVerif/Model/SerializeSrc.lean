import QcelVerif.Model.Serialize
import QcelVerif.Model.JsonText
import QcelVerif.Model.SerializeAst
import QcelVerif.Gen.SerializeSrc
/-!
C10 — evaluator of the statement / expression AST of `Model/SerializeAst.lean` on the model's own value trees (`Val`),
and the SOURCE-DERIVED encoders / decoders / dispatch built from `Gen/SerializeSrc.lean` (the translation of
`qcelemental/util/serialization.py`, regenerated on every run).  Core Lean only (the driver imports this file).

What is interpreted from the source: the order of statements and `if`/`elif` arms, each condition, the dict literals
(key spelling, key kind `str` / `bytes`, key ORDER), which primitive is applied to what in which order, the
`try: return pydantic_encoder(obj) / except TypeError: pass` guard, the fall-through `return obj`, `raise`, `assert`,
the callee and keyword arguments of every wrapper, the `encoding.lower()` dispatch chains.

What stays a stated PRIMITIVE (numpy / bytes / pydantic / CPython semantics, `primApply` below): `x.shape`,
`x.dtype.str`, `np.ascontiguousarray`, `.tobytes()`, `.hex()`, `bytes.fromhex`, `np.frombuffer`, `arr.shape = …`,
`.ravel()`, `.tolist()`, `len`, ASCII `str.lower`, `==`, `in`, `>`, `isinstance`, truthiness; `pydantic_encoder(x)` and
`json.JSONEncoder.default(self, x)` raise `TypeError` on every `Val` (a `Val` tree is what is left after pydantic's
`.dict()`: no model, set, enum, … survives into it).  The third-party packers (`json.dumps(cls=…)`,
`msgpack.dumps(default=…)`, `…loads(object_hook=…)`) are the walkers `walkD` / `decW` / `mpDecW` below, parameterised by
the source-derived hook: native nodes are kept, containers are walked, a non-native leaf (ndarray) is handed to `default`,
every completed map is handed to the object hook bottom-up.
-/
namespace QcelVerif.Ser.Src
open QcelVerif.Ser QcelVerif.Ser.Ast

inductive Exc where
  | typeError                 -- `TypeError` of pydantic_encoder / JSONEncoder.default (object not serialisable)
  | hook (e : HookErr)        -- KeyError / ValueError / TypeError inside a decoder, classed as the hand model classes them
  | raised (exc : String)     -- an explicit `raise exc(…)`
  | assertion                 -- a failed `assert`
  | flatDtype                 -- `.tolist()` of an element kind outside the flat model (f2 f4 c8 c16 U S)
  | unsupported               -- a construct / argument combination without semantics here
deriving Repr, BEq, DecidableEq

abbrev Env := List (String × Val)

def lookupVar (x : String) : Env → Option Val
  | [] => none
  | (k, v) :: t => if k = x then some v else lookupVar x t

/-- a shape tuple as a value: msgpack writes a tuple as an array, json as a list -/
def shapeVal (shape : List Nat) : Val := .arr (shape.map fun (n : Nat) => Val.int (n : Int))

/-- Python truthiness where it is unambiguous -/
def truthy : Val → Option Bool
  | .nil => some false
  | .bool b => some b
  | .int i => some (decide (i ≠ 0))
  | .str s => some (!s.isEmpty)
  | .bin s => some (!s.isEmpty)
  | .arr l => some (!l.isEmpty)
  | .map l => some (!l.isEmpty)
  | .f64 _ => none
  | .nd _ _ _ => none           -- truth value of an array: ambiguous / deprecated

/-- `a == b` on the scalars the source compares -/
def pyEq : Val → Val → Bool
  | .str a, .str b => decide (a = b)
  | .bin a, .bin b => decide (a = b)
  | .int a, .int b => decide (a = b)
  | .bool a, .bool b => decide (a = b)
  | .nil, .nil => true
  | _, _ => false

def lookupB (key : Bytes) : List (Val × Val) → Option Val
  | [] => none
  | (k, v) :: t => if isBinKey key k then some v else lookupB key t

def lookupS (key : Bytes) : List (Val × Val) → Option Val
  | [] => none
  | (k, v) :: t => if isStrKey key k then some v else lookupS key t

/-- `d[k]` / `k in d` for a `bytes` or `str` key -/
def lookupKey (k : Val) (l : List (Val × Val)) : Option Val :=
  match k with
  | .bin kb => lookupB kb l
  | .str ks => lookupS ks l
  | _ => none

/-- `d[k] = v` on a dict that does not hold `k` yet appends (insertion order); an existing key keeps its place -/
def dictSet (k v : Val) : List (Val × Val) → List (Val × Val)
  | [] => [(k, v)]
  | (k', v') :: t => if pyEq k' k then (k', v) :: t else (k', v') :: dictSet k v t

def lowerByte (b : UInt8) : UInt8 := if 65 ≤ b.toNat ∧ b.toNat ≤ 90 then UInt8.ofNat (b.toNat + 32) else b

/-- `np.frombuffer(buf, dtype=dt)` as the hand model classes its outcomes -/
def frombuffer (buf dt : Val) : Except Exc Val :=
  match buf, dt with
  | .bin data, .str dt =>
    match itemsize dt with
    | none => .error (.hook .badBuffer)
    | some 0 => .error (.hook .badBuffer)
    | some isz =>
      if data.length % isz ≠ 0 then .error (.hook .badBuffer) else .ok (.nd dt [data.length / isz] data)
  | _, _ => .error (.hook .badBuffer)

/-- `arr.shape = s` -/
def setShape (arr s : Val) : Except Exc Val :=
  match arr with
  | .nd dt old data =>
    match s with
    | .arr sv =>
      match shapeOfVals sv with
      | some shape => if prodL shape = prodL old then .ok (.nd dt shape data) else .error (.hook .badShape)
      | none => .error (.hook .badShape)
    | _ => .error (.hook .badShape)
  | _ => .error .unsupported

/-- `bytes.fromhex(x)` -/
def fromhex : Val → Except Exc Val
  | .str hx =>
    match unhex (bytesToChars hx) with
    | some d => .ok (.bin d)
    | none => .error (.hook .badBuffer)
  | _ => .error (.hook .badBuffer)

/-- `x.tolist()`: rank 1 → the element list; rank 0 → the one element (decays to a scalar); higher ranks (nested lists)
are not reached by the source and have no semantics here -/
def tolist : Val → Except Exc Val
  | .nd dt [_] data =>
    match elemsOf dt data with
    | some l => .ok (.arr l)
    | none => .error .flatDtype
  | .nd dt [] data =>
    match elemsOf dt data with
    | some [x] => .ok x
    | _ => .error .flatDtype
  | _ => .error .unsupported

def isinstanceOf (cls : String) (v : Val) : Except Exc Val :=
  if cls = "np.ndarray" then .ok (.bool (match v with | .nd _ _ _ => true | _ => false))
  else if cls = "str" then .ok (.bool (match v with | .str _ => true | _ => false))
  else if cls = "bytes" then .ok (.bool (match v with | .bin _ => true | _ => false))
  else if cls = "(str, bytes)" then .ok (.bool (match v with | .str _ => true | .bin _ => true | _ => false))
  else .error .unsupported

def prim1 (p : Prim) (a : Val) : Except Exc Val :=
  match p with
  | .pydanticEncoder => .error .typeError
  | .jsonDefault => .error .typeError
  | .shape => (match a with | .nd _ shape _ => .ok (shapeVal shape) | _ => .error .unsupported)
  | .dtypeStr => (match a with | .nd dt _ _ => .ok (.str dt) | _ => .error .unsupported)
  | .ascontiguous => (match a with | .nd dt s d => .ok (.nd dt s d) | _ => .error .unsupported)
  | .tobytes => (match a with | .nd _ _ d => .ok (.bin d) | _ => .error .unsupported)
  | .hex => (match a with | .bin b => .ok (.str (hexBytes b)) | _ => .error .unsupported)
  | .fromhex => fromhex a
  | .ravel => (match a with | .nd dt shape d => .ok (.nd dt [prodL shape] d) | _ => .error .unsupported)
  | .tolist => tolist a
  | .len => (match a with | .arr l => .ok (.int l.length) | _ => .error .unsupported)
  | .lower => (match a with | .str s => .ok (.str (s.map lowerByte)) | _ => .error .unsupported)
  | .isinstance cls => isinstanceOf cls a
  | _ => .error .unsupported

def prim2 (p : Prim) (a b : Val) : Except Exc Val :=
  match p with
  | .frombuffer => frombuffer a b
  | .getitem =>
    (match a with
     | .map l => (match lookupKey b l with | some v => .ok v | none => .error (.hook .keyData))
     | _ => .error .unsupported)
  | .contains =>
    (match b with
     | .map l => .ok (.bool (lookupKey a l).isSome)
     | .arr l => .ok (.bool (l.any (pyEq a)))
     | _ => .error .unsupported)
  | .gt => (match a, b with | .int x, .int y => .ok (.bool (decide (x > y))) | _, _ => .error .unsupported)
  | .eq => .ok (.bool (pyEq a b))
  | _ => .error .unsupported

def primApply (p : Prim) : List Val → Except Exc Val
  | [a] => prim1 p a
  | [a, b] => prim2 p a b
  | _ => .error .unsupported

mutual
  def evalE (env : Env) : Expr → Except Exc Val
    | .var n => (match lookupVar n env with | some v => .ok v | none => .error .unsupported)
    | .ref _ => .error .unsupported
    | .str s => .ok (.str (asciiBytes s))
    | .bytes s => .ok (.bin (asciiBytes s))
    | .bool b => .ok (.bool b)
    | .nat n => .ok (.int (n : Int))
    | .list l => (match evalEs env l with | .ok vs => .ok (.arr vs) | .error x => .error x)
    | .dict kv => (match evalKV env kv with | .ok l => .ok (.map l) | .error x => .error x)
    | .prim p args => (match evalEs env args with | .ok vs => primApply p vs | .error x => .error x)
    | .call _ _ _ => .error .unsupported
  def evalEs (env : Env) : List Expr → Except Exc (List Val)
    | [] => .ok []
    | e :: t =>
      match evalE env e with
      | .error x => .error x
      | .ok v => (match evalEs env t with | .error x => .error x | .ok vs => .ok (v :: vs))
  def evalKV (env : Env) : List (Expr × Expr) → Except Exc (List (Val × Val))
    | [] => .ok []
    | (k, e) :: t =>
      match evalE env k with
      | .error x => .error x
      | .ok kv =>
        match evalE env e with
        | .error x => .error x
        | .ok v => (match evalKV env t with | .error x => .error x | .ok l => .ok ((kv, v) :: l))
end

/-- how a statement list ends -/
inductive Flow where
  | next (env : Env)                                                    -- fell off the end
  | returned (v : Val)                                                  -- `return <value>`
  | tail (fn : String) (args : List Val) (kw : List (String × Expr))    -- `return fn(args, kw…)`: a call handed on

def excMatches (name : String) : Exc → Bool
  | .typeError => name = "TypeError"
  | _ => false

mutual
  def execS (env : Env) : Stmt → Except Exc Flow
    | .ret (.call fn args kw) =>
      (match evalEs env args with | .ok vs => .ok (.tail fn vs kw) | .error x => .error x)
    | .ret e => (match evalE env e with | .ok v => .ok (.returned v) | .error x => .error x)
    | .assign x e => (match evalE env e with | .ok v => .ok (.next ((x, v) :: env)) | .error x => .error x)
    | .setItem x k e =>
      (match evalE env e with
       | .error er => .error er
       | .ok v =>
         match evalE env k with
         | .error er => .error er
         | .ok kv =>
           match lookupVar x env with
           | some (.map l) => .ok (.next ((x, .map (dictSet kv v l)) :: env))
           | _ => .error .unsupported)
    | .setAttr x a e =>
      (match evalE env e with
       | .error er => .error er
       | .ok v =>
         if a = "shape" then
           match lookupVar x env with
           | some arr => (match setShape arr v with | .ok arr' => .ok (.next ((x, arr') :: env)) | .error er => .error er)
           | none => .error .unsupported
         else .error .unsupported)
    | .ite c t f =>
      (match evalE env c with
       | .error x => .error x
       | .ok cv =>
         match truthy cv with
         | none => .error .unsupported
         | some true => execL env t
         | some false => execL env f)
    | .tryRet e exc =>
      (match evalE env e with
       | .ok v => .ok (.returned v)
       | .error x => if excMatches exc x then .ok (.next env) else .error x)
    | .raise exc => .error (.raised exc)
    | .assert_ c =>
      (match evalE env c with
       | .error x => .error x
       | .ok cv =>
         match truthy cv with
         | some true => .ok (.next env)
         | some false => .error .assertion
         | none => .error .unsupported)
    | .exprStmt (.call fn _ _) => if fn = "which_import" then .ok (.next env) else .error .unsupported
    | .exprStmt _ => .error .unsupported
  def execL (env : Env) : List Stmt → Except Exc Flow
    | [] => .ok (.next env)
    | s :: t =>
      match execS env s with
      | .error x => .error x
      | .ok (.next env') => execL env' t
      | .ok fl => .ok fl
end

def bindArgs : List String → List Val → Env
  | p :: ps, v :: vs => (p, v) :: bindArgs ps vs
  | _, _ => []

/-- run a function whose result is a value -/
def runFn (f : FnDef) (args : List Val) : Except Exc Val :=
  match execL (bindArgs f.params args) f.body with
  | .error x => .error x
  | .ok (.returned v) => .ok v
  | .ok (.next _) => .ok .nil
  | .ok (.tail _ _ _) => .error .unsupported

/-- run a function that ends by handing on a call: (callee, evaluated positional arguments, keyword arguments) -/
def runTail (f : FnDef) (args : List Val) : Except Exc (String × List Val × List (String × Expr)) :=
  match execL (bindArgs f.params args) f.body with
  | .error x => .error x
  | .ok (.tail fn vs kw) => .ok (fn, vs, kw)
  | .ok _ => .error .unsupported

/-! ## the third-party walkers, parameterised by the hook -/

mutual
  /-- `json.dumps(v, cls=E)` / `msgpack.dumps(v, default=d)`: which tree reaches the native writer -/
  def walkD (d : Val → Except Exc Val) : Val → Except Exc Val
    | .arr l => (match walkDL d l with | .ok l' => .ok (.arr l') | .error x => .error x)
    | .map l => (match walkDP d l with | .ok l' => .ok (.map l') | .error x => .error x)
    | .nd dt shape data => d (.nd dt shape data)
    | .nil => .ok .nil
    | .bool b => .ok (.bool b)
    | .int i => .ok (.int i)
    | .f64 b => .ok (.f64 b)
    | .str s => .ok (.str s)
    | .bin b => .ok (.bin b)
  def walkDL (d : Val → Except Exc Val) : List Val → Except Exc (List Val)
    | [] => .ok []
    | v :: t =>
      match walkD d v with
      | .error x => .error x
      | .ok v' => (match walkDL d t with | .ok t' => .ok (v' :: t') | .error x => .error x)
  def walkDP (d : Val → Except Exc Val) : List (Val × Val) → Except Exc (List (Val × Val))
    | [] => .ok []
    | (k, v) :: t =>
      match walkD d v with
      | .error x => .error x
      | .ok v' => (match walkDP d t with | .ok t' => .ok ((k, v') :: t') | .error x => .error x)
end

mutual
  /-- `json.loads(text, object_hook=h)` on the parsed tree: `h` applied bottom-up to every object -/
  def decW (h : List (Val × Val) → Except Exc Val) : Val → Except Exc Val
    | .arr l => (match decWL h l with | .ok l' => .ok (.arr l') | .error x => .error x)
    | .map l => (match decWP h l with | .ok l' => h l' | .error x => .error x)
    | .nd dt shape data => .ok (.nd dt shape data)
    | .nil => .ok .nil
    | .bool b => .ok (.bool b)
    | .int i => .ok (.int i)
    | .f64 b => .ok (.f64 b)
    | .str s => .ok (.str s)
    | .bin b => .ok (.bin b)
  def decWL (h : List (Val × Val) → Except Exc Val) : List Val → Except Exc (List Val)
    | [] => .ok []
    | v :: t =>
      match decW h v with
      | .error x => .error x
      | .ok v' => (match decWL h t with | .ok t' => .ok (v' :: t') | .error x => .error x)
  def decWP (h : List (Val × Val) → Except Exc Val) : List (Val × Val) → Except Exc (List (Val × Val))
    | [] => .ok []
    | (k, v) :: t =>
      match decW h v with
      | .error x => .error x
      | .ok v' => (match decWP h t with | .ok t' => .ok ((k, v') :: t') | .error x => .error x)
end

/-! ## the source-derived hooks -/

def findDef (name : String) : List FnDef → Option FnDef
  | [] => none
  | f :: t => if f.name = name then some f else findDef name t

/-- a `default=` / `cls=…default` hook named in the source, as a function on leaves -/
def defaultHook (f : FnDef) (v : Val) : Except Exc Val := runFn f [v]

/-- an `object_hook=` named in the source, as a function on completed maps -/
def objectHook (f : FnDef) (l : List (Val × Val)) : Except Exc Val := runFn f [.map l]

/-- which native writer / reader a wrapper ends in -/
inductive Lib where
  | jsonDumps | msgpackDumps | jsonLoads | msgpackLoads
deriving Repr, BEq, DecidableEq

/-- resolve a wrapper (`json_dumps`, …): its third-party call and the hook function the keyword arguments name.
`json.dumps` must get `cls=` alone, `msgpack.dumps` `default=` and `use_bin_type=True`, `json.loads` `object_hook=`
alone, `msgpack.loads` `object_hook=` and `raw=False` — anything else has no semantics here -/
def resolveWrapper (defs : List FnDef) (f : FnDef) (arg : Val) : Except Exc (Lib × FnDef × Val) :=
  match runTail f [arg] with
  | .error x => .error x
  | .ok (fn, [a], kw) =>
    if fn = "json.dumps" then
      match kw with
      | [("cls", .ref c)] => (match findDef (c ++ ".default") defs with | some d => .ok (.jsonDumps, d, a) | none => .error .unsupported)
      | _ => .error .unsupported
    else if fn = "msgpack.dumps" then
      match kw with
      | [("default", .ref d), ("use_bin_type", .bool true)] =>
        (match findDef d defs with | some d => .ok (.msgpackDumps, d, a) | none => .error .unsupported)
      | _ => .error .unsupported
    else if fn = "json.loads" then
      match kw with
      | [("object_hook", .ref h)] => (match findDef h defs with | some d => .ok (.jsonLoads, d, a) | none => .error .unsupported)
      | _ => .error .unsupported
    else if fn = "msgpack.loads" then
      match kw with
      | [("object_hook", .ref h), ("raw", .bool false)] =>
        (match findDef h defs with | some d => .ok (.msgpackLoads, d, a) | none => .error .unsupported)
      | _ => .error .unsupported
    else .error .unsupported
  | .ok _ => .error .unsupported

/-- `serialize(v, encoding)` as far as the native writer: (writer, the tree it is handed), everything read from the source:
the dispatch on `encoding.lower()`, the wrapper it calls, the keyword arguments, the hook body -/
def encodeSrc (enc : Bytes) (v : Val) : Except Exc (Lib × Val) :=
  match runTail Gen.Src.serialize [v, .str enc] with
  | .error x => .error x
  | .ok (callee, [a], []) =>
    (match findDef callee Gen.Src.defs with
     | none => .error .unsupported
     | some w =>
       match resolveWrapper Gen.Src.defs w a with
       | .error x => .error x
       | .ok (lib, d, a') =>
         match walkD (defaultHook d) a' with
         | .error x => .error x
         | .ok t => .ok (lib, t))
  | .ok _ => .error .unsupported

/-- `deserialize(blob, encoding)` as far as the native reader: (reader, the object hook it is given) -/
def readerSrc (enc : Bytes) (blob : Val) : Except Exc (Lib × FnDef) :=
  match runTail Gen.Src.deserialize [blob, .str enc] with
  | .error x => .error x
  | .ok (callee, [a], []) =>
    (match findDef callee Gen.Src.defs with
     | none => .error .unsupported
     | some w =>
       match resolveWrapper Gen.Src.defs w a with
       | .error x => .error x
       | .ok (lib, d, _) => .ok (lib, d))
  | .ok _ => .error .unsupported

/-- the four source-derived hooks by name -/
def mxEncodeSrc : Val → Except Exc Val := defaultHook Gen.Src.msgpackext_encode
def mpFlatEncodeSrc : Val → Except Exc Val := defaultHook Gen.Src.msgpack_encode
def jxDefaultSrc : Val → Except Exc Val := defaultHook Gen.Src.JSONExtArrayEncoder_default
def jsonFlatDefaultSrc : Val → Except Exc Val := defaultHook Gen.Src.JSONArrayEncoder_default
def mpHookSrc : List (Val × Val) → Except Exc Val := objectHook Gen.Src.msgpackext_decode
def jxHookSrc : List (Val × Val) → Except Exc Val := objectHook Gen.Src.jsonext_decode

/-! ## text / byte level entry points over the source-derived pipeline -/

/-- `serialize(v, enc)` for a text encoding: the source-derived tree through the model's JSON printer -/
def textOfSrc (P : FloatCodec) (enc : Bytes) (v : Val) : Except Exc (List Char) :=
  match encodeSrc enc v with
  | .error x => .error x
  | .ok (.jsonDumps, t) => (match toJ t with | some j => .ok (printV P j) | none => .error .typeError)
  | .ok _ => .error .unsupported

/-- `serialize(v, enc)` for a binary encoding: the source-derived tree through the model's msgpack packer -/
def bytesOfSrc (enc : Bytes) (v : Val) : Except Exc Bytes :=
  match encodeSrc enc v with
  | .error x => .error x
  | .ok (.msgpackDumps, t) => .ok (mpEnc t)
  | .ok _ => .error .unsupported

inductive TextErrSrc where
  | parse (e : JErr) | exc (e : Exc)
deriving Repr, BEq

/-- `json.loads(text, object_hook=jsonext_decode)` with the source-derived hook -/
def deserializeJsonSrc (P : FloatCodec) (t : List Char) : Except TextErrSrc Val :=
  match jsonParse P t with
  | .error e => .error (.parse e)
  | .ok j =>
    match decW jxHookSrc (ofJ j) with
    | .error e => .error (.exc e)
    | .ok v => .ok v

/-! ## the msgpack byte decoder with the object hook as a parameter

A copy of `mpDec` / `mpDecL` / `mpDecP` / `mpDecode` of `Model/Serialize.lean` in which the one call of `mpHook` is the
parameter `hk` (`Props/C10Src.lean` proves `mpDecW mpHook = mpDec`). -/

mutual
  def mpDecW (hk : List (Val × Val) → Except HookErr Val) : Nat → Bytes → Except DecErr (Val × Bytes)
    | 0, _ => .error .truncated
    | _, [] => .error .truncated
    | fuel + 1, h :: r =>
      let n := h.toNat
      let withLen (k : Nat) (f : Nat → Bytes → Except DecErr (Val × Bytes)) : Except DecErr (Val × Bytes) :=
        match takeN k r with
        | some (lb, r') => f (beNat lb) r'
        | none => .error .truncated
      let raw (mk : Bytes → Val) (len : Nat) (r' : Bytes) : Except DecErr (Val × Bytes) :=
        match takeN len r' with
        | some (b, r'') => .ok (mk b, r'')
        | none => .error .truncated
      let arrOf (len : Nat) (r' : Bytes) : Except DecErr (Val × Bytes) :=
        (mpDecLW hk fuel len r').map fun (l, r'') => (.arr l, r'')
      let mapOf (len : Nat) (r' : Bytes) : Except DecErr (Val × Bytes) :=
        match mpDecPW hk fuel len r' with
        | .error e => .error e
        | .ok (l, r'') =>
          match hk l with
          | .ok v => .ok (v, r'')
          | .error e => .error (.hook e)
      if n < 0x80 then .ok (.int n, r)
      else if n < 0x90 then mapOf (n - 0x80) r
      else if n < 0xa0 then arrOf (n - 0x90) r
      else if n < 0xc0 then raw .str (n - 0xa0) r
      else if n = 0xc0 then .ok (.nil, r)
      else if n = 0xc2 then .ok (.bool false, r)
      else if n = 0xc3 then .ok (.bool true, r)
      else if n = 0xc4 then withLen 1 (raw .bin)
      else if n = 0xc5 then withLen 2 (raw .bin)
      else if n = 0xc6 then withLen 4 (raw .bin)
      else if n = 0xcb then raw .f64 8 r
      else if n = 0xcc then withLen 1 fun v r' => .ok (.int v, r')
      else if n = 0xcd then withLen 2 fun v r' => .ok (.int v, r')
      else if n = 0xce then withLen 4 fun v r' => .ok (.int v, r')
      else if n = 0xcf then withLen 8 fun v r' => .ok (.int v, r')
      else if n = 0xd0 then withLen 1 fun v r' => .ok (.int (if v < 128 then (v : Int) else (v : Int) - 256), r')
      else if n = 0xd1 then withLen 2 fun v r' => .ok (.int (if v < 32768 then (v : Int) else (v : Int) - 65536), r')
      else if n = 0xd2 then withLen 4 fun v r' => .ok (.int (if v < 2147483648 then (v : Int) else (v : Int) - 4294967296), r')
      else if n = 0xd3 then withLen 8 fun v r' =>
        .ok (.int (if v < 9223372036854775808 then (v : Int) else (v : Int) - 18446744073709551616), r')
      else if n = 0xd9 then withLen 1 (raw .str)
      else if n = 0xda then withLen 2 (raw .str)
      else if n = 0xdb then withLen 4 (raw .str)
      else if n = 0xdc then withLen 2 arrOf
      else if n = 0xdd then withLen 4 arrOf
      else if n = 0xde then withLen 2 mapOf
      else if n = 0xdf then withLen 4 mapOf
      else if 0xe0 ≤ n then .ok (.int ((n : Int) - 256), r)
      else .error (.badHead h)
  def mpDecLW (hk : List (Val × Val) → Except HookErr Val) : Nat → Nat → Bytes → Except DecErr (List Val × Bytes)
    | _, 0, bs => .ok ([], bs)
    | fuel, k + 1, bs =>
      match mpDecW hk fuel bs with
      | .error e => .error e
      | .ok (v, r) =>
        match mpDecLW hk fuel k r with
        | .error e => .error e
        | .ok (l, r') => .ok (v :: l, r')
  def mpDecPW (hk : List (Val × Val) → Except HookErr Val) : Nat → Nat → Bytes → Except DecErr (List (Val × Val) × Bytes)
    | _, 0, bs => .ok ([], bs)
    | fuel, k + 1, bs =>
      match mpDecW hk fuel bs with
      | .error e => .error e
      | .ok (key, r) =>
        match mpDecW hk fuel r with
        | .error e => .error e
        | .ok (v, r') =>
          match mpDecPW hk fuel k r' with
          | .error e => .error e
          | .ok (l, r'') => .ok ((key, v) :: l, r'')
end

def mpDecodeW (hk : List (Val × Val) → Except HookErr Val) (bs : Bytes) : Except DecErr Val :=
  match mpDecW hk (bs.length + 1) bs with
  | .error e => .error e
  | .ok (v, []) => .ok v
  | .ok (_, _ :: _) => .error .extra

/-- the source-derived hook in the hand model's error type (`none`: an exception the hand model has no class for) -/
def mpHookSrcH (l : List (Val × Val)) : Except HookErr Val :=
  match mpHookSrc l with
  | .ok v => .ok v
  | .error (.hook e) => .error e
  | .error _ => .error .badBuffer

/-- `msgpack.loads(bytes, object_hook=msgpackext_decode)` with the source-derived hook -/
def mpDecodeSrc (bs : Bytes) : Except DecErr Val := mpDecodeW mpHookSrcH bs

end QcelVerif.Ser.Src
