/-!
# Model of `qcelemental/models/align.py` (`AlignmentMill`) and `qcelemental/util/np_blockwise.py`

Core Lean only (the driver imports this file).  Everything is written over a generic scalar type
`K` that only needs `+ - * neg 0 1` (core classes), so that

* the driver runs the model at `K = Rat` (exact arithmetic on the very doubles the implementation
  received), and
* `Props/C13.lean` proves the theorems about *the same definitions* for every `[CommRing K]`
  (Mathlib's `CommRing` provides all six core instances), hence over ℝ and over ℚ.

Shapes: a geometry / gradient is `Fin n → Fin 3 → K` (numpy `(n,3)`), a Hessian is
`Fin (n*3) → Fin (n*3) → K` (numpy `(3n,3n)`, row index `3*i + a`), the recipe's `atommap`
is `Fin m → Fin n` (numpy integer fancy indexing `arr[atommap]`: row `i` of the result is row
`atommap[i]` of the operand; `m = n` and bijective for the recipes of the property).
-/
namespace QcelVerif.Mill

variable {K : Type} [Add K] [Sub K] [Mul K] [Neg K] [OfNat K 0] [OfNat K 1]

abbrev Vec3 (K : Type) := Fin 3 → K
abbrev Mat3 (K : Type) := Fin 3 → Fin 3 → K
/-- numpy `(n,3)` array -/
abbrev Geom (K : Type) (n : Nat) := Fin n → Fin 3 → K
/-- numpy `(3n,3n)` array -/
abbrev Hess (K : Type) (n : Nat) := Fin (n * 3) → Fin (n * 3) → K

/-- `AlignmentMill` fields (align.py:28-31). `shift` is `(3,)`, `rotation` `(3,3)` (validators 36-50). -/
structure Recipe (K : Type) (n m : Nat) where
  shift : Vec3 K
  rot : Mat3 K
  map : Fin m → Fin n
  mirror : Bool

/-- sum over the three Cartesian components -/
def sum3 (f : Fin 3 → K) : K := f 0 + f 1 + f 2

/-- `v.dot(R)` for a row vector `v` : `(v R)_b = Σ_a v_a R_ab` -/
def rowDot (v : Vec3 K) (R : Mat3 K) : Vec3 K := fun b => sum3 fun a => v a * R a b

/-- `A.dot(B)` for 3×3 matrices -/
def matMul (A B : Mat3 K) : Mat3 K := fun a b => sum3 fun c => A a c * B c b

/-- `A.T` -/
def transpose (A : Mat3 K) : Mat3 K := fun a b => A b a

/-- `arr[:, 1] *= -1.0` (align.py:78, 81, 108) -/
def flipY {n : Nat} (x : Geom K n) : Geom K n :=
  fun i a => if a = 1 then x i a * (-1) else x i a

/-- `arr[atommap]` / `arr[atommap, :]` (align.py:84, 92, 110) -/
def takeRows {α : Type} {n m : Nat} (map : Fin m → Fin n) (x : Fin n → α) : Fin m → α :=
  fun i => x (map i)

/-- `align_coordinates(geom, reverse=False)` (align.py:70-87, else-branch):
mirror, subtract shift, rotate, permute. -/
def alignCoords {n m : Nat} (r : Recipe K n m) (x : Geom K n) : Geom K m :=
  let g1 : Geom K n := if r.mirror then flipY x else x          -- :80-81
  let g2 : Geom K n := fun i a => g1 i a - r.shift a             -- :82
  let g3 : Geom K n := fun i => rowDot (g2 i) r.rot              -- :83
  takeRows r.map g3                                              -- :84

/-- `align_coordinates(geom, reverse=True)` (align.py:74-78): rotate, add shift, mirror, permute. -/
def alignCoordsRev {n m : Nat} (r : Recipe K n m) (x : Geom K n) : Geom K m :=
  let g1 : Geom K n := fun i => rowDot (x i) r.rot               -- :75
  let g2 : Geom K n := fun i a => g1 i a + r.shift a             -- :76
  let g3 : Geom K n := if r.mirror then flipY g2 else g2         -- :77-78
  takeRows r.map g3                                              -- :84

/-- `align_atoms(ats)` (align.py:89-92) -/
def alignAtoms {α : Type} {n m : Nat} (map : Fin m → Fin n) (ats : Fin n → α) : Fin m → α :=
  takeRows map ats

/-- `align_vector(vec)` (align.py:94-101): `vec.dot(rotation)`; the mirror flag is not consulted. -/
def alignVector {n m : Nat} (r : Recipe K n m) (v : Vec3 K) : Vec3 K := rowDot v r.rot

/-- `align_gradient(grad)` (align.py:103-112): mirror, rotate, permute (no shift). -/
def alignGradient {n m : Nat} (r : Recipe K n m) (g : Geom K n) : Geom K m :=
  let g1 : Geom K n := if r.mirror then flipY g else g           -- :107-108
  let g2 : Geom K n := fun i => rowDot (g1 i) r.rot              -- :109
  takeRows r.map g2                                              -- :110

/-! ### np_blockwise.py -/

theorem idx_lt {g l : Nat} (i : Fin g) (p : Fin l) : i.val * l + p.val < g * l :=
  calc i.val * l + p.val < i.val * l + l := Nat.add_lt_add_left p.isLt _
    _ = (i.val + 1) * l := (Nat.succ_mul _ _).symm
    _ ≤ g * l := Nat.mul_le_mul_right _ i.isLt

theorem blk_lt {g l : Nat} (r : Fin (g * l)) : r.val / l < g :=
  Nat.div_lt_of_lt_mul (Nat.mul_comm g l ▸ r.isLt)

theorem off_lt {g l : Nat} (r : Fin (g * l)) : r.val % l < l :=
  Nat.mod_lt _ (Nat.pos_of_ne_zero (by
    intro h; subst h; exact absurd r.isLt (by simp)))

/-- flat index `i*l + p` of element `p` of block `i` -/
def idx {g l : Nat} (i : Fin g) (p : Fin l) : Fin (g * l) := ⟨i.val * l + p.val, idx_lt i p⟩
/-- block number of a flat index -/
def blk {g l : Nat} (r : Fin (g * l)) : Fin g := ⟨r.val / l, blk_lt r⟩
/-- offset inside its block of a flat index -/
def off {g l : Nat} (r : Fin (g * l)) : Fin l := ⟨r.val % l, off_lt r⟩

/-- `blockwise_expand(a, (lr, lc), aslist=False)` for a C-contiguous 2-D array whose shape the block
shape divides (np_blockwise.py:30-103): the strided view has
`view[i,j,p,q] = mem[i*(lr*C) + j*lc + p*C + q] = a[i*lr+p, j*lc+q]` (`C` = number of columns). -/
def blockwiseExpand {α : Type} {gr gc lr lc : Nat} (a : Fin (gr * lr) → Fin (gc * lc) → α) :
    Fin gr → Fin gc → Fin lr → Fin lc → α :=
  fun i j p q => a (idx i p) (idx j q)

/-- `blockwise_contract(arr)` for a 4-D array `(gr,gc,lr,lc)` (np_blockwise.py:4-27):
reshape `(gr*gc,lr,lc)`, reshape `(gr,gc,lr,lc)`, `swapaxes(1,2)`, reshape `(gr*lr, gc*lc)`, i.e.
`out[i*lr+p, j*lc+q] = arr[i,j,p,q]`. -/
def blockwiseContract {α : Type} {gr gc lr lc : Nat} (b : Fin gr → Fin gc → Fin lr → Fin lc → α) :
    Fin (gr * lr) → Fin (gc * lc) → α :=
  fun r c => b (blk r) (blk c) (off r) (off c)

/-- `np.diag([1.0, -1.0, 1.0])` (align.py:121) -/
def diagMirror : Mat3 K := fun a b => if a = b then (if a = 1 then -1 else 1) else 0

/-- the frame used by `align_hessian` (align.py:119-121) -/
def hessFrame {n m : Nat} (r : Recipe K n m) : Mat3 K :=
  if r.mirror then matMul diagMirror r.rot else r.rot

/-- `align_hessian(hess)` (align.py:114-131) -/
def alignHessian {n m : Nat} (r : Recipe K n m) (h : Hess K n) : Hess K m :=
  let blocked : Fin n → Fin n → Mat3 K := blockwiseExpand h                       -- :115
  let frame : Mat3 K := hessFrame r                                                -- :119-121
  let al : Fin n → Fin n → Mat3 K :=
    fun i j => matMul (transpose frame) (matMul (blocked i j) frame)               -- :124-126
  let al2 : Fin m → Fin m → Mat3 K := fun i j => al (r.map i) (r.map j)            -- :128 np.ix_
  blockwiseContract al2                                                            -- :130

/-- `align_vector_gradient(mu_derivatives)` (align.py:133-151); `mu[a]` is the `(3n,)` array of
nuclear derivatives of vector component `a`.  `nat = len(mu_x)//3`; the loop reads `atommap[at]`
for `at < nat`, so the recipe's map must cover `n` atoms (`m = n`). -/
def alignVectorGradient {n : Nat} (r : Recipe K n n) (mu : Fin 3 → Fin (n * 3) → K) :
    Fin 3 → Fin (n * 3) → K :=
  fun a c =>
    let at_ : Fin n := blk c
    let datom : Mat3 K := fun a' b' => mu a' (idx (r.map at_) b')                  -- :144-146
    let d2 : Mat3 K := matMul (transpose r.rot) (matMul datom r.rot)               -- :147
    d2 a (off c)                                                                   -- :148-150

end QcelVerif.Mill
