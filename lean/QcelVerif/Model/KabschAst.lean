import QcelVerif.Model.Kabsch
/-!
# C12 — expression ASTs for `kabsch_quaternion` / `kabsch_align` and their evaluators

`harness/c12_src.py` re-reads `qcelemental/molutil/align.py` with Python's `ast` on every run and writes
`Gen/KabschSrc.lean`: the assignments `F[i, j] = …` (align.py:523-535) and `U[i, j] = …` (align.py:544-552) as terms of
`SE`, and the body of `kabsch_align` (align.py:483-501) as a `Prog` (guard of the head-off, the two centroids, the two
centred geometries handed to `kabsch_quaternion`, the shift, the matrix inside `np.linalg.norm`).
This file gives those terms their meaning; `Props/C12Src.lean` proves the meaning equal to the hand model
`Model/Kabsch.lean` for all inputs.
-/
namespace QcelVerif.KabschAst
open QcelVerif.Kabsch

/-- scalar expression inside `kabsch_quaternion` -/
inductive SE where
  /-- `cov[i, j]` -/
  | cov (i j : Nat)
  /-- `q[i]` with `q = ev[:, -1]` -/
  | q (i : Nat)
  /-- integer literal -/
  | lit (n : Nat)
  | neg (a : SE)
  | add (a b : SE)
  | sub (a b : SE)
  | mul (a b : SE)
  /-- `a ** 2` -/
  | sq (a : SE)
deriving Repr

/-- which argument of `kabsch_align` -/
inductive Arg where
  | R
  | C
deriving Repr, DecidableEq

/-- `X.sum(axis=0) / Y.shape[0]` -/
structure CentDef where
  sumOf : Arg
  lenOf : Arg
deriving Repr

/-- 3×3 matrix expression -/
inductive ME where
  /-- the value `kabsch_quaternion` returned (`RR`) -/
  | rr
  /-- `np.identity(3)` -/
  | ident
  /-- `.T` -/
  | tr (m : ME)
deriving Repr

/-- 3-vector expression -/
inductive VE where
  | rcent
  | ccent
  /-- `np.zeros(3)` -/
  | zero3
  | sub (a b : VE)
  /-- `M.dot(v)` -/
  | matVec (m : ME) (v : VE)
  /-- `v.dot(M)` -/
  | vecMat (v : VE) (m : ME)
deriving Repr

/-- (nat, 3) array expression -/
inductive GE where
  | arg (a : Arg)
  /-- `np.subtract(G, v)` / `G - v` with `v` of shape (3,) -/
  | subRow (g : GE) (v : VE)
  /-- `G.dot(M)` -/
  | dot (g : GE) (m : ME)
  /-- `G - H` -/
  | sub (g h : GE)
deriving Repr

/-- the body of `kabsch_align` with `weight=None` -/
structure Prog where
  /-- `np.array_equal(guardL, guardR)` -/
  guardL : Arg
  guardR : Arg
  /-- what the head-off returns as rotation and shift (the RMSD literal `0.0` is checked by the translator) -/
  shortU : ME
  shortT : VE
  rcent : CentDef
  ccent : CentDef
  /-- `cov = covLᵀ · covR` (align.py:495,520 after cancelling `.T.T`) -/
  covL : GE
  covR : GE
  /-- `TT` -/
  tt : VE
  /-- the matrix whose Frobenius norm is the RMSD numerator -/
  resid : GE
  /-- returned rotation -/
  retU : ME
deriving Repr

variable {K : Type}

section Ring
variable [CommRing K]

def covAt (cv : M3 K) : Nat → Nat → K
  | 0, 0 => cv.a00 | 0, 1 => cv.a01 | 0, 2 => cv.a02
  | 1, 0 => cv.a10 | 1, 1 => cv.a11 | 1, 2 => cv.a12
  | 2, 0 => cv.a20 | 2, 1 => cv.a21 | 2, 2 => cv.a22
  | _, _ => 0

def qAt (q : Q4 K) : Nat → K
  | 0 => q.q0 | 1 => q.q1 | 2 => q.q2 | 3 => q.q3
  | _ => 0

def SE.eval (cv : M3 K) (q : Q4 K) : SE → K
  | .cov i j => covAt cv i j
  | .q i => qAt q i
  | .lit n => (n : K)
  | .neg a => - a.eval cv q
  | .add a b => a.eval cv q + b.eval cv q
  | .sub a b => a.eval cv q - b.eval cv q
  | .mul a b => a.eval cv q * b.eval cv q
  | .sq a => a.eval cv q ^ 2

/-- `A[i, j] = v` on an array given as a function of its two indices -/
def setAt (m : Nat → Nat → K) (i j : Nat) (v : K) : Nat → Nat → K :=
  fun a b => if a = i ∧ b = j then v else m a b

/-- run the assignments `A[i, j] = e` in source order, starting from `np.zeros(...)` -/
def build (cv : M3 K) (q : Q4 K) : List (Nat × Nat × SE) → (Nat → Nat → K) → (Nat → Nat → K)
  | [], m => m
  | (i, j, e) :: t, m => build cv q t (setAt m i j (e.eval cv q))

def zeros : Nat → Nat → K := fun _ _ => 0

/-- upper triangle of a 4×4 array -/
def upper4 (m : Nat → Nat → K) : S4 K :=
  ⟨m 0 0, m 0 1, m 0 2, m 0 3, m 1 1, m 1 2, m 1 3, m 2 2, m 2 3, m 3 3⟩

/-- lower triangle of a 4×4 array, transposed -/
def lower4 (m : Nat → Nat → K) : S4 K :=
  ⟨m 0 0, m 1 0, m 2 0, m 3 0, m 1 1, m 2 1, m 3 1, m 2 2, m 3 2, m 3 3⟩

def toM3 (m : Nat → Nat → K) : M3 K :=
  ⟨m 0 0, m 0 1, m 0 2, m 1 0, m 1 1, m 1 2, m 2 0, m 2 1, m 2 2⟩

structure Env (K : Type) where
  R : List (V3 K)
  C : List (V3 K)
  rcent : V3 K
  ccent : V3 K
  U : M3 K

def Env.arg (e : Env K) : Arg → List (V3 K)
  | .R => e.R
  | .C => e.C

def ME.eval (e : Env K) : ME → M3 K
  | .rr => e.U
  | .ident => M3.one
  | .tr m => (m.eval e).transpose

def VE.eval (e : Env K) : VE → V3 K
  | .rcent => e.rcent
  | .ccent => e.ccent
  | .zero3 => V3.zero
  | .sub a b => (a.eval e).sub (b.eval e)
  | .matVec m v => Kabsch.matVec (m.eval e) (v.eval e)
  | .vecMat v m => Kabsch.rowMul (v.eval e) (m.eval e)

def GE.eval (e : Env K) : GE → List (V3 K)
  | .arg a => e.arg a
  | .subRow g v => (g.eval e).map (fun x => x.sub (v.eval e))
  | .dot g m => (g.eval e).map (fun x => Kabsch.rowMul x (m.eval e))
  | .sub g h => List.zipWith V3.sub (g.eval e) (h.eval e)

end Ring

section Field
variable [Field K]

/-- `X.sum(axis=0) / Y.shape[0]` -/
def CentDef.eval (d : CentDef) (R C : List (V3 K)) : V3 K :=
  let pick : Arg → List (V3 K) := fun a => match a with | .R => R | .C => C
  let s := vsum (pick d.sumOf)
  let n : K := ((pick d.lenOf).length : K)
  ⟨s.x / n, s.y / n, s.z / n⟩

variable [LinearOrder K]

/-- `kabsch_align(rgeom, cgeom, weight=None)` as read from the source: `P` is the translated body of `kabsch_align`,
    `Fs` / `Us` the translated assignments of `kabsch_quaternion`; `np.linalg.eigh` is replaced by the supplied `q`
    exactly as in the hand model. -/
def kabschAlignSrc (P : Prog) (Fs Us : List (Nat × Nat × SE)) (R C : List (V3 K)) (q : Q4 K) : KabschOut K :=
  let e0 : Env K := { R := R, C := C, rcent := P.rcent.eval R C, ccent := P.ccent.eval R C, U := M3.one }
  let pairs := (P.covL.eval e0).zip (P.covR.eval e0)
  let cv := cov pairs
  let F := upper4 (build cv q Fs zeros)
  if geomEq (e0.arg P.guardL) (e0.arg P.guardR) then
    { shortcut := true, U := P.shortU.eval e0, T := P.shortT.eval e0, res2 := 0, F := F, lam := quad F q,
      n2 := q.nrm2, sr2 := sumR2 pairs, sc2 := sumC2 pairs }
  else
    let e : Env K := { e0 with U := toM3 (build cv q Us zeros) }
    { shortcut := false, U := P.retU.eval e, T := P.tt.eval e, res2 := sumNrm2 (P.resid.eval e), F := F,
      lam := quad F q, n2 := q.nrm2, sr2 := sumR2 pairs, sc2 := sumC2 pairs }

end Field

end QcelVerif.KabschAst
