import QcelVerif.Model.RegexEngine
/-!
`re.sub` / `re.subn` / `re.split` on top of the generic engine of `Model/RegexEngine.lean` (that file is C06's and is not
edited; everything here is an addition that calls its `searchFrom`).  Core Lean only.

CPython scans left to right: the leftmost match at or after the cursor, then on from the end of that match.  Its rules for
EMPTY matches (`must_advance`) are not modelled: the scan below answers `none` as soon as the engine reports an empty
match, so a caller can never mistake an unmodelled situation for a result.  Every pattern this is used with (the comment
pattern, SEP, fragment_marker, the `\A…\Z` line patterns) cannot match the empty string (`Re.nullable = false`,
checked by `decide` in `Props/C07Regex.lean`), so `none` never arises there (`Regex.ms_lt`).
-/
namespace QcelVerif.Regex

/-- one scan step result: text skipped before the match, the state after it -/
abbrev Hit := List Nat × St

/-- all leftmost non-overlapping non-empty matches from the cursor on, and the unmatched tail; `none`: an empty match occurred -/
def scanFuel (r : Re) : Nat → Option Nat → List Nat → Option (List Hit × List Nat)
  | 0, _, s => some ([], s)
  | fuel + 1, prev, s =>
    match searchFrom r 0 prev s with
    | none => some ([], s)
    | some (k, st) =>
      if st.rest.length < (s.drop k).length then
        match scanFuel r fuel st.prev st.rest with
        | some (hits, tail) => some ((s.take k, st) :: hits, tail)
        | none => none
      else none

def scan (r : Re) (s : List Nat) : Option (List Hit × List Nat) := scanFuel r (s.length + 1) none s

/-- text of group `i` as a replacement template sees it (`\i`: an unmatched group gives the empty string) -/
def groupText (st : St) (i : Nat) : List Nat := (st.group i).getD []

/-- `re.sub(p, r"\i", s)` -/
def subGroup (r : Re) (i : Nat) (s : List Nat) : Option (List Nat) :=
  (scan r s).map fun (hits, tail) => hits.flatMap (fun h => h.1 ++ groupText h.2 i) ++ tail

/-- `re.sub(p, "", s)` together with the number of replacements (`re.subn`) -/
def subEmpty (r : Re) (s : List Nat) : Option (List Nat × Nat) :=
  (scan r s).map fun (hits, tail) => (hits.flatMap (fun h => h.1) ++ tail, hits.length)

/-- `re.split(p, s)` for a pattern WITHOUT capturing groups -/
def split (r : Re) (s : List Nat) : Option (List (List Nat)) :=
  (scan r s).map fun (hits, tail) => hits.map (fun h => h.1) ++ [tail]

/-- Python truthiness of `m.group(i)`: matched and not empty -/
def truthy (st : St) (i : Nat) : Bool :=
  match st.group i with
  | some (_ :: _) => true
  | _ => false

end QcelVerif.Regex
