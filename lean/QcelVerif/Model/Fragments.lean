import QcelVerif.Model.ChgMult
/-
Model of fragment extraction and the electron / nuclear-repulsion bookkeeping (C15).

  * `Molecule.get_fragment`                qcelemental/models/molecule.py:621-763
  * default fragment properties            qcelemental/models/molecule.py:490-509
  * `nelectrons`, `nuclear_repulsion_energy`  qcelemental/models/molecule.py:1154-1203
  * the part of the `Molecule(...)` constructor that can refuse the extracted record:
    fragment contiguity (molparse/from_schema.py:145-175, `throw_reorder=True`) and the
    charge/multiplicity validation (`validate_and_fill_chgmult`, model `ChgMult.vfc`, C05),
    called with electron counts `Z * real` per fragment (molparse/from_arrays.py:379-392).

Core Lean only.  The per-atom arrays `symbols`, `masses`, `geometry` are indexed by the code with
the *same* index in every place, so they are modelled as one list `atoms : List α` of per-atom
payloads (the harness checks the three arrays separately against the model's index list).
Integer charges and multiplicities (the scope of C05's model).
-/
namespace QcelVerif.Fragments
open QcelVerif.ChgMult (isum highSpin vfc)

/-- a (validated or not) molecule, as far as C15 looks at it -/
structure Mol (α : Type) where
  atoms : List α            -- symbols[i], masses[i], geometry[i]
  real  : List Bool
  frags : List (List Nat)   -- `fragments` property (default: one fragment `arange(n)`)
  fc    : List Int          -- `fragment_charges` property (default `[molecular_charge]`)
  fm    : List Int          -- `fragment_multiplicities` property (default `[molecular_multiplicity]`)
  c     : Int
  m     : Int
  deriving Repr, DecidableEq

/-- the keyword arguments `get_fragment` hands to `Molecule(...)` (molecule.py:755-763);
`c`/`m` are absent on the order-preserving path -/
structure Ctor (α : Type) where
  atoms : List α
  real  : List Bool
  frags : List (List Nat)
  fc    : List Int
  fm    : List Int
  c     : Option Int
  m     : Option Int
  deriving Repr, DecidableEq

inductive Err where
  | overlap      -- TypeError: real and ghost sets overlap (666-669)
  | index        -- IndexError: a fragment / atom index outside its list
  | empty        -- ValueError: `np.vstack([])`, nothing selected (759)
  | validation   -- the constructor refuses the record (ValidationError)
  deriving Repr, DecidableEq

/-! ### default fragment properties (molecule.py:490-509) -/

/-- `fragments_ is None` → `[arange(n)]`, `fragment_charges_ is None` → `[molecular_charge]`,
`fragment_multiplicities_ is None` → `[molecular_multiplicity]` -/
def withDefaults {α} (atoms : List α) (real : List Bool) (frags : Option (List (List Nat)))
    (fc fm : Option (List Int)) (c m : Int) : Mol α :=
  { atoms := atoms, real := real
    frags := frags.getD [List.range atoms.length]
    fc := fc.getD [c], fm := fm.getD [m], c := c, m := m }

/-! ### list helpers -/

/-- `[l[i] for i in idx]` with Python's IndexError as `none` -/
def pick {β} (l : List β) (idx : List Nat) : Option (List β) := idx.mapM (fun i => l[i]?)

/-- the `frag_start` bookkeeping of the grouped path (682-693, 712-713):
consecutive ranges of the given sizes starting at `start` -/
def ranges : Nat → List Nat → List (List Nat)
  | _, [] => []
  | start, k :: ks => ((List.range k).map (start + ·)) :: ranges (start + k) ks

def liftIdx {β} : Option β → Except Err β
  | some x => .ok x
  | none => .error .index

/-! ### grouped path (680-716) -/

def extractGrouped {α} (mol : Mol α) (R G : List Nat) : Except Err (Ctor α) := do
  let rb ← liftIdx (pick mol.frags R)          -- self.fragments[frag] for frag in real
  let gb ← liftIdx (pick mol.frags G)          -- … for frag in ghost
  let idx := (rb ++ gb).flatten
  let atoms ← liftIdx (pick mol.atoms idx)     -- symbols / masses / geometry rows
  let fcR ← liftIdx (pick mol.fc R)
  let fmR ← liftIdx (pick mol.fm R)
  pure {
    atoms := atoms
    real := List.replicate rb.flatten.length true ++ List.replicate gb.flatten.length false
    frags := ranges 0 ((rb ++ gb).map List.length)
    fc := fcR ++ G.map (fun _ => 0)
    fm := fmR ++ G.map (fun _ => 1)
    c := some (isum fcR)                                 -- 699
    m := some (isum (fmR.map (· - 1)) + 1) }             -- 700

/-! ### order-preserving path (718-753) -/

/-- `at2fr[iat]` after the double loop 720-723: the *last* fragment listing `iat`
(later assignments overwrite earlier ones); `none` if no fragment lists it -/
def at2frFrom : List (List Nat) → Nat → Nat → Option Nat
  | [], _, _ => none
  | fr :: rest, ifr, iat =>
    match at2frFrom rest (ifr + 1) iat with
    | some k => some k
    | none => if fr.contains iat then some ifr else none

def at2fr (frags : List (List Nat)) (iat : Nat) : Option Nat := at2frFrom frags 0 iat

/-- `ifr in real or ifr in ghost` (729) — `None in [...]` is `False` -/
def keepAtom (frags : List (List Nat)) (R G : List Nat) (iat : Nat) : Bool :=
  match at2fr frags iat with
  | some k => R.contains k || G.contains k
  | none => false

/-- `ifr in real` (732) -/
def realAtom (frags : List (List Nat)) (R : List Nat) (iat : Nat) : Bool :=
  match at2fr frags iat with
  | some k => R.contains k
  | none => false

/-- the atoms kept, in original order (726-739) -/
def keptAtoms (n : Nat) (frags : List (List Nat)) (R G : List Nat) : List Nat :=
  (List.range n).filter (keepAtom frags R G)

/-- `at2at[iat]` (735-739): the value of the running counter `atom_size` when `iat` is kept,
i.e. the number of kept atoms before it -/
def at2at (frags : List (List Nat)) (R G : List Nat) (iat : Nat) : Option Nat :=
  if keepAtom frags R G iat then some ((List.range iat).countP (keepAtom frags R G)) else none

/-- the fragment loop 741-751 from fragment number `ifr` on: (index lists, charges, multiplicities).
`none`: an index list refers to an atom that was not kept (Python would put `None` into the list,
which the constructor rejects) — cannot happen when every atom lies in exactly one fragment. -/
def fragLoop (mol_frags : List (List Nat)) (fc fm : List Int) (R G : List Nat) :
    List (List Nat) → Nat → Option (List (List Nat) × List Int × List Int)
  | [], _ => some ([], [], [])
  | fr :: rest, ifr => do
    let (fs, cs, ms) ← fragLoop mol_frags fc fm R G rest (ifr + 1)
    if R.contains ifr then
      let fr' ← fr.mapM (at2at mol_frags R G)
      let c ← fc[ifr]?
      let m ← fm[ifr]?
      pure (fr' :: fs, c :: cs, m :: ms)
    else if G.contains ifr then
      let fr' ← fr.mapM (at2at mol_frags R G)
      pure (fr' :: fs, 0 :: cs, 1 :: ms)
    else pure (fs, cs, ms)

def extractOrdered {α} (mol : Mol α) (R G : List Nat) : Except Err (Ctor α) := do
  let n := mol.atoms.length                      -- len(self.symbols)
  if mol.frags.any (fun fr => fr.any (fun iat => decide (n ≤ iat))) then
    throw .index                                 -- at2fr[iat] = ifr with iat out of range (723)
  let kept := keptAtoms n mol.frags R G
  let atoms ← liftIdx (pick mol.atoms kept)
  let (fs, cs, ms) ← liftIdx (fragLoop mol.frags mol.fc mol.fm R G mol.frags 0)
  pure {
    atoms := atoms
    real := kept.map (realAtom mol.frags R)
    frags := fs, fc := cs, fm := ms
    c := none, m := none }                       -- not passed on this path

/-! ### what the constructor does with the record -/

def b2i (b : Bool) : Int := if b then 1 else 0

/-- `Z * real` per atom -/
def zeffList {α} (zOf : α → Int) (atoms : List α) (real : List Bool) : List Int :=
  List.zipWith (fun a r => zOf a * b2i r) atoms real

/-- electron counts per fragment as `from_arrays` passes them to `validate_and_fill_chgmult` -/
def fragZeff (zeff : List Int) (frags : List (List Nat)) : List (List Int) :=
  frags.map (fun fr => fr.map (fun i => zeff.getD i 0))

/-- The constructor: fragments must be `0..n-1` in order (from_schema.py:165-175), and the
charges/multiplicities must pass `validate_and_fill_chgmult` (with totals completed if absent). -/
def construct {α} (zOf : α → Int) (k : Ctor α) : Except Err (Mol α) :=
  if k.frags.flatten != List.range k.atoms.length then .error .validation
  else
    match vfc { frags := fragZeff (zeffList zOf k.atoms k.real) k.frags
                c := k.c, fc := k.fc.map some, m := k.m, fm := k.fm.map some, zgf := false } with
    | .ok o => .ok { atoms := k.atoms, real := k.real, frags := k.frags,
                     fc := o.fc, fm := o.fm, c := o.c, m := o.m }
    | .error _ => .error .validation

/-- the record handed to the constructor (before validation) -/
def extract {α} (mol : Mol α) (R G : List Nat) (group : Bool) : Except Err (Ctor α) :=
  if R.any (G.contains ·) then .error .overlap             -- 666-669
  else
    match (if group then extractGrouped mol R G else extractOrdered mol R G) with
    | .error e => .error e
    | .ok k => if k.atoms.isEmpty then .error .empty else .ok k   -- np.vstack([]) (759)

/-- `Molecule.get_fragment(real, ghost, group_fragments=group)` (orientation not modelled) -/
def getFragment {α} (zOf : α → Int) (mol : Mol α) (R G : List Nat) (group : Bool) :
    Except Err (Mol α) :=
  match extract mol R G group with
  | .error e => .error e
  | .ok k => construct zOf k

/-! ### electrons (1181-1203) -/

/-- `nelectrons(ifr=None)` -/
def nelectrons {α} (zOf : α → Int) (mol : Mol α) : Int :=
  isum (zeffList zOf mol.atoms mol.real) - mol.c

/-- `sum([zf for iat, zf in enumerate(Zeff) if iat in fragment])` -/
def zeffIn (zeff : List Int) (fr : List Nat) : Int :=
  isum ((zeff.zipIdx.filter (fun p => fr.contains p.2)).map (·.1))

/-- `nelectrons(ifr)`; `none` = IndexError -/
def nelectronsFrag {α} (zOf : α → Int) (mol : Mol α) (ifr : Nat) : Option Int := do
  let fr ← mol.frags[ifr]?
  let c ← mol.fc[ifr]?
  pure (zeffIn (zeffList zOf mol.atoms mol.real) fr - c)

/-! ### nuclear repulsion (1154-1179), over any `K` with a distance function -/

section nre
variable {K : Type} [Add K] [Mul K] [Div K] [Zero K] [IntCast K]

/-- sum of a list in `K` -/
def ksum : List K → K
  | [] => 0
  | x :: t => x + ksum t

/-- `Σ_{i} Σ_{j<i} f(atom_i, atom_j)` — every unordered pair once.  (The code adds the pairs with
`i` ascending; in exact arithmetic the order of additions is immaterial, the model recurses on
the head.) -/
def pairSum {β} (f : β → β → K) : List β → K
  | [] => 0
  | a :: t => ksum (t.map (fun b => f b a)) + pairSum f t

/-- one term `Zeff[at1] * Zeff[at2] / dist` ; an atom here is `(Zeff, position)` -/
def nreTerm {γ} (dist : γ → γ → K) (a b : Int × γ) : K :=
  ((a.1 * b.1 : Int) : K) / dist a.2 b.2

/-- `nuclear_repulsion_energy()` on the atom list `atoms` (all atoms, or those of one fragment) -/
def nre {γ} (dist : γ → γ → K) (atoms : List (Int × γ)) : K := pairSum (nreTerm dist) atoms

/-- `nuclear_repulsion_energy(ifr)` with atoms named by their index: `Zeff` list, distance
function on indices, `sel = self.fragments[ifr]` or all atoms (1168-1179) -/
def nreMol (zeff : List Int) (dist : Nat → Nat → K) (sel : Option (List Nat)) : K :=
  nre dist ((sel.getD (List.range zeff.length)).map (fun i => (zeff.getD i 0, i)))

end nre

end QcelVerif.Fragments
