import QcelVerif.Model.Nucleus
import QcelVerif.Model.PTShipped
/-! The shipped periodic table (generated from `/repo` on every run) as the `NTables` of the C06 model,
and a memoised per-element range table for the driver. -/
namespace QcelVerif.Nucleus
open QcelVerif QcelVerif.PT

def shippedN : NTables := { pt := PT.shipped, nuclides := Gen.PT.nuclides }

/-- `elRange` tabulated once for the listed symbols; other symbols fall through to `elRange` -/
def memoRange (N : NTables) (rd : Rat → Rat) (syms : List Nat) : List (Nat × Option Range) :=
  syms.map fun s => (s, elRange N rd s)

def lookupRange (N : NTables) (rd : Rat → Rat) (tbl : List (Nat × Option Range)) (s : Nat) : Option Range :=
  match tbl.find? (fun e => e.1 == s) with
  | some e => e.2
  | none => elRange N rd s

/-- the memo table is transparent -/
theorem lookupRange_memo (N : NTables) (rd : Rat → Rat) (syms : List Nat) (s : Nat) :
    lookupRange N rd (memoRange N rd syms) s = elRange N rd s := by
  unfold lookupRange memoRange
  cases h : (List.map (fun s => (s, elRange N rd s)) syms).find? (fun e => e.1 == s) with
  | none => rfl
  | some e =>
    have hm := List.mem_of_find?_eq_some h
    have hp := List.find?_some h
    simp only [List.mem_map] at hm
    obtain ⟨s', _, rfl⟩ := hm
    simp at hp
    simp [hp]

end QcelVerif.Nucleus
