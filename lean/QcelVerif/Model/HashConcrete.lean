import QcelVerif.Model.Hash
/-!
C11 — the CONCRETE instance of the hash model's parameters, and the model's own statement of the
constants / field list it hard-codes (core Lean only; the driver imports this file).

* `concreteParams` : `fl := rndDouble` (round-to-nearest-even to 53 bits), `reprF := reprRd`,
  `reprB := reprRat` (shortest `repr` of a short decimal) — the functions the driver executes
  (`Driver/C11.lean: drvParams`).  SHA-1 and the default-mass table stay parameters.
  `Props/C11Concrete.lean` proves that these concrete functions satisfy `FlOk` / `Params.Ok`.
* `fieldSpec`, `fieldConst`, `zeroBandBase`, `zeroBandExpOffset` : what `Model/Hash.lean` hard-codes of
  `molecule.py` (`hash_fields` with its order, which noise constant `get_hash` hands to `float_prep` for
  which field, the zero band `5 ** -(around + 1)`).  `Props/C11Spec.lean` proves (a) that `canon` /
  `preimage` / `zeroBand` really follow these tables and (b) that the tables are EQUAL to the ones the
  translator re-reads from `/repo/qcelemental/models/molecule.py` on every run (`Gen/HashSpec.lean`).
-/
namespace QcelVerif.Hash

/-- the parameters the driver runs with; `massOf` = the default-mass table handed over by the harness,
`sha1` abstract (the driver uses `id` and leaves SHA-1 to `hashlib`) -/
def concreteParams {D} (massOf : List Char → Dbl) (sha1 : List Char → D) : Params D :=
  { massOf := massOf
    fl := rndDouble
    reprF := reprRd
    reprB := reprRat
    sha1 := sha1 }

/-! ### the constants and the field list, as the hand model has them -/

/-- `hash_fields` (molecule.py:436-448) in order; `some k` = `get_hash` passes the field through
`float_prep(·, k)` (molecule.py:805-812), `none` = hashed as it is -/
def fieldSpec : List (String × Option Nat) :=
  [ ("symbols", none),
    ("masses", some MASS_NOISE),
    ("molecular_charge", some CHARGE_NOISE),
    ("molecular_multiplicity", none),
    ("real", none),
    ("geometry", some GEOMETRY_NOISE),
    ("fragments", none),
    ("fragment_charges", some CHARGE_NOISE),
    ("fragment_multiplicities", none),
    ("connectivity", none) ]

/-- which module constant `get_hash` names for each rounded field (in `hash_fields` order) -/
def fieldConst : List (String × String) :=
  [ ("masses", "MASS_NOISE"),
    ("molecular_charge", "CHARGE_NOISE"),
    ("geometry", "GEOMETRY_NOISE"),
    ("fragment_charges", "CHARGE_NOISE") ]

/-- `5 ** (-(around + 1))` (molecule.py:68): base … -/
def zeroBandBase : Nat := 5
/-- … and what is added to `around` in the (negated) exponent -/
def zeroBandExpOffset : Nat := 1

/-- decimals of a field according to a spec table (`0` for a field the table does not round) -/
def decimalsIn (spec : List (String × Option Nat)) (name : String) : Nat :=
  match spec.lookup name with
  | some (some k) => k
  | _ => 0

/-- the json text `get_hash` appends for one entry of the spec table -/
def renderField {D} (P : Params D) (c : Canon) : String × Option Nat → List Char
  | ("symbols", none) => renderList showStr c.symbols
  | ("masses", some k) => renderList (P.reprF k) c.masses
  | ("molecular_charge", some k) => P.reprF k c.charge
  | ("molecular_multiplicity", none) => showInt c.mult
  | ("real", none) => renderList showBool c.real
  | ("geometry", some k) => renderList (P.reprF k) c.geometry
  | ("fragments", none) => renderList (renderList showInt) c.fragments
  | ("fragment_charges", some k) => renderList (P.reprF k) c.fragCharges
  | ("fragment_multiplicities", none) => renderList showInt c.fragMults
  | ("connectivity", none) => renderConn P.reprB c.connectivity
  | _ => "<field outside the model>".toList

/-- `for field in self.hash_fields: concat += json.dumps(...)` over a spec table -/
def preimageBy {D} (P : Params D) (spec : List (String × Option Nat)) (c : Canon) : List Char :=
  (spec.map (renderField P c)).flatten

/-- `get_hash`'s data, with the decimals looked up in a spec table -/
def canonBy {D} (P : Params D) (spec : List (String × Option Nat)) (m : Mol) : Canon :=
  { symbols := m.symbols
    masses := (m.massesR P.massOf).map (prepArr P.fl (decimalsIn spec "masses"))
    charge := prepScalar (decimalsIn spec "molecular_charge") m.charge
    mult := m.mult
    real := m.realR
    geometry := m.geometry.map (prepArr P.fl (decimalsIn spec "geometry"))
    fragments := m.fragmentsR
    fragCharges := m.fragChargesR.map (prepArr P.fl (decimalsIn spec "fragment_charges"))
    fragMults := m.fragMultsR
    connectivity := m.connectivity }

/-- the zero band with base and offset as parameters -/
def zeroBandBy (base off k : Nat) (r : Rd) : Bool := decide (r.mag * base ^ (k + off) < 10 ^ k)

end QcelVerif.Hash
