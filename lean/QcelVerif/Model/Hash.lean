/-
Model of the molecular hash (C11): `qcelemental/models/molecule.py`
  * `float_prep`                      (molecule.py:60-77)
  * `hash_fields`, defaults of unset fields (molecule.py:434-509)
  * `get_hash`                        (molecule.py:794-816)
  * geometry pre-rounding at construction (molecule.py:381-384)
and of the bond canonicalisation in `molparse/from_arrays.py:462-474`
(`validate_and_fill_units`: `(min, max, float(order))`, then `conn.sort()`).

Core Lean only (the driver imports this file).

Numbers.  A double is modelled by its exact rational value plus the sign of zero (`Dbl`).
`np.around(x, k)` = `rint(x * 10**k) / 10**k` and Python `round(x, k)` are modelled as
round-half-even of the *exact* product `x * 10^k` (`rintHE`), the result kept as the scaled
integer with an explicit sign bit (`Rd`: value `(-1)^neg * mag / 10^k`).  Python's `round` is
exactly this (it rounds the exact binary value correctly); `np.around` evaluates the product
in floating point, which can differ only when `x * 10^k` lies within a few ulp of a
half-integer (the harness keeps away from those inputs, see harness/c11.py).

Abstract parameters (`Params`): float printing (`reprF`, `reprB` = CPython `float.__repr__`
as used by `json.dumps`), SHA-1 (`sha1`) and the default mass of a symbol
(`periodictable.to_mass`, property C01).  The theorems assume of them only what
`Params.Ok` says; the driver instantiates them concretely (`Driver/C11.lean`).
-/
namespace QcelVerif.Hash

/-! ### numbers -/

/-- `np.rint` / round-half-to-even of an exact rational. -/
def rintHE (q : Rat) : Int :=
  let f := q.floor
  let r := q - (f : Rat)
  if r < 1/2 then f else if 1/2 < r then f + 1 else if f % 2 = 0 then f else f + 1

/-- An IEEE double as far as the hash can see it: the exact value and the sign of zero. -/
inductive Dbl where
  | negZero
  | val (q : Rat)
  deriving DecidableEq

def Dbl.toRat : Dbl → Rat
  | .negZero => 0
  | .val q => q

/-- the sign bit -/
def Dbl.isNeg : Dbl → Bool
  | .negZero => true
  | .val q => decide (q < 0)

/-- A rounded double: `(-1)^neg * mag / 10^k` (the `k` is fixed by the field). `⟨true, 0⟩` is `-0.0`. -/
structure Rd where
  neg : Bool
  mag : Nat
  deriving DecidableEq, Repr

/-- `rint(x * 10**k)`: the rounding to `k` decimals as a scaled integer.  `fl` is the rounding of
the product to a double (`np.around` multiplies in floating point; Python's `round` is exact, `fl = id`). -/
def roundTo (fl : Rat → Rat) (k : Nat) (x : Dbl) : Int := rintHE (fl (x.toRat * (10 : Rat) ^ k))

/-- `np.around(x, k)` and Python `round(x, k)`: both keep the sign bit of `x`. -/
def around (fl : Rat → Rat) (k : Nat) (x : Dbl) : Rd := ⟨x.isNeg, (roundTo fl k x).natAbs⟩

/-- `np.abs(array) < 5 ** (-(around + 1))`  (molecule.py:68), exactly: `mag/10^k < 1/5^(k+1)`. -/
def zeroBand (k : Nat) (r : Rd) : Bool := decide (r.mag * 5 ^ (k + 1) < 10 ^ k)

/-- `float_prep`, list/ndarray branch (molecule.py:64-68), per entry. -/
def prepArr (fl : Rat → Rat) (k : Nat) (x : Dbl) : Rd :=
  let r := around fl k x
  if zeroBand k r then ⟨false, 0⟩ else r

/-- `float_prep`, scalar branch (molecule.py:70-73): `round`, then `-0.0 → 0.0`. -/
def prepScalar (k : Nat) (x : Dbl) : Rd :=
  let r := around id k x
  if r.mag = 0 then ⟨false, 0⟩ else r

/-- the exact value of a rounded double, as a `Dbl` again (what is stored at construction) -/
def Rd.toDbl (k : Nat) (r : Rd) : Dbl :=
  if r.mag = 0 then (if r.neg then .negZero else .val 0)
  else .val ((if r.neg then -(r.mag : Rat) else (r.mag : Rat)) / (10 : Rat) ^ k)

def GEOMETRY_NOISE : Nat := 8
def MASS_NOISE : Nat := 6
def CHARGE_NOISE : Nat := 4

/-! ### bonds (from_arrays.py:462-474) -/

structure Bond where
  a : Nat
  b : Nat
  order : Rat
  deriving DecidableEq

/-- `(int(min(at1, at2)), int(max(at1, at2)), float(bondorder))` -/
def orient (x : Bond) : Bond := ⟨min x.a x.b, max x.a x.b, x.order⟩

/-- Python tuple comparison `x <= y` (lexicographic on `(a, b, order)`). -/
def bondLe (x y : Bond) : Bool :=
  decide (x.a < y.a) || (x.a == y.a && (decide (x.b < y.b) || (x.b == y.b && decide (x.order ≤ y.order))))

def insertBy {α} (le : α → α → Bool) (x : α) : List α → List α
  | [] => [x]
  | y :: t => if le x y then x :: y :: t else y :: insertBy le x t

/-- `list.sort()` (any correct sort agrees on a total antisymmetric order, see `Props/C11.lean`). -/
def sortBy {α} (le : α → α → Bool) : List α → List α
  | [] => []
  | x :: t => insertBy le x (sortBy le t)

/-- the stored `connectivity` of a validated molecule -/
def prepBonds (bs : List Bond) : List Bond := sortBy bondLe (bs.map orient)

/-! ### the molecule as `get_hash` sees it -/

/-- fields outside `hash_fields` -/
structure Other where
  name : Option String := none
  comment : Option String := none
  atomLabels : Option (List String) := none
  identifiers : Option String := none
  provenance : String := ""
  extras : String := ""
  fixCom : Bool := false
  fixOrientation : Bool := false
  fixSymmetry : Option String := none
  id : Option String := none
  deriving DecidableEq

/-- The stored attributes of a `Molecule` object (`None` = unset). -/
structure Mol where
  symbols : List (List Char)
  masses : Option (List Dbl)            -- `masses_`
  charge : Dbl                          -- `molecular_charge`
  mult : Int                            -- `molecular_multiplicity`
  real : Option (List Bool)             -- `real_`
  geometry : List Dbl                   -- flat, 3·nat
  fragments : Option (List (List Int))  -- `fragments_`
  fragCharges : Option (List Dbl)       -- `fragment_charges_`
  fragMults : Option (List Int)         -- `fragment_multiplicities_`
  connectivity : Option (List Bond)     -- `connectivity_`
  other : Other := {}

/-- What `get_hash` feeds to `json.dumps`, field by field, in `hash_fields` order. -/
structure Canon where
  symbols : List (List Char)
  masses : List Rd
  charge : Rd
  mult : Int
  real : List Bool
  geometry : List Rd
  fragments : List (List Int)
  fragCharges : List Rd
  fragMults : List Int
  connectivity : Option (List Bond)
  deriving DecidableEq

/-! ### parameters -/

structure Params (Digest : Type) where
  /-- `periodictable.to_mass(symbol)` (molecule.py:453) -/
  massOf : List Char → Dbl
  /-- rounding of the product `x * 10**k` to a double inside `np.around` -/
  fl : Rat → Rat
  /-- `repr` of the double nearest to `(-1)^neg * mag / 10^k` -/
  reprF : Nat → Rd → List Char
  /-- `repr` of a bond-order double -/
  reprB : Rat → List Char
  sha1 : List Char → Digest

/-! ### property accessors with defaults (molecule.py:449-509) -/

def Mol.massesR (massOf : List Char → Dbl) (m : Mol) : List Dbl :=
  match m.masses with
  | some l => l
  | none => m.symbols.map massOf

def Mol.realR (m : Mol) : List Bool :=
  match m.real with
  | some l => l
  | none => m.symbols.map (fun _ => true)

/-- `[np.arange(len(self.symbols))]` -/
def Mol.fragmentsR (m : Mol) : List (List Int) :=
  match m.fragments with
  | some l => l
  | none => [(List.range m.symbols.length).map (fun (i : Nat) => (i : Int))]

def Mol.fragChargesR (m : Mol) : List Dbl :=
  match m.fragCharges with
  | some l => l
  | none => [m.charge]

def Mol.fragMultsR (m : Mol) : List Int :=
  match m.fragMults with
  | some l => l
  | none => [m.mult]

/-- `get_hash`, the data part (molecule.py:802-811). -/
def canon {D} (P : Params D) (m : Mol) : Canon :=
  { symbols := m.symbols
    masses := (m.massesR P.massOf).map (prepArr P.fl MASS_NOISE)
    charge := prepScalar CHARGE_NOISE m.charge
    mult := m.mult
    real := m.realR
    geometry := m.geometry.map (prepArr P.fl GEOMETRY_NOISE)
    fragments := m.fragmentsR
    fragCharges := m.fragChargesR.map (prepArr P.fl CHARGE_NOISE)
    fragMults := m.fragMultsR
    connectivity := m.connectivity }

/-! ### `json.dumps` of the canonical data (molecule.py:813) -/

def digitChar (d : Nat) : Char := Char.ofNat (48 + d)

/-- decimal digits, least significant first -/
def natDigitsRev (n : Nat) : List Char :=
  if n < 10 then [digitChar n] else digitChar (n % 10) :: natDigitsRev (n / 10)
decreasing_by omega

def showNat (n : Nat) : List Char := (natDigitsRev n).reverse

def showInt : Int → List Char
  | .ofNat n => showNat n
  | .negSucc n => '-' :: showNat (n + 1)

def showBool (b : Bool) : List Char := if b then "true".toList else "false".toList

/-- a JSON string; the symbols of a validated molecule are ASCII letters, nothing is escaped -/
def showStr (s : List Char) : List Char := '"' :: (s ++ ['"'])

/-- elements joined by `", "` and closed by `]` -/
def renderElems {α} (f : α → List Char) : List α → List Char
  | [] => [']']
  | [a] => f a ++ [']']
  | a :: b :: t => f a ++ (',' :: ' ' :: renderElems f (b :: t))

/-- `json.dumps(list)` with the default separators -/
def renderList {α} (f : α → List Char) (l : List α) : List Char := '[' :: renderElems f l

def renderBond (reprB : Rat → List Char) (x : Bond) : List Char :=
  '[' :: (showNat x.a ++ (',' :: ' ' :: (showNat x.b ++ (',' :: ' ' :: (reprB x.order ++ [']'])))))

def renderConn (reprB : Rat → List Char) : Option (List Bond) → List Char
  | none => "null".toList
  | some l => renderList (renderBond reprB) l

/-- the string `concat` of `get_hash` -/
def preimage {D} (P : Params D) (c : Canon) : List Char :=
  renderList showStr c.symbols
  ++ (renderList (P.reprF MASS_NOISE) c.masses
  ++ (P.reprF CHARGE_NOISE c.charge
  ++ (showInt c.mult
  ++ (renderList showBool c.real
  ++ (renderList (P.reprF GEOMETRY_NOISE) c.geometry
  ++ (renderList (renderList showInt) c.fragments
  ++ (renderList (P.reprF CHARGE_NOISE) c.fragCharges
  ++ (renderList showInt c.fragMults
  ++ renderConn P.reprB c.connectivity))))))))

/-- `Molecule.get_hash()` -/
def hash {D} (P : Params D) (m : Mol) : D := P.sha1 (preimage P (canon P m))

/-- `Molecule.__eq__` (molecule.py:576-590) -/
def molEq {D} [DecidableEq D] (P : Params D) (a b : Mol) : Bool := decide (hash P a = hash P b)

/-! ### the hash-relevant part of a validated construction -/

/-- `values["geometry"] = float_prep(values["geometry"], geometry_noise)` (molecule.py:383-384) and
the bond canonicalisation of `from_arrays` — every other field is stored as validated (C04). -/
def construct (fl : Rat → Rat) (m : Mol) : Mol :=
  { m with
    geometry := m.geometry.map (fun x => (prepArr fl GEOMETRY_NOISE x).toDbl GEOMETRY_NOISE)
    connectivity := m.connectivity.map prepBonds }

/-! ### concrete double rounding used by the driver (IEEE round-to-nearest-even, 53 bits; normal range) -/

def scale2 (a : Rat) (e : Int) : Rat :=
  if e ≥ 0 then a / (2 : Rat) ^ e.toNat else a * (2 : Rat) ^ (-e).toNat

/-- the double nearest to `q` (ties to even); subnormals and overflow are not modelled -/
def rndDouble (q : Rat) : Rat :=
  if q = 0 then 0
  else
    let a : Rat := if q < 0 then -q else q
    let l : Int := (Nat.log2 a.num.natAbs : Int) - (Nat.log2 a.den : Int)
    let e : Int := if scale2 a (l - 52) < (2 : Rat) ^ 52 then l - 53 else l - 52
    let m : Int := rintHE (scale2 a e)
    let r : Rat := scale2 (m : Rat) (-e)
    if q < 0 then -r else r

/-! ### concrete float printing used by the driver (CPython `repr`, short style)

Valid for decimals with at most 15 significant digits: the shortest string that round-trips
the double nearest to such a decimal is the decimal itself. -/

def stripZeros : Nat → Nat → Nat
  | 0, m => m
  | fuel + 1, m => if m ≠ 0 ∧ m % 10 = 0 then stripZeros fuel (m / 10) else m

def zerosL (n : Nat) : List Char := List.replicate n '0'

/-- `repr` of the double nearest `(-1)^neg * mag / 10^k`. -/
def reprDec (neg : Bool) (mag k : Nat) : List Char :=
  let sgn : List Char := if neg then ['-'] else []
  if mag = 0 then sgn ++ "0.0".toList
  else
    let nd := (showNat mag).length
    let decpt : Int := (nd : Int) - (k : Int)          -- value = 0.DDDD × 10^decpt
    let ds := showNat (stripZeros nd mag)                -- significant digits
    let n := ds.length
    if decpt ≤ -4 ∨ decpt > 16 then
      let e : Int := decpt - 1
      let es := showNat e.natAbs
      let es := if es.length < 2 then '0' :: es else es
      let mant := match ds with
        | [] => []
        | [d] => [d]
        | d :: r => d :: '.' :: r
      sgn ++ mant ++ ['e', (if e < 0 then '-' else '+')] ++ es
    else if decpt ≤ 0 then
      sgn ++ "0.".toList ++ zerosL (-decpt).toNat ++ ds
    else if decpt.toNat ≥ n then
      sgn ++ ds ++ zerosL (decpt.toNat - n) ++ ".0".toList
    else
      sgn ++ ds.take decpt.toNat ++ ['.'] ++ ds.drop decpt.toNat

def reprRd (k : Nat) (r : Rd) : List Char := reprDec r.neg r.mag k

/-- least `k ≤ fuel` with `den ∣ 10^k` -/
def decScale (den : Nat) : Nat → Nat → Option Nat
  | 0, _ => none
  | fuel + 1, k => if (10 ^ k) % den = 0 then some k else decScale den fuel (k + 1)

/-- `repr` of a double whose exact value is a short decimal (bond orders in the driver stream) -/
def reprRat (q : Rat) : List Char :=
  match decScale q.den 19 0 with
  | some k => reprDec (decide (q < 0)) (q.num.natAbs * 10 ^ k / q.den) k
  | none => "?".toList

end QcelVerif.Hash
