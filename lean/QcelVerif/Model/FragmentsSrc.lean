import QcelVerif.Model.Fragments
import QcelVerif.Model.Formula
import QcelVerif.Model.FragmentsAst
import QcelVerif.Gen.FragmentsSrc
/-!
# C15 — the source-derived procedures

The bodies of `Molecule.get_fragment`, `Molecule.nelectrons`, `Molecule.nuclear_repulsion_energy` and
`molecular_formula_from_symbols`, regenerated from the source on every run (`Gen/FragmentsSrc.lean`, by
`harness/c15_src.py`), run by the evaluator of `Model/FragmentsAst.lean` on the data of `Model/Fragments.lean` /
`Model/Formula.lean`.  The driver runs these functions (lines `sgf` / `sne` / `snre` / `sfs`), `Props/C15Src.lean` proves them
equal to the hand models.  Core Lean only.
-/
namespace QcelVerif.FragSrc
open QcelVerif.FragAst QcelVerif.Fragments QcelVerif.Gen.FragmentsSrc

def natL (l : List Nat) : List (Option Int) := l.map (fun (k : Nat) => some (k : Int))
def intL (l : List Int) : List (Option Int) := l.map some
def boolL (l : List Bool) : List (Option Int) := l.map (fun b => some (b2i b))

/-- the inputs `self.<attr>` in the slot order of the generated file: fragments, symbols, masses, geometry (the three per-atom
arrays as row references `0..n-1`), fragment_charges, fragment_multiplicities, atomic_numbers, real, molecular_charge -/
def inputs (n : Nat) (zs : List Int) (real : List Bool) (frags : List (List Nat)) (fc fm : List Int) (c : Int) : List Val :=
  [.ll (frags.map natL), .l (natL (List.range n)), .l (natL (List.range n)), .l (natL (List.range n)),
   .l (intL fc), .l (intL fm), .l (intL zs), .l (boolL real), .s (some c)]

/-! ### decoding values -/

def decNat : Option Int → Option Nat
  | some i => if 0 ≤ i then some i.toNat else none
  | none => none

def decNatL : Val → Option (List Nat)
  | .l xs => mapO decNat xs
  | _ => none

def decIntL : Val → Option (List Int)
  | .l xs => mapO id xs
  | _ => none

def decBoolL : Val → Option (List Bool)
  | .l xs => mapO (fun x => x.map (· != 0)) xs
  | _ => none

/-- a list of index lists; the empty list literal is the empty list of lists -/
def decLL : Val → Option (List (List Nat))
  | .l [] => some []
  | .ll xss => mapO (mapO decNat) xss
  | _ => none

def decOptInt : Val → Option (Option Int)
  | .s x => some x
  | _ => none

/-! ### get_fragment -/

/-- the keyword arguments collected in `constructor_dict`, per-atom arrays as lists of parent rows -/
structure SrcCtor where
  sym : List Nat
  mass : List Nat
  geom : List Nat
  real : List Bool
  frags : List (List Nat)
  fc : List Int
  fm : List Int
  c : Option Int
  m : Option Int
  deriving Repr, DecidableEq

def gfInputs {α} (mol : Mol α) : List Val :=
  inputs mol.atoms.length [] mol.real mol.frags mol.fc mol.fm mol.c

/-- run the generated body of `get_fragment(real, ghost, orient, group_fragments)` -/
def gfRun {α} (mol : Mol α) (real ghost : Val) (orient group : Bool) : Option (St Int) :=
  run (gfInputs mol) (fun _ _ => (0 : Int)) gfSlots 0
    [(GF.v_real, real), (GF.v_ghost, ghost), (GF.v_orient, b2v orient), (GF.v_group_fragments, b2v group)] getFragment

def readCtor (v : List Val) : Option SrcCtor := do
  let sym ← (v[GF.v_cd_symbols]?).bind decNatL
  let mass ← (v[GF.v_cd_masses]?).bind decNatL
  let geom ← (v[GF.v_cd_geometry]?).bind decNatL
  let real ← (v[GF.v_cd_real]?).bind decBoolL
  let frags ← (v[GF.v_cd_fragments]?).bind decLL
  let fc ← (v[GF.v_cd_fragment_charges]?).bind decIntL
  let fm ← (v[GF.v_cd_fragment_multiplicities]?).bind decIntL
  let c ← (v[GF.v_cd_molecular_charge]?).bind decOptInt
  let m ← (v[GF.v_cd_molecular_multiplicity]?).bind decOptInt
  pure { sym := sym, mass := mass, geom := geom, real := real, frags := frags, fc := fc, fm := fm, c := c, m := m }

/-- `get_fragment(real, ghost, group_fragments=group)` up to the constructor call, with list arguments -/
def srcExtract {α} (mol : Mol α) (R G : List Nat) (group : Bool) : Option SrcCtor :=
  match gfRun mol (.l (natL R)) (.l (natL G)) false group with
  | some st => readCtor st.v
  | none => none

/-- the three per-atom arrays must name the same parent rows; then they are the rows of the model's `atoms` list -/
def SrcCtor.toCtor {α} (mol : Mol α) (k : SrcCtor) : Option (Ctor α) :=
  if k.sym = k.geom ∧ k.mass = k.geom then
    (pick mol.atoms k.geom).map (fun atoms =>
      { atoms := atoms, real := k.real, frags := k.frags, fc := k.fc, fm := k.fm, c := k.c, m := k.m })
  else none

/-! ### nelectrons -/

def readInt (st : Option (St Int)) : Option Int :=
  match st with
  | some st =>
    match st.v[0]? with
    | some (Val.s (some r)) => some r
    | _ => none
  | none => none

/-- the generated body of `nelectrons(ifr)` on (atomic numbers, real flags, fragments, fragment charges, molecular charge) -/
def srcNel (zs : List Int) (real : List Bool) (frags : List (List Nat)) (fc : List Int) (c : Int) (ifr : Option Nat) :
    Option Int :=
  readInt (run (inputs zs.length zs real frags fc [] c) (fun _ _ => (0 : Int)) neSlots 0
    [(NE.v_ifr, .s (ifr.map (fun (k : Nat) => (k : Int))))] nelectrons)

def srcNelectrons {α} (zOf : α → Int) (mol : Mol α) (ifr : Option Nat) : Option Int :=
  srcNel (mol.atoms.map zOf) mol.real mol.frags mol.fc mol.c ifr

/-! ### nuclear repulsion energy -/

section nre
variable {K : Type} [Add K] [Mul K] [Div K] [Zero K] [IntCast K]

/-- the generated body of `nuclear_repulsion_energy(ifr)`; `n` = number of rows of the geometry -/
def srcNre (n : Nat) (zs : List Int) (real : List Bool) (frags : List (List Nat)) (dist : Nat → Nat → K) (ifr : Option Nat) :
    Option K :=
  match run (inputs n zs real frags [] [] 0) dist nreSlots nreKSlots
      [(NRE.v_ifr, .s (ifr.map (fun (k : Nat) => (k : Int))))] nre with
  | some st => st.k[nreRet]?
  | none => none

end nre

/-! ### molecular_formula_from_symbols -/

open QcelVerif.Formula in
/-- the lower-cased order word the source compares with -/
def ordName : Order → String
  | .alphabetical => "alphabetical"
  | .hill => "hill"

open QcelVerif.Formula in
/-- the generated body: Counter of the title-cased symbols, sorted keys, the generated rearrangement, the generated output loop -/
def srcFromSymbols (syms : List String) (ord : Order) : Option String :=
  let t := syms.map title
  (execFs (ordName ord) formulaRearrange (sortedKeys strLe t)).map (fun o => renderF formulaOut o (fun k => t.count k))

end QcelVerif.FragSrc
