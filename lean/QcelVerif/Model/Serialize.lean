/-
C10 — model of qcelemental/util/serialization.py (+ dispatch in models/basemodels.py, molecule.py).
Core Lean only (the driver imports this file).

Value trees: what `serialize(data, enc)` is handed after pydantic's `.dict()`:
nil / bool / int / float64 (raw 8 bytes, big-endian as msgpack writes them) / str (UTF-8 bytes) /
bin / list / dict, plus ndarray leaves (dtype string as numpy's `dtype.str`, shape, C-contiguous bytes =
`np.ascontiguousarray(a).tobytes()`).
-/
namespace QcelVerif.Ser

abbrev Bytes := List UInt8

inductive Val where
  | nil : Val
  | bool : Bool → Val
  | int : Int → Val
  | f64 : Bytes → Val                      -- exactly 8 bytes (IEEE-754 big-endian)
  | str : Bytes → Val                      -- UTF-8
  | bin : Bytes → Val
  | arr : List Val → Val
  | map : List (Val × Val) → Val
  | nd : Bytes → List Nat → Bytes → Val    -- dtype.str (ASCII), shape, data
deriving Repr, BEq, Inhabited

/-! ## hex  (`bytes.hex()` / `bytes.fromhex`, serialization.py:132,146) -/

def hexDigit (n : Nat) : Char := if n < 10 then Char.ofNat (48 + n) else Char.ofNat (87 + n)

def unhexDigit (c : Char) : Option Nat :=
  if '0' ≤ c ∧ c ≤ '9' then some (c.toNat - 48)
  else if 'a' ≤ c ∧ c ≤ 'f' then some (c.toNat - 87)
  else if 'A' ≤ c ∧ c ≤ 'F' then some (c.toNat - 55) else none

def hex : Bytes → List Char
  | [] => []
  | b :: t => hexDigit (b.toNat / 16) :: hexDigit (b.toNat % 16) :: hex t

def unhex : List Char → Option Bytes
  | [] => some []
  | [_] => none
  | a :: b :: t => do
      let x ← unhexDigit a
      let y ← unhexDigit b
      let r ← unhex t
      pure (UInt8.ofNat (16 * x + y) :: r)

/-! ## big-endian fixed-width naturals -/

/-- `n` as `k` big-endian bytes (low `8k` bits) -/
def beBytes : Nat → Nat → Bytes
  | 0, _ => []
  | k + 1, n => UInt8.ofNat (n / 256 ^ k % 256) :: beBytes k n

def beNat : Bytes → Nat
  | [] => 0
  | b :: t => b.toNat * 256 ^ t.length + beNat t

/-! ## msgpack encoder — the forms msgpack-python's Packer emits (`use_bin_type=True`):
always the shortest head for the value (msgpack/_packer.pyx; pack_template.h) -/

def mpInt (i : Int) : Bytes :=
  if 0 ≤ i then
    let n := i.toNat
    if n < 128 then [UInt8.ofNat n]
    else if n < 256 then 0xcc :: beBytes 1 n
    else if n < 65536 then 0xcd :: beBytes 2 n
    else if n < 4294967296 then 0xce :: beBytes 4 n
    else 0xcf :: beBytes 8 n
  else
    let m := (-i).toNat            -- 1 ≤ m
    if m ≤ 32 then [UInt8.ofNat (256 - m)]
    else if m ≤ 128 then 0xd0 :: beBytes 1 (256 - m)
    else if m ≤ 32768 then 0xd1 :: beBytes 2 (65536 - m)
    else if m ≤ 2147483648 then 0xd2 :: beBytes 4 (4294967296 - m)
    else 0xd3 :: beBytes 8 (18446744073709551616 - m)

def mpStrHead (n : Nat) : Bytes :=
  if n < 32 then [UInt8.ofNat (0xa0 + n)]
  else if n < 256 then 0xd9 :: beBytes 1 n
  else if n < 65536 then 0xda :: beBytes 2 n
  else 0xdb :: beBytes 4 n

def mpBinHead (n : Nat) : Bytes :=
  if n < 256 then 0xc4 :: beBytes 1 n
  else if n < 65536 then 0xc5 :: beBytes 2 n
  else 0xc6 :: beBytes 4 n

def mpArrHead (n : Nat) : Bytes :=
  if n < 16 then [UInt8.ofNat (0x90 + n)]
  else if n < 65536 then 0xdc :: beBytes 2 n
  else 0xdd :: beBytes 4 n

def mpMapHead (n : Nat) : Bytes :=
  if n < 16 then [UInt8.ofNat (0x80 + n)]
  else if n < 65536 then 0xde :: beBytes 2 n
  else 0xdf :: beBytes 4 n

def asciiBytes (s : String) : Bytes := s.toList.map (fun c => UInt8.ofNat c.toNat)

/-- the `{b"_nd_": True, b"dtype": str, b"data": bytes[, b"shape": tuple]}` envelope
(serialization.py:44-49): keys are *bytes* objects → bin8; insertion order kept; `shape` only if rank > 1 -/
def ndEnvelope (dt : Bytes) (shape : List Nat) (data : Bytes) : Val :=
  .map ([(.bin (asciiBytes "_nd_"), .bool true),
         (.bin (asciiBytes "dtype"), .str dt),
         (.bin (asciiBytes "data"), .bin data)]
        ++ (if shape.length > 1 then [(.bin (asciiBytes "shape"), .arr (shape.map fun (n : Nat) => Val.int (n : Int)))] else []))

mutual
  /-- `msgpack.dumps(v, default=msgpackext_encode, use_bin_type=True)`; rank-0 arrays are outside `nd`
  (they decay to scalars before reaching here, serialization.py:51-53) -/
  def mpEnc : Val → Bytes
    | .nil => [0xc0]
    | .bool false => [0xc2]
    | .bool true => [0xc3]
    | .int i => mpInt i
    | .f64 b => 0xcb :: b
    | .str s => mpStrHead s.length ++ s
    | .bin b => mpBinHead b.length ++ b
    | .arr l => mpArrHead l.length ++ mpEncL l
    | .map l => mpMapHead l.length ++ mpEncP l
    | .nd dt shape data =>
        mpMapHead (if shape.length > 1 then 4 else 3)
          ++ (mpBinHead 4 ++ asciiBytes "_nd_") ++ [0xc3]
          ++ (mpBinHead 5 ++ asciiBytes "dtype") ++ (mpStrHead dt.length ++ dt)
          ++ (mpBinHead 4 ++ asciiBytes "data") ++ (mpBinHead data.length ++ data)
          ++ (if shape.length > 1 then
                (mpBinHead 5 ++ asciiBytes "shape") ++ (mpArrHead shape.length ++ mpEncShape shape)
              else [])
  def mpEncL : List Val → Bytes
    | [] => []
    | v :: t => mpEnc v ++ mpEncL t
  def mpEncP : List (Val × Val) → Bytes
    | [] => []
    | (k, v) :: t => mpEnc k ++ mpEnc v ++ mpEncP t
  def mpEncShape : List Nat → Bytes
    | [] => []
    | n :: t => mpInt n ++ mpEncShape t
end

/-! ## msgpack decoder — every head form of the subset; `object_hook=msgpackext_decode`
(serialization.py:58-80,117) applied bottom-up to every decoded map -/

def takeN (n : Nat) (bs : Bytes) : Option (Bytes × Bytes) :=
  if n ≤ bs.length then some (bs.take n, bs.drop n) else none

/-- `k == b"<key>"` for a decoded map key (a `bytes` object equals only another `bytes` object) -/
def isBinKey (key : Bytes) : Val → Bool
  | .bin b => b == key
  | _ => false

/-- `k == "<key>"` for a JSON object key -/
def isStrKey (key : Bytes) : Val → Bool
  | .str b => b == key
  | _ => false

def lookupBin (key : String) : List (Val × Val) → Option Val
  | [] => none
  | (k, v) :: t => if isBinKey (asciiBytes key) k then some v else lookupBin key t

def shapeOfVals : List Val → Option (List Nat)
  | [] => some []
  | .int i :: t => if 0 ≤ i then (shapeOfVals t).map (i.toNat :: ·) else none
  | _ => none

def prodL : List Nat → Nat
  | [] => 1
  | n :: t => n * prodL t

/-- itemsize from a numpy `dtype.str` such as `<f8`, `|b1`, `<U3`, `|S5`, `>c16` (U items are 4 bytes per char) -/
def digitsNat : List UInt8 → Option Nat
  | [] => none
  | l => l.foldl (fun acc c => acc.bind fun n =>
      if 48 ≤ c.toNat ∧ c.toNat ≤ 57 then some (n * 10 + (c.toNat - 48)) else none) (some 0)

def itemsize (dt : Bytes) : Option Nat :=
  match dt with
  | _ :: k :: rest =>
      (digitsNat rest).bind fun n =>
        if k == 85 then some (4 * n)                       -- 'U'
        else if k ∈ [102, 105, 117, 98, 99, 83].map UInt8.ofNat then some n   -- f i u b c S
        else none
  | _ => none

inductive HookErr where
  | keyData      -- `_nd_` present but `data`/`dtype` missing → KeyError
  | badBuffer    -- np.frombuffer: size not a multiple of itemsize / bad dtype → ValueError/TypeError
  | badShape     -- arr.shape = … incompatible → ValueError
deriving Repr, BEq, DecidableEq

/-- `msgpackext_decode` on one decoded map -/
def mpHook (l : List (Val × Val)) : Except HookErr Val :=
  match lookupBin "_nd_" l with
  | none => .ok (.map l)
  | some _ =>
    match lookupBin "data" l, lookupBin "dtype" l with
    | some (.bin data), some (.str dt) =>
      match itemsize dt with
      | none => .error .badBuffer
      | some 0 => .error .badBuffer
      | some isz =>
        if data.length % isz ≠ 0 then .error .badBuffer
        else
          match lookupBin "shape" l with
          | none => .ok (.nd dt [data.length / isz] data)
          | some (.arr sv) =>
            match shapeOfVals sv with
            | some shape => if prodL shape = data.length / isz then .ok (.nd dt shape data) else .error .badShape
            | none => .error .badShape
          | some _ => .error .badShape
    | some _, some _ => .error .badBuffer
    | _, _ => .error .keyData

inductive DecErr where
  | truncated | badHead (b : UInt8) | extra | hook (e : HookErr)
deriving Repr, BEq

mutual
  /-- fuel-bounded so that it is total; `mpDecode` supplies fuel = input length + 1, which always suffices -/
  def mpDec : Nat → Bytes → Except DecErr (Val × Bytes)
    | 0, _ => .error .truncated
    | _, [] => .error .truncated
    | fuel + 1, h :: r =>
      let n := h.toNat
      let withLen (k : Nat) (f : Nat → Bytes → Except DecErr (Val × Bytes)) : Except DecErr (Val × Bytes) :=
        match takeN k r with
        | some (lb, r') => f (beNat lb) r'
        | none => .error .truncated
      let raw (mk : Bytes → Val) (len : Nat) (r' : Bytes) : Except DecErr (Val × Bytes) :=
        match takeN len r' with
        | some (b, r'') => .ok (mk b, r'')
        | none => .error .truncated
      let arrOf (len : Nat) (r' : Bytes) : Except DecErr (Val × Bytes) :=
        (mpDecL fuel len r').map fun (l, r'') => (.arr l, r'')
      let mapOf (len : Nat) (r' : Bytes) : Except DecErr (Val × Bytes) :=
        match mpDecP fuel len r' with
        | .error e => .error e
        | .ok (l, r'') =>
          match mpHook l with
          | .ok v => .ok (v, r'')
          | .error e => .error (.hook e)
      if n < 0x80 then .ok (.int n, r)
      else if n < 0x90 then mapOf (n - 0x80) r
      else if n < 0xa0 then arrOf (n - 0x90) r
      else if n < 0xc0 then raw .str (n - 0xa0) r
      else if n = 0xc0 then .ok (.nil, r)
      else if n = 0xc2 then .ok (.bool false, r)
      else if n = 0xc3 then .ok (.bool true, r)
      else if n = 0xc4 then withLen 1 (raw .bin)
      else if n = 0xc5 then withLen 2 (raw .bin)
      else if n = 0xc6 then withLen 4 (raw .bin)
      else if n = 0xcb then raw .f64 8 r
      else if n = 0xcc then withLen 1 fun v r' => .ok (.int v, r')
      else if n = 0xcd then withLen 2 fun v r' => .ok (.int v, r')
      else if n = 0xce then withLen 4 fun v r' => .ok (.int v, r')
      else if n = 0xcf then withLen 8 fun v r' => .ok (.int v, r')
      else if n = 0xd0 then withLen 1 fun v r' => .ok (.int (if v < 128 then (v : Int) else (v : Int) - 256), r')
      else if n = 0xd1 then withLen 2 fun v r' => .ok (.int (if v < 32768 then (v : Int) else (v : Int) - 65536), r')
      else if n = 0xd2 then withLen 4 fun v r' => .ok (.int (if v < 2147483648 then (v : Int) else (v : Int) - 4294967296), r')
      else if n = 0xd3 then withLen 8 fun v r' =>
        .ok (.int (if v < 9223372036854775808 then (v : Int) else (v : Int) - 18446744073709551616), r')
      else if n = 0xd9 then withLen 1 (raw .str)
      else if n = 0xda then withLen 2 (raw .str)
      else if n = 0xdb then withLen 4 (raw .str)
      else if n = 0xdc then withLen 2 arrOf
      else if n = 0xdd then withLen 4 arrOf
      else if n = 0xde then withLen 2 mapOf
      else if n = 0xdf then withLen 4 mapOf
      else if 0xe0 ≤ n then .ok (.int ((n : Int) - 256), r)
      else .error (.badHead h)            -- c1, c7-c9 (ext), ca (float32), d4-d8 (fixext): not produced by the writers
  def mpDecL : Nat → Nat → Bytes → Except DecErr (List Val × Bytes)
    | _, 0, bs => .ok ([], bs)
    | fuel, k + 1, bs =>
      match mpDec fuel bs with
      | .error e => .error e
      | .ok (v, r) =>
        match mpDecL fuel k r with
        | .error e => .error e
        | .ok (l, r') => .ok (v :: l, r')
  def mpDecP : Nat → Nat → Bytes → Except DecErr (List (Val × Val) × Bytes)
    | _, 0, bs => .ok ([], bs)
    | fuel, k + 1, bs =>
      match mpDec fuel bs with
      | .error e => .error e
      | .ok (key, r) =>
        match mpDec fuel r with
        | .error e => .error e
        | .ok (v, r') =>
          match mpDecP fuel k r' with
          | .error e => .error e
          | .ok (l, r'') => .ok ((key, v) :: l, r'')
end

/-- `msgpack.loads(data, object_hook=msgpackext_decode, raw=False)`: one object, no trailing bytes (ExtraData) -/
def mpDecode (bs : Bytes) : Except DecErr Val :=
  match mpDec (bs.length + 1) bs with
  | .error e => .error e
  | .ok (v, []) => .ok v
  | .ok (_, _ :: _) => .error .extra

/-! ## json-ext: the JSON *value* the encoder produces (compared after JSON parsing) and the object hook.
`JSONExtArrayEncoder.default` (serialization.py:123-141): str keys, data hex-encoded, shape if rank > 1.
Tuples become lists, non-str keys are outside the model grammar. -/

def hexBytes (data : Bytes) : Bytes := (hex data).map fun c => UInt8.ofNat c.toNat

def jxEnvelope (dt : Bytes) (shape : List Nat) (data : Bytes) : Val :=
  .map ([(.str (asciiBytes "_nd_"), .bool true),
         (.str (asciiBytes "dtype"), .str dt),
         (.str (asciiBytes "data"), .str (hexBytes data))]
        ++ (if shape.length > 1 then [(.str (asciiBytes "shape"), .arr (shape.map fun (n : Nat) => Val.int (n : Int)))] else []))

mutual
  /-- the JSON value tree written by `jsonext_dumps` (ndarray leaves replaced by their envelopes) -/
  def jxEnc : Val → Val
    | .arr l => .arr (jxEncL l)
    | .map l => .map (jxEncP l)
    | .nd dt shape data => jxEnvelope dt shape data
    | v => v
  def jxEncL : List Val → List Val
    | [] => []
    | v :: t => jxEnc v :: jxEncL t
  def jxEncP : List (Val × Val) → List (Val × Val)
    | [] => []
    | (k, v) :: t => (k, jxEnc v) :: jxEncP t
end

def lookupStr (key : String) : List (Val × Val) → Option Val
  | [] => none
  | (k, v) :: t => if isStrKey (asciiBytes key) k then some v else lookupStr key t

def bytesToChars (b : Bytes) : List Char := b.map fun c => Char.ofNat c.toNat

/-- `jsonext_decode` on one parsed JSON object (serialization.py:144-152) -/
def jxHook (l : List (Val × Val)) : Except HookErr Val :=
  match lookupStr "_nd_" l with
  | none => .ok (.map l)
  | some _ =>
    match lookupStr "data" l, lookupStr "dtype" l with
    | some (.str hx), some (.str dt) =>
      match unhex (bytesToChars hx) with
      | none => .error .badBuffer
      | some data =>
        match itemsize dt with
        | none => .error .badBuffer
        | some 0 => .error .badBuffer
        | some isz =>
          if data.length % isz ≠ 0 then .error .badBuffer
          else
            match lookupStr "shape" l with
            | none => .ok (.nd dt [data.length / isz] data)
            | some (.arr sv) =>
              match shapeOfVals sv with
              | some shape => if prodL shape = data.length / isz then .ok (.nd dt shape data) else .error .badShape
              | none => .error .badShape
            | some _ => .error .badShape
    | some _, some _ => .error .badBuffer
    | _, _ => .error .keyData

mutual
  /-- `json.loads(text, object_hook=jsonext_decode)` on the parsed value tree: hook applied bottom-up to every object -/
  def jxDec : Val → Except HookErr Val
    | .arr l => (jxDecL l).map .arr
    | .map l =>
      match jxDecP l with
      | .error e => .error e
      | .ok l' => jxHook l'
    | v => .ok v
  def jxDecL : List Val → Except HookErr (List Val)
    | [] => .ok []
    | v :: t =>
      match jxDec v with
      | .error e => .error e
      | .ok v' => (jxDecL t).map (v' :: ·)
  def jxDecP : List (Val × Val) → Except HookErr (List (Val × Val))
    | [] => .ok []
    | (k, v) :: t =>
      match jxDec v with
      | .error e => .error e
      | .ok v' => (jxDecP t).map ((k, v') :: ·)
end

/-! ## flat encoders (`obj.ravel().tolist()`, serialization.py:200-204, 267-271) and the reshape validators -/

/-- well-formedness of an ndarray leaf: rank ≥ 1 and `len(data) = itemsize · ∏ shape` -/
def ndWF (dt : Bytes) (shape : List Nat) (data : Bytes) : Prop :=
  1 ≤ shape.length ∧ ∃ isz, itemsize dt = some isz ∧ 0 < isz ∧ data.length = isz * prodL shape

/-- flat element list of a C-ordered array of `shape` → nested rows; `reshapeRows n m` is `v.reshape(n, m)` on a
flat list, defined when the size matches (molecule.py:386-393 `(N,3)`; results.py `(nat,3)`, `(3nat,3nat)`, `(nbf,nbf)`, `(3,3)`) -/
def chunk {α : Type} (m : Nat) : Nat → List α → List (List α)
  | 0, _ => []
  | n + 1, l => l.take m :: chunk m n (l.drop m)

def reshapeRows {α : Type} (n m : Nat) (flat : List α) : Option (List (List α)) :=
  if flat.length = n * m then some (chunk m n flat) else none

def ravel {α : Type} (rows : List (List α)) : List α := rows.flatten

/-! ## dispatch tables (hand-written mirror; `Gen/SerTables.lean` is re-extracted from the source on every run
and proved equal to these in Props/C10.lean) -/

inductive Enc where
  | json | jsonExt | msgpack | msgpackExt
deriving Repr, BEq, DecidableEq

/-- which decoder family a reader runs -/
inductive Reader where
  | pydJson        -- pydantic's own `json.loads` (no object hook): basemodels.py:69-70
  | jsonExt        -- `json.loads(object_hook=jsonext_decode)`: serialization.py:187,241
  | msgpackExt     -- `msgpack.loads(object_hook=msgpackext_decode)`: serialization.py:117,313
deriving Repr, BEq, DecidableEq

/-- payload Python type of each writer (serialization.py:319-344) -/
inductive PyTy where | str | bytes
deriving Repr, BEq, DecidableEq

def Enc.payloadTy : Enc → PyTy
  | .json | .jsonExt => .str
  | .msgpack | .msgpackExt => .bytes

/-- `parse_raw(data, encoding=None)` (basemodels.py:61-67) -/
def autoEnc : PyTy → Enc
  | .str => .json
  | .bytes => .msgpackExt

/-- `parse_raw` with an explicit/auto encoding → reader (basemodels.py:69-74; serialization.py:362-373) -/
def readerOf : Enc → Reader
  | .json => .pydJson
  | .jsonExt => .jsonExt
  | .msgpack | .msgpackExt => .msgpackExt

/-- does a reader decode (arrays included) what a writer of that encoding wrote? -/
def reads : Reader → Enc → Bool
  | .pydJson, .json => true
  | .jsonExt, .json | .jsonExt, .jsonExt => true
  | .msgpackExt, .msgpack | .msgpackExt, .msgpackExt => true
  | _, _ => false

end QcelVerif.Ser
