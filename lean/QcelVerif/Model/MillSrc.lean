import QcelVerif.Model.MillAst
import QcelVerif.Gen.MillSrc
/-!
# The source-derived `AlignmentMill` functions

`Gen/MillSrc.lean` holds one AST per method of `AlignmentMill`, regenerated from
`qcelemental/models/align.py` on every run by `harness/c13_src.py`.  Here each of them is
evaluated (`evalMill`) with the method's own argument put into its slot of the environment and the
slots no method of that name reads filled with zeros.  `Props/C13Src.lean` proves each of these equal
to the hand-written function of `Model/Mill.lean` (for every environment, so the fill-in values are
irrelevant); the driver runs both side by side.

Core Lean only (the driver imports this file).
-/
namespace QcelVerif.Mill.Src
open QcelVerif.Mill

variable {K : Type} [Add K] [Sub K] [Mul K] [Neg K] [OfNat K 0] [OfNat K 1]

/-- environment with every argument slot zero -/
def env0 {n m : Nat} (r : Recipe K n m) : Env K Unit n m :=
  { r := r, reverse := false, rows := fun _ _ => 0, vec := fun _ => 0, hess := fun _ _ => 0,
    mu := fun _ _ => 0, atoms := fun _ => () }

/-- `align_coordinates(geom, reverse=rev)` as read from the source -/
def alignCoordsKw {n m : Nat} (r : Recipe K n m) (rev : Bool) (x : Geom K n) : Geom K m :=
  evalMill (genAST_align_coordinates n m) { env0 r with reverse := rev, rows := x }

/-- `align_coordinates(geom)` as read from the source -/
def alignCoords {n m : Nat} (r : Recipe K n m) (x : Geom K n) : Geom K m := alignCoordsKw r false x

/-- `align_coordinates(geom, reverse=True)` as read from the source -/
def alignCoordsRev {n m : Nat} (r : Recipe K n m) (x : Geom K n) : Geom K m := alignCoordsKw r true x

/-- `align_gradient(grad)` as read from the source -/
def alignGradient {n m : Nat} (r : Recipe K n m) (g : Geom K n) : Geom K m :=
  evalMill (genAST_align_gradient n m) { env0 r with rows := g }

/-- `align_vector(vec)` as read from the source -/
def alignVector {n m : Nat} (r : Recipe K n m) (v : Vec3 K) : Vec3 K :=
  evalMill (genAST_align_vector n m) { env0 r with vec := v }

/-- `align_hessian(hess)` as read from the source -/
def alignHessian {n m : Nat} (r : Recipe K n m) (h : Hess K n) : Hess K m :=
  evalMill (genAST_align_hessian n m) { env0 r with hess := h }

/-- `align_vector_gradient(mu_derivatives)` as read from the source -/
def alignVectorGradient {n : Nat} (r : Recipe K n n) (mu : Fin 3 → Fin (n * 3) → K) :
    Fin 3 → Fin (n * 3) → K :=
  evalMill (genAST_align_vector_gradient n) { env0 r with mu := mu }

/-- `align_atoms(ats)` as read from the source (the scalar slots of the environment are not read;
they are filled at `K = Int`) -/
def alignAtoms {α : Type} {n m : Nat} (map : Fin m → Fin n) (ats : Fin n → α) : Fin m → α :=
  evalMill (K := Int) (genAST_align_atoms n m)
    { r := { shift := fun _ => 0, rot := fun _ _ => 0, map := map, mirror := false },
      reverse := false, rows := fun _ _ => 0, vec := fun _ => 0, hess := fun _ _ => 0,
      mu := fun _ _ => 0, atoms := ats }

/-- One component of the tuple returned by `align_system` / `align_mini_system`: the positional
arguments are `args` (position 0 is the geometry in every call the library makes; a per-atom array
otherwise), the result is the geometry or per-atom array the component call returns, `none` if the
component passes an argument of the wrong sort on. -/
def evalSysComp {α : Type} {n m : Nat} (r : Recipe K n m) (rev : Bool)
    (args : Nat → Sum (Geom K n) (Fin n → α)) : SysComp → Option (Sum (Geom K m) (Fin m → α))
  | .coords k kw =>
    match args k with
    | .inl x => some (.inl (alignCoordsKw r (kw && rev) x))
    | .inr _ => none
  | .atoms k =>
    match args k with
    | .inr a => some (.inr (alignAtoms r.map a))
    | .inl _ => none

end QcelVerif.Mill.Src
