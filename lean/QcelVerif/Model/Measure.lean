import Mathlib.Algebra.Order.Field.Basic
import Mathlib.Algebra.Order.Field.Rat
/-!
# Model of the geometric measurements of QCElemental (property C18)

Source modelled (line numbers of `/repo`):
* `qcelemental/util/misc.py:10-19`    `distance_matrix`
* `qcelemental/util/misc.py:137-144`  `_norm`
* `qcelemental/util/misc.py:147-187`  `measure_coordinates`
* `qcelemental/util/misc.py:190-219`  `compute_distance`
* `qcelemental/util/misc.py:222-263`  `compute_angle`
* `qcelemental/util/misc.py:266-320`  `compute_dihedral`
* `qcelemental/molutil/connectivity.py:37-62` `guess_connectivity`
* `qcelemental/models/molecule.py:542-562` `Molecule.measure` (= `measure_coordinates(self.geometry, …)`)

Everything is written over a generic scalar type `K` (commutative ring / field / ordered field)
and executed by the driver at `K = ℚ`, where every IEEE double is represented exactly.

`sqrt`, `arccos`, `arctan2` do not exist in `K`.  The model therefore returns the **exact
arguments** that the code feeds to them:
* distance  : `d² = |p−q|²`                         (code: `sqrt d²`)
* angle     : `(v₁₂·v₂₃ , |v₁₂|²·|v₂₃|²)`            (code: `π − arccos(clip(dot / sqrt nn))`)
* dihedral  : `(XN, Y, N)`                           (code: `arctan2(y, x)`, `x = XN/N`, `y = Y/√N`)
and, next to these, *code-shaped* functions (`angleCos`, `dihedralXY`) in which the value of
`_norm(·)` is a parameter `n` constrained by `n * n = |·|²`; the theorems in `Props/C18.lean`
connect the two.
-/
namespace QcelVerif.Measure

/-- a point / vector of ℝ³ -/
@[ext] structure V3 (K : Type) where
  x : K
  y : K
  z : K

/-- a 3×3 matrix, row major -/
@[ext] structure M3 (K : Type) where
  a11 : K
  a12 : K
  a13 : K
  a21 : K
  a22 : K
  a23 : K
  a31 : K
  a32 : K
  a33 : K

section ring
variable {K : Type} [CommRing K]

namespace V3
instance : Add (V3 K) := ⟨fun a b => ⟨a.x + b.x, a.y + b.y, a.z + b.z⟩⟩
instance : Sub (V3 K) := ⟨fun a b => ⟨a.x - b.x, a.y - b.y, a.z - b.z⟩⟩
instance : Neg (V3 K) := ⟨fun a => ⟨-a.x, -a.y, -a.z⟩⟩
instance : SMul K (V3 K) := ⟨fun c a => ⟨c * a.x, c * a.y, c * a.z⟩⟩
/-- `np.einsum("ij,ij->i", a, b)` for one row -/
def dot (a b : V3 K) : K := a.x * b.x + a.y * b.y + a.z * b.z
/-- `np.cross(a, b)` for one row -/
def cross (a b : V3 K) : V3 K :=
  ⟨a.y * b.z - a.z * b.y, a.z * b.x - a.x * b.z, a.x * b.y - a.y * b.x⟩
/-- the argument of the `sqrt` in `_norm` (misc.py:143-144) -/
def nsq (a : V3 K) : K := dot a a
end V3
open V3

namespace M3
def mulVec (R : M3 K) (v : V3 K) : V3 K :=
  ⟨R.a11 * v.x + R.a12 * v.y + R.a13 * v.z,
   R.a21 * v.x + R.a22 * v.y + R.a23 * v.z,
   R.a31 * v.x + R.a32 * v.y + R.a33 * v.z⟩
def row1 (R : M3 K) : V3 K := ⟨R.a11, R.a12, R.a13⟩
def row2 (R : M3 K) : V3 K := ⟨R.a21, R.a22, R.a23⟩
def row3 (R : M3 K) : V3 K := ⟨R.a31, R.a32, R.a33⟩
def transpose (R : M3 K) : M3 K :=
  ⟨R.a11, R.a21, R.a31, R.a12, R.a22, R.a32, R.a13, R.a23, R.a33⟩
def mul (A B : M3 K) : M3 K :=
  ⟨A.a11 * B.a11 + A.a12 * B.a21 + A.a13 * B.a31, A.a11 * B.a12 + A.a12 * B.a22 + A.a13 * B.a32,
   A.a11 * B.a13 + A.a12 * B.a23 + A.a13 * B.a33,
   A.a21 * B.a11 + A.a22 * B.a21 + A.a23 * B.a31, A.a21 * B.a12 + A.a22 * B.a22 + A.a23 * B.a32,
   A.a21 * B.a13 + A.a22 * B.a23 + A.a23 * B.a33,
   A.a31 * B.a11 + A.a32 * B.a21 + A.a33 * B.a31, A.a31 * B.a12 + A.a32 * B.a22 + A.a33 * B.a32,
   A.a31 * B.a13 + A.a32 * B.a23 + A.a33 * B.a33⟩
def one : M3 K := ⟨1, 0, 0, 0, 1, 0, 0, 0, 1⟩
/-- determinant as the triple product of the rows -/
def det (R : M3 K) : K := dot R.row1 (cross R.row2 R.row3)
/-- `R Rᵀ = I` -/
def IsOrthogonal (R : M3 K) : Prop := R.mul R.transpose = one
/-- proper rotation: `R Rᵀ = I` and `det R = 1` -/
def IsRotation (R : M3 K) : Prop := R.IsOrthogonal ∧ R.det = 1
/-- improper orthogonal map (reflection composed with a rotation): `R Rᵀ = I` and `det R = −1` -/
def IsReflection (R : M3 K) : Prop := R.IsOrthogonal ∧ R.det = -1
end M3

/-- the motion `p ↦ R p + t` -/
structure Motion (K : Type) where
  R : M3 K
  t : V3 K

def Motion.apply (T : Motion K) (p : V3 K) : V3 K := T.R.mulVec p + T.t

/-! ## distances -/

/-- `compute_distance` for one row, before the `sqrt` (misc.py:216-219: `_norm(points1 - points2)`) -/
def distSq (p q : V3 K) : K := nsq (p - q)

/-- `distance_matrix(a, b)` (misc.py:10-19), entries before the `sqrt` of `np.linalg.norm` -/
def distanceMatrixSq (a b : List (V3 K)) : List (List K) :=
  a.map fun ai => b.map fun bj => distSq ai bj

/-! ## angle (misc.py:250-263) -/

/-- `(einsum(v12, v23), |v12|²·|v23|²)`: numerator and squared denominator of `cosine_angle` -/
def angleArgs (p1 p2 p3 : V3 K) : K × K :=
  let v12 := p1 - p2
  let v23 := p2 - p3
  (dot v12 v23, nsq v12 * nsq v23)

/-! ## dihedral (misc.py:290-320) -/

/-- sqrt-free arguments of the dihedral: `(XN, Y, N)` with `N = |p3−p2|²`,
`XN = N·x` and `Y = √N·y` for the `(x, y)` that the code passes to `arctan2(y, x)`
(theorem `dihedralXY_eq_args`). -/
def dihedralArgs (p1 p2 p3 p4 : V3 K) : K × K × K :=
  let v1 := (-1 : K) • (p2 - p1)
  let u := p3 - p2
  let v3 := p4 - p3
  let N := nsq u
  (N * dot v1 v3 - dot v3 u * dot v1 u, dot (cross u v1) v3, N)

end ring

section field
variable {K : Type} [Field K]
open V3

/-- `compute_dihedral` exactly as coded, one row, with `n` standing for the run-time value of
`_norm(v2)` (so the caller owes `n * n = |p3 − p2|²`).  Note the projection operand of `v`:
the code subtracts `(v1·v1)·v̂2`, not `(v1·v̂2)·v̂2` (misc.py:311). Returns `(x, y)`. -/
def dihedralXY (n : K) (p1 p2 p3 p4 : V3 K) : K × K :=
  let v1 := (-1 : K) • (p2 - p1)            -- misc.py:297
  let v2 := p3 - p2                          -- misc.py:298
  let v3 := p4 - p3                          -- misc.py:299
  let v2 := (1 / n) • v2                     -- misc.py:302  v2 / _norm(v2)
  let v := v1 - (dot v1 v1) • v2             -- misc.py:311  (sic)
  let w := v3 - (dot v3 v2) • v2             -- misc.py:312
  (dot v w, dot (cross v2 v) w)              -- misc.py:316-317

/-- the textbook variant of the same recipe (projection with `v1·v̂2`); used only in theorems -/
def dihedralXYTextbook (n : K) (p1 p2 p3 p4 : V3 K) : K × K :=
  let v1 := (-1 : K) • (p2 - p1)
  let v2 := (1 / n) • (p3 - p2)
  let v3 := p4 - p3
  let v := v1 - (dot v1 v2) • v2
  let w := v3 - (dot v3 v2) • v2
  (dot v w, dot (cross v2 v) w)

/-- the same with an arbitrary multiple `c` of `v̂2` removed from `v1` -/
def dihedralXYGen (c n : K) (p1 p2 p3 p4 : V3 K) : K × K :=
  let v1 := (-1 : K) • (p2 - p1)
  let v2 := (1 / n) • (p3 - p2)
  let v3 := p4 - p3
  let v := v1 - c • v2
  let w := v3 - (dot v3 v2) • v2
  (dot v w, dot (cross v2 v) w)

/-- rotation matrix of the quaternion `a + b i + c j + d k` (not necessarily unit): `U(q)/|q|²` -/
def quatRot (a b c d : K) : M3 K :=
  let s := a * a + b * b + c * c + d * d
  ⟨(a * a + b * b - c * c - d * d) / s, 2 * (b * c - a * d) / s, 2 * (b * d + a * c) / s,
   2 * (b * c + a * d) / s, (a * a - b * b + c * c - d * d) / s, 2 * (c * d - a * b) / s,
   2 * (b * d - a * c) / s, 2 * (c * d + a * b) / s, (a * a - b * b - c * c + d * d) / s⟩

/-- Householder reflection `I − 2 h hᵀ / |h|²` -/
def householder (h : V3 K) : M3 K :=
  let s := nsq h
  ⟨1 - 2 * h.x * h.x / s, -(2 * h.x * h.y / s), -(2 * h.x * h.z / s),
   -(2 * h.y * h.x / s), 1 - 2 * h.y * h.y / s, -(2 * h.y * h.z / s),
   -(2 * h.z * h.x / s), -(2 * h.z * h.y / s), 1 - 2 * h.z * h.z / s⟩

end field

section ordered
variable {K : Type} [Field K] [LinearOrder K] [IsStrictOrderedRing K]
open V3

/-- `np.clip(x, lo, hi)` = `minimum(maximum(x, lo), hi)` -/
def clip (x lo hi : K) : K := min (max x lo) hi

/-- `cosine_angle` exactly as coded (misc.py:253-257), `n12`, `n23` standing for the run-time
`_norm(v12)`, `_norm(v23)`. The angle returned by the code is `π − arccos` of this. -/
def angleCos (n12 n23 : K) (p1 p2 p3 : V3 K) : K :=
  let v12 := p1 - p2
  let v23 := p2 - p3
  let denom := n12 * n23
  clip (dot v12 v23 / denom) (-1) 1

end ordered

/-! ## batched (2-D) forms: numpy broadcasting of the leading axis -/

inductive Err where
  | valueError   -- index ≥ number of points (misc.py:164)
  | keyError     -- measurement is not of length 2, 3 or 4 (misc.py:177)
  | indexError   -- empty measurement list (misc.py:157) / negative index below −n (misc.py:179)
  | broadcast    -- numpy: operands could not be broadcast together
deriving DecidableEq, Repr

/-- numpy broadcasting of a leading axis of length 1 against length `n` -/
def bcast {α : Type} (n : Nat) (l : List α) : Except Err (List α) :=
  if l.length = n then .ok l
  else match l with
    | [a] => .ok (List.replicate n a)
    | _ => .error .broadcast

def zipWith3 {α β γ δ : Type} (f : α → β → γ → δ) : List α → List β → List γ → List δ
  | a :: as, b :: bs, c :: cs => f a b c :: zipWith3 f as bs cs
  | _, _, _ => []

def zipWith4 {α β γ δ ε : Type} (f : α → β → γ → δ → ε) : List α → List β → List γ → List δ → List ε
  | a :: as, b :: bs, c :: cs, d :: ds => f a b c d :: zipWith4 f as bs cs ds
  | _, _, _, _ => []

section ring
variable {K : Type} [CommRing K]

/-- `compute_distance(points1, points2)` on `atleast_2d` inputs, per row, before `sqrt` -/
def computeDistanceSq (a b : List (V3 K)) : Except Err (List K) := do
  let n := max a.length b.length
  let a ← bcast n a
  let b ← bcast n b
  pure (List.zipWith distSq a b)

/-- `compute_angle` per row: the `arccos` arguments -/
def computeAngleArgs (a b c : List (V3 K)) : Except Err (List (K × K)) := do
  let n := max (max a.length b.length) c.length
  let a ← bcast n a
  let b ← bcast n b
  let c ← bcast n c
  pure (zipWith3 angleArgs a b c)

/-- `compute_dihedral` per row: the `arctan2` arguments -/
def computeDihedralArgs (a b c d : List (V3 K)) : Except Err (List (K × K × K)) := do
  let n := max (max a.length b.length) (max c.length d.length)
  let a ← bcast n a
  let b ← bcast n b
  let c ← bcast n c
  let d ← bcast n d
  pure (zipWith4 dihedralArgs a b c d)

/-! ## `measure_coordinates` (misc.py:147-187) -/

/-- one measured quantity, as the exact arguments of the final transcendental function -/
inductive Meas (K : Type) where
  | dist (d2 : K)
  | angle (dot nn : K)
  | dihedral (xn y n : K)

/-- `measurements` is either one index list (`isinstance(measurements[0], int)`) or a list of them -/
inductive MSpec where
  | single (m : List Int)
  | multi (ms : List (List Int))

/-- `coordinates[x]` for a Python int `x` (negative indices count from the end) -/
def pyIndex (coords : List (V3 K)) (i : Int) : Except Err (V3 K) :=
  let n : Int := coords.length
  let j : Int := if 0 ≤ i then i else n + i
  if 0 ≤ j then
    match coords[j.toNat]? with
    | some p => .ok p
    | none => .error .indexError
  else .error .indexError

/-- body of the loop misc.py:162-181 for one measurement `m` -/
def measureOne (coords : List (V3 K)) (m : List Int) : Except Err (Meas K) :=
  if m.any (fun x => decide ((coords.length : Int) ≤ x)) then .error .valueError   -- :163-164
  else match m with
    | [i, j] => do                                                                  -- :167-168
        let p ← pyIndex coords i
        let q ← pyIndex coords j
        pure (.dist (distSq p q))
    | [i, j, k] => do                                                               -- :169-171
        let p ← pyIndex coords i
        let q ← pyIndex coords j
        let r ← pyIndex coords k
        let a := angleArgs p q r
        pure (.angle a.1 a.2)
    | [i, j, k, l] => do                                                            -- :172-174
        let p ← pyIndex coords i
        let q ← pyIndex coords j
        let r ← pyIndex coords k
        let s ← pyIndex coords l
        let a := dihedralArgs p q r s
        pure (.dihedral a.1 a.2.1 a.2.2)
    | _ => .error .keyError                                                         -- :175-177

/-- result of `measure_coordinates`: a bare value for a single measurement, else a list -/
inductive MOut (K : Type) where
  | one (v : Meas K)
  | many (vs : List (Meas K))

def measureCoordinates (coords : List (V3 K)) : MSpec → Except Err (MOut K)
  | .single [] => .error .indexError                     -- `measurements[0]` on an empty list
  | .single m => (measureOne coords m).map .one
  | .multi [] => .error .indexError
  | .multi ms => (ms.mapM (measureOne coords)).map .many

end ring

/-! ## `guess_connectivity` (connectivity.py:37-62) -/

/-- an atom as the code sees it: covalent radius (already looked up, bohr) and position -/
structure Atom (K : Type) where
  r : K
  p : V3 K

section ordered
variable {K : Type} [Field K] [LinearOrder K] [IsStrictOrderedRing K]

/-- `dists < cutoff` (connectivity.py:50-54) with `dists = sqrt(d²)`, `cutoff = (r_x + r_j)·thr`:
for the non-negative root this is `0 < cutoff ∧ d² < cutoff²` (theorem `sqrt_lt_iff`). -/
def bonded (thr : K) (a b : Atom K) : Bool :=
  decide (0 < (a.r + b.r) * thr ∧ distSq a.p b.p < ((a.r + b.r) * thr) * ((a.r + b.r) * thr))

/-- inner part: `where = np.where(dists < cutoff)[0] + x + 1`, `con.append((x, atom2))` -/
def connRow (thr : K) (x : Nat) (a : Atom K) : Nat → List (Atom K) → List (Nat × Nat)
  | _, [] => []
  | j, b :: rest => (if bonded thr a b then [(x, j)] else []) ++ connRow thr x a (j + 1) rest

/-- outer loop `for x in range(n)` over the upper triangle -/
def connFrom (thr : K) : Nat → List (Atom K) → List (Nat × Nat)
  | _, [] => []
  | x, a :: rest => connRow thr x a (x + 1) rest ++ connFrom thr (x + 1) rest

/-- `guess_connectivity(symbols, geometry, threshold)` without `default_connectivity` -/
def guessConnectivity (thr : K) (atoms : List (Atom K)) : List (Nat × Nat) :=
  connFrom thr 0 atoms

/-- with `default_connectivity` (connectivity.py:59-60: applied only if truthy) -/
def guessConnectivityDC (thr : K) (dc : Option K) (atoms : List (Atom K)) :
    List (Nat × Nat × Option K) :=
  match dc with
  | some v => if v = 0 then (guessConnectivity thr atoms).map fun (i, j) => (i, j, none)
              else (guessConnectivity thr atoms).map fun (i, j) => (i, j, some v)
  | none => (guessConnectivity thr atoms).map fun (i, j) => (i, j, none)

end ordered

end QcelVerif.Measure
