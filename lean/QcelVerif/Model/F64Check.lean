import QcelVerif.Model.Dec
/-!
Independent statement of "these bits are the double nearest to this decimal" (not the algorithm of
`Dec.toF64`): used to check `float(Decimal)` values by kernel evaluation.  (Same definition as the
one C02 uses for the constants; kept in a small module of its own so that table properties other
than C02 can use it without importing the CODATA tables.)
-/
namespace QcelVerif.F64Check
open QcelVerif

def ratAbs (q : Rat) : Rat := if q < 0 then -q else q

/-- exact value of the finite non-negative double with bit pattern `bits < 2^63` -/
def f64Val (bits : Nat) : Rat :=
  let e := bits / 2 ^ 52
  let m := bits % 2 ^ 52
  if e == 0 then ((m : Nat) : Rat) / ((2 ^ 1074 : Nat) : Rat)
  else if e ≥ 1075 then (((2 ^ 52 + m) * 2 ^ (e - 1075) : Nat) : Rat)
  else ((2 ^ 52 + m : Nat) : Rat) / ((2 ^ (1075 - e) : Nat) : Rat)

/-- right sign, finite, and neither neighbouring double is closer; on a tie the mantissa is even -/
def nearestOk (d : Dec) (bits : Nat) : Bool :=
  let mb := bits % 2 ^ 63
  let v := ratAbs d.val
  let x := f64Val mb
  let dl := ratAbs (v - f64Val (mb - 1))
  let dh := ratAbs (f64Val (mb + 1) - v)
  let dx := ratAbs (v - x)
  (Nat.beq (bits / 2 ^ 63) 1 == d.neg) && Nat.blt 0 mb && Nat.blt (mb + 1) (2047 * 2 ^ 52) &&
  decide (dx ≤ dl) && decide (dx ≤ dh) && ((dx != dl && dx != dh) || Nat.beq (mb % 2) 0)

end QcelVerif.F64Check
