import QcelVerif.Model.FromArrays
import QcelVerif.Model.NucleusShipped
/-!
C04 ∘ C06: the per-atom reconciler of the `from_arrays` model (`Env.recon`, a parameter in
`Model/FromArrays.lean`) instantiated with the C06 model of `reconcile_nucleus`
(`Model/Nucleus.lean`, `reconcileWith`) over a periodic table.  Core Lean only (the driver
`Driver/C04b.lean` imports this file).

The adapter follows the call `reconcile_nucleus(A=elea[at], Z=elez[at], E=elem[at], mass=mass[at],
real=real[at], label=elbl[at], speclabel=…, nonphysical=…, mtol=…, verbose=…)` at
from_arrays.py:676-691:

  * `Clue` (C04) → `Input` (C06): `A`, `Z` are `int`, `mass`/`mtol` are `float`, `real` is `bool`
    (C04's protocol has already collapsed the Python number typing; C06's model only ever uses the
    *value* of a number, `reconcile_respects_pyEq`), strings become byte lists (`PStr.ofString`);
  * `Output` (C06) → `Nuc` (C04): the packed symbol is unpacked and turned into a `String`, the
    user tag likewise, `real` is read by value (`bool(real)`; with a `bool` clue the C06 model
    returns a `bool`, `real_is_bool` in Props/C04C06.lean);
  * errors: `NotAnElementError` is propagated under its class name (C04 `Err.other`), every
    `ValidationError` of C06 (feature conflict, unparseable label) is C04's `Err.validation`.
-/
namespace QcelVerif.FromArrays
open QcelVerif QcelVerif.PStr

/-- the keyword arguments of one `reconcile_nucleus` call as the C06 model's input -/
def toInput (st : NucSettings) (c : Clue) : Nucleus.Input :=
  { A := c.A.map Nucleus.PyNum.int
    Z := c.Z.map Nucleus.PyNum.int
    E := c.E.map ofString
    mass := c.mass.map Nucleus.PyNum.float
    real := c.real.map Nucleus.PyNum.bool
    label := c.label.map ofString
    speclabel := st.speclabel
    nonphysical := st.nonphysical
    mtol := Nucleus.PyNum.float st.mtol }

/-- `bool(x)` of a Python number -/
def realOf (p : Nucleus.PyNum) : Bool := decide (p.val ≠ 0)

/-- the answer tuple `(A, Z, E, mass, real, label)` as C04 stores it -/
def toNuc (o : Nucleus.Output) : Nuc :=
  { A := o.A, Z := o.Z, E := toStr (unpack o.E), mass := o.mass, real := realOf o.real, label := toStr o.user }

/-- exception classes: C06 → C04 -/
def errOf : Nucleus.Err → Err
  | .notAnElement => .other "NotAnElement"
  | .validation _ => .validation
  | .unparseable => .validation
  | .other => .other "other"

/-- C06's model as C04's reconciler, over any table / rounding function / range table -/
def reconOfC06With (N : Nucleus.NTables) (rd : Rat → Rat) (rng : Nat → Option Nucleus.Range) : Reconciler :=
  fun st c =>
    match Nucleus.reconcileWith N rd rng (toInput st c) with
    | .ok o => .ok (toNuc o)
    | .error e => .error (errOf e)

/-- … over the shipped periodic table (`reconcile`: the range table is `elRange`) -/
def reconOfC06 (rd : Rat → Rat) : Reconciler :=
  reconOfC06With Nucleus.shippedN rd (Nucleus.elRange Nucleus.shippedN rd)

/-- the environment of `from_arrays` with the C06 model as reconciler -/
def envC06 (rd : Rat → Rat) (angToAu : Rat) : Env := { recon := reconOfC06 rd, angToAu := angToAu }

/-! ### the atoms of a record and the (decidable) self-consistency test of `Props/C04C06.lean` -/

/-- rows of the six per-atom columns -/
def nucsOf : List Int → List Int → List String → List Rat → List Bool → List String → List Nuc
  | a :: as, z :: zs, e :: es, m :: ms, r :: rs, l :: ls =>
      { A := a, Z := z, E := e, mass := m, real := r, label := l } :: nucsOf as zs es ms rs ls
  | _, _, _, _, _, _ => []

/-- the atoms `(A, Z, E, mass, real, label)` of a record -/
def recNucs (r : Molrec) : List Nuc := nucsOf r.elea r.elez r.elem r.mass r.real r.elbl

/-- `Nucleus.massToA` (nucleus.py:237-246) read off the string-typed symbol of a record atom: the rounded
mass if `E + str(round(mass))` is tabulated with a mass not further than `mtol` away, else −1 -/
def massToAStr (N : Nucleus.NTables) (rd : Rat → Rat) (E : String) (mtol m : Rat) : Int :=
  let ma := Nucleus.roundHalfEven m
  match Nucleus.tableMass N rd (.str (ofString E ++ Nucleus.intStr ma)) with
  | .ok tm => if mtol < Nucleus.absR (rd (tm - m)) then -1 else ma
  | .error _ => -1

/-- executable form of `SelfConsistent`: the mass is a fixed point of `rd` and re-derives the atom's `A` -/
def selfConsistentB (N : Nucleus.NTables) (rd : Rat → Rat) (mtol : Rat) (u : Nuc) : Bool :=
  decide (rd u.mass = u.mass) && decide (massToAStr N rd u.E mtol u.mass = u.A)

end QcelVerif.FromArrays
