/-
Fixed-point printing of a rational: the Lean side of CPython's `format(x, '.{prec}f')` (C08).

CPython's float formatting is third-party for this project.  The harness sends, for every printed
coordinate, the exact rational of the double that was printed, its sign bit and the text CPython
produced; `isFixedRounding` decides whether that text is *the* correctly rounded `prec`-digit decimal
(round-half-even on exact ties, sign of the double kept, also for a negative zero).

Core Lean only (the C08 driver imports this file).  Everything is integer arithmetic on
`|q| = num/den`.
-/
namespace QcelVerif.FixedFmt

abbrev Str := List Char

/-- one decimal digit -/
def digitChar : Nat → Char
  | 0 => '0' | 1 => '1' | 2 => '2' | 3 => '3' | 4 => '4'
  | 5 => '5' | 6 => '6' | 7 => '7' | 8 => '8' | _ => '9'

/-- decimal digits with fuel (structural, so that the kernel can evaluate it) -/
def natDigitsAux : Nat → Nat → Str
  | 0, _ => []
  | fuel + 1, n => if n < 10 then [digitChar n] else natDigitsAux fuel (n / 10) ++ [digitChar (n % 10)]

/-- decimal digits, most significant first (`str(n)` for a natural number) -/
def natDigits (n : Nat) : Str := natDigitsAux (n + 1) n

def charVal (c : Char) : Nat := c.toNat - 48

/-- value of a digit string (no validation; used on strings of digits only) -/
def digitsVal (l : Str) : Nat := l.foldl (fun acc c => acc * 10 + charVal c) 0

def isDigitChar (c : Char) : Bool := decide (48 ≤ c.toNat) && decide (c.toNat ≤ 57)

/-- round `tn/td` (non-negative, `td > 0`) to the nearest integer, exact ties to the even one -/
def rhe (tn td : Nat) : Nat :=
  let q := tn / td
  let r := tn % td
  if 2 * r < td then q
  else if td < 2 * r then q + 1
  else if q % 2 = 0 then q else q + 1

/-- `N` is a nearest integer to `tn/td`, and on an exact tie it is the even one -/
def IsNearestEven (N tn td : Nat) : Prop :=
  2 * (N * td) ≤ 2 * tn + td ∧ 2 * tn ≤ 2 * (N * td) + td ∧
  ((2 * (N * td) = 2 * tn + td ∨ 2 * tn = 2 * (N * td) + td) → N % 2 = 0)

def padZeros (k : Nat) (l : Str) : Str := List.replicate (k - l.length) '0' ++ l

/-- digits of `N`, at least `prec+1` of them, with the point before the last `prec` -/
def fixedDigits (N prec : Nat) : Str :=
  let ds := padZeros (prec + 1) (natDigits N)
  let ip := ds.take (ds.length - prec)
  let fp := ds.drop (ds.length - prec)
  if prec = 0 then ip else ip ++ '.' :: fp

/-- `format(x, '.{prec}f')` where `|x| = num/den` exactly and `neg` is the sign bit of the double -/
def fmtFixed (neg : Bool) (num den prec : Nat) : Str :=
  (if neg then ['-'] else []) ++ fixedDigits (rhe (num * 10 ^ prec) den) prec

def fmtFixedQ (neg : Bool) (q : Rat) (prec : Nat) : Str := fmtFixed neg q.num.natAbs q.den prec

/-- the sign bit agrees with the value (a zero may carry either sign) -/
def signOk (neg : Bool) (q : Rat) : Bool := if neg then decide (q.num ≤ 0) else decide (0 ≤ q.num)

/-- **the checker**: `s` is the correctly rounded `prec`-digit fixed-point decimal of the double whose
exact value is `q` and whose sign bit is `neg` -/
def isFixedRounding (neg : Bool) (q : Rat) (prec : Nat) (s : Str) : Bool :=
  signOk neg q && decide (s = fmtFixedQ neg q prec)

/-- the IEEE-754 standard model of one rounded operation: `p = fl(exact)` implies
`|p - exact| ≤ 2^-53 |exact|` (normal range).  Used to tie the double product `x*factor` numpy computed
to the exact product of the model-selected factor. -/
def isRoundedTo (exact p : Rat) : Bool :=
  decide ((if p - exact < 0 then exact - p else p - exact) * (2 ^ 53 : Nat) ≤ (if exact < 0 then -exact else exact))

end QcelVerif.FixedFmt
