import QcelVerif.Model.Nucleus
import QcelVerif.Model.RegexEngine
import QcelVerif.Gen.NucleusRegex
/-!
`parse_nucleus_label` (nucleus.py:406-437) with the label grammar taken from the source:
`_nucleus.match(label)` is the generic regex engine (`Model/RegexEngine.lean`) run on the AST that the translator
regenerates from `qcelemental/molparse/regex.py` + the compile site in `nucleus.py` on every run
(`Gen/NucleusRegex.lean`).  The eight groups that `parse_nucleus_label` reads are looked up by the group numbers
the translator emits for their *names*.  Core Lean only.

`Props/C06Regex.lean` proves `matchNucleusRe = matchNucleus` (the hand-written recogniser of `Model/Nucleus.lean`)
for every byte string.
-/
namespace QcelVerif.Nucleus
open QcelVerif QcelVerif.PStr QcelVerif.Regex

/-- the named groups read by `parse_nucleus_label`, from the captures of a match -/
def groupsOfSt (st : St) : Groups :=
  { gh1 := (st.group Gen.NucleusRegex.nucleusG.gh1).isSome
    gh2 := (st.group Gen.NucleusRegex.nucleusG.gh2).isSome
    A := st.group Gen.NucleusRegex.nucleusG.A
    E := st.group Gen.NucleusRegex.nucleusG.E
    user1 := st.group Gen.NucleusRegex.nucleusG.user1
    Z := st.group Gen.NucleusRegex.nucleusG.Z
    user2 := st.group Gen.NucleusRegex.nucleusG.user2
    mass := st.group Gen.NucleusRegex.nucleusG.mass }

/-- `_nucleus.match(label)`: generic engine on the generated AST -/
def matchNucleusRe (s : Bytes) : Option Groups := (Gen.NucleusRegex.nucleus.matchPrefix s).map groupsOfSt

/-- field extraction of `parse_nucleus_label` (nucleus.py:408-435); identical to the body of `parseLabel` -/
def labelOfGroups (g : Groups) : Label :=
  { real := !(g.gh1 || g.gh2)
    A := g.A.map digitsVal
    Z := g.Z.map digitsVal
    E := g.E
    user := match g.user1 with | some u => some u | none => g.user2
    mass := g.mass }

theorem parseLabel_eq_map (s : Bytes) : parseLabel s = (matchNucleus s).map labelOfGroups := rfl

/-- `parse_nucleus_label` through the generated regex -/
def parseLabelRe (s : Bytes) : Option Label := (matchNucleusRe s).map labelOfGroups

end QcelVerif.Nucleus
