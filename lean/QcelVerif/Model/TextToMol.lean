import QcelVerif.Model.MolText
import QcelVerif.Model.ReconC06
/-!
C07, end to end:  text  →  validated molecule record.   Core Lean only (the driver `Driver/C07b.lean` imports it).

`from_string(molstr, dtype)` (molparse/from_string.py) is

  1. the text layer  (`filter_comments`, `strip`, the line filters)            = `MolText.parseText`  (M1, Model/MolText.lean)
  2. `_filter_kwargs(None, …)` — nothing                                        (from_string.py:271-272)
  3. `from_input_arrays(speclabel=True, missing_enabled_return_qm="none", **molinit)`  (from_string.py:280-287,
     from_arrays.py:15-133): the `efp` domain first, `efp_present ⇒ fix_com = fix_orientation = True, fix_symmetry = "c1"`
     (90-94), then `from_arrays(domain="qm", …)` with every processing detail at its default
     (`tooclose=0.1`, `zero_ghost_fragments=False`, `nonphysical=False`, `mtol=1.0e-3`)    = `toInp` + `FromArrays.fromArrays`
     with the C06 model of `reconcile_nucleus` as the per-atom reconciler (`Model/ReconC06.lean`).

Field mapping of step 3 (`toInp`): `geom` = `_float` of the coordinate tokens; `elbl` = the nucleus tokens, consulted as
nucleus specifications (`speclabel=True`); `elea/elez/elem/mass/real` absent; `units` = the text's unit word, else the default
`"Angstrom"`; `fix_com`/`fix_orientation` = `True` when `no_com`/`no_reorient` was read, else absent (`None`);
`fix_symmetry` = the lower-cased point group; psi4: `fragment_separators/charges/multiplicities` as read (a fragment without a
CHGMULT line gives `None`), `molecular_charge/multiplicity` when the text has the leading system line; xyz / xyz+: no
fragment arguments at all, xyz+: `molecular_charge/multiplicity` from line 2.

Numbers.  `_float(tok) = float(tok with D→e)` is the correctly rounded double of the token's exact decimal value; the
rounding is the parameter `rd` (the driver runs `Nucleus.rd64`).  Values with `|x| ≥ 2^1023` (overflow to `inf` is near) are
declared out of scope, as are non-integer charges and charges / multiplicities beyond 10^9 (`FromArrays`/`ChgMult` are
integer models).  Texts without any atom give `noAtoms` (from_arrays.py:308-310 with `'none'`: `from_string` returns `{}`).
-/
namespace QcelVerif.TextToMol
open QcelVerif QcelVerif.MolText QcelVerif.FromArrays

/-- the three documented error classes -/
inductive Err where
  | moleculeFormat      -- MoleculeFormatError  (text layer: unprocessable remnants)
  | validation          -- ValidationError      (from_arrays and its stages; reconcile_nucleus feature conflicts)
  | notAnElement        -- NotAnElementError    (periodic-table lookups inside reconcile_nucleus)
  deriving Repr, DecidableEq

inductive Outcome where
  | mol (r : Molrec)        -- `from_string(...)["qm"]`
  | noAtoms                  -- `from_string` returns a record without `qm` (no atom line in the text)
  | error (e : Err)
  | outOfScope               -- the model declines: pubchem / three-point efp / non-integer charge / near-overflow number
  | modelGap                 -- the C06 / C05 models raised their "cannot happen" class (`Nucleus.Err.other`, `IndexError`)
  deriving Repr, DecidableEq

/-! ## `_float` -/

def pow10 (n : Nat) : Rat := ((10 ^ n : Nat) : Rat)

/-- the exact decimal value of a NUMBER token -/
def exactVal (p : NumParts) : Rat :=
  let v := numVal p
  let a : Rat := if 0 ≤ v.2.2 then (v.2.1 : Rat) * pow10 v.2.2.toNat else (v.2.1 : Rat) / pow10 (-v.2.2).toNat
  if v.1 then -a else a

def absQ (q : Rat) : Rat := if q < 0 then -q else q

/-- 2^1023 -/
def hugeQ : Rat := ((2 ^ 1023 : Nat) : Rat)

/-- `float(token)`; `none` = declared out of scope (`|x| ≥ 2^1023`).  The decimal magnitude `digits + exp10` is looked at
first so that absurd exponents are never expanded: `≥ 10^310` is beyond every double, `< 10^-340` rounds to zero. -/
def floatOf (rd : Rat → Rat) (p : NumParts) : Option Rat :=
  let v := numVal p
  if v.2.1 = 0 then some 0
  else
    let mag : Int := ((Nat.toDigits 10 v.2.1).length : Int) + v.2.2
    if 310 < mag then none
    else if mag < -340 then some 0
    else
      let q := exactVal p
      if hugeQ ≤ absQ q then none else some (rd q)

def chargeBound : Int := 1000000000

/-- a charge token as the integer it denotes; `none` = out of scope (non-integer, or beyond 10^9) -/
def chargeOf (rd : Rat → Rat) (p : NumParts) : Option Int :=
  match floatOf rd p with
  | none => none
  | some q => if q.den = 1 ∧ -chargeBound ≤ q.num ∧ q.num ≤ chargeBound then some q.num else none

/-- `int(mult)` of a `\d+` token; `none` = beyond 10^9 (out of scope) -/
def multOf (s : Str) : Option Int :=
  let n := digitsToNat s
  if (n : Int) ≤ chargeBound then some (n : Int) else none

def optMapM {α β} (f : α → Option β) : List α → Option (List β)
  | [] => some []
  | a :: t =>
    match f a, optMapM f t with
    | some b, some bs => some (b :: bs)
    | _, _ => none

/-- an optional token: absent stays absent, present must convert -/
def optOpt {α β} (f : α → Option β) : Option α → Option (Option β)
  | none => some none
  | some a => (f a).map some

/-! ## the keyword arguments of `from_input_arrays` → `from_arrays(domain="qm")` -/

def unitsOf : Option Bool → List Char
  | some true => sBohr
  | _ => sAngstrom          -- the text said angstrom, or nothing (default `units="Angstrom"`, from_arrays.py:29)

/-- the keyword arguments once every number has been converted -/
def textInp (p : Processed) (g : List Rat) (c m : Option Int) (fc fm : List (Option Int)) : Inp :=
  let efp := !p.efp.isEmpty                                   -- from_arrays.py:90-94
  { geom := some g
    elea := none, elez := none, elem := none, mass := none, real := none
    elbl := some (p.elbl.map fun l => some (String.ofList l))
    name := none, comment := none
    units := unitsOf p.units, iutau := none
    fixCom := if efp || p.fixCom then .tt else .none
    fixOrient := if efp || p.fixOrient then .tt else .none
    fixSymm := if efp then some "c1".toList else p.fixSym
    seps := if p.isPsi4 then some (p.seps.map fun (k : Nat) => (k : Int)) else none
    fc := if p.isPsi4 then some fc else none
    fm := if p.isPsi4 then some fm else none
    c := c, m := m
    conn := none
    minimal := false, speclabel := true, nonphysical := false
    mtol := dfltMtol, tooclose := dfltTooclose, zgf := false }

def toInp (rd : Rat → Rat) (p : Processed) : Option Inp :=
  match optMapM (floatOf rd) p.geom, optOpt (chargeOf rd) p.molChg, optOpt multOf p.molMult,
        optMapM (optOpt (chargeOf rd)) p.fragChg, optMapM (optOpt multOf) p.fragMult with
  | some g, some c, some m, some fc, some fm => some (textInp p g c m fc fm)
  | _, _, _, _, _ => none

/-- exception classes: from_arrays (C04) with the C06 reconciler → the documented classes -/
def outcomeOfErr : FromArrays.Err → Outcome
  | .validation => .error .validation
  | .other cls => if cls = "NotAnElement" then .error .notAnElement else .modelGap

/-- step 3: the processed text fields through `from_input_arrays` -/
def validate (env : Env) (rd : Rat → Rat) (p : Processed) : Outcome :=
  if p.geom.isEmpty then .noAtoms
  else
    match toInp rd p with
    | none => .outOfScope
    | some i =>
      match fromArrays env i with
      | .ok r => .mol r
      | .error e => outcomeOfErr e

/-- **`from_string(text, dtype)["qm"]`** for `dtype ∈ {xyz, xyz+, psi4}` -/
def readMol (env : Env) (rd : Rat → Rat) (d : Dtype) (s : Str) : Outcome :=
  match parseText d s with
  | .formatError => .error .moleculeFormat
  | .outOfScope => .outOfScope
  | .ok p => validate env rd p

/-- the environment the driver runs: C06 model over the shipped table under `rd`, Å→a₀ factor a parameter -/
def envOf (rd : Rat → Rat) (angToAu : Rat) : Env := envC06 rd angToAu

/-! ## the writers on a validated record (`to_string.py` after `to_string`'s own unit conversion and `'{:.{prec}f}'`,
which stay parameters: the printed coordinates are supplied) -/

/-- `int(charge)` printed -/
def intS (z : Int) : IntS := { neg := decide (z < 0), digs := natStr z.natAbs }

def coordRows : List Coord → List (Coord × Coord × Coord)
  | x :: y :: z :: t => (x, y, z) :: coordRows t
  | _ => []

def atomsOf : List String → List Bool → List String → List (Coord × Coord × Coord) → List Atom
  | e :: es, r :: rs, l :: ls, c :: cs =>
      { sym := e.toList, real := r, lbl := l.toList, x := c.1, y := c.2.1, z := c.2.2 } :: atomsOf es rs ls cs
  | _, _, _, _ => []

def fragsOf : List (List Atom) → List Int → List Int → List Frag
  | a :: as, c :: cs, m :: ms => { chg := intS c, mult := natStr m.toNat, atoms := a } :: fragsOf as cs ms
  | _, _, _ => []

/-- the record as the writers see it: fragments = `np.split` of the atoms at the separators; `bohrOut` = the requested
unit; `coords` = the printed coordinates (in that unit); `title` = the name printed on the xyz title line -/
def toTextRec (r : Molrec) (bohrOut : Bool) (coords : List Coord) (title : Str) : MolRec :=
  { chg := intS r.c, mult := natStr r.m.toNat
    frags := fragsOf (npSplit (atomsOf r.elem r.real r.elbl (coordRows coords)) r.seps) r.fc r.fm
    bohr := bohrOut, fixCom := r.fixCom, fixOrient := r.fixOrient, name := title }

inductive Fmt where | xyz | psi4
  deriving Repr, DecidableEq

/-- `Molecule.to_string(fmt, units, prec=…)`: xyz (`dtype='xyz'`) or psi4 -/
def writeMol (fmt : Fmt) (r : Molrec) (bohrOut : Bool) (coords : List Coord) (title : Str) : Str :=
  let t := toTextRec r bohrOut coords title
  match fmt with
  | .xyz => render (writeXyz (natStr (allAtoms t).length) t)
  | .psi4 => render (writePsi4 t)

/-! ## what a text-level record says about the molecule (the expected reading of its own text) -/

/-- value of a printed integer -/
def IntS.val (c : IntS) : Int := if c.neg then -((digitsToNat c.digs : Nat) : Int) else ((digitsToNat c.digs : Nat) : Int)

/-- the clue `from_arrays` hands to the reconciler for an atom read from text: the token as label, nothing else -/
def labelClue (tok : Str) : Clue :=
  { A := none, Z := none, E := none, mass := none, real := none, label := some (String.ofList tok) }

/-- the settings `from_string` forwards -/
def textSettings : NucSettings := { speclabel := true, nonphysical := false, mtol := dfltMtol }

end QcelVerif.TextToMol
