import QcelVerif.Model.MolSchema
/-!
C09 (b, source tie) — a small syntax for the KEY ROUTING of `qcelemental/molparse/to_schema.py:to_schema`
(the `dtype in [1, 2]` branch) and `qcelemental/molparse/from_schema.py:from_schema`, and its generic evaluator.

`harness/c09_src.py` re-reads both functions by python `ast` on every run and emits them as terms `Gen.toSchemaFn :
ToSchemaFn`, `Gen.fromSchemaFn : FromSchemaFn` into `Gen/MolSchemaSrc.lean`.  `Props/C09Src.lean` proves that the
evaluator AT THOSE TERMS equals the hand model `Model/MolSchema.lean` (`toSchema`, `fromSchemaArgs`) for every record
/ every schema dictionary.  Core Lean only (the driver imports this file).

Python values are `PV K`; a python `dict` with string keys is a function `String → Option (PV K)` (`none` = key
absent).  What IS represented: which key of the record goes to which key of the dictionary (and back to which keyword
of `contiguize_from_fragment_pattern` / `from_arrays`), statement and branch order of the unit chain, the factor
chosen, `geom = geom * f` versus the in-place `geom *= f` together with `copy=` (so that the caller's record can be
followed), `nat = geom.shape[0] // 3`, the name default, the guards `if k in molrec`, the dtype list and dispatch, the
nesting of dtype 1 (its keys may depend on `np_out`), `.get(k, None)` versus `[k]`, the literals of the `from_arrays`
call.  What is NOT: container types (`np.array` / `.tolist()` / `deepcopy` / `unnp` all keep the VALUES: they are
recorded in the term and evaluate as the identity), aliasing of anything but the geometry, `dtype == "psi4"`,
`provenance` (compared by the harness), the body of `contiguize_from_fragment_pattern` (stays the hand model
`MolSchema.contiguize`; only its CALL is source-derived).
-/
namespace QcelVerif.MolSchema.Src
open QcelVerif.MolSchema

inductive PV (K : Type) where
  | none
  | bool (b : Bool)
  | int (i : Int)
  | num (x : K)
  | str (s : String)
  | strs (l : List String)
  | nums (l : List K)
  | ints (l : List Int)
  | nats (l : List Nat)
  | bools (l : List Bool)
  | frags (l : List (List Int))
  | conn (l : List (Nat × Nat × K))
  | opaque (tag : Nat)             -- a value that is only handed on (the provenance dictionary)

abbrev Dict (K : Type) := String → Option (PV K)

def Dict.empty {K : Type} : Dict K := fun _ => none
/-- `d[k] = v` -/
def Dict.set {K : Type} (d : Dict K) (k : String) (v : PV K) : Dict K := fun k' => if k' = k then some v else d k'
/-- `d[k] = v` when `o = some v`, nothing otherwise -/
def Dict.setOpt {K : Type} (d : Dict K) (k : String) (o : Option (PV K)) : Dict K :=
  fun k' => if k' = k then o.or (d k') else d k'
/-- `d.get(k, None)` -/
def Dict.get {K : Type} (d : Dict K) (k : String) : PV K := (d k).getD .none

/-- what the evaluator can end in: an exception class of the model, or a python shape/type the syntax has no meaning for -/
inductive SErr where
  | err (e : Err)
  | stuck
  deriving DecidableEq, Repr

/-- `d[k]` -/
def lookup {K : Type} (d : Dict K) (k : String) : Except SErr (PV K) :=
  match d k with
  | some v => .ok v
  | none => .error (.err .key)

/-! ## to_schema -/

inductive UnitAtom where
  | recKeyEq (k s : String)        -- molrec[k] == s
  | outUnits (s : String)          -- units == s
  | hasKey (k : String)            -- k in molrec
  deriving DecidableEq, Repr

inductive Factor where
  | recKey (k : String)            -- molrec[k]
  | convFactor (k : String)        -- constants.conversion_factor(molrec[k], units)
  deriving DecidableEq, Repr

inductive UnitAct where
  | pass
  | scale (inPlace : Bool) (f : Factor)   -- geom = geom * f   |   geom *= f
  deriving DecidableEq, Repr

structure UnitBranch where
  test : List UnitAtom             -- and-ed
  act : UnitAct
  deriving DecidableEq, Repr

inductive CopyArg where
  | param                          -- copy=copy
  | lit (b : Bool)                 -- copy=True / copy=False / absent (= True)
  deriving DecidableEq, Repr

inductive Rhs where
  | constBool (b : Bool)
  | arr (k : String) (c : CopyArg)   -- np.array(molrec[k], copy=…)
  | raw (k : String)                 -- molrec[k]
  | tolist (k : String)              -- np.array(molrec[k]).tolist()
  | deepcopy (k : String)            -- deepcopy(molrec[k])
  | geomVar                          -- geom
  | nameVar                          -- name
  | splitArange (k : String)         -- fidx = np.split(np.arange(nat), molrec[k]); [fr.tolist() for fr in fidx]
  deriving DecidableEq, Repr

inductive MStmt where
  | set (k : String) (rhs : Rhs)                 -- molecule[k] = rhs
  | setIfIn (g k : String) (rhs : Rhs)           -- if g in molrec: molecule[k] = rhs
  deriving DecidableEq, Repr

inductive KeyE where
  | lit (s : String)
  | ifNpOut (a b : String)           -- (a if np_out else b)
  deriving DecidableEq, Repr

inductive WrapV where
  | str (s : String)
  | int (i : Int)
  | molecule
  deriving DecidableEq, Repr

inductive Shape where
  | fresh (es : List (KeyE × WrapV))     -- qcschema = {k: v, …}
  | update (es : List (KeyE × WrapV))    -- qcschema = molecule; qcschema.update({k: v, …})
  deriving DecidableEq, Repr

structure ToSchemaFn where
  geomKey : String                 -- geom = np.array(molrec[geomKey], copy=geomCopy)
  geomCopy : CopyArg
  unitChain : List UnitBranch      -- if / elif …
  unitElse : UnitAct               -- else
  natDiv : Nat                     -- nat = geom.shape[0] // natDiv
  nameKey : String                 -- name = molrec.get(nameKey, formula_generator(molrec[fgKey]))
  fgKey : String
  dtypes : List Int                -- elif dtype in [..]
  unitsGuard : String              -- if units != unitsGuard: raise ValidationError
  stmts : List MStmt
  shapes : List (Int × Shape)      -- if dtype == 1: … elif dtype == 2: …
  elseRaises : Bool                -- else: raise ValidationError
  unnpUnlessNpOut : Bool           -- if not np_out: qcschema = unnp(qcschema)
  deriving DecidableEq, Repr

/-- the call's environment -/
structure Env (K : Type) where
  conv : String → String → K       -- constants.conversion_factor
  fg : List String → String        -- formula_generator
  units : String                   -- the `units` argument
  npOut : Bool
  copy : Bool

/-- the dictionary returned: entries whose value is not a dictionary, and entries whose value is one -/
structure Out (K : Type) where
  top : Dict K
  nested : String → Option (Dict K)

def Out.empty {K : Type} : Out K := ⟨Dict.empty, fun _ => none⟩

def evalAtom {K : Type} (E : Env K) (rec : Dict K) : UnitAtom → Bool
  | .recKeyEq k s => (match rec k with | some (.str u) => u == s | _ => false)
  | .outUnits s => E.units == s
  | .hasKey k => (rec k).isSome

def evalFactor {K : Type} (E : Env K) (rec : Dict K) : Factor → Except SErr (PV K)
  | .recKey k => lookup rec k
  | .convFactor k =>
    match rec k with
    | some (.str u) => .ok (.num (E.conv u E.units))
    | some _ => .error .stuck
    | none => .error (.err .key)

def scaleBy {K : Type} [Mul K] (g f : PV K) : Except SErr (PV K) :=
  match g, f with
  | .nums l, .num x => .ok (.nums (l.map (· * x)))
  | _, _ => .error .stuck

/-- one action on the local `geom`; second component: the geometry the CALLER's record holds afterwards
(`aliased`: `geom` is the caller's own array, i.e. `np.array(·, copy=False)` of an ndarray) -/
def evalAct {K : Type} [Mul K] (E : Env K) (rec : Dict K) (aliased : Bool) (g caller : PV K) :
    UnitAct → Except SErr (PV K × PV K)
  | .pass => .ok (g, caller)
  | .scale inPlace f =>
    match evalFactor E rec f with
    | .error e => .error e
    | .ok x =>
      match scaleBy g x with
      | .error e => .error e
      | .ok g' => .ok (g', if inPlace && aliased then g' else caller)

def evalChain {K : Type} [Mul K] (E : Env K) (rec : Dict K) (aliased : Bool) (g caller : PV K) :
    List UnitBranch → UnitAct → Except SErr (PV K × PV K)
  | [], e => evalAct E rec aliased g caller e
  | b :: bs, e =>
    if b.test.all (evalAtom E rec) then evalAct E rec aliased g caller b.act
    else evalChain E rec aliased g caller bs e

def CopyArg.aliased (copy : Bool) : CopyArg → Bool
  | .param => !copy
  | .lit b => !b

def evalRhs {K : Type} (rec : Dict K) (geom name : PV K) (nat : Nat) : Rhs → Except SErr (PV K)
  | .constBool b => .ok (.bool b)
  | .arr k _ => lookup rec k
  | .raw k => lookup rec k
  | .tolist k => lookup rec k
  | .deepcopy k => lookup rec k
  | .geomVar => .ok geom
  | .nameVar => .ok name
  | .splitArange k =>
    match rec k with
    | some (.nats s) => .ok (.frags ((npSplit (List.range nat) s).map (·.map Int.ofNat)))
    | some _ => .error .stuck
    | none => .error (.err .key)

def evalStmts {K : Type} (rec : Dict K) (geom name : PV K) (nat : Nat) : List MStmt → Dict K → Except SErr (Dict K)
  | [], m => .ok m
  | .set k rhs :: t, m =>
    match evalRhs rec geom name nat rhs with
    | .error e => .error e
    | .ok v => evalStmts rec geom name nat t (m.set k v)
  | .setIfIn g k rhs :: t, m =>
    match (if (rec g).isSome then (evalRhs rec geom name nat rhs).map some else .ok none) with
    | .error e => .error e
    | .ok o => evalStmts rec geom name nat t (m.setOpt k o)

def KeyE.eval (npOut : Bool) : KeyE → String
  | .lit s => s
  | .ifNpOut a b => if npOut then a else b

def applyEntries {K : Type} (npOut : Bool) (mol : Dict K) : List (KeyE × WrapV) → Out K → Out K
  | [], o => o
  | (k, .str s) :: t, o => applyEntries npOut mol t { o with top := o.top.set (k.eval npOut) (.str s) }
  | (k, .int i) :: t, o => applyEntries npOut mol t { o with top := o.top.set (k.eval npOut) (.int i) }
  | (k, .molecule) :: t, o =>
    applyEntries npOut mol t { o with nested := fun k' => if k' = k.eval npOut then some mol else o.nested k' }

def evalShape {K : Type} (npOut : Bool) (mol : Dict K) : Shape → Out K
  | .fresh es => applyEntries npOut mol es Out.empty
  | .update es => applyEntries npOut mol es ⟨mol, fun _ => none⟩

def assocI {α : Type} (i : Int) : List (Int × α) → Option α
  | [] => none
  | (j, a) :: t => if i = j then some a else assocI i t

/-- `to_schema(molrec, dtype, units, np_out=…, copy=…)` for an integer `dtype`: the dictionary returned and the
geometry the caller's record holds afterwards -/
def evalToSchema {K : Type} [Mul K] (fn : ToSchemaFn) (E : Env K) (dtype : Int) (rec : Dict K) :
    Except SErr (Out K × PV K) :=
  match lookup rec fn.geomKey with
  | .error e => .error e
  | .ok g0 =>
    match evalChain E rec (fn.geomCopy.aliased E.copy) g0 g0 fn.unitChain fn.unitElse with
    | .error e => .error e
    | .ok (geom, caller) =>
      match geom with
      | .nums l =>
        let nat := l.length / fn.natDiv
        -- the default of `.get` is evaluated before the call
        match rec fn.fgKey with
        | none => .error (.err .key)
        | some (.strs el) =>
          let name := (rec fn.nameKey).getD (.str (E.fg el))
          if dtype ∈ fn.dtypes then
            if E.units != fn.unitsGuard then .error (.err .validation)
            else
              match evalStmts rec geom name nat fn.stmts Dict.empty with
              | .error e => .error e
              | .ok mol =>
                match assocI dtype fn.shapes with
                | some sh => .ok (evalShape E.npOut mol sh, caller)
                | none => .ok (Out.empty, caller)
          else if fn.elseRaises then .error (.err .validation)
          else .ok (Out.empty, caller)
        | some _ => .error .stuck
      | _ => .error .stuck

/-! ### records and dictionaries as python dictionaries (the key NAMES of the two structures of `Model/MolSchema.lean`) -/

def unitsName : Units → String
  | .bohr => "Bohr"
  | .angstrom => "Angstrom"

/-- the molparse record as the dictionary `to_schema` indexes (`prov`: its provenance entry, not part of `Molrec`) -/
def recDict {K : Type} (prov : PV K) (r : Molrec K) : Dict K := fun k =>
  if k = "provenance" then some prov
  else if k = "units" then some (.str (unitsName r.units))
  else if k = "input_units_to_au" then r.iutau.map .num
  else if k = "geom" then some (.nums r.geom)
  else if k = "elea" then some (.ints r.elea)
  else if k = "elez" then some (.ints r.elez)
  else if k = "elem" then some (.strs r.elem)
  else if k = "mass" then some (.nums r.mass)
  else if k = "real" then some (.bools r.real)
  else if k = "elbl" then some (.strs r.elbl)
  else if k = "fragment_separators" then some (.nats r.seps)
  else if k = "fragment_charges" then some (.nums r.fragCharges)
  else if k = "fragment_multiplicities" then some (.ints r.fragMults)
  else if k = "molecular_charge" then some (.num r.charge)
  else if k = "molecular_multiplicity" then some (.int r.mult)
  else if k = "fix_com" then some (.bool r.fixCom)
  else if k = "fix_orientation" then some (.bool r.fixOri)
  else if k = "fix_symmetry" then r.fixSym.map .str
  else if k = "name" then r.name.map .str
  else if k = "comment" then r.comment.map .str
  else if k = "connectivity" then r.connectivity.map .conn
  else none

def decStr {K : Type} : Option (PV K) → Option String | some (.str s) => some s | _ => none
def decInt {K : Type} : Option (PV K) → Option Int | some (.int s) => some s | _ => none
def decNum {K : Type} : Option (PV K) → Option K | some (.num s) => some s | _ => none
def decBool {K : Type} : Option (PV K) → Option Bool | some (.bool s) => some s | _ => none
def decStrs {K : Type} : Option (PV K) → Option (List String) | some (.strs s) => some s | _ => none
def decNums {K : Type} : Option (PV K) → Option (List K) | some (.nums s) => some s | _ => none
def decInts {K : Type} : Option (PV K) → Option (List Int) | some (.ints s) => some s | _ => none
def decBools {K : Type} : Option (PV K) → Option (List Bool) | some (.bools s) => some s | _ => none
def decFrags {K : Type} : Option (PV K) → Option (List (List Int)) | some (.frags s) => some s | _ => none
def decConn {K : Type} : Option (PV K) → Option (List (Nat × Nat × K)) | some (.conn s) => some s | _ => none

/-- read a python dictionary as the `molecule` dictionary of the hand model (a key of another type reads as absent) -/
def decodeMol {K : Type} (d : Dict K) : MolDict K :=
  { symbols := decStrs (d "symbols"), geometry := decNums (d "geometry"), masses := decNums (d "masses"),
    atomicNumbers := decInts (d "atomic_numbers"), massNumbers := decInts (d "mass_numbers"),
    atomLabels := decStrs (d "atom_labels"), real := decBools (d "real"), name := decStr (d "name"),
    comment := decStr (d "comment"), charge := decNum (d "molecular_charge"),
    mult := decInt (d "molecular_multiplicity"), fragments := decFrags (d "fragments"),
    fragCharges := decNums (d "fragment_charges"), fragMults := decInts (d "fragment_multiplicities"),
    fixCom := decBool (d "fix_com"), fixOri := decBool (d "fix_orientation"), fixSym := decStr (d "fix_symmetry"),
    connectivity := decConn (d "connectivity"), validated := decBool (d "validated") }

def decode {K : Type} (o : Out K) : SchemaDict K :=
  { schemaName := decStr (o.top "schema_name"), schemaVersion := decInt (o.top "schema_version"),
    molecule := (o.nested "molecule").map decodeMol, top := decodeMol o.top }

/-- the `molecule` dictionary of the hand model as a python dictionary -/
def encMol {K : Type} (m : MolDict K) : Dict K := fun k =>
  if k = "symbols" then m.symbols.map .strs
  else if k = "geometry" then m.geometry.map .nums
  else if k = "masses" then m.masses.map .nums
  else if k = "atomic_numbers" then m.atomicNumbers.map .ints
  else if k = "mass_numbers" then m.massNumbers.map .ints
  else if k = "atom_labels" then m.atomLabels.map .strs
  else if k = "real" then m.real.map .bools
  else if k = "name" then m.name.map .str
  else if k = "comment" then m.comment.map .str
  else if k = "molecular_charge" then m.charge.map .num
  else if k = "molecular_multiplicity" then m.mult.map .int
  else if k = "fragments" then m.fragments.map .frags
  else if k = "fragment_charges" then m.fragCharges.map .nums
  else if k = "fragment_multiplicities" then m.fragMults.map .ints
  else if k = "fix_com" then m.fixCom.map .bool
  else if k = "fix_orientation" then m.fixOri.map .bool
  else if k = "fix_symmetry" then m.fixSym.map .str
  else if k = "connectivity" then m.connectivity.map .conn
  else if k = "validated" then m.validated.map .bool
  else none

/-- the same beside `schema_name` / `schema_version` entries (dtype 2 keeps them in one dictionary) -/
def encTop {K : Type} (n : Option String) (v : Option Int) (m : MolDict K) : Dict K := fun k =>
  if k = "schema_name" then n.map .str
  else if k = "schema_version" then v.map .int
  else encMol m k

def encode {K : Type} (d : SchemaDict K) : Out K :=
  { top := encTop d.schemaName d.schemaVersion d.top
    nested := fun k => if k = "molecule" then d.molecule.map (encTop none none) else none }

/-! ## from_schema -/

inductive Arg where
  | req (k : String)               -- ms[k]
  | get (k : String)               -- ms.get(k, None)
  deriving DecidableEq, Repr

inductive FArg where
  | dc (k : String)                -- dcontig[k]
  | get (k : String)               -- ms.get(k, None)
  | strLit (s : String)
  | boolLit (b : Bool)
  | noneLit
  | param (n : String)             -- a parameter of from_schema handed through (nonphysical, verbose)
  deriving DecidableEq, Repr

structure SniffBranch where
  prefixes : List String           -- molschema.get("schema_name", "").startswith(p), or-ed
  version : Int                    -- and molschema.get("schema_version", "") == version
  nest : Option String             -- ms = molschema[nest]  |  ms = molschema
  deriving DecidableEq, Repr

structure FromSchemaFn where
  sniff : List SniffBranch         -- if / elif
  elseRaises : Bool                -- else: raise ValidationError
  fragKey : String                 -- if fragKey in ms: frag_pattern = ms[fragKey]
  lenKey : String                  -- else: frag_pattern = [np.arange(len(ms[lenKey]))]
  contigArgs : List (String × Arg) -- keywords of the contiguize_from_fragment_pattern call
  throwReorder : Bool
  faArgs : List (String × FArg)    -- keywords of the from_arrays call
  stampOverwrites : Bool           -- molrec["provenance"] = provenance_stamp(__name__)
  deriving DecidableEq, Repr

def evalSniff {K : Type} (inp : Out K) (elseRaises : Bool) : List SniffBranch → Except SErr (Dict K)
  | [] => if elseRaises then .error (.err .validation) else .error .stuck
  | b :: bs =>
    let nm := (decStr (inp.top "schema_name")).getD ""
    if b.prefixes.any (fun p => startsWith nm p) && decInt (inp.top "schema_version") == some b.version then
      match b.nest with
      | none => .ok inp.top
      | some k => (match inp.nested k with | some m => .ok m | none => .error (.err .key))
    else evalSniff inp elseRaises bs

def evalArg {K : Type} (ms : Dict K) : Arg → Except SErr (PV K)
  | .req k => lookup ms k
  | .get k => .ok (ms.get k)

def evalArgs {K : Type} (ms : Dict K) : List (String × Arg) → Except SErr (List (String × PV K))
  | [] => .ok []
  | (n, a) :: t =>
    match evalArg ms a with
    | .error e => .error e
    | .ok v => (match evalArgs ms t with | .error e => .error e | .ok r => .ok ((n, v) :: r))

/-- the value bound to keyword `n` of a call; a keyword the call does not give has no meaning here -/
def kwArg {K : Type} (n : String) : List (String × PV K) → Except SErr (PV K)
  | [] => .error .stuck
  | (m, v) :: t => if n = m then .ok v else kwArg n t

def optOf {K α : Type} (f : Option (PV K) → Option α) : PV K → Except SErr (Option α)
  | .none => .ok none
  | v => (match f (some v) with | some x => .ok (some x) | none => .error .stuck)

def reqOf {K α : Type} (f : Option (PV K) → Option α) (v : PV K) : Except SErr α :=
  match f (some v) with
  | some x => .ok x
  | none => .error .stuck

def decNats {K : Type} : Option (PV K) → Option (List Nat) | some (.nats s) => some s | _ => none

def encOpt {K α : Type} (f : α → PV K) : Option α → PV K
  | some x => f x
  | none => .none

/-- what `contiguize_from_fragment_pattern` returns, as a python dictionary (arrays given as `None` stay `None`) -/
def contigDict {K : Type} (c : Contig K) : Dict K := fun k =>
  if k = "fragment_separators" then some (.nats c.seps)
  else if k = "geom" then some (.nums c.geom)
  else if k = "elea" then some (encOpt .ints c.elea)
  else if k = "elez" then some (encOpt .ints c.elez)
  else if k = "elem" then some (encOpt .strs c.elem)
  else if k = "mass" then some (encOpt .nums c.mass)
  else if k = "real" then some (encOpt .bools c.real)
  else if k = "elbl" then some (encOpt .strs c.elbl)
  else none

def evalFArg {K : Type} (ms dc : Dict K) : FArg → Except SErr (PV K)
  | .dc k => lookup dc k
  | .get k => .ok (ms.get k)
  | .strLit s => .ok (.str s)
  | .boolLit b => .ok (.bool b)
  | .noneLit => .ok .none
  | .param _ => .ok .none

def evalFArgs {K : Type} (ms dc : Dict K) : List (String × FArg) → Except SErr (List (String × PV K))
  | [] => .ok []
  | (n, a) :: t =>
    match evalFArg ms dc a with
    | .error e => .error e
    | .ok v => (match evalFArgs ms dc t with | .error e => .error e | .ok r => .ok ((n, v) :: r))

/-- the keyword arguments of the `from_arrays` call read as the hand model's argument record -/
def faOfKw {K : Type} (kw : List (String × PV K)) : Except SErr (FAArgs K) := do
  let geom ← kwArg "geom" kw >>= reqOf decNums
  let elea ← kwArg "elea" kw >>= optOf decInts
  let elez ← kwArg "elez" kw >>= optOf decInts
  let elem ← kwArg "elem" kw >>= reqOf decStrs
  let mass ← kwArg "mass" kw >>= optOf decNums
  let real ← kwArg "real" kw >>= optOf decBools
  let elbl ← kwArg "elbl" kw >>= optOf decStrs
  let name ← kwArg "name" kw >>= optOf decStr
  let fixCom ← kwArg "fix_com" kw >>= optOf decBool
  let fixOri ← kwArg "fix_orientation" kw >>= optOf decBool
  let fixSym ← kwArg "fix_symmetry" kw >>= optOf decStr
  let seps ← kwArg "fragment_separators" kw >>= reqOf decNats
  let fragCharges ← kwArg "fragment_charges" kw >>= optOf decNums
  let fragMults ← kwArg "fragment_multiplicities" kw >>= optOf decInts
  let charge ← kwArg "molecular_charge" kw >>= optOf decNum
  let mult ← kwArg "molecular_multiplicity" kw >>= optOf decInt
  let comment ← kwArg "comment" kw >>= optOf decStr
  let connectivity ← kwArg "connectivity" kw >>= optOf decConn
  pure { geom, elea, elez, elem, mass, real, elbl, name, fixCom, fixOri, fixSym, seps, fragCharges, fragMults,
         charge, mult, comment, connectivity }

/-- from `ms` on: the fragment pattern, the `contiguize_from_fragment_pattern` call (body: the hand model), the
keyword arguments of the `from_arrays` call -/
def evalBody {K : Type} (fn : FromSchemaFn) (ms : Dict K) : Except SErr (FAArgs K) :=
  let pat : Except SErr (List (List Int)) :=
    match ms fn.fragKey with
    | some (.frags p) => .ok p
    | some _ => .error .stuck
    | none =>
      match ms fn.lenKey with
      | some (.strs s) => .ok [arange s.length]
      | some _ => .error .stuck
      | none => .error (.err .key)
  match pat with
  | .error e => .error e
  | .ok pat =>
    match evalArgs ms fn.contigArgs with
    | .error e => .error e
    | .ok ca =>
      if !fn.throwReorder then .error .stuck else
      let dc : Except SErr (Contig K) := do
        let geom ← kwArg "geom" ca >>= reqOf decNums
        let elea ← kwArg "elea" ca >>= optOf decInts
        let elez ← kwArg "elez" ca >>= optOf decInts
        let elem ← kwArg "elem" ca >>= optOf decStrs
        let mass ← kwArg "mass" ca >>= optOf decNums
        let real ← kwArg "real" ca >>= optOf decBools
        let elbl ← kwArg "elbl" ca >>= optOf decStrs
        match contiguize pat geom elea elez elem mass real elbl with
        | .ok c => .ok c
        | .error e => .error (.err e)
      match dc with
      | .error e => .error e
      | .ok c =>
        match evalFArgs ms (contigDict c) fn.faArgs with
        | .error e => .error e
        | .ok kw => faOfKw kw

def evalFromSchema {K : Type} (fn : FromSchemaFn) (inp : Out K) : Except SErr (FAArgs K) :=
  match evalSniff inp fn.elseRaises fn.sniff with
  | .error e => .error e
  | .ok ms => evalBody fn ms

/-- the literal a keyword of the `from_arrays` call is given, if it is one -/
def faLit (fn : FromSchemaFn) (n : String) : Option FArg :=
  (fn.faArgs.find? (fun p => p.1 == n)).map (·.2)

/-! ## `_filter_defaults` (qcelemental/models/molecule.py) — syntax

The statements of `_filter_defaults` as data.  The evaluator is in `Model/MolDictAst.lean` (it needs `Model/MolDict.lean`);
`Props/C09SrcFilter.lean` proves it equal, at the regenerated term, to the hand model `MolDict.filterDefaults`. -/

inductive FCond where
  | massesEqualDefault (k : String)     -- np.array_equal(default_mass, dicary[k])
  | allTrue (k : String)                -- all(dicary[k])
  | allEmptyLabels (k : String)         -- dicary[k].tolist() == nat * [""]
  | getIsNone (k : String)              -- dicary.get(k, "N/A") is None
  | isSingleFragment (k : String)       -- dicary[k] == [list(np.arange(nat))]
  deriving DecidableEq, Repr

inductive FStmt where
  | pop (k : String)                              -- dicary.pop(k)
  | ifPops (c : FCond) (ks : List String)         -- if c: dicary.pop(k) for k in ks (in this order)
  deriving DecidableEq, Repr

structure FilterFn where
  natKey : String            -- nat = len(dicary[natKey])
  massSymKey : String        -- default_mass = np.array([periodictable.to_mass(e) for e in dicary[massSymKey]])
  stmts : List FStmt
  returnsArg : Bool          -- return dicary
  deriving DecidableEq, Repr

end QcelVerif.MolSchema.Src
