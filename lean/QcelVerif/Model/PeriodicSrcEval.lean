import QcelVerif.Model.PeriodicTable
/-
C01 — the lookup LOGIC of `qcelemental/periodic_table.py` as *translated source*: the syntax the
translator `harness/c01_src.py` emits into `Gen/PeriodicSrc.lean`, and its evaluator.  Core Lean only.

  (a) `to_period` / `to_group`: an `if/elif/else` ladder of tests on `Z`, each arm returning a literal
      -> `Ladder` (list of (test, returned literal)) + the `else` literal; `Ladder.eval`.
  (b) `_resolve_atom_to_key` and its nested `resolve_eliso`: statements `Stmt` over expressions `Expr`
      (try / except <classes> / else, assignment, return, raise, assert, if; calls str.capitalize, int(),
      `self.<dict>[…]`, `… not in self.<list>`, the nested function) -> `Stmt.exec`: a small-step-free,
      total, structural evaluator of exactly the Python semantics of these constructs
      (exception classes are matched by name against the `except` tuple; `else` runs only when the body
      completed; exceptions in a handler or in `else` propagate).
  (c) `__init__`: which data array feeds which attribute, which attributes are zipped into which
      dictionary, in source order -> `arrayDefs`, `dictDefs`; `buildDict` is Python's `dict(zip(k, v))`
      (insert in order, a later duplicate key overwrites).

The string/int primitives are those of the hand model (`PStr.capitalize`, `PStr.pyInt`), used read-only.
The tables are reached through `Env` (one lookup function per dictionary), so that the same program
can be run over the hand model's `Tables` (`Env.ofTables`) and over dictionaries built from the generated
arrays in the order the source builds them (`Model/PeriodicSrcShipped.lean`).
-/
namespace QcelVerif.PT.Src
open QcelVerif QcelVerif.PStr

/-- the seven arrays of `data.nist_2011_atomic_weights` / attributes of `PeriodicTable` -/
inductive ArrayName where
  | Z | E | name | EE | EA | A | mass
  deriving DecidableEq, Repr

/-- the seven index dictionaries of `PeriodicTable.__init__` -/
inductive DictName where
  | el2z | z2el | element2el | el2element | eliso2mass | eliso2el | eliso2a
  deriving DecidableEq, Repr

/-- exception classes (by name, as they appear in `except (…)` tuples / `raise`); `unsupported` is not a
Python class: the evaluator's own "outside the modelled subset" (no `except` clause can name it) -/
inductive Exc where
  | KeyError | ValueError | AttributeError | AssertionError | NotAnElementError | TypeError | IndexError
  | NameError | unsupported
  deriving DecidableEq, Repr

/-- run-time values: the documented argument types (int | ASCII str), strings fetched from a table (kept in
their packed form), bool, None -/
inductive Val where
  | int (i : Int)
  | str (s : Bytes)
  | pstr (packed : Nat)
  | bool (b : Bool)
  | none
  deriving DecidableEq, Repr

inductive Expr where
  | var (v : Nat)                          -- parameter / local, numbered by the translator
  | capitalize (e : Expr)                  -- `e.capitalize()`
  | int (e : Expr)                         -- `int(e)`
  | getitem (d : DictName) (k : Expr)      -- `self._<d>[k]`
  | notIn (e : Expr) (l : ArrayName)       -- `e not in self.<l>`
  | isIn (e : Expr) (l : ArrayName)        -- `e in self.<l>`
  | and (a b : Expr)                       -- `a and b`
  | not (a : Expr)                         -- `not a`
  | isinstanceStr (e : Expr)               -- `isinstance(e, str)`
  | callInner (arg : Expr)                 -- call of the nested function with one positional argument
  deriving DecidableEq, Repr

inductive Stmt where
  | skip
  | seq (a b : Stmt)
  | expr (e : Expr)                                   -- expression statement
  | assign (v : Nat) (e : Expr)
  | ret (e : Expr)
  | raise (x : Exc)
  | assert (c : Expr)
  | tryExcept (body : Stmt) (handled : List Exc) (handler orelse : Stmt)
  | ite (c : Expr) (t e : Stmt)
  deriving DecidableEq, Repr

deriving instance DecidableEq for Except

/-- how a program reaches the tables: `self._<d>[key]` (error = the exception Python raises) and
`key in self.<l>` -/
structure Env where
  dictGet : DictName → Val → Except Exc Val
  inList : ArrayName → Val → Except Exc Bool

abbrev Locals := List (Nat × Val)

def Locals.get (ρ : Locals) (v : Nat) : Option Val :=
  match ρ with
  | [] => none
  | (k, x) :: t => if k = v then some x else Locals.get t v

def Locals.set (ρ : Locals) (v : Nat) (x : Val) : Locals := (v, x) :: ρ

/-- expressions; `inner` is the meaning of the nested function -/
def Expr.eval (E : Env) (inner : Val → Except Exc Val) (ρ : Locals) : Expr → Except Exc Val
  | .var v => match ρ.get v with | some x => .ok x | none => .error .NameError
  | .capitalize e =>
      match Expr.eval E inner ρ e with
      | .ok (.str s) => .ok (.str (PStr.capitalize s))
      | .ok (.int _) => .error .AttributeError          -- 'int' object has no attribute 'capitalize'
      | .ok _ => .error .unsupported
      | .error x => .error x
  | .int e =>
      match Expr.eval E inner ρ e with
      | .ok (.int i) => .ok (.int i)
      | .ok (.str s) => (match pyInt s with | some z => .ok (.int z) | none => .error .ValueError)
      | .ok _ => .error .unsupported
      | .error x => .error x
  | .getitem d k =>
      match Expr.eval E inner ρ k with
      | .ok x => E.dictGet d x
      | .error x => .error x
  | .notIn e l =>
      match Expr.eval E inner ρ e with
      | .ok x => (match E.inList l x with | .ok b => .ok (.bool (!b)) | .error y => .error y)
      | .error x => .error x
  | .isIn e l =>
      match Expr.eval E inner ρ e with
      | .ok x => (match E.inList l x with | .ok b => .ok (.bool b) | .error y => .error y)
      | .error x => .error x
  | .and a b =>
      match Expr.eval E inner ρ a with
      | .ok (.bool false) => .ok (.bool false)
      | .ok (.bool true) => Expr.eval E inner ρ b
      | .ok _ => .error .unsupported                    -- truthiness of non-bool operands: outside the subset
      | .error x => .error x
  | .not a =>
      match Expr.eval E inner ρ a with
      | .ok (.bool b) => .ok (.bool (!b))
      | .ok _ => .error .unsupported
      | .error x => .error x
  | .isinstanceStr e =>
      match Expr.eval E inner ρ e with
      | .ok (.str _) => .ok (.bool true)
      | .ok (.pstr _) => .ok (.bool true)
      | .ok _ => .ok (.bool false)
      | .error x => .error x
  | .callInner a =>
      match Expr.eval E inner ρ a with
      | .ok x => inner x
      | .error x => .error x

/-- outcome of a statement: fell through (with the locals), returned, or raised (locals kept: an
assignment made before the exception is visible in the handler, as in Python) -/
inductive Out where
  | next (ρ : Locals)
  | ret (v : Val)
  | exc (x : Exc) (ρ : Locals)

def Stmt.exec (E : Env) (inner : Val → Except Exc Val) : Stmt → Locals → Out
  | .skip, ρ => .next ρ
  | .seq a b, ρ =>
      match Stmt.exec E inner a ρ with
      | .next ρ' => Stmt.exec E inner b ρ'
      | o => o
  | .expr e, ρ => match e.eval E inner ρ with | .ok _ => .next ρ | .error x => .exc x ρ
  | .assign v e, ρ => match e.eval E inner ρ with | .ok x => .next (ρ.set v x) | .error x => .exc x ρ
  | .ret e, ρ => match e.eval E inner ρ with | .ok x => .ret x | .error x => .exc x ρ
  | .raise x, ρ => .exc x ρ
  | .assert c, ρ =>
      match c.eval E inner ρ with
      | .ok (.bool true) => .next ρ
      | .ok (.bool false) => .exc .AssertionError ρ
      | .ok _ => .exc .unsupported ρ
      | .error x => .exc x ρ
  | .tryExcept body handled handler orelse, ρ =>
      match Stmt.exec E inner body ρ with
      | .next ρ' => Stmt.exec E inner orelse ρ'
      | .ret v => .ret v
      | .exc x ρ' => if handled.contains x then Stmt.exec E inner handler ρ' else .exc x ρ'
  | .ite c t e, ρ =>
      match c.eval E inner ρ with
      | .ok (.bool true) => Stmt.exec E inner t ρ
      | .ok (.bool false) => Stmt.exec E inner e ρ
      | .ok _ => .exc .unsupported ρ
      | .error x => .exc x ρ

/-- a function body called with its parameters: a body that falls off the end returns `None` -/
def runBody (E : Env) (inner : Val → Except Exc Val) (body : Stmt) (ρ : Locals) : Except Exc Val :=
  match body.exec E inner ρ with
  | .next _ => .ok .none
  | .ret v => .ok v
  | .exc x _ => .error x

/-- the packed dictionary key a string value stands for -/
def Val.key? : Val → Option Nat
  | .str s => some (pack s)
  | .pstr n => some n
  | _ => Option.none

/-- `_resolve_atom_to_key(atom, strict)`: parameters are locals 0 (`atom`) and 1 (`strict`); the nested
function takes its one parameter as local 0 and cannot call itself.  The result must be a string (the
`_eliso2mass` key); anything else is `unsupported`. -/
def resolveProg (E : Env) (innerBody outerBody : Stmt) (a : PyVal) (strict : Bool) : Except Exc Nat :=
  let arg : Val := match a with | .int i => .int i | .str s => .str s
  let inner : Val → Except Exc Val := fun x => runBody E (fun _ => .error .unsupported) innerBody [(0, x)]
  match runBody E inner outerBody [(0, arg), (1, .bool strict)] with
  | .ok v => (match v.key? with | some k => .ok k | none => .error .unsupported)
  | .error x => .error x

/-- what the hand model's `Option` stands for: `none` = NotAnElementError -/
def ofOption {α} : Option α → Except Exc α
  | some k => .ok k
  | none => .error .NotAnElementError

/-- the hand model's `Tables` seen as the seven dictionaries (key and value kinds as the shipped arrays
have them: `Z`, `A` integers, everything else strings) -/
def Env.ofTables (T : Tables) : Env where
  dictGet d k :=
    let strKey (f : Nat → Option Val) : Except Exc Val :=
      match k with
      | .str s => (match f (pack s) with | some v => .ok v | none => .error .KeyError)
      | .pstr n => (match f n with | some v => .ok v | none => .error .KeyError)
      | .int _ => .error .KeyError                      -- an int is never equal to a str key
      | _ => .error .unsupported
    match d with
    | .z2el =>
        (match k with
         | .int i => (match T.z2el i with | some e => .ok (.pstr e) | none => .error .KeyError)
         | .str _ => .error .KeyError
         | .pstr _ => .error .KeyError
         | _ => .error .unsupported)                    -- True == 1 would hit: outside the subset
    | .el2z => strKey fun n => (T.el2z n).map fun z => .int z
    | .element2el => strKey fun n => (T.name2el n).map .pstr
    | .el2element => strKey fun n => (T.el2name n).map .pstr
    | .eliso2mass => strKey fun n => (T.eliso.lookup n).map fun r => .pstr r.2.2
    | .eliso2el => strKey fun n => (T.eliso.lookup n).map fun r => .pstr r.1
    | .eliso2a => strKey fun n => (T.eliso.lookup n).map fun r => .int r.2.1
  inList l k :=
    match l, k with
    | .E, .str s => .ok (T.isElementSymbol (pack s))
    | .E, .pstr n => .ok (T.isElementSymbol n)
    | .E, .int _ => .ok false
    | _, _ => .error .unsupported

/-! ### (a) ladders -/

/-- one test of an `if/elif` ladder on the local `Z` -/
inductive Test where
  | le (n : Nat) | lt (n : Nat) | ge (n : Nat) | gt (n : Nat) | eq (n : Nat) | ne (n : Nat)
  | mem (l : List Nat)                                  -- `Z in [ … ]`
  deriving DecidableEq, Repr

def Test.holds (z : Nat) : Test → Bool
  | .le n => decide (z ≤ n) | .lt n => decide (z < n) | .ge n => decide (z ≥ n) | .gt n => decide (z > n)
  | .eq n => z == n | .ne n => z != n
  | .mem l => l.contains z

/-- (test, literal returned): `some n` = the integer literal `n`, `none` = the literal `None` -/
abbrev Ladder := List (Test × Option Nat)

/-- first arm whose test holds, else the `else` literal -/
def Ladder.eval (l : Ladder) (els : Option Nat) (z : Nat) : Option Nat :=
  match l with
  | [] => els
  | (t, r) :: rest => if t.holds z then r else Ladder.eval rest els z

/-! ### accessor bodies -/

inductive AccName where
  | to_Z | to_E | to_element | to_A | to_mass | to_period | to_group
  | to_atomic_number | to_symbol | to_name | to_mass_number
  deriving DecidableEq, Repr

/-- `identifier = self._resolve_atom_to_key(atom[, strict=strict]); return self._dₙ[…self._d₁[identifier]…]` -/
structure Accessor where
  name : AccName
  /-- is the caller's `strict` handed on to `_resolve_atom_to_key`? -/
  passesStrict : Bool
  /-- dictionaries applied to the key, innermost first -/
  chain : List DictName
  deriving DecidableEq, Repr

/-- run an accessor body.  A KeyError inside the chain (an inconsistent table) is reported as such. -/
def Accessor.run (E : Env) (innerBody outerBody : Stmt) (acc : Accessor) (a : PyVal) (strict : Bool) : Except Exc Val :=
  match resolveProg E innerBody outerBody a (acc.passesStrict && strict) with
  | .error x => .error x
  | .ok k => acc.chain.foldlM (fun v d => E.dictGet d v) (.pstr k)

/-! ### (c) dictionary construction -/

/-- `Bst.insert`: Python's `d[k] = v` (a present key keeps its place and gets the new value) -/
def insert {β : Type} : Bst β → Nat → β → Bst β
  | .leaf, k, v => .node .leaf k v .leaf
  | .node l k0 v0 r, k, v =>
      if k < k0 then .node (insert l k v) k0 v0 r
      else if k0 < k then .node l k0 v0 (insert r k v)
      else .node l k0 v r

/-- `dict(zip(keys, values))` / `OrderedDict(zip(keys, values))`: pairs inserted left to right -/
def buildDict {β : Type} (rows : List (Nat × β)) : Bst β :=
  rows.foldl (fun t r => insert t r.1 r.2) .leaf

end QcelVerif.PT.Src
