import QcelVerif.Model.Measure
import QcelVerif.Model.RadiiShipped
/-!
# `guess_connectivity` from *symbols*: the radius look-up in front of the bond criterion (C18)

`Model/Measure.lean` models `guess_connectivity` from the point where every atom already carries
its covalent radius.  This file models the loop in front of it
(`qcelemental/molutil/connectivity.py:37-42`)

    for s in symbols:
        try:                     radii.append(covalentradii.get(s, missing=1.8))
        except NotAnElementError: radii.append(1.8)

on top of C17's model of `CovalentRadii.get` (`Model/Radii.lean`, imported read-only) and the
radius / periodic tables that the translators `tools/gen_radii.py`, `tools/gen_periodic.py`
regenerate from `/repo`'s data files on every run (`Gen/Radii.lean`, `Gen/PT.lean`).  So the bond
criterion of the model can be evaluated with table values that come from the source tree, not from
the running implementation.

The unit factor `angstrom → bohr` (`constants.conversion_factor`, pint; C03's territory) is a
parameter, exactly as in C17's model.
-/
namespace QcelVerif.Measure
open QcelVerif QcelVerif.PStr QcelVerif.PT QcelVerif.Radii

/-- the double denoted by the literal `1.8` (connectivity.py:39 and :41), exactly -/
def missing18 : Rat := 8106479329266893 / 4503599627370496

/-- connectivity.py:37-42 for one symbol, any tables: `covalentradii.get(s, missing=1.8)` (units
omitted = bohr, `return_tuple=False`), and `1.8` when that raises `NotAnElementError`.
`none` = some other exception escapes the loop (failing unit conversion), or a non-float result. -/
def connRadiusWith (T : Tables) (t : Table) (convF : Bytes → Bytes → Option Rat) (s : Bytes) :
    Option Rat :=
  match getU T t convF (.str s) false none (some missing18) with
  | .ok (.value x) => some x
  | .ok _ => none
  | .error .NotAnElement => some missing18
  | .error _ => none

/-- unit factors towards bohr given as an association list `source unit ↦ factor` -/
def convToBohr (l : List (Bytes × Rat)) (src dst : Bytes) : Option Rat :=
  if dst == bBohr then (l.find? (fun p => p.1 == src)).map (·.2) else none

/-- the same with the shipped tables (regenerated from `/repo` by the translators) -/
def connRadius (conv : List (Bytes × Rat)) (s : Bytes) : Option Rat :=
  match covLoaded with
  | none => none                  -- the table load itself raises (import error)
  | some t => connRadiusWith shipped t (convToBohr conv) s

section generic
variable {K : Type}

/-- `radii = np.array([...])` next to the geometry rows: atoms as the bond criterion sees them.
`none` as soon as one look-up raises. -/
def atomsOfSymbols (rad : Bytes → Option K) : List (Bytes × V3 K) → Option (List (Atom K))
  | [] => some []
  | (s, p) :: rest =>
    match rad s, atomsOfSymbols rad rest with
    | some r, some as => some (⟨r, p⟩ :: as)
    | _, _ => none

end generic

section ordered
variable {K : Type} [Field K] [LinearOrder K] [IsStrictOrderedRing K]

/-- `guess_connectivity(symbols, geometry, threshold, default_connectivity)` from symbols -/
def guessConnectivitySym (rad : Bytes → Option K) (thr : K) (dc : Option K)
    (l : List (Bytes × V3 K)) : Option (List (Nat × Nat × Option K)) :=
  (atomsOfSymbols rad l).map (guessConnectivityDC thr dc)

end ordered

end QcelVerif.Measure
