import QcelVerif.Model.MunkresFloat
/-!
C14 — a small ARRAY-STATEMENT AST for `qcelemental/util/scipy_hungarian.py` and its evaluator
(core Lean only; the driver imports this file).

`harness/c14_src.py` reads the source with `ast` on every run and emits `Gen/MunkresSrc.lean`: one
`Stmt` term per step function `_step1 … _step6`, the fields of `_Hungary.__init__`/`_clear_covers`
(`InitSpec`) and the pre/post-processing of `linear_sum_assignment` (`List PStmt`).  Nothing in this
file knows what the steps do: the evaluator gives every *statement form* that occurs in the source its
numpy meaning over the model's `_Hungary` state type (`Munkres.State`) plus the local variables of the
step functions (`LState`).  `Props/C14Src.lean` proves that the evaluated source terms equal the
hand-written steps of `Model/Munkres.lean` / `Model/MunkresFloat.lean` for ALL states.

Conventions
* every `+`/`-` the WORK DTYPE performs on `state.C` goes through the rounding parameter `rnd`
  (`rnd := id` is the exact run) — *where* those operations are, and in which order, is now read
  from the source (`subAxisMin`, `addRows`, `subCols` are emitted in source order);
* scalar locals that only ever hold results of `argmax`, shapes, literals `≥ 0` and `+ 1` are
  naturals (`NVar`); `col` of `_step5`, which is assigned `-1`, and `path[k, 1]` are integers, and an
  integer used as a column index is normalised the numpy way (`wrapIdx`: `-1` is the last column);
* `while True` runs on the fuel the caller passes (`Err.fuel` when exhausted, never a default);
* `for i, j in zip(*np.nonzero(state.C == 0))` visits the cells of the matrix AS IT IS WHEN THE LOOP
  STARTS in row-major order and runs the body on those that compare equal to zero.
-/
namespace QcelVerif.MunkresAst
open QcelVerif.Munkres QcelVerif.Assign

/-- natural-valued locals -/
inductive NVar where
  | i | j | row | col | starCol | count | n | m
  deriving Repr, DecidableEq

/-- integer-valued locals (`col` of `_step5`) -/
inductive ZVar where
  | col
  deriving Repr, DecidableEq

/-- the local integer matrices of `_step4` -/
inductive MatI where
  | Cz      -- `C = (state.C == 0).astype(int)`
  | cov     -- `covered_C`
  deriving Repr, DecidableEq

/-- natural-valued expressions -/
inductive NE where
  | lit (k : Nat)
  | v (x : NVar)
  | add (a b : NE)
  | sub (a b : NE)
  | shape0                                   -- `state.C.shape[0]`
  | shape1                                   -- `state.C.shape[1]`
  | z0r                                      -- `state.Z0_r`
  | z0c                                      -- `state.Z0_c`
  | pathRow (k : NE)                         -- `path[k, 0]`
  | wrapPathCol (k : NE)                     -- `path[k, 1]` used as a column index
  | wrapZ (x : ZVar)                         -- an integer local used as a column index
  | markedAt (r c : NE)                      -- `state.marked[r, c]`
  | argmaxRowEq (r : NE) (val : Nat)         -- `np.argmax(state.marked[r] == val)`
  | argmaxColEq (c : NE) (val : Nat)         -- `np.argmax(state.marked[:, c] == val)`
  | matAt (M : MatI) (r c : NE)              -- `covered_C[r, c]`
  | argmaxFlatRow (M : MatI)                 -- `np.unravel_index(np.argmax(M), (n, m))[0]`
  | argmaxFlatCol (M : MatI)                 -- `np.unravel_index(np.argmax(M), (n, m))[1]`
  | countMarkedEq (val : Nat)                -- `(state.marked == val).sum()`
  deriving Repr

/-- integer-valued expressions -/
inductive ZE where
  | lit (z : Int)
  | v (x : ZVar)
  | ofN (a : NE)
  | pathCol (k : NE)                         -- `path[k, 1]`
  deriving Repr

inductive BE where
  | lt (a b : NE)
  | eq (a b : NE)
  | ne (a b : NE)
  | rowUncAt (i : NE)                        -- `state.row_uncovered[i]`
  | colUncAt (j : NE)                        -- `state.col_uncovered[j]`
  | and (a b : BE)
  | anyRowUnc                                -- `np.any(state.row_uncovered)`
  | anyColUnc                                -- `np.any(state.col_uncovered)`
  deriving Repr

/-- boolean index masks of `_step6` -/
inductive Mask where
  | rowUnc | notRowUnc | colUnc | notColUnc
  deriving Repr, DecidableEq

inductive Stmt where
  | skip
  | seq (a b : Stmt)
  | ite (c : BE) (t e : Stmt)
  | whileTrue (body : Stmt)
  | brk
  | ret (next : Option Step)                 -- `return _stepN` / falling off the end (`None`)
  | forZerosC (body : Stmt)                  -- `for i, j in zip(*np.nonzero(state.C == 0)):`
  | forRange (hi : NE) (body : Stmt)         -- `for i in range(hi):`
  | subAxisMin (axis : Nat)                  -- `state.C -= state.C.min(axis=1)[:, np.newaxis]` (axis 0: `[np.newaxis, :]`)
  | setMarked (r c : NE) (val : Nat)         -- `state.marked[r, c] = val`
  | setRowUnc (i : NE) (b : Bool)            -- `state.row_uncovered[i] = b`
  | setColUnc (j : NE) (b : Bool)
  | clearCovers (row col : Bool)             -- `state._clear_covers()`: `self.row_uncovered[:] = row`; `self.col_uncovered[:] = col`
  | coverColsAnyEq (val : Nat)               -- `state.col_uncovered[np.any(state.marked == val, axis=0)] = False`
  | assignN (x : NVar) (e : NE)
  | assignZ (x : ZVar) (e : ZE)
  | setZ0r (e : NE)
  | setZ0c (e : NE)
  | setPathRow (k e : NE)                    -- `path[k, 0] = e`
  | setPathCol (k : NE) (e : ZE)             -- `path[k, 1] = e`
  | initCz                                   -- `C = (state.C == 0).astype(int)`
  | initCov                                  -- `covered_C = C * state.row_uncovered[:, np.newaxis]`; `covered_C *= np.asarray(state.col_uncovered, dtype=int)`
  | covSetCol (c : NE)                       -- `covered_C[:, c] = C[:, c] * np.asarray(state.row_uncovered, dtype=int)`
  | covZeroRow (r : NE)                      -- `covered_C[r] = 0`
  | eraseMarkedEq (val : Nat)                -- `state.marked[state.marked == val] = 0`
  | minvalOver (rows cols : Mask)            -- `minval = np.min(state.C[rows], axis=0)`; `minval = np.min(minval[cols])`
  | addRows (mask : Mask)                    -- `state.C[mask] += minval`
  | subCols (mask : Mask)                    -- `state.C[:, mask] -= minval`
  deriving Repr

/-- `_Hungary` state + the locals of the step function being run -/
structure LState where
  s : State
  i : Nat := 0
  j : Nat := 0
  row : Nat := 0
  col : Nat := 0
  starCol : Nat := 0
  count : Nat := 0
  n : Nat := 0
  m : Nat := 0
  colZ : Int := 0
  minval : Rat := 0
  Cz : Mat Nat := #[]
  cov : Mat Nat := #[]

inductive Ctl where
  | next
  | brk
  | ret (st : Option Step)
  deriving Repr, DecidableEq

def LState.getN (l : LState) : NVar → Nat
  | .i => l.i | .j => l.j | .row => l.row | .col => l.col | .starCol => l.starCol
  | .count => l.count | .n => l.n | .m => l.m

def LState.setN (l : LState) (x : NVar) (a : Nat) : LState :=
  match x with
  | .i => { l with i := a } | .j => { l with j := a } | .row => { l with row := a }
  | .col => { l with col := a } | .starCol => { l with starCol := a }
  | .count => { l with count := a } | .n => { l with n := a } | .m => { l with m := a }

def LState.getZ (l : LState) : ZVar → Int
  | .col => l.colZ

def LState.setZ (l : LState) (x : ZVar) (a : Int) : LState :=
  match x with
  | .col => { l with colZ := a }

def LState.mat (l : LState) : MatI → Mat Nat
  | .Cz => l.Cz
  | .cov => l.cov

/-- the `_Hungary` state with a new `_Hungary` part -/
def LState.withS (l : LState) (s : State) : LState := { l with s := s }

def NE.eval (l : LState) : NE → Nat
  | .lit k => k
  | .v x => l.getN x
  | .add a b => a.eval l + b.eval l
  | .sub a b => a.eval l - b.eval l
  | .shape0 => l.s.C.size
  | .shape1 => l.s.colUnc.size
  | .z0r => l.s.z0r
  | .z0c => l.s.z0c
  | .pathRow k => (l.s.path.getD (k.eval l) (0, 0)).1
  | .wrapPathCol k => wrapIdx l.s.colUnc.size (l.s.path.getD (k.eval l) (0, 0)).2
  | .wrapZ x => wrapIdx l.s.colUnc.size (l.getZ x)
  | .markedAt r c => get2 l.s.marked (r.eval l) (c.eval l)
  | .argmaxRowEq r val => firstIdx (· == val) (l.s.marked.getD (r.eval l) #[])
  | .argmaxColEq c val => firstIdx (· == val) (l.s.marked.map fun r => r.getD (c.eval l) 0)
  | .matAt M r c => get2 (l.mat M) (r.eval l) (c.eval l)
  | .argmaxFlatRow M => (argmaxFlat (l.mat M)).1
  | .argmaxFlatCol M => (argmaxFlat (l.mat M)).2.1
  | .countMarkedEq val => l.s.marked.foldl (fun a r => a + r.countP (· == val)) 0

def ZE.eval (l : LState) : ZE → Int
  | .lit z => z
  | .v x => l.getZ x
  | .ofN a => Int.ofNat (a.eval l)
  | .pathCol k => (l.s.path.getD (k.eval l) (0, 0)).2

def BE.eval (l : LState) : BE → Bool
  | .lt a b => decide (a.eval l < b.eval l)
  | .eq a b => a.eval l == b.eval l
  | .ne a b => a.eval l != b.eval l
  | .rowUncAt i => l.s.rowUnc.getD (i.eval l) false
  | .colUncAt j => l.s.colUnc.getD (j.eval l) false
  | .and a b => a.eval l && b.eval l
  | .anyRowUnc => l.s.rowUnc.any id
  | .anyColUnc => l.s.colUnc.any id

/-- does the mask select row `i` / column `j` -/
def Mask.sel (s : State) : Mask → Nat → Bool
  | .rowUnc, i => s.rowUnc.getD i false
  | .notRowUnc, i => !(s.rowUnc.getD i false)
  | .colUnc, j => s.colUnc.getD j false
  | .notColUnc, j => !(s.colUnc.getD j false)

/-- `np.min(np.min(C[rows], axis=0)[cols])`: the smallest entry over selected rows × selected columns -/
def minvalSel (s : State) (rows cols : Mask) : Rat :=
  let vals : Array Rat := Id.run do
    let mut acc : Array Rat := #[]
    for i in [0:s.C.size] do
      if rows.sel s i then
        let r := s.C.getD i #[]
        for j in [0:r.size] do
          if cols.sel s j then acc := acc.push (r.getD j 0)
    return acc
  rowMin vals

/-- column minima, for `state.C.min(axis=0)` -/
def colMin (C : Mat Rat) (j : Nat) : Rat :=
  rowMin (C.map fun r => r.getD j 0)

/-- `state.C -= state.C.min(axis=…)[…]` in the work dtype -/
def subAxisMinC (rnd : Rat → Rat) (axis : Nat) (C : Mat Rat) : Mat Rat :=
  if axis = 1 then C.map fun r => let mn := rowMin r; r.map (fun x => rnd (x - mn))
  else C.map fun r => r.mapIdx fun j x => rnd (x - colMin C j)

/-- row-major `np.nonzero(M == val)` zipped -/
def nonzeroEq (val : Nat) (M : Mat Nat) : Pairs := Id.run do
  let mut acc : Array (Nat × Nat) := #[]
  for i in [0:M.size] do
    let r := M.getD i #[]
    for j in [0:r.size] do
      if r.getD j 0 == val then acc := acc.push (i, j)
  return acc.toList

/-- a `for` loop over a list of indices; the body may stop it (`break`, `return`) -/
def evalFor (f : Nat → LState → Except Err (LState × Ctl)) : List Nat → LState → Except Err (LState × Ctl)
  | [], l => .ok (l, .next)
  | k :: ks, l =>
    match f k l with
    | .error e => .error e
    | .ok (l', .next) => evalFor f ks l'
    | .ok (l', .brk) => .ok (l', .next)
    | .ok (l', .ret st) => .ok (l', .ret st)

/-- `while True:` on fuel -/
def evalWhile (f : LState → Except Err (LState × Ctl)) : Nat → LState → Except Err (LState × Ctl)
  | 0, _ => .error .fuel
  | k + 1, l =>
    match f l with
    | .error e => .error e
    | .ok (l', .next) => evalWhile f k l'
    | .ok (l', .brk) => .ok (l', .next)
    | .ok (l', .ret st) => .ok (l', .ret st)

/-- one statement.  `rnd` rounds the results of the work dtype's arithmetic, `fuel` bounds every `while True`. -/
def Stmt.eval (rnd : Rat → Rat) (fuel : Nat) : Stmt → LState → Except Err (LState × Ctl)
  | .skip, l => .ok (l, .next)
  | .seq a b, l =>
    match a.eval rnd fuel l with
    | .error e => .error e
    | .ok (l', .next) => b.eval rnd fuel l'
    | .ok (l', c) => .ok (l', c)
  | .ite c t e, l => if c.eval l then t.eval rnd fuel l else e.eval rnd fuel l
  | .whileTrue body, l => evalWhile (body.eval rnd fuel) fuel l
  | .brk, l => .ok (l, .brk)
  | .ret st, l => .ok (l, .ret st)
  | .forZerosC body, l =>
    let C := l.s.C
    evalFor (fun i l => evalFor (fun j l =>
        if get2 C i j == 0 then body.eval rnd fuel ((l.setN .i i).setN .j j) else .ok (l, .next))
      (List.range (C.getD i #[]).size) l) (List.range C.size) l
  | .forRange hi body, l =>
    evalFor (fun i l => body.eval rnd fuel (l.setN .i i)) (List.range (hi.eval l)) l
  | .subAxisMin axis, l => .ok (l.withS { l.s with C := subAxisMinC rnd axis l.s.C }, .next)
  | .setMarked r c val, l => .ok (l.withS { l.s with marked := set2 l.s.marked (r.eval l) (c.eval l) val }, .next)
  | .setRowUnc i b, l => .ok (l.withS { l.s with rowUnc := l.s.rowUnc.set! (i.eval l) b }, .next)
  | .setColUnc j b, l => .ok (l.withS { l.s with colUnc := l.s.colUnc.set! (j.eval l) b }, .next)
  | .clearCovers rw cl, l =>
    .ok (l.withS { l.s with rowUnc := Array.replicate l.s.rowUnc.size rw, colUnc := Array.replicate l.s.colUnc.size cl }, .next)
  | .coverColsAnyEq val, l =>
    let cu := l.s.colUnc.mapIdx fun j b => if l.s.marked.any (fun r => r.getD j 0 == val) then false else b
    .ok (l.withS { l.s with colUnc := cu }, .next)
  | .assignN x e, l => .ok (l.setN x (e.eval l), .next)
  | .assignZ x e, l => .ok (l.setZ x (e.eval l), .next)
  | .setZ0r e, l => .ok (l.withS { l.s with z0r := e.eval l }, .next)
  | .setZ0c e, l => .ok (l.withS { l.s with z0c := e.eval l }, .next)
  | .setPathRow k e, l =>
    match pathSet l.s.path (k.eval l) (e.eval l, (l.s.path.getD (k.eval l) (0, 0)).2) with
    | .error er => .error er
    | .ok p => .ok (l.withS { l.s with path := p }, .next)
  | .setPathCol k e, l =>
    match pathSet l.s.path (k.eval l) ((l.s.path.getD (k.eval l) (0, 0)).1, e.eval l) with
    | .error er => .error er
    | .ok p => .ok (l.withS { l.s with path := p }, .next)
  | .initCz, l => .ok ({ l with Cz := l.s.C.map fun r => r.map fun x => if x == 0 then 1 else 0 }, .next)
  | .initCov, l =>
    let cov := l.Cz.mapIdx fun i r => r.mapIdx fun j z =>
      z * (if l.s.rowUnc.getD i false then 1 else 0) * (if l.s.colUnc.getD j false then 1 else 0)
    .ok ({ l with cov := cov }, .next)
  | .covSetCol c, l =>
    let cov := l.cov.mapIdx fun i r =>
      r.set! (c.eval l) (get2 l.Cz i (c.eval l) * (if l.s.rowUnc.getD i false then 1 else 0))
    .ok ({ l with cov := cov }, .next)
  | .covZeroRow r, l =>
    .ok ({ l with cov := l.cov.set! (r.eval l) (Array.replicate (l.cov.getD (r.eval l) #[]).size 0) }, .next)
  | .eraseMarkedEq val, l =>
    .ok (l.withS { l.s with marked := l.s.marked.map fun r => r.map fun x => if x == val then 0 else x }, .next)
  | .minvalOver rows cols, l => .ok ({ l with minval := minvalSel l.s rows cols }, .next)
  | .addRows mask, l =>
    let C := l.s.C.mapIdx fun i r => r.mapIdx fun _ x => if mask.sel l.s i then rnd (x + l.minval) else x
    .ok (l.withS { l.s with C := C }, .next)
  | .subCols mask, l =>
    let C := l.s.C.mapIdx fun _ r => r.mapIdx fun j x => if mask.sel l.s j then rnd (x - l.minval) else x
    .ok (l.withS { l.s with C := C }, .next)

/-- a step function: run its body from fresh locals; it must end in a `return` -/
def runStepFn (rnd : Rat → Rat) (fuel : Nat) (body : Stmt) (s : State) : Except Err (State × Option Step) :=
  match body.eval rnd fuel { s := s } with
  | .error e => .error e
  | .ok (l, .ret st) => .ok (l.s, st)
  | .ok (l, _) => .ok (l.s, none)      -- falling off the end returns `None`

/-! ### `_Hungary.__init__`, `_clear_covers` and `linear_sum_assignment` -/

/-- the constants of `_Hungary.__init__` -/
structure InitSpec where
  rowUnc : Bool          -- `np.ones(n, dtype=bool)` ↦ true, `np.zeros` ↦ false
  colUnc : Bool
  z0r : Nat
  z0c : Nat
  marked : Nat           -- fill value of `marked` (`np.zeros((n, m))` ↦ 0)
  pathFill : Nat         -- fill value of `path`
  pathRowsNM : Bool      -- `path` has `n + m` rows
  copies : Bool          -- `self.C = cost_matrix.copy()`
  deriving Repr, DecidableEq

def InitSpec.state (sp : InitSpec) (n m : Nat) (cost : Mat Rat) : State :=
  { C := cost
    rowUnc := Array.replicate n sp.rowUnc
    colUnc := Array.replicate m sp.colUnc
    marked := Array.replicate n (Array.replicate m sp.marked)
    z0r := sp.z0r, z0c := sp.z0c
    path := Array.replicate (if sp.pathRowsNM then n + m else 0) (sp.pathFill, Int.ofNat sp.pathFill) }

/-- comparison operators of the shape test -/
inductive Cmp where
  | lt | gt | le | ge
  deriving Repr, DecidableEq

def Cmp.eval : Cmp → Nat → Nat → Bool
  | .lt, a, b => decide (a < b)
  | .gt, a, b => decide (a > b)
  | .le, a, b => decide (a ≤ b)
  | .ge, a, b => decide (a ≥ b)

/-- statements of `linear_sum_assignment` in source order -/
inductive PStmt where
  | asarray                                      -- `cost_matrix = np.asarray(cost_matrix)`
  | raiseIfNdimNe (k : Nat) (e : Err)            -- `if len(cost_matrix.shape) != k: raise ValueError`
  | raiseIfNotNumeric (e : Err)                  -- `if not (np.issubdtype(dtype, np.number) or dtype == np.dtype(bool)): raise`
  | raiseIfAnyNonfinite (e : Err)                -- `if np.any(np.isinf(cost_matrix) | np.isnan(cost_matrix)): raise`
  | widenDtype                                   -- the `astype` chain (value preserving: bool→int, narrow ints→int64, narrow floats→float64)
  | transposeIf (ax1 : Nat) (c : Cmp) (ax2 : Nat) -- `if shape[ax1] <c> shape[ax2]: cost_matrix = cost_matrix.T; transposed = True else: transposed = False`
  | mkState                                      -- `state = _Hungary(cost_matrix)`
  | firstStep (zeroLen : Bool) (st : Step)       -- `step = None if 0 in cost_matrix.shape else _stepN`
  | loop                                         -- `while step is not None: step = step(state)`
  | untransposeIf                                -- `if transposed: marked = state.marked.T; reduced_cost = state.C.T else: …`
  | retNonzeroEq (val : Nat)                     -- `return np.nonzero(marked == val), reduced_cost`
  deriving Repr, DecidableEq

/-- everything `harness/c14_src.py` reads from the source -/
structure Prog where
  init : InitSpec
  step1 : Stmt
  step3 : Stmt
  step4 : Stmt
  step5 : Stmt
  step6 : Stmt
  main : List PStmt

/-- the body of a step by its label -/
def Prog.body (p : Prog) : Step → Stmt
  | .s1 => p.step1 | .s3 => p.step3 | .s4 => p.step4 | .s5 => p.step5 | .s6 => p.step6

/-- fuel handed to the `while True` of a step: the model's (`Model/Munkres.lean`: `n + 1` passes in
`_step4`, `n + m + 1` links in `_step5`; `Props/C14Term.lean` proves them sufficient) -/
def whileFuel (st : Step) (s : State) : Nat :=
  match st with
  | .s4 => s.C.size + 1
  | .s5 => s.rowUnc.size + s.colUnc.size + 1
  | _ => 0

/-- `step(state)` for the source-derived step functions -/
def Prog.doStep (p : Prog) (rnd : Rat → Rat) (st : Step) (s : State) : Except Err (State × Option Step) :=
  runStepFn rnd (whileFuel st s) (p.body st) s

/-- `while step is not None: step = step(state)` with the trace -/
def Prog.runSteps (p : Prog) (rnd : Rat → Rat) :
    Nat → Step → State → Array (Step × State) → Except Err (State × Array (Step × State))
  | 0, _, _, _ => .error .fuel
  | f + 1, st, s, tr =>
    match p.doStep rnd st s with
    | .error e => .error e
    | .ok (s', next) =>
      let tr := tr.push (st, s')
      match next with
      | none => .ok (s', tr)
      | some st' => p.runSteps rnd f st' s' tr

/-- interpreter state of `linear_sum_assignment` -/
structure PState where
  n : Nat                   -- current shape of `cost_matrix`
  m : Nat
  cost : Mat Rat
  transposed : Bool := false
  state : Option State := none
  step : Option Step := none
  trace : Array (Step × State) := #[]
  marked : Mat Nat := #[]
  red : Mat Rat := #[]
  outN : Nat := 0           -- shape of `marked` / `reduced_cost` after the un-transposition
  outM : Nat := 0

inductive PRes where
  | cont (p : PState)
  | done (o : Output)

def PStmt.eval (pr : Prog) (rnd : Rat → Rat) (inp : Input) (fuelOf : Nat → Nat → Nat) : PStmt → PState → Except Err PRes
  | .asarray, p => .ok (.cont p)
  | .raiseIfNdimNe k e, p => if inp.ndim != k then .error e else .ok (.cont p)
  | .raiseIfNotNumeric e, p => if inp.dt = .other then .error e else .ok (.cont p)
  | .raiseIfAnyNonfinite e, p => if !inp.allFinite then .error e else .ok (.cont p)
  | .widenDtype, p => .ok (.cont p)
  | .transposeIf a1 c a2, p =>
    let sh := fun (a : Nat) => if a = 0 then p.n else p.m
    .ok (.cont (if c.eval (sh a1) (sh a2) then
        { p with cost := transpose p.n p.m p.cost, n := p.m, m := p.n, transposed := true }
      else { p with transposed := false }))
  | .mkState, p => .ok (.cont { p with state := some (pr.init.state p.n p.m p.cost) })
  | .firstStep zeroLen st, p =>
    .ok (.cont { p with step := if zeroLen && (p.n == 0 || p.m == 0) then none else some st })
  | .loop, p =>
    match p.state, p.step with
    | some s, some st =>
      match pr.runSteps rnd (fuelOf p.n p.m) st s #[] with
      | .error e => .error e
      | .ok (s', tr) => .ok (.cont { p with state := some s', trace := tr, step := none })
    | _, _ => .ok (.cont p)
  | .untransposeIf, p =>
    match p.state with
    | none => .error .index
    | some s =>
      if p.transposed then
        .ok (.cont { p with marked := transpose p.n p.m s.marked, red := transpose p.n p.m s.C, outN := p.m, outM := p.n })
      else .ok (.cont { p with marked := s.marked, red := s.C, outN := p.n, outM := p.m })
  | .retNonzeroEq val, p =>
    .ok (.done { n := p.outN, m := p.outM,
                 pairs := nonzeroEq val p.marked,
                 red := p.red, trace := p.trace })

def evalMain (pr : Prog) (rnd : Rat → Rat) (inp : Input) (fuelOf : Nat → Nat → Nat) : List PStmt → PState → Except Err Output
  | [], _ => .error .index            -- a function that falls off the end returns no answer
  | st :: rest, p =>
    match st.eval pr rnd inp fuelOf p with
    | .error e => .error e
    | .ok (.done o) => .ok o
    | .ok (.cont p') => evalMain pr rnd inp fuelOf rest p'

/-- `linear_sum_assignment(cost_matrix, return_cost=True)` evaluated from the source-derived program, the
`while step is not None` loop running on `fuelOf rows columns` step calls -/
def Prog.solveWith (pr : Prog) (fuelOf : Nat → Nat → Nat) (rnd : Rat → Rat) (inp : Input) : Except Err Output :=
  evalMain pr rnd inp fuelOf pr.main
    { n := inp.n, m := inp.m, cost := inp.ent.map fun r => r.map Entry.val }

/-- … on the model's fuel `4(n+m)^3+16` -/
def Prog.solve (pr : Prog) (rnd : Rat → Rat) (inp : Input) : Except Err Output :=
  pr.solveWith stepFuel rnd inp

/-- the driver's fuel: `(n+1)(2n+5)+1` step calls (`n` rows in the wide orientation) — the proved bound on the
number of step calls of the model (`Props/C14Term.lean: step_decreases`, `mu(initial) = (n+1)(2n+5)`), never more
than the model's fuel.  A program regenerated from a MUTATED source need not terminate; on this fuel it gives up
after thousands rather than millions of step calls.  `Props/C14Src.lean: solveCapped_ok`: an answer on this fuel
is the answer of `Prog.solve`. -/
def capFuel (n m : Nat) : Nat := min ((n + 1) * (2 * n + 5) + 1) (stepFuel n m)

def Prog.solveCapped (pr : Prog) (rnd : Rat → Rat) (inp : Input) : Except Err Output :=
  pr.solveWith capFuel rnd inp

end QcelVerif.MunkresAst
