import QcelVerif.Model.FromArrays
/-!
Small syntax + evaluator for three stage functions of `qcelemental/molparse/from_arrays.py`
(C04, source tie):

  * `validate_and_fill_geometry`   — `GeomFn`  (reshape refusal, `metric = tooclose ** k`, the pair loop with its
                                      slice offset, the comparison operators of `np.any` / `np.where`, the final raise)
  * `validate_and_fill_nuclei`     — `NucFn`   (the six `None` fills with the `-1 ≡ None` rebuild, the chained shape
                                      comparison, the `if nat:` guard, the per-atom loop over `range(nat)`)
  * `validate_and_fill_fragments`  — `FS`      (a statement language: `if`/`else`, `raise`, the trial `np.split`, the
                                      assignments of `frs`/`frc`/`frm`/`nfr`, integer and boolean expressions)

The terms are GENERATED from the source by `harness/c04_src.py` into `Gen/FromArraysSrc.lean`; the evaluator below
gives them their meaning.  `Props/C04Src.lean` proves that the evaluator at the generated terms equals the hand models
`validateGeometry` / `validateNuclei` / `validateFragments` of `Model/FromArrays.lean` for ALL inputs.

Core Lean only (a driver imports this file).
-/
namespace QcelVerif.FromArrays.Src
open QcelVerif.FromArrays

/-! ### `validate_and_fill_geometry` -/

inductive Cmp where
  | lt | le | gt | ge
  deriving Repr, DecidableEq

def Cmp.holds : Cmp → Rat → Rat → Bool
  | .lt, a, b => decide (a < b)
  | .le, a, b => decide (a ≤ b)
  | .gt, a, b => decide (b < a)
  | .ge, a, b => decide (b ≤ a)

structure GeomFn where
  /-- `except ValueError: raise ValidationError(...)` around the reshape to `(-1, 3)` -/
  reshapeErrValidation : Bool
  /-- `metric = tooclose ** k` -/
  metricPow : Nat
  /-- `diffs = npgeom[x] - npgeom[x + k :]` -/
  innerOffset : Nat
  /-- `if np.any(dists <op> metric):` -/
  cmpAny : Cmp
  /-- `indices = np.where(dists <op> metric)[0]` -/
  cmpWhere : Cmp
  /-- `if tooclose_inds: raise ValidationError(...)` -/
  raiseIfAny : Bool
  deriving Repr, DecidableEq

/-- `q ** n` for a non-negative integer literal `n` -/
def powR (q : Rat) : Nat → Rat
  | 0 => 1
  | 1 => q
  | n + 2 => powR q (n + 1) * q

/-- the loop `for x in range(npgeom.shape[0])` on the suffix of rows starting at `x`: what is appended to `tooclose_inds` -/
def pairHits (f : GeomFn) (metric : Rat) : List R3 → List (R3 × R3)
  | [] => []
  | p :: t =>
    (if ((p :: t).drop f.innerOffset).any (fun q => f.cmpAny.holds (dist2 p q) metric) then
       (((p :: t).drop f.innerOffset).filter (fun q => f.cmpWhere.holds (dist2 p q) metric)).map (fun q => (p, q))
     else []) ++ pairHits f metric t

def evalGeom (f : GeomFn) (tc : Rat) (g : List Rat) : Except Err (List Rat) :=
  match rows3 g with
  | none => .error (if f.reshapeErrValidation then .validation else .other "ValueError")
  | some rows =>
    if f.raiseIfAny && !(pairHits f (powR tc f.metricPow) rows).isEmpty then .error .validation else .ok g

/-! ### `validate_and_fill_nuclei` -/

inductive Fld where
  | elea | elez | elem | mass | real | elbl
  deriving Repr, DecidableEq

inductive ShTerm where
  | nat                 -- `(nat,)`
  | arr (f : Fld)       -- `<f>.shape`
  deriving Repr, DecidableEq

inductive NStmt where
  /-- `if not (t0 == t1 == …): raise ValidationError` -/
  | checkShape (terms : List ShTerm)
  /-- `A, Z, E, mass, real, label = zip(*[reconcile_nucleus(A=elea[at], …) for at in range(nat)])` -/
  | reconcile
  deriving Repr, DecidableEq

structure NucFn where
  /-- the `if <f> is None: <f> = np.asarray([None] * nat) else: <f> = np.asarray(<f>)` blocks in source order;
  the flag says the `else` branch carries the `if -1 in <f>:` rebuild (`-1 ≡ None`) -/
  fills : List (Fld × Bool)
  /-- the statements after the fills; the flag says "only executed when `nat` is truthy" (inside `if nat:`, or after an
  early return for `nat == 0`) -/
  body : List (Bool × NStmt)
  deriving Repr, DecidableEq

def NucFn.minusOne (f : NucFn) (x : Fld) : Bool := f.fills.contains (x, true)

/-- `if -1 in a: a = np.array([(None if at == -1 else at) for at in a])` -/
def normMinusOne (b : Bool) (l : List (Option Int)) : List (Option Int) :=
  if b && l.contains (some (-1)) then l.map (fun a => if a = some (-1) then none else a) else l

def fillInt (b : Bool) (nat : Nat) : Option (List (Option Int)) → List (Option Int)
  | none => List.replicate nat none
  | some l => normMinusOne b l

def srcArrays (f : NucFn) (nat : Nat) (i : Inp) : NucArrays :=
  { elea := fillInt (f.minusOne .elea) nat i.elea, elez := fillInt (f.minusOne .elez) nat i.elez,
    elem := fillNone nat i.elem, mass := fillNone nat i.mass, real := fillNone nat i.real, elbl := fillNone nat i.elbl }

def lenOf (a : NucArrays) : Fld → Nat
  | .elea => a.elea.length
  | .elez => a.elez.length
  | .elem => a.elem.length
  | .mass => a.mass.length
  | .real => a.real.length
  | .elbl => a.elbl.length

def termLen (nat : Nat) (a : NucArrays) : ShTerm → Nat
  | .nat => nat
  | .arr f => lenOf a f

/-- Python's chained comparison `a == b == c == …` -/
def chainEq : List Nat → Bool
  | a :: b :: t => a == b && chainEq (b :: t)
  | _ => true

/-- `[reconcile_nucleus(A=elea[at], Z=elez[at], E=elem[at], mass=mass[at], real=real[at], label=elbl[at], …)
for at in range(nat)]`: atom by atom; an array shorter than `nat` is an `IndexError`, the first error wins -/
def reconLoop (rc : Clue → Except Err Nuc) : Nat → List (Option Int) → List (Option Int) → List (Option String) →
    List (Option Rat) → List (Option Bool) → List (Option String) → Except Err (List Nuc)
  | 0, _, _, _, _, _, _ => .ok []
  | n + 1, a :: as, z :: zs, e :: es, m :: ms, r :: rs, l :: ls =>
    match rc { A := a, Z := z, E := e, mass := m, real := r, label := l } with
    | .error err => .error err
    | .ok b =>
      match reconLoop rc n as zs es ms rs ls with
      | .error err => .error err
      | .ok bs => .ok (b :: bs)
  | _ + 1, _, _, _, _, _, _ => .error (.other "IndexError")

def evalNBody (rc : Clue → Except Err Nuc) (nat : Nat) (a : NucArrays) :
    List (Bool × NStmt) → Option (List Nuc) → Except Err (List Nuc)
  | [], res => .ok (res.getD [])            -- `else: A = Z = E = mass = real = label = []`
  | (g, s) :: t, res =>
    if g && nat == 0 then evalNBody rc nat a t res
    else
      match s with
      | .checkShape terms =>
        if chainEq (terms.map (termLen nat a)) then evalNBody rc nat a t res else .error .validation
      | .reconcile =>
        match reconLoop rc nat a.elea a.elez a.elem a.mass a.real a.elbl with
        | .error e => .error e
        | .ok ns => evalNBody rc nat a t (some ns)

def evalNuclei (f : NucFn) (rc : Reconciler) (nat : Nat) (i : Inp) : Except Err (List Nuc) :=
  evalNBody (rc (nucSettings i)) nat (srcArrays f nat i) f.body none

/-! ### `validate_and_fill_fragments` -/

inductive FArg where
  | seps | fc | fm         -- `fragment_separators`, `fragment_charges`, `fragment_multiplicities`
  deriving Repr, DecidableEq

/-- non-negative integer expressions -/
inductive FI where
  | nat                    -- `nat`
  | nfr                    -- `nfr`
  | lenFrs | lenFrc | lenFrm   -- `len(frs)`, `len(frc)`, `len(frm)`
  | lenSplit               -- `len(split_geom)`
  | sumSplit               -- `sum(len(f) for f in split_geom)`
  | lit (n : Nat)
  | add (a b : FI)
  deriving Repr, DecidableEq

inductive FB where
  | isNone (a : FArg)            -- `<arg> is None`
  | and (a b : FB)
  | not (a : FB)
  | anySplitLenEq (k : Nat)      -- `any(len(f) == k for f in split_geom)`
  | ne (a b : FI)
  | eqChain (l : List FI)        -- `a == b == c`
  deriving Repr

/-- values of `frc` / `frm` -/
inductive FL where
  | list1None                    -- `[None]`
  | noneTimes (n : FI)           -- `[None] * n`
  | castArg (a : FArg)           -- `[(f if f is None else float(f)) for f in <arg>]` inside `try … except TypeError: raise ValidationError`
  deriving Repr

inductive FS where
  | skip
  | seq (a b : FS)
  | ite (c : FB) (t e : FS)
  | raise                        -- `raise ValidationError(...)`
  | setFrsEmpty                  -- `frs = []`
  | setFrsArg                    -- `frs = fragment_separators`
  | setFrc (l : FL)
  | setFrm (l : FL)
  | trialSplit                   -- `split_geom = np.split(np.zeros((nat, 3)), fragment_separators, axis=0)` in `try … except TypeError: raise ValidationError`
  | setNfr (e : FI)
  deriving Repr

structure FArgs where
  nat : Nat
  seps : Option (List Int)
  fc : Option (List (Option Int))
  fm : Option (List (Option Int))

/-- the local variables (the translator checks that each is assigned on every path before it is read, so the initial
values are never observed) -/
structure FState where
  split : List Nat := []         -- `[len(f) for f in split_geom]`
  nfr : Nat := 0
  frs : List Int := []
  frc : List (Option Int) := []
  frm : List (Option Int) := []

def evalFI (a : FArgs) (s : FState) : FI → Nat
  | .nat => a.nat
  | .nfr => s.nfr
  | .lenFrs => s.frs.length
  | .lenFrc => s.frc.length
  | .lenFrm => s.frm.length
  | .lenSplit => s.split.length
  | .sumSplit => s.split.sum
  | .lit n => n
  | .add x y => evalFI a s x + evalFI a s y

def argIsNone (a : FArgs) : FArg → Bool
  | .seps => a.seps.isNone
  | .fc => a.fc.isNone
  | .fm => a.fm.isNone

def evalFB (a : FArgs) (s : FState) : FB → Bool
  | .isNone x => argIsNone a x
  | .and x y => evalFB a s x && evalFB a s y
  | .not x => !evalFB a s x
  | .anySplitLenEq k => s.split.any (· == k)
  | .ne x y => evalFI a s x != evalFI a s y
  | .eqChain l => chainEq (l.map (evalFI a s))

/-- `float(f)` is the identity on the integer-valued charges / multiplicities of the model's scope; iterating `None`
is a `TypeError`, caught and re-raised as `ValidationError`; a separator list is not a charge list -/
def evalFL (a : FArgs) (s : FState) : FL → Except Err (List (Option Int))
  | .list1None => .ok [none]
  | .noneTimes n => .ok (List.replicate (evalFI a s n) none)
  | .castArg .fc => match a.fc with | none => .error .validation | some l => .ok l
  | .castArg .fm => match a.fm with | none => .error .validation | some l => .ok l
  | .castArg .seps => match a.seps with | none => .error .validation | some l => .ok (l.map some)

def evalFS (a : FArgs) : FS → FState → Except Err FState
  | .skip, s => .ok s
  | .seq x y, s =>
    match evalFS a x s with
    | .error e => .error e
    | .ok s' => evalFS a y s'
  | .ite c t e, s => if evalFB a s c then evalFS a t s else evalFS a e s
  | .raise, _ => .error .validation
  | .setFrsEmpty, s => .ok { s with frs := [] }
  | .setFrsArg, s =>
    match a.seps with
    | none => .error (.other "TypeError")          -- `len(None)` / `list(None)` further down
    | some l => .ok { s with frs := l }
  | .setFrc l, s =>
    match evalFL a s l with
    | .error e => .error e
    | .ok v => .ok { s with frc := v }
  | .setFrm l, s =>
    match evalFL a s l with
    | .error e => .error e
    | .ok v => .ok { s with frm := v }
  | .trialSplit, s =>
    match a.seps with
    | none => .error .validation                    -- `np.split(x, None)`: TypeError → ValidationError
    | some l => .ok { s with split := (npSplit (List.replicate a.nat ()) l).map List.length }
  | .setNfr e, s => .ok { s with nfr := evalFI a s e }

/-- `return {"fragment_separators": list(frs), "fragment_charges": frc, "fragment_multiplicities": frm}` -/
def evalFragments (p : FS) (nat : Nat) (seps : Option (List Int)) (fc fm : Option (List (Option Int))) :
    Except Err FragOut :=
  match evalFS { nat := nat, seps := seps, fc := fc, fm := fm } p {} with
  | .error e => .error e
  | .ok s => .ok { seps := s.frs, fc := s.frc, fm := s.frm }

/-! ### the pipeline with the three stages taken from the source-derived programs -/

structure Progs where
  ok : Bool            -- the translator recognised every region
  geom : GeomFn
  nuc : NucFn
  frag : FS

/-- `fromArrays` of `Model/FromArrays.lean` with `validateGeometry`, `validateNuclei`, `validateFragments` replaced by
the evaluators of the source-derived programs (everything else is the hand model, unchanged) -/
def fromArraysWith (P : Progs) (env : Env) (i : Inp) : Except Err Molrec :=
  match missingGeom i with
  | .error e => .error e
  | .ok g0 =>
  match validateUnits env.angToAu i with
  | .error e => .error e
  | .ok u =>
  match evalGeom P.geom i.tooclose g0 with
  | .error e => .error e
  | .ok g =>
  let nat := g.length / 3
  match evalNuclei P.nuc env.recon nat i with
  | .error e => .error e
  | .ok nucs =>
  match evalFragments P.frag nat i.seps i.fc i.fm with
  | .error e => .error e
  | .ok fr =>
  let elez := nucs.map (·.Z)
  let real := nucs.map (·.real)
  match chgmultStage elez real fr i.c i.m i.zgf with
  | .error e => .error e
  | .ok cm =>
  match frameFlag i.fixCom with
  | .error e => .error e
  | .ok com =>
  match frameFlag i.fixOrient with
  | .error e => .error e
  | .ok orient =>
  .ok { units := u.units, iutau := u.iutau, name := i.name, comment := i.comment, conn := u.conn
        geom := g
        elea := nucs.map (·.A), elez := elez, elem := nucs.map (·.E), mass := nucs.map (·.mass)
        real := real, elbl := nucs.map (·.label)
        seps := fr.seps
        c := cm.c, fc := cm.fc, m := cm.m, fm := cm.fm
        fixCom := com, fixOrient := orient, fixSymm := frameSymm i.fixSymm }

/-- `fromSchema` with the inner `from_arrays` call answered by `fromArraysWith` -/
def fromSchemaWith (P : Progs) (env : Env) (s : Schema) : Except Err Molrec :=
  let nm := s.schemaName.getD []
  let recognised :=
    ((startsWith nm "qc_schema".toList || startsWith nm "qcschema".toList) && s.schemaVersion == some 1)
    || (startsWith nm "qcschema_molecule".toList && s.schemaVersion == some 2)
  if !recognised then .error .validation
  else
    let pattern := s.fragments.getD [List.range ((s.body.elem.getD []).length)]
    match contiguize pattern s.body with
    | .error e => .error e
    | .ok cg =>
      fromArraysWith P env { s.body with
        units := sBohr, iutau := none, seps := some cg.seps
        minimal := false, speclabel := false, zgf := false
        mtol := dfltMtol, tooclose := dfltTooclose }

end QcelVerif.FromArrays.Src
