/-
Model of the comparison helpers of `qcelemental/testing.py` (C19):
`compare_values` (41-189), `compare` (196-311), `_compare_recursive` (314-387), `_path_under` (390-392),
`compare_recursive` (395-505) — line numbers of /repo HEAD ca03624 (after the five C19 repairs).  `ProtoModel.compare` (models/basemodels.py:181-198) is
`compare_recursive(self, other, **kwargs)`; models enter the recursion as their `.dict()`.

Core Lean only (the driver imports this file).  Numbers are *extended rationals*: every IEEE
double is either a dyadic rational, ±inf or NaN, so the model evaluates the comparison exactly on
the very doubles the implementation received (the harness only sends cases on which the float
evaluation of `|c-e|` and `atol + rtol*|e|` is exact or decided by a wide margin).

What is numpy's and taken as a parameter (modelled here, checked differentially):
`np.array(x, dtype=float|complex)` casting rules, shape inference, `np.isclose`, `==`, unary `-`.
Inputs the model does not cover (ragged lists, `str`/`dict`/ndarray where a plain list is expected,
mixed str/number lists, numeric-looking strings) evaluate to `Res.unmodelled`; the harness never
generates them and treats an `unmodelled` answer as a broken tie.
-/
namespace QcelVerif.Compare

/-! ## numbers -/

/-- an IEEE double (or one component of a complex double) -/
inductive XR where
  | fin (q : Rat)
  | pinf
  | ninf
  | nan
  deriving DecidableEq, Repr

namespace XR
def neg : XR → XR
  | fin q => fin (-q)
  | pinf => ninf
  | ninf => pinf
  | nan => nan

def isNan : XR → Bool
  | nan => true
  | _ => false

def isFin : XR → Bool
  | fin _ => true
  | _ => false

/-- IEEE `==` (NaN is not equal to itself) -/
def ieq : XR → XR → Bool
  | fin a, fin b => a == b
  | pinf, pinf => true
  | ninf, ninf => true
  | _, _ => false

def ofInt (n : Int) : XR := fin (n : Rat)
def ofBool (b : Bool) : XR := fin (if b then 1 else 0)
end XR

def absQ (q : Rat) : Rat := if q < 0 then -q else q

/-- a complex double -/
structure Cx where
  re : XR
  im : XR
  deriving DecidableEq, Repr

namespace Cx
def neg (z : Cx) : Cx := ⟨z.re.neg, z.im.neg⟩
def isNan (z : Cx) : Bool := z.re.isNan || z.im.isNan
def isFin (z : Cx) : Bool := z.re.isFin && z.im.isFin
def ieq (a b : Cx) : Bool := a.re.ieq b.re && a.im.ieq b.im
end Cx

/-! ## `np.isclose(cptd, xptd, rtol, atol, equal_nan)`  (numpy/_core/numeric.py)

`less_equal(abs(x - y), atol + rtol * abs(y)) & isfinite(y) | (x == y)`, then
`| isnan(x) & isnan(y)` when `equal_nan`.  `x` is computed, `y` is expected. -/

/-- real case.  For finite `y`: a non-finite `x` gives `abs(x-y)` = inf or NaN, never `<=` a finite bound. -/
def closeR (atol rtol : Rat) (equalNan : Bool) (x y : XR) : Bool :=
  match x, y with
  | .fin a, .fin b => decide (absQ (a - b) ≤ atol + rtol * absQ b) || a == b
  | .pinf, .pinf => true
  | .ninf, .ninf => true
  | .nan, .nan => equalNan
  | _, _ => false

/-- `sqrt d2 ≤ A + R * sqrt m2` for `A, R, d2, m2 ≥ 0`, decided in the rationals:
    with `L = d2 - A² - R²·m2` it is `L ≤ 0 ∨ L² ≤ 4·A²·R²·m2`
    (theorem `sqrtLe_iff` in Props/C19.lean proves this over the reals). -/
def sqrtLe (A R d2 m2 : Rat) : Bool :=
  let L := d2 - A * A - R * R * m2
  decide (L ≤ 0) || decide (L * L ≤ 4 * (A * A) * (R * R) * m2)

/-- complex case: `abs` is the modulus, `isfinite(y)` needs both parts finite, `isnan` either part. -/
def closeC (atol rtol : Rat) (equalNan : Bool) (x y : Cx) : Bool :=
  (match x.re, x.im, y.re, y.im with
   | .fin a, .fin b, .fin c, .fin d =>
       sqrtLe atol rtol ((a - c) * (a - c) + (b - d) * (b - d)) (c * c + d * d)
   | _, _, _, _ => false)
  || x.ieq y
  || (equalNan && x.isNan && y.isNan)

/-! ## values -/

/-- scalars.  Python flavours and numpy-scalar flavours are kept apart because the type-directed
    recursion (and the cast of a complex to float) distinguishes them. -/
inductive Sc where
  | none
  | bool (b : Bool)
  | int (n : Int)
  | flt (x : XR)
  | cpx (z : Cx)            -- Python `complex`
  | str (s : String)        -- non-numeric text (the generator's scope)
  | npflt (x : XR)          -- np.float64
  | npint (n : Int)         -- np.int64
  | npbool (b : Bool)       -- np.bool_
  | npcpx (z : Cx)          -- np.complex128 (a subclass of `complex`); also the elements of a complex ndarray
  deriving DecidableEq, Repr

/-- dtype kinds of `np.array(x)` -/
inductive Kind where
  | bool | int | flt | cpx | str | obj
  deriving DecidableEq, Repr

/-- the values the helpers are called with -/
inductive Tree where
  | sc (s : Sc)
  | list (l : List Tree)                       -- list / tuple
  | dict (kv : List (String × Tree))           -- dict / pydantic model after `.dict()`; keys unique
  | arr (k : Kind) (shape : List Nat) (flat : List Sc)   -- np.ndarray, C order
  deriving Repr

inductive Exc where
  | valueError
  deriving DecidableEq, Repr

/-- what a call does -/
inductive Res where
  | verdict (b : Bool)
  | raised (e : Exc)
  | unmodelled
  deriving DecidableEq, Repr

/-! ## `np.array(...)`: kind, shape, flat data -/

def Sc.kind : Sc → Kind
  | .none => .obj
  | .bool _ | .npbool _ => .bool
  | .int _ | .npint _ => .int
  | .flt _ | .npflt _ => .flt
  | .cpx _ | .npcpx _ => .cpx
  | .str _ => .str

/-- result dtype of two element kinds; `none` = a str/number mixture (numpy would stringify: unmodelled) -/
def Kind.join : Kind → Kind → Option Kind
  | .obj, _ | _, .obj => some .obj
  | .str, .str => some .str
  | .str, _ | _, .str => none
  | .cpx, _ | _, .cpx => some .cpx
  | .flt, _ | _, .flt => some .flt
  | .int, _ | _, .int => some .int
  | .bool, .bool => some .bool

def joinKinds : List Kind → Option (Option Kind)   -- `some none` = no element (numpy: float64)
  | [] => some none
  | k :: t =>
    match joinKinds t with
    | none => none
    | some none => some (some k)
    | some (some k') => (Kind.join k k').map some

/-- flattened view of an array-like: shape, C-order elements -/
structure Flat where
  shape : List Nat
  data : List Sc
  deriving Repr

inductive FlatRes where
  | ok (f : Flat)
  | notArrayLike      -- contains a dict: `np.array(..., dtype=float)` raises TypeError
  | unmodelled        -- ragged

mutual
def flatten : Tree → FlatRes
  | .sc s => .ok ⟨[], [s]⟩
  | .arr _ sh fl => .ok ⟨sh, fl⟩
  | .dict _ => .notArrayLike
  | .list l => flattenList l
def flattenList : List Tree → FlatRes
  | [] => .ok ⟨[0], []⟩
  | t :: ts =>
    match flatten t, flattenList ts with
    | .ok f, .ok g =>
      match g.shape with
      | 0 :: _ => .ok ⟨1 :: f.shape, f.data⟩                 -- `ts = []`
      | (n+1) :: rest => if rest = f.shape then .ok ⟨(n+2) :: rest, f.data ++ g.data⟩ else .unmodelled
      | [] => .unmodelled
    | .notArrayLike, .unmodelled | .unmodelled, _ | _, .unmodelled => .unmodelled
    | .notArrayLike, _ | _, .notArrayLike => .notArrayLike
end

/-- kind of `np.asarray(flat data)` -/
def Flat.kind (f : Flat) : Option Kind :=
  if (f.data.map Sc.kind).contains .obj then some .obj else   -- any `None` makes an object array, whatever else is there
  match joinKinds (f.data.map Sc.kind) with
  | none => none
  | some none => some .flt
  | some (some k) => some k

/-- `np.array(x, dtype=float)` element cast: `None` → NaN; Python `complex` → TypeError;
    numpy complex → real part (ComplexWarning); non-numeric text → ValueError -/
def castF : Sc → Option XR
  | .none => some .nan
  | .bool b | .npbool b => some (XR.ofBool b)
  | .int n | .npint n => some (XR.ofInt n)
  | .flt x | .npflt x => some x
  | .cpx _ => none
  | .npcpx z => some z.re
  | .str _ => none

/-- `np.array(x, dtype=complex)` element cast: `None` → nan+nanj -/
def castC : Sc → Option Cx
  | .none => some ⟨.nan, .nan⟩
  | .bool b | .npbool b => some ⟨XR.ofBool b, .fin 0⟩
  | .int n | .npint n => some ⟨XR.ofInt n, .fin 0⟩
  | .flt x | .npflt x => some ⟨x, .fin 0⟩
  | .cpx z | .npcpx z => some z
  | .str _ => none

/-- `bool(np.all(f(c_i, e_i)))` over two equally long flat lists -/
def all2 {α : Type} (f : α → α → Bool) : List α → List α → Bool
  | [], [] => true
  | c :: cs, e :: es => f c e && all2 f cs es
  | _, _ => false

/-! ## `compare_values` -/

structure VOpts where
  atol : Rat
  rtol : Rat
  equalNan : Bool := false
  equalPhase : Bool := false
  passnone : Bool := false
  deriving Repr

/-- how the verdict is reported: `quiet`, `return_message`, a custom `return_handler`
    (testing.py:19-32).  None of them is an argument of the verdict functions below. -/
structure Reporting where
  quiet : Bool := false
  returnMessage : Bool := false
  customHandler : Bool := false
  deriving Repr

/-- what the caller receives -/
inductive Ret where
  | plain (b : Bool)                 -- `return passfail`
  | withMessage (b : Bool)           -- `return passfail, message`
  | handled (b : Bool)               -- `return_handler(passfail, label, message, return_message, quiet)`
  deriving DecidableEq, Repr

def Ret.passfail : Ret → Bool
  | .plain b | .withMessage b | .handled b => b

/-- `_handle_return` / custom handler: the verdict is passed through -/
def report (r : Reporting) (b : Bool) : Ret :=
  if r.customHandler then .handled b else if r.returnMessage then .withMessage b else .plain b

/-- the phase-aware all-close over cast data (testing.py:142-147) -/
def allClosePhase {α : Type} (close : α → α → Bool) (neg : α → α) (phase : Bool) (cs es : List α) : Bool :=
  all2 close cs es || (phase && all2 close (cs.map neg) es)

def isNone : Tree → Bool
  | .sc .none => true
  | _ => false

/-- `compare_values(expected, computed, atol=, rtol=, equal_nan=, equal_phase=, passnone=)` for `0 < atol` -/
def compareValues (o : VOpts) (e c : Tree) : Res :=
  -- 112-114
  if o.passnone && isNone e && isNone c then .verdict true else
  match flatten e, flatten c with
  | .unmodelled, _ | _, .unmodelled => .unmodelled
  | .notArrayLike, _ | _, .notArrayLike => .verdict false      -- 126-131 (`np.iscomplexobj(dict)` is False)
  | .ok fe, .ok fc =>
    match fe.kind, fc.kind with
    | none, _ | _, none => .unmodelled
    | some ke, some kc =>
      if ke = .cpx ∨ kc = .cpx then                            -- 116-124: complex when expected OR computed is
        match fe.data.mapM castC, fc.data.mapM castC with
        | some es, some cs =>
          if fe.shape ≠ fc.shape then .verdict false           -- 128-135
          else .verdict (allClosePhase (closeC o.atol o.rtol o.equalNan) Cx.neg o.equalPhase cs es)
        | _, _ => .verdict false                               -- 123-126
      else
        match fe.data.mapM castF, fc.data.mapM castF with
        | some es, some cs =>
          if fe.shape ≠ fc.shape then .verdict false
          else .verdict (allClosePhase (closeR o.atol o.rtol o.equalNan) XR.neg o.equalPhase cs es)
        | _, _ => .verdict false

/-! ## `compare` (exact) -/

/-- numeric value of a scalar as a complex number (`None`, text: none) -/
def Sc.num? : Sc → Option Cx
  | .bool b | .npbool b => some ⟨XR.ofBool b, .fin 0⟩
  | .int n | .npint n => some ⟨XR.ofInt n, .fin 0⟩
  | .flt x | .npflt x => some ⟨x, .fin 0⟩
  | .cpx z | .npcpx z => some z
  | _ => Option.none

/-- Python / numpy `==` on two scalars -/
def scEq (a b : Sc) : Bool :=
  match a, b with
  | .none, .none => true
  | .str s, .str t => s == t
  | _, _ =>
    match a.num?, b.num? with
    | some x, some y => x.ieq y
    | _, _ => false

def Sc.negate : Sc → Sc
  | .int n => .int (-n)
  | .npint n => .npint (-n)
  | .flt x => .flt x.neg
  | .npflt x => .npflt x.neg
  | .cpx z => .cpx z.neg
  | .npcpx z => .npcpx z.neg
  | s => s

/-- unary minus is defined for int/float/complex arrays; bool, str and object arrays raise TypeError (263-266) -/
def Kind.negatable : Kind → Bool
  | .int | .flt | .cpx => true
  | _ => false

/-- `compare(expected, computed, equal_phase=)` -/
def compareExact (phase : Bool) (e c : Tree) : Res :=
  match flatten e, flatten c with
  | .ok fe, .ok fc =>
    match fe.kind, fc.kind with
    | some _, some kc =>
      if fe.shape ≠ fc.shape then .verdict false                -- 250-257
      else
        let plain := all2 scEq fe.data fc.data                  -- 259-260
        .verdict (plain || (phase && kc.negatable && all2 scEq fe.data (fc.data.map Sc.negate)))  -- 262-268
    | _, _ => .unmodelled
  | _, _ => .unmodelled

/-! ## `_compare_recursive` -/

/-- one entry of the `errors` list: `(name, message)`; `tag` orders the messages at one name as
    Python's string order does ("Found extra keys" < "Missing keys"), other messages never share a name -/
structure Err where
  name : String
  tag : Nat
  deriving DecidableEq, Repr

inductive Item where
  | err (e : Err)
  | unmodelled
  deriving DecidableEq, Repr

def verdictOf (name : String) (tag : Nat) : Res → List Item
  | .verdict true => []
  | .verdict false => [.err ⟨name, tag⟩]
  | .raised _ => [.unmodelled]          -- cannot happen for a scalar/ndarray `expected`
  | .unmodelled => [.unmodelled]

def hasKey (k : String) : List (String × Tree) → Bool
  | [] => false
  | (k', _) :: t => k == k' || hasKey k t

def lookup (k : String) : List (String × Tree) → Option Tree
  | [] => none
  | (k', v) :: t => if k == k' then some v else lookup k t

def Sc.isNumpy : Sc → Bool
  | .npflt _ | .npint _ | .npbool _ | .npcpx _ => true
  | _ => false

structure ROpts where
  atol : Rat
  rtol : Rat
  phase : Bool
  deriving Repr

mutual
/-- `_compare_recursive(expected, computed, atol, rtol, _prefix=name, equal_phase=phase)` -/
def recErrs (o : ROpts) (name : String) : Tree → Tree → List Item
  -- 326-328: str, int, bool, complex (np.complex128 is a `complex`), np.bool_: `expected != computed`
  | .sc (.str s), c => exactLeaf name (.str s) c
  | .sc (.int n), c => exactLeaf name (.int n) c
  | .sc (.bool b), c => exactLeaf name (.bool b) c
  | .sc (.cpx z), c => exactLeaf name (.cpx z) c
  | .sc (.npcpx z), c => exactLeaf name (.npcpx z) c
  | .sc (.npbool b), c => exactLeaf name (.npbool b) c           -- np.bool_ joins the exact branch (326)
  -- 330-342
  | .list es, c =>
    match c with
    | .list cs =>
      if es.length ≠ cs.length then [.err ⟨name, 3⟩] else recList o name 0 es cs
    | .sc (.str _) | .dict _ | .arr _ _ _ => [.unmodelled]     -- has a `__len__`: zip would pair odd things
    | .sc _ => [.err ⟨name, 3⟩]                                 -- TypeError from `len()` → "Expected computed to have a __len__()"
  -- 344-361
  | .dict ekv, c =>
    match c with
    | .dict ckv =>
      (if ckv.any (fun p => !hasKey p.1 ekv) then [.err ⟨name, 0⟩] else [])      -- "Found extra keys"
      ++ (if ekv.any (fun p => !hasKey p.1 ckv) then [.err ⟨name, 1⟩] else [])   -- "Missing keys"
      ++ recDict o name ekv ckv
    | _ => [.err ⟨name, 7⟩]                                      -- 344-345 "Expected computed to be a dict"
  -- 363-368: float, np.number
  | .sc (.flt x), c => verdictOf name 4 (compareValues ⟨o.atol, o.rtol, false, o.phase, false⟩ (.sc (.flt x)) c)
  | .sc (.npflt x), c => verdictOf name 4 (compareValues ⟨o.atol, o.rtol, false, o.phase, false⟩ (.sc (.npflt x)) c)
  | .sc (.npint n), c => verdictOf name 4 (compareValues ⟨o.atol, o.rtol, false, o.phase, false⟩ (.sc (.npint n)) c)
  -- 370-378
  | .arr k sh fl, c =>
    if k = .flt then verdictOf name 4 (compareValues ⟨o.atol, o.rtol, false, o.phase, false⟩ (.arr k sh fl) c)
    else verdictOf name 4 (compareExact o.phase (.arr k sh fl) c)
  -- 380-382
  | .sc .none, c => if isNone c then [] else [.err ⟨name, 5⟩]
def recList (o : ROpts) (name : String) : Nat → List Tree → List Tree → List Item
  | i, e :: es, c :: cs => recErrs o (name ++ "." ++ toString i) e c ++ recList o name (i + 1) es cs
  | _, _, _ => []
/-- `for k in expected.keys() & computed.keys()` (in `expected`'s order; the result is sorted later) -/
def recDict (o : ROpts) (name : String) : List (String × Tree) → List (String × Tree) → List Item
  | [], _ => []
  | (k, e) :: rest, ckv =>
    (match lookup k ckv with
     | some c => recErrs o (name ++ "." ++ k) e c
     | none => [])
    ++ recDict o name rest ckv
/-- `expected != computed` for a Python scalar (or np.complex128 / np.bool_) `expected` -/
def exactLeaf (name : String) (s : Sc) : Tree → List Item
  | .sc t => if scEq s t then [] else [.err ⟨name, 2⟩]
  | .list _ => if s.isNumpy then [.unmodelled] else [.err ⟨name, 2⟩]   -- a numpy scalar broadcasts `!=` over a list
  | .dict _ => [.err ⟨name, 2⟩]
  | .arr _ _ _ => [.unmodelled]          -- elementwise `!=`, truth value of an array
end

/-! ## `compare_recursive` -/

/-- `equal_phase` argument -/
inductive PhaseOpt where
  | off                       -- False
  | all                       -- True
  | paths (l : List String)   -- list of dotted paths
  deriving Repr

def PhaseOpt.truthy : PhaseOpt → Bool
  | .off => false
  | .all => true
  | .paths l => !l.isEmpty

def startsWith (s pfx : String) : Bool := pfx.toList.isPrefixOf s.toList

/-- `fg if fg.startswith("root.") else "root." + fg` -/
def rootify (s : String) : String := if startsWith s "root." then s else "root." ++ s

/-- `_path_under(path, prefix)`: `path == prefix or path.startswith(prefix + ".")` -/
def pathUnder (path pfx : String) : Bool := path == pfx || startsWith path (pfx ++ ".")

def Err.le (a b : Err) : Bool := a.name < b.name || (a.name == b.name && a.tag ≤ b.tag)

/-- inner loop of 471-477 / 485-490: at the first prefix that matches, `errors.remove(nomatch)` and `break`;
    `list.remove` would raise ValueError if the element were not there -/
def removeFor (hit : String → Bool) (nm : Err) : List String → List Err → Option (List Err)
  | [], errs => some errs
  | p :: ps, errs =>
    if hit p then
      if errs.contains nm then some (errs.erase nm) else none
    else removeFor hit nm ps errs

/-- `for nomatch in sorted(errors): for p in prefixes: if cond: errors.remove(nomatch)` -/
def removeLoop (cond : Err → String → Bool) (prefixes : List String) : List Err → List Err → Option (List Err)
  | [], errs => some errs
  | nm :: rest, errs =>
    match removeFor (cond nm) nm prefixes errs with
    | none => none
    | some errs' => removeLoop cond prefixes rest errs'

def errsOf : List Item → List Err
  | [] => []
  | .err e :: t => e :: errsOf t
  | _ :: t => errsOf t

/-- `list(dict(errors).keys())`: names, first occurrence order, no repeats -/
def dedupNames : List Err → List String → List String
  | [], _ => []
  | e :: t, seen => if seen.contains e.name then dedupNames t seen else e.name :: dedupNames t (e.name :: seen)

/-- the prefixes of the phase filter (465-470) -/
def phaseEps (phase : PhaseOpt) (errors : List Err) : List String :=
  match phase with
  | .off => []
  | .all => dedupNames errors []            -- `list(dict(errors).keys())`
  | .paths l => l.map rootify

/-- 459-477: `if errors and equal_phase:` remove every entry under a listed path whose name is not an
    error of the sign-flip-tolerant recursion (`nnames`); `none` = `list.remove` raised -/
def phaseStage (phase : PhaseOpt) (nnames : List String) (errors : List Err) : Option (List Err) :=
  if !errors.isEmpty && phase.truthy then
    removeLoop (fun nm ep => pathUnder nm.name ep && !nnames.contains nm.name) (phaseEps phase errors)
      (errors.mergeSort Err.le) errors
  else some errors

/-- 479-490: remove every entry under a forgiven path -/
def forgiveStage (forgive : Option (List String)) (errors : List Err) : Option (List Err) :=
  let fgs := match forgive with
    | none => []
    | some l => l.map rootify
  removeLoop (fun nm fg => pathUnder nm.name fg) fgs (errors.mergeSort Err.le) errors

/-- `compare_recursive(expected, computed, atol=, rtol=, forgive=, equal_phase=)` -/
def compareRecursive (atol rtol : Rat) (forgive : Option (List String)) (phase : PhaseOpt) (e c : Tree) : Res :=
  if 1 ≤ atol then .raised .valueError else                     -- 450-453
  let items := recErrs ⟨atol, rtol, false⟩ "root" e c            -- 457
  if items.contains .unmodelled then .unmodelled else
  let errors := errsOf items
  let nitems := recErrs ⟨atol, rtol, true⟩ "root" e c            -- 460 (only evaluated when the phase filter runs)
  if (!errors.isEmpty && phase.truthy) && nitems.contains .unmodelled then .unmodelled else
  match phaseStage phase ((errsOf nitems).map Err.name) errors with
  | none => .raised .valueError
  | some errors =>
    match forgiveStage forgive errors with
    | none => .raised .valueError
    | some errors => .verdict errors.isEmpty                    -- 499-505

end QcelVerif.Compare
