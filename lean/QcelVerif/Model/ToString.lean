import QcelVerif.Model.FixedFmt
/-
Model of `qcelemental/molparse/to_string.py::to_string` (C08), `return_data=True`.

Core Lean only.  Strings are `List Char` (ASCII scope).  The model follows the source:

  * default unit per dtype and the unit-factor selection                (to_string.py:75-110)
  * name / tagline, `formula_generator`                                 (113-114, 503-511)
  * one branch per dtype: atom/ghost format, header, footer, keywords   (127-458)
  * `_atoms_formatter`: width, ghost suppression, `xyze` order          (467-500)
  * `"\n".join(smol) + "\n"`                                            (460)

Parameters (third-party behaviour, supplied by the harness and *checked* by the driver, see
`renderChecked`): the printed coordinate strings (`format(x*factor, '.{prec}f')`, CPython), the double
product `x*factor` (numpy), `str(mass)`, the numeric values of `bohr2angstroms`, `1.0/bohr2angstroms`,
`input_units_to_au`, `constants.conversion_factor(stored, unit)` (C02/C03's territory) and, for the SDF
dtype, the bond list (`guess_connectivity`, C18's territory) when the molecule carries none.
-/
namespace QcelVerif.ToString
open QcelVerif.FixedFmt (Str natDigits isFixedRounding isRoundedTo)

/-! ### small string helpers (Python semantics on ASCII) -/

def lit (s : String) : Str := s.toList

def natStr (n : Nat) : Str := natDigits n
/-- `str(i)` for a Python int -/
def intStr (i : Int) : Str := if i < 0 then '-' :: natDigits i.natAbs else natDigits i.natAbs
/-- `"{:{w}}".format(s)` for a string: left-aligned, padded with spaces to at least `w` -/
def padRight (w : Nat) (s : Str) : Str := s ++ List.replicate (w - s.length) ' '
/-- `"{:>{w}}"`: right-aligned -/
def padLeft (w : Nat) (s : Str) : Str := List.replicate (w - s.length) ' ' ++ s
/-- `sep.join(l)` -/
def joinWith (sep : Str) : List Str → Str
  | [] => []
  | [a] => a
  | a :: b :: t => a ++ sep ++ joinWith sep (b :: t)

def isSpace (c : Char) : Bool :=
  c == ' ' || c == '\t' || c == '\n' || c == '\r' || c == '\x0b' || c == '\x0c'
def lstrip (s : Str) : Str := s.dropWhile isSpace
def rstrip (s : Str) : Str := (s.reverse.dropWhile isSpace).reverse
def strip (s : Str) : Str := rstrip (lstrip s)
def lowerC (c : Char) : Char := if 'A'.toNat ≤ c.toNat ∧ c.toNat ≤ 'Z'.toNat then Char.ofNat (c.toNat + 32) else c
def upperC (c : Char) : Char := if 'a'.toNat ≤ c.toNat ∧ c.toNat ≤ 'z'.toNat then Char.ofNat (c.toNat - 32) else c
def lower (s : Str) : Str := s.map lowerC
def upper (s : Str) : Str := s.map upperC

/-- Python `<` on `str` (code-point lexicographic) -/
def strLt : Str → Str → Bool
  | [], [] => false
  | [], _ :: _ => true
  | _ :: _, [] => false
  | a :: s, b :: t => if a.toNat < b.toNat then true else if b.toNat < a.toNat then false else strLt s t

/-! ### enumerations -/

inductive Dtype where
  | xyz | xyzp | cfour | gamess | molpro | nwchem | orca | psi4 | qchem | terachem | turbomole
  | madness | mrchem | sdf
  deriving DecidableEq, Repr

/-- the unit the geometry is stored in (`molrec["units"]`) -/
inductive SUnit where | bohr | angstrom
  deriving DecidableEq, Repr

/-- the `units` argument -/
inductive Req where | dflt | bohr | angstrom | nm | pm
  deriving DecidableEq, Repr

/-- the unit the text is written in -/
inductive TUnit where | bohr | angstrom | nm | pm
  deriving DecidableEq, Repr

inductive Err where
  | keyError        -- the dtype's `umap` cannot spell the unit / unknown field in a format override
  | valueError      -- SDF asked for a unit other than Angstrom / malformed format override
  | indexError      -- fewer fragment charges/multiplicities than fragments (not a validated molecule)
  | unsupported     -- format-string features outside the model (conversions, specs, positional fields)
  deriving DecidableEq, Repr

/-- to_string.py:75-90 -/
def defaultUnit : Dtype → TUnit
  | .xyz | .xyzp | .sdf => .angstrom
  | _ => .bohr

/-- to_string.py:95-96 -/
def resolve (d : Dtype) : Req → TUnit
  | .dflt => defaultUnit d
  | .bohr => .bohr
  | .angstrom => .angstrom
  | .nm => .nm
  | .pm => .pm

/-- which number multiplies the stored coordinates -/
inductive Factor where
  | one                      -- 1.0
  | pinned                   -- molrec["input_units_to_au"]
  | invB2A                   -- 1.0 / constants.bohr2angstroms
  | b2a                      -- constants.bohr2angstroms
  | conv (s : SUnit) (t : TUnit)  -- constants.conversion_factor(stored, units)
  deriving DecidableEq, Repr

/-- to_string.py:98-110 (`pinned` = `"input_units_to_au" in molrec`) -/
def selectFactor (stored : SUnit) (t : TUnit) (pinned : Bool) : Factor :=
  match stored, t with
  | .angstrom, .angstrom => .one
  | .angstrom, .bohr => if pinned then .pinned else .invB2A
  | .bohr, .angstrom => .b2a
  | .bohr, .bohr => .one
  | s, t => .conv s t

/-- `units.lower()` -/
def unitLower : TUnit → Str
  | .bohr => lit "bohr" | .angstrom => lit "angstrom" | .nm => lit "nm" | .pm => lit "pm"

/-- the per-dtype `umap` dictionaries (`none` = key absent) -/
def umap : Dtype → TUnit → Option Str
  | .xyz, .bohr | .xyzp, .bohr => some (lit "au")
  | .xyz, .angstrom | .xyzp, .angstrom => some []
  | .orca, .bohr => some (lit "! Bohrs")
  | .orca, .angstrom => some (lit "!")
  | .cfour, .bohr => some (lit "bohr")
  | .cfour, .angstrom => some (lit "angstrom")
  | .molpro, .bohr => some (lit "bohr")
  | .molpro, .angstrom => some (lit "angstrom")
  | .nwchem, .bohr => some (lit "bohr")
  | .nwchem, .angstrom => some (lit "angstroms")
  | .nwchem, .nm => some (lit "nanometers")
  | .nwchem, .pm => some (lit "picometers")
  | .madness, .bohr => some (lit "au")
  | .madness, .angstrom => some (lit "angstrom")
  | .gamess, .bohr => some (lit "bohr")
  | .gamess, .angstrom => some (lit "angs")
  | .terachem, .bohr => some (lit "au")
  | .terachem, .angstrom => some []
  | .psi4, .bohr => some (lit "bohr")
  | .psi4, .angstrom => some (lit "angstrom")
  | .turbomole, .bohr => some (lit "bohr")
  | .qchem, .bohr => some (lit "True")
  | .qchem, .angstrom => some (lit "False")
  | _, _ => none

/-- how a branch reads its `umap` -/
inductive UnitWord where
  | word (w : Str)      -- a word from the table (or, for xyz, `units.lower()` itself)
  | pyNone              -- `umap.get(...)` returned `None` (printed as "None" / stored as `None`)
  | silent              -- the branch has no unit slot (mrchem; turbomole and sdf are fixed-unit formats)
  deriving DecidableEq, Repr

/-- the unit text a branch writes, or the error it raises (one function used by every branch) -/
def unitWord (d : Dtype) (t : TUnit) : Except Err UnitWord :=
  match d with
  | .xyz | .xyzp => .ok (.word ((umap d t).getD (unitLower t)))          -- umap.get(u, u)
  | .orca | .terachem | .psi4 | .qchem =>                                  -- umap[u]
      match umap d t with | some w => .ok (.word w) | none => .error .keyError
  | .turbomole =>                                                          -- umap[u]; nothing written
      match umap d t with | some _ => .ok .silent | none => .error .keyError
  | .cfour | .molpro | .nwchem | .madness | .gamess =>                     -- umap.get(u)
      match umap d t with | some w => .ok (.word w) | none => .ok .pyNone
  | .mrchem => .ok .silent
  | .sdf => if t = .angstrom then .ok .silent else .error .valueError      -- to_string.py:366-367

/-- `f"{umap.get(u)}"` -/
def UnitWord.text : UnitWord → Str
  | .word w => w
  | .pyNone => lit "None"
  | .silent => []

/-! ### the molecule record -/

structure Atom where
  elea : Int          -- mass number, -1 = none
  elez : Nat
  elem : Str
  mass : Str          -- `str(mass)` (parameter)
  elbl : Str
  real : Bool
  xyz  : List Str     -- printed coordinates, no padding (parameter; checked by `renderChecked`)
  deriving DecidableEq, Repr

structure Mol where
  atoms    : List Atom
  name     : Option Str
  charge   : Int            -- molecular_charge (integer scope)
  mult     : Int
  seps     : List Nat       -- fragment_separators
  fcharges : List Int
  fmults   : List Int
  fixCom   : Bool
  fixOrient : Bool
  fixSymm  : Option Str
  bonds    : List (Nat × Nat × Nat)   -- SDF only: (a1, a2, int(order)); molecule's own or guessed (parameter)
  deriving Repr

structure Opts where
  dtype : Dtype
  req   : Req
  afmt  : Option Str
  gfmt  : Option Str
  width : Nat
  stored : SUnit := .bohr
  pinned : Bool := false
  deriving Repr

inductive KwVal where
  | int (i : Int) | str (s : Str) | bool (b : Bool) | none
  deriving DecidableEq, Repr

structure Out where
  lines    : List Str
  fields   : List Str
  keywords : List (Str × KwVal)
  deriving Repr

/-! ### `str.format(**atominfo)` for the atom/ghost formats -/

/-- `atominfo[name]` as text (to_string.py:477-483) -/
def fieldValue (a : Atom) (name : Str) : Option Str :=
  if name = lit "elea" then some (if a.elea = -1 then [] else intStr a.elea)
  else if name = lit "elez" then some (natStr a.elez)
  else if name = lit "elem" then some a.elem
  else if name = lit "mass" then some a.mass
  else if name = lit "elbl" then some a.elbl
  else none

def plainNameChar (c : Char) : Bool := c.isAlphanum || c == '_'

/-- left-to-right interpreter for `fmt.format(**atominfo)`; `cur = some n` while inside `{…}`
(the field name read so far, reversed) -/
def fmtGo (a : Atom) : Option Str → Str → Except Err Str
  | none, [] => .ok []
  | some _, [] => .error .valueError                         -- "expected '}' before end of string"
  | none, '{' :: '{' :: t => (fmtGo a none t).map ('{' :: ·)
  | none, '}' :: '}' :: t => (fmtGo a none t).map ('}' :: ·)
  | none, '}' :: _ => .error .valueError                     -- "Single '}' encountered in format string"
  | none, '{' :: t => fmtGo a (some []) t
  | none, c :: t => (fmtGo a none t).map (c :: ·)
  | some n, '}' :: t =>
      let name := n.reverse
      if name.isEmpty || name.all Char.isDigit then .error .unsupported     -- positional fields
      else match fieldValue a name with
        | some v => (fmtGo a none t).map (v ++ ·)
        | none => .error .keyError
  | some n, c :: t => if plainNameChar c then fmtGo a (some (c :: n)) t else .error .unsupported

def applyFmt (fmt : Str) (a : Atom) : Except Err Str := fmtGo a none fmt

/-! ### `_atoms_formatter` (to_string.py:467-500) -/

def sp2 : Str := [' ', ' ']

/-- one atom line from its label and printed coordinates -/
def atomLine (width : Nat) (xyze : Bool) (nuc : Str) (xyz : List Str) : Str :=
  let first := padRight width nuc
  let cs := xyz.map (padLeft width)
  if xyze then joinWith sp2 (cs ++ [rstrip first]) else joinWith sp2 (first :: cs)

/-- the label of one atom, `none` when the atom is skipped (`ghost_format in ["", None]`) -/
def atomLabel (afmt gfmt : Str) (a : Atom) : Except Err (Option Str) :=
  if a.real then (applyFmt afmt a).map some
  else if gfmt.isEmpty then .ok none
  else (applyFmt gfmt a).map some

def atomsFormatter (afmt gfmt : Str) (width : Nat) (xyze : Bool) : List Atom → Except Err (List Str)
  | [] => .ok []
  | a :: t =>
    match atomLabel afmt gfmt a with
    | .error e => .error e
    | .ok none => atomsFormatter afmt gfmt width xyze t
    | .ok (some nuc) =>
      match atomsFormatter afmt gfmt width xyze t with
      | .error e => .error e
      | .ok rest => .ok (atomLine width xyze nuc a.xyz :: rest)

/-! ### `formula_generator` (to_string.py:503-511) -/

def insertSorted (x : Str) : List Str → List Str
  | [] => [x]
  | y :: t => if strLt x y then x :: y :: t else y :: insertSorted x t

def sortStrs (l : List Str) : List Str := l.foldr insertSorted []

def dedup : List Str → List Str
  | [] => []
  | x :: t => x :: (dedup t).filter (· ≠ x)

def formulaGenerator (elem : List Str) : Str :=
  (sortStrs (dedup elem)).foldr (fun el acc =>
    let cnt := elem.count el
    (if cnt = 1 then el else el ++ natStr cnt) ++ acc) []

def Mol.nameOr (m : Mol) : Str := m.name.getD (formulaGenerator (m.atoms.map (·.elem)))

def tagline (m : Mol) : Str := lit "auto-generated by QCElemental from molecule " ++ m.nameOr

/-! ### `np.split(atoms, fragment_separators)` and the psi4/qchem fragment loop -/

/-- numpy: sections `l[prev:s]` for consecutive separators, then `l[last:]` -/
def npSplit {α} (l : List α) : Nat → List Nat → List (List α)
  | prev, [] => [l.drop prev]
  | prev, s :: t => ((l.take s).drop prev) :: npSplit l s t

def chgMultLine (c m : Int) : Str := intStr c ++ ' ' :: intStr m

/-- to_string.py:322-325 / 401-406; `multi` = `len(split_atoms) > 1` -/
def fragLoop (multi : Bool) : List (List Str) → List Int → List Int → Except Err (List Str)
  | [], _, _ => .ok []
  | b :: bs, fc, fm =>
    if multi then
      match fc, fm with
      | c :: fc', m :: fm' =>
        match fragLoop multi bs fc' fm' with
        | .ok r => .ok (lit "--" :: chgMultLine c m :: b ++ r)
        | .error e => .error e
      | _, _ => .error .indexError
    else
      match fragLoop multi bs fc.tail fm.tail with
      | .ok r => .ok (b ++ r)
      | .error e => .error e

def fragBlocks (atoms : List Str) (m : Mol) : Except Err (List Str) :=
  let blocks := npSplit atoms 0 m.seps
  fragLoop (decide (1 < blocks.length)) blocks m.fcharges m.fmults

/-! ### the branches -/

def baseFields : List Str := [lit "atomic_numbers", lit "geometry", lit "symbols"]

def boolStr (b : Bool) : Str := if b then lit "True" else lit "False"

/-- 1-based positions of the ghost atoms (molpro `dummy` card, to_string.py:212-214) -/
def ghostIndices : Nat → List Atom → List Nat
  | _, [] => []
  | i, a :: t => if a.real then ghostIndices (i + 1) t else (i + 1) :: ghostIndices (i + 1) t

def sdfAtomLine (gf : Str) (a : Atom) : Str :=
  let sym := if a.real then a.elem else gf
  (a.xyz.map (padLeft 10)).flatten ++ padLeft 3 sym ++ lit "  0  0     0  0  0  0  0  0"

def sdfBondLine (b : Nat × Nat × Nat) : Str :=
  ' ' :: padLeft 2 (natStr (b.1 + 1)) ++ ' ' :: padLeft 2 (natStr (b.2.1 + 1)) ++ lit "  " ++
    padLeft 1 (natStr b.2.2) ++ lit "  0  0  0  0"

/-- atom format, ghost format, `xyze` of each branch (to_string.py:131-132, 145-146, 164-165, …);
only xyz/xyz+ honour the caller's overrides -/
def formats (o : Opts) : Str × Str × Bool :=
  match o.dtype with
  | .xyz | .xyzp => (o.afmt.getD (lit "{elem}"), o.gfmt.getD (lit "@{elem}"), false)
  | .orca => (lit "{elem}", lit "{elem}:", false)
  | .cfour => (lit "{elem}", lit "GH", false)
  | .molpro => (lit "{elem}", lit "{elem}", false)
  | .nwchem => (lit "{elem}{elbl}", lit "bq{elem}{elbl}", false)
  | .madness => (lit "{elem}", lit "GH", false)
  | .gamess => (lit " {elem}{elbl} {elez}", lit " {elem} -{elez}", false)
  | .terachem => (lit "{elem}", lit "X{elem}", false)
  | .psi4 => (lit "{elem}{elbl}", lit "Gh({elem}{elbl})", false)
  | .turbomole => (lit "{elem}", lit "{elem}", true)
  | .qchem => (lit "{elem}", lit "@{elem}", false)
  | .mrchem => (lit "{elem}", lit "{elem}", false)
  | .sdf => (lit "{elem}", match o.gfmt with | some g => if g.isEmpty then lit "Gh" else g | none => lit "Gh", false)

/-- the list `atoms` of a branch: `_atoms_formatter(...)`; SDF formats its own lines (380-383) -/
def atomBlock (o : Opts) (m : Mol) : Except Err (List Str) :=
  match o.dtype with
  | .sdf => .ok (m.atoms.map (sdfAtomLine (formats o).2.1))
  | _ => atomsFormatter (formats o).1 (formats o).2.1 o.width (formats o).2.2 m.atoms

/-- what goes between header and footer: the atom lines, split into fragment blocks (psi4, qchem),
or lower-cased (turbomole, 359) -/
def bodyOf (d : Dtype) (atoms : List Str) (m : Mol) : Except Err (List Str) :=
  match d with
  | .psi4 | .qchem => fragBlocks atoms m
  | .turbomole => .ok (atoms.map lower)
  | _ => .ok atoms

/-- the lines before the atom block; `n` = number of atom lines -/
def header (d : Dtype) (m : Mol) (uw : UnitWord) (n : Nat) : List Str :=
  match d with
  | .xyz | .xyzp =>                                                        -- 138-140
      [rstrip (natStr n ++ ' ' :: uw.text), intStr m.charge ++ ' ' :: intStr m.mult ++ ' ' :: m.nameOr]
  | .orca => [uw.text, [], lit "*xyz " ++ chgMultLine m.charge m.mult]     -- 151-154
  | .cfour => [tagline m]                                                  -- 171
  | .molpro =>                                                             -- 189-207
      (if m.fixOrient || m.fixCom then [lit "{orient,noorient}"] else []) ++
      (match m.fixSymm with
        | some s => if s = lit "c1" then [lit "{symmetry,nosym}"] else []
        | none => [lit "{symmetry,auto}"]) ++
      [[], '{' :: uw.text ++ ['}'], lit "geometry={"]
  | .nwchem => [lit "geometry units " ++ uw.text]                          -- 228
  | .madness => [lit "geometry", lit "units " ++ uw.text]                  -- 255-260
  | .gamess =>                                                             -- 282-290
      let fixSymm := strip (m.fixSymm.getD (lit "C1"))
      [lit " $data", ' ' :: tagline m, (' ' :: fixSymm) ++ (if upper fixSymm ≠ lit "C1" then ['\n'] else [])]
  | .terachem => [rstrip (natStr n ++ ' ' :: uw.text), m.nameOr]           -- 309-310
  | .psi4 => [chgMultLine m.charge m.mult]                                 -- 320
  | .turbomole => [lit "$coord"]                                           -- 361
  | .sdf =>                                                                -- 376-379
      [[], lit "QCElemental\n",
       padLeft 3 (natStr m.atoms.length) ++ ' ' :: padLeft 2 (natStr m.bonds.length) ++ lit "  0  0  0  0  0  0  0  0  0"]
  | .qchem => [lit "$molecule", chgMultLine m.charge m.mult]               -- 395-399
  | .mrchem =>                                                             -- 436-442
      [lit "Molecule {", lit "charge = " ++ intStr m.charge, lit "multiplicity = " ++ intStr m.mult,
       lit "translate = " ++ boolStr m.fixCom, lit "$coords"]

/-- the lines after the atom block -/
def footer (d : Dtype) (m : Mol) (uw : UnitWord) : List Str :=
  match d with
  | .xyz | .xyzp | .cfour | .terachem => []
  | .orca => [lit "*"]
  | .molpro =>                                                             -- 209-218
      let gi := ghostIndices 0 m.atoms
      [lit "}"] ++ (if gi.isEmpty then [] else [lit "dummy," ++ joinWith [','] (gi.map natStr)]) ++
      [lit "set,charge=" ++ intStr m.charge ++ lit ".0", lit "set,spin=" ++ intStr (m.mult - 1)]
  | .nwchem =>                                                             -- 230-238
      [match m.fixSymm with
        | some s => if s.isEmpty then [] else lit "symmetry " ++ s
        | none => [], lit "end"]
  | .madness => [lit "end"]
  | .gamess => [lit " $end"]
  | .psi4 =>                                                               -- 328-332
      [lit "units " ++ uw.text] ++ (if m.fixCom then [lit "no_com"] else []) ++
        (if m.fixOrient then [lit "no_reorient"] else [])
  | .turbomole => [lit "$end"]
  | .sdf => m.bonds.map sdfBondLine                                        -- 385-386
  | .qchem => [lit "$end"]
  | .mrchem => [lit "$end\n}"]

/-- `data.fields` -/
def fieldsOf : Dtype → List Str
  | .cfour | .nwchem | .gamess => baseFields ++ [lit "molecular_charge", lit "molecular_multiplicity", lit "real"]
  | .madness => baseFields ++ [lit "molecular_charge", lit "molecular_multiplicity"]
  | .psi4 => baseFields ++ [lit "molecular_charge", lit "molecular_multiplicity", lit "fragments",
      lit "fragment_charges", lit "fragment_multiplicities", lit "fix_com", lit "fix_orientation", lit "real"]
  | .qchem => baseFields ++ [lit "fix_com", lit "fix_orientation", lit "fragment_charges", lit "fragment_multiplicities",
      lit "molecular_charge", lit "molecular_multiplicity", lit "real", lit "units"]
  | _ => baseFields

def uwKw : UnitWord → KwVal
  | .word x => .str x
  | _ => .none

/-- `data.keywords` -/
def keywordsOf (d : Dtype) (m : Mol) (uw : UnitWord) (atoms : List Str) : List (Str × KwVal) :=
  match d with
  | .cfour =>                                                              -- 175-180
      [(lit "charge", .int m.charge), (lit "multiplicity", .int m.mult), (lit "units", uwKw uw),
       (lit "coordinates", .str (lit "cartesian"))]
  | .nwchem =>                                                             -- 241-245
      [(lit "charge", KwVal.int m.charge)] ++
        (if m.mult ≠ 1 then [(lit "scf__nopen", KwVal.int (m.mult - 1)), (lit "dft__mult", .int m.mult),
                             (lit "mcscf__multiplicity", .int m.mult)] else [])
  | .madness =>                                                            -- 265-267
      [(lit "charge", KwVal.int m.charge)] ++
        (if m.mult ≠ 1 then [(lit "spin_restricted", KwVal.str (lit "false"))] else [])
  | .gamess =>                                                             -- 295-300
      [(lit "contrl__icharg", .int m.charge), (lit "contrl__mult", .int m.mult), (lit "contrl__units", uwKw uw),
       (lit "contrl__coord", .str (lit "prinaxis"))]
  | .qchem =>                                                              -- 422-429
      [(lit "no_reorient", KwVal.bool (m.fixOrient || m.fixCom)), (lit "input_bohr", .str uw.text)] ++
        (if m.fixSymm = some (lit "c1") then [(lit "sym_ignore", KwVal.bool true), (lit "symmetry", .bool false)] else [])
  | .mrchem =>                                                             -- 450-455
      [(lit "charge", .int m.charge), (lit "multiplicity", .int m.mult), (lit "translate", .bool m.fixCom),
       (lit "coords", .str (joinWith ['\n'] atoms))]
  | _ => []

/-- `to_string(molrec, dtype, units, atom_format=, ghost_format=, width=, prec=, return_data=True)`:
the list `smol`, `data.fields`, `data.keywords`.  (`prec` lives in the coordinate strings.)

Order of the stages.  In the source turbomole (356) and SDF (366) look the unit up *before* formatting the
atoms and the other branches after; only a caller-supplied format can make the formatter fail and only
xyz/xyz+ use one, whose unit lookup cannot fail, so "atoms, fragment loop, unit word" is the same function.
The psi4/qchem fragment loop (IndexError on a malformed record) does run before their unit lookup (328, 424). -/
def render (o : Opts) (m : Mol) : Except Err Out := do
  let atoms ← atomBlock o m
  let body ← bodyOf o.dtype atoms m
  let uw ← unitWord o.dtype (resolve o.dtype o.req)
  pure ⟨header o.dtype m uw atoms.length ++ body ++ footer o.dtype m uw, fieldsOf o.dtype,
        keywordsOf o.dtype m uw atoms⟩

/-- `"\n".join(smol) + "\n"` (to_string.py:460) -/
def Out.text (r : Out) : Str := joinWith ['\n'] r.lines ++ ['\n']

/-! ### checked rendering: the third-party parameters are verified before they are used -/

structure Consts where
  b2a    : Rat              -- constants.bohr2angstroms
  invB2A : Rat              -- the double 1.0 / constants.bohr2angstroms
  iutau  : Option Rat       -- molrec["input_units_to_au"] when present
  conv   : Option Rat       -- constants.conversion_factor(stored, units) when that branch is taken
  deriving Repr

def factorValue (c : Consts) : Factor → Option Rat
  | .one => some 1
  | .pinned => c.iutau
  | .invB2A => some c.invB2A
  | .b2a => some c.b2a
  | .conv _ _ => c.conv

/-- one coordinate as the harness reports it -/
structure Coord where
  x    : Rat      -- stored double, exact
  p    : Rat      -- the double product numpy printed, exact
  neg  : Bool     -- its sign bit
  text : Str      -- what CPython printed for it
  deriving Repr

inductive Check where
  | ok
  | badProduct (iat : Nat)     -- p is not fl(x * factor) for the factor the model selects
  | badFixed (iat : Nat)       -- text is not the correctly rounded decimal of p
  | noFactor                   -- the needed constant was not supplied
  deriving DecidableEq, Repr

/-- SDF always prints `10.4f` (to_string.py:383) -/
def branchPrec (d : Dtype) (prec : Nat) : Nat := if d = .sdf then 4 else prec

def checkCoords (f : Rat) (prec : Nat) : Nat → List (List Coord) → Check
  | _, [] => .ok
  | i, cs :: t =>
    if !(cs.all fun c => isRoundedTo (c.x * f) c.p) then .badProduct i
    else if !(cs.all fun c => isFixedRounding c.neg c.p prec c.text) then .badFixed i
    else checkCoords f prec (i + 1) t

def checkParams (o : Opts) (prec : Nat) (c : Consts) (coords : List (List Coord)) : Check :=
  match factorValue c (selectFactor o.stored (resolve o.dtype o.req) o.pinned) with
  | none => .noFactor
  | some f => checkCoords f (branchPrec o.dtype prec) 0 coords

end QcelVerif.ToString
