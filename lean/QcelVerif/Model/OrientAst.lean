/-!
# A small array-statement AST for the orientation code of QCElemental (property C16)

`harness/c16_src.py` reads `qcelemental/models/molecule.py` with Python's `ast` on every run, locates
`Molecule._orient_molecule_internal` and `Molecule._inertial_tensor` by name, walks their bodies statement by
statement and emits them as a term of `OrientProg` below into `Gen/OrientSrc.lean`.  This file is
**Mathlib-free** (the driver imports it).

What is syntax (and therefore regenerated from the source on every run):
* the centring statement `new_geometry -= np.average(new_geometry, axis=0[, weights=np_mass])` — `Centre`;
* the body of `_inertial_tensor`: every `tensor[i][j] (= tensor[k][l])* = <expr>` with `<expr>` built from float
  literals, `np.sum`, `weight`, `geom[:, j]`, `** n`, `+ - *` — `TAssign`, `SE`, `CE`;
* the rotation `new_geometry = <matrix expr>` built from `new_geometry`, `evecs`, `np.dot` / `.dot`, `.T` — `ME`;
* `geom_noise = B ** (-GEOMETRY_NOISE)`;
* the phase loop `for num in range(new_geometry.shape[0]): for x in range(3): <body>` with the statements of the body in
  source order, the two comparisons as written, the index order of `new_geometry[·, ·]`, the axis of the in-place
  multiplication and its factor — `PStmt`; and whether `if sum(phase_check) == 3: break` follows the inner loop.

* `float_prep`'s array branch: `array = np.around(array, around)`, `array[np.abs(array) < B ** (-(around + O))] = 0` — `PrepProg`
  (the translator also demands `values["geometry"] = float_prep(self._orient_molecule_internal(), geometry_noise)` in the validator).

`np.linalg.eigh(tensor)` is an OPAQUE step: the evaluator is split into `evalTensorStage` (what is handed to `eigh`) and
`evalAfterEigh` (everything after it, with `evecs` as an input) — exactly as the hand model `Model/Orient.lean` treats it.

The scalar operations are not fixed: the evaluator takes an `Ops K` record (`Props/C16Src.lean`: any linearly ordered field;
`Driver/C16.lean`: `ℚ`).
-/
namespace QcelVerif.OrientAst

structure Ops (K : Type) where
  add : K → K → K
  sub : K → K → K
  mul : K → K → K
  div : K → K → K
  abs : K → K
  ofInt : Int → K
  lt : K → K → Bool
  le : K → K → Bool
  eqb : K → K → Bool

/-- one row of an `(n, 3)` array -/
structure P3 (K : Type) where
  x : K
  y : K
  z : K
deriving Repr, DecidableEq

/-- a `(3, 3)` array, entry `rc` = row `r`, column `c` -/
structure T3 (K : Type) where
  xx : K
  xy : K
  xz : K
  yx : K
  yy : K
  yz : K
  zx : K
  zy : K
  zz : K
deriving Repr, DecidableEq

/-- a literal index `0 / 1 / 2` of the source (the translator rejects anything else) -/
inductive Ax where
  | a0 | a1 | a2
deriving Repr, DecidableEq

def Ax.toNat : Ax → Nat
  | .a0 => 0 | .a1 => 1 | .a2 => 2

/-- comparison operators as written in the source -/
inductive Cmp where
  | lt | le | gt | ge
deriving Repr, DecidableEq

/-- per-atom `(n,)` array expressions of `_inertial_tensor` -/
inductive CE where
  | weight                      -- the keyword argument `weight`
  | col (j : Ax)                -- `geom[:, j]`
  | pow (a : CE) (n : Nat)      -- `a ** n.0`
  | add (a b : CE)
  | sub (a b : CE)
  | mul (a b : CE)
deriving Repr, DecidableEq

/-- scalar expressions of `_inertial_tensor` -/
inductive SE where
  | lit (i : Int)               -- integral float / int literal (sign included)
  | sum (c : CE)                -- `np.sum(c)`
  | add (a b : SE)
  | sub (a b : SE)
  | mul (a b : SE)
deriving Repr, DecidableEq

/-- `tensor[i₁][j₁] = tensor[i₂][j₂] = … = val` -/
structure TAssign where
  targets : List (Ax × Ax)
  val : SE
deriving Repr, DecidableEq

/-- what `new_geometry -= …` subtracts -/
inductive Centre where
  /-- `np.average(new_geometry, axis=0, weights=np_mass)` (`weighted = true`) or without `weights` / `np.mean(…, axis=0)` -/
  | average (weighted : Bool)
deriving Repr, DecidableEq

/-- matrix expressions of the rotation statement -/
inductive ME where
  | geom                        -- `new_geometry`
  | evecs                       -- second output of `np.linalg.eigh`
  | tr (a : ME)                 -- `a.T`
  | dot (a b : ME)              -- `np.dot(a, b)` / `a.dot(b)`
deriving Repr, DecidableEq

/-- the two loop variables of the phase loop -/
inductive Idx where
  | outer                       -- `num`  (`range(new_geometry.shape[0])`)
  | inner                       -- `x`    (`range(3)`)
deriving Repr, DecidableEq

inductive Axis where
  | col                         -- `new_geometry[:, i]`
  | row                         -- `new_geometry[i, :]` / `new_geometry[i]`
deriving Repr, DecidableEq

/-- statements of the inner loop body, in source order -/
inductive PStmt where
  | continueIfFlag                                        -- `if phase_check[x]: continue`
  | readVal (r c : Idx)                                   -- `val = new_geometry[r, c]`
  | continueIfAbs (c : Cmp)                               -- `if abs(val) c geom_noise: continue`
  | setFlag                                               -- `phase_check[x] = True`
  | mulIf (c : Cmp) (lit : Int) (ax : Axis) (i : Idx) (factor : Int)   -- `if val c lit: new_geometry[:, i] *= factor`
deriving Repr, DecidableEq

structure OrientProg where
  centre : Centre
  tensor : List TAssign
  rot : ME
  noiseBase : Nat
  noiseNegExp : Nat
  body : List PStmt
  hasBreak : Bool
deriving Repr, DecidableEq

inductive Err where
  | zeroDivision   -- np.average: "Weights sum to zero, can't be normalized"
  | shape          -- operands of incompatible shapes
  | index          -- IndexError
deriving Repr, DecidableEq

section eval
variable {K : Type}

def sumL (o : Ops K) : List K → K
  | [] => o.ofInt 0
  | a :: t => o.add a (sumL o t)

def npow (o : Ops K) (v : K) : Nat → K
  | 0 => o.ofInt 1
  | n + 1 => o.mul v (npow o v n)

def P3.comp (p : P3 K) : Ax → K
  | .a0 => p.x | .a1 => p.y | .a2 => p.z

def evalCE (o : Ops K) (w : List K) (g : List (P3 K)) : CE → List K
  | .weight => w
  | .col j => g.map (fun p => p.comp j)
  | .pow a n => (evalCE o w g a).map (fun v => npow o v n)
  | .add a b => List.zipWith o.add (evalCE o w g a) (evalCE o w g b)
  | .sub a b => List.zipWith o.sub (evalCE o w g a) (evalCE o w g b)
  | .mul a b => List.zipWith o.mul (evalCE o w g a) (evalCE o w g b)

def evalSE (o : Ops K) (w : List K) (g : List (P3 K)) : SE → K
  | .lit i => o.ofInt i
  | .sum c => sumL o (evalCE o w g c)
  | .add a b => o.add (evalSE o w g a) (evalSE o w g b)
  | .sub a b => o.sub (evalSE o w g a) (evalSE o w g b)
  | .mul a b => o.mul (evalSE o w g a) (evalSE o w g b)

def T3.set (t : T3 K) (v : K) : Ax × Ax → T3 K
  | (.a0, .a0) => { t with xx := v } | (.a0, .a1) => { t with xy := v } | (.a0, .a2) => { t with xz := v }
  | (.a1, .a0) => { t with yx := v } | (.a1, .a1) => { t with yy := v } | (.a1, .a2) => { t with yz := v }
  | (.a2, .a0) => { t with zx := v } | (.a2, .a1) => { t with zy := v } | (.a2, .a2) => { t with zz := v }

/-- `tensor = np.zeros((3, 3))`, then the assignments in source order, then `return tensor` -/
def evalTensor (o : Ops K) (prog : List TAssign) (w : List K) (g : List (P3 K)) : T3 K :=
  let z := o.ofInt 0
  prog.foldl (fun t a => a.targets.foldl (fun t ij => t.set (evalSE o w g a.val) ij) t) ⟨z, z, z, z, z, z, z, z, z⟩

def psum (o : Ops K) : List (P3 K) → P3 K
  | [] => ⟨o.ofInt 0, o.ofInt 0, o.ofInt 0⟩
  | p :: t => let s := psum o t; ⟨o.add p.x s.x, o.add p.y s.y, o.add p.z s.z⟩

/-- the vector subtracted by the centring statement -/
def evalCentre (o : Ops K) (w : List K) (g : List (P3 K)) : Centre → Except Err (P3 K)
  | .average true =>
      if w.length ≠ g.length then .error .shape
      else
        let s := sumL o w
        if o.eqb s (o.ofInt 0) then .error .zeroDivision
        else
          let n := psum o (List.zipWith (fun m p => (⟨o.mul m p.x, o.mul m p.y, o.mul m p.z⟩ : P3 K)) w g)
          .ok ⟨o.div n.x s, o.div n.y s, o.div n.z s⟩
  | .average false =>
      if g.length = 0 then .error .zeroDivision
      else
        let s := o.ofInt g.length
        let n := psum o g
        .ok ⟨o.div n.x s, o.div n.y s, o.div n.z s⟩

/-- `new_geometry -= c` (broadcast over the rows) -/
def subRow (o : Ops K) (g : List (P3 K)) (c : P3 K) : List (P3 K) :=
  g.map (fun p => ⟨o.sub p.x c.x, o.sub p.y c.y, o.sub p.z c.z⟩)

def centred (o : Ops K) (prog : OrientProg) (w : List K) (g : List (P3 K)) : Except Err (List (P3 K)) :=
  match evalCentre o w g prog.centre with
  | .ok c => .ok (subRow o g c)
  | .error e => .error e

/-- the tensor handed to `np.linalg.eigh`: `_inertial_tensor(new_geometry, weight=np_mass)` after the centring -/
def evalTensorStage (o : Ops K) (prog : OrientProg) (w : List K) (g : List (P3 K)) : Except Err (T3 K) :=
  match centred o prog w g with
  | .ok gc => .ok (evalTensor o prog.tensor w gc)
  | .error e => .error e

/-! ### general 2-d arrays for the rotation statement -/

def P3.toRow (p : P3 K) : List K := [p.x, p.y, p.z]
def T3.toRows (t : T3 K) : List (List K) := [[t.xx, t.xy, t.xz], [t.yx, t.yy, t.yz], [t.zx, t.zy, t.zz]]

/-- a 2-d array with its shape (`nr`, `nc`) — the shape is kept so that arrays without rows still have a column count -/
structure Arr (K : Type) where
  nr : Nat
  nc : Nat
  rows : List (List K)

def transposeN (o : Ops K) (nc : Nat) (m : List (List K)) : List (List K) :=
  (List.range nc).map (fun j => m.map (fun row => row.getD j (o.ofInt 0)))

/-- `np.dot` of two 2-d arrays, `b` having `nc` columns (inner dimensions are checked by `evalME`) -/
def matmul (o : Ops K) (a : List (List K)) (nc : Nat) (b : List (List K)) : List (List K) :=
  let bt := transposeN o nc b
  a.map (fun row => bt.map (fun col => sumL o (List.zipWith o.mul row col)))

def evalME (o : Ops K) (g : List (P3 K)) (V : T3 K) : ME → Except Err (Arr K)
  | .geom => .ok ⟨g.length, 3, g.map P3.toRow⟩
  | .evecs => .ok ⟨3, 3, V.toRows⟩
  | .tr a => match evalME o g V a with
      | .ok m => .ok ⟨m.nc, m.nr, transposeN o m.nc m.rows⟩
      | .error e => .error e
  | .dot a b => match evalME o g V a, evalME o g V b with
      | .ok ma, .ok mb => if ma.nc = mb.nr then .ok ⟨ma.nr, mb.nc, matmul o ma.rows mb.nc mb.rows⟩ else .error .shape
      | .error e, _ => .error e
      | _, .error e => .error e

/-- back to rows of an `(n, 3)` array; the rest of the code (and the Molecule validator) needs three columns -/
def toP3s : List (List K) → Except Err (List (P3 K))
  | [] => .ok []
  | [a, b, c] :: t => match toP3s t with
      | .ok r => .ok (⟨a, b, c⟩ :: r)
      | .error e => .error e
  | _ :: _ => .error .shape

/-! ### the phase loop, with the in-place semantics of the source -/

structure PState (K : Type) where
  f0 : Bool
  f1 : Bool
  f2 : Bool
  g : List (P3 K)
  val : K
  err : Bool

def PState.flag (s : PState K) : Ax → Bool
  | .a0 => s.f0 | .a1 => s.f1 | .a2 => s.f2

def PState.setFlag (s : PState K) : Ax → PState K
  | .a0 => { s with f0 := true } | .a1 => { s with f1 := true } | .a2 => { s with f2 := true }

def cmpB (o : Ops K) : Cmp → K → K → Bool
  | .lt, a, b => o.lt a b
  | .le, a, b => o.le a b
  | .gt, a, b => o.lt b a
  | .ge, a, b => o.le b a

def compN? (p : P3 K) : Nat → Option K
  | 0 => some p.x | 1 => some p.y | 2 => some p.z | _ => none

/-- `new_geometry[i, j]` -/
def getEntry (g : List (P3 K)) (i j : Nat) : Option K :=
  match g[i]? with
  | none => none
  | some p => compN? p j

def mulComp (o : Ops K) (c : K) (p : P3 K) : Nat → P3 K
  | 0 => { p with x := o.mul c p.x } | 1 => { p with y := o.mul c p.y } | _ => { p with z := o.mul c p.z }

def mulRow (o : Ops K) (c : K) : List (P3 K) → Nat → Option (List (P3 K))
  | [], _ => none
  | p :: t, 0 => some (⟨o.mul c p.x, o.mul c p.y, o.mul c p.z⟩ :: t)
  | p :: t, i + 1 => (mulRow o c t i).map (fun r => p :: r)

/-- `new_geometry[:, i] *= c` / `new_geometry[i, :] *= c` -/
def mulAxis (o : Ops K) (c : K) (g : List (P3 K)) : Axis → Nat → Option (List (P3 K))
  | .col, j => if j < 3 then some (g.map (fun p => mulComp o c p j)) else none
  | .row, i => mulRow o c g i

def idxVal (num : Nat) (x : Ax) : Idx → Nat
  | .outer => num
  | .inner => x.toNat

/-- the statements of the inner loop body from some point on; returning early = `continue` -/
def evalBody (o : Ops K) (noise : K) (num : Nat) (x : Ax) : List PStmt → PState K → PState K
  | [], s => s
  | .continueIfFlag :: rest, s => if s.flag x then s else evalBody o noise num x rest s
  | .readVal r c :: rest, s =>
      match getEntry s.g (idxVal num x r) (idxVal num x c) with
      | none => { s with err := true }
      | some v => evalBody o noise num x rest { s with val := v }
  | .continueIfAbs c :: rest, s => if cmpB o c (o.abs s.val) noise then s else evalBody o noise num x rest s
  | .setFlag :: rest, s => evalBody o noise num x rest (s.setFlag x)
  | .mulIf c lit ax i factor :: rest, s =>
      if cmpB o c s.val (o.ofInt lit) then
        match mulAxis o (o.ofInt factor) s.g ax (idxVal num x i) with
        | none => { s with err := true }
        | some g' => evalBody o noise num x rest { s with g := g' }
      else evalBody o noise num x rest s

/-- `for x in range(3): <body>` (an IndexError ends everything) -/
def evalInner (o : Ops K) (noise : K) (body : List PStmt) (num : Nat) (s : PState K) : PState K :=
  [Ax.a0, Ax.a1, Ax.a2].foldl (fun s x => if s.err then s else evalBody o noise num x body s) s

/-- one iteration of `for num in range(n)`, followed by `if sum(phase_check) == 3: break` when the source has it;
the second component says the loop has been left -/
def evalOuterStep (o : Ops K) (noise : K) (body : List PStmt) (hasBreak : Bool) (sd : PState K × Bool) (num : Nat) : PState K × Bool :=
  if sd.2 || sd.1.err then sd
  else
    let s' := evalInner o noise body num sd.1
    (s', hasBreak && s'.f0 && s'.f1 && s'.f2)

def evalPhase (o : Ops K) (noise : K) (body : List PStmt) (hasBreak : Bool) (g : List (P3 K)) : Except Err (List (P3 K)) :=
  let s0 : PState K := ⟨false, false, false, g, o.ofInt 0, false⟩
  let r := (List.range g.length).foldl (evalOuterStep o noise body hasBreak) (s0, false)
  if r.1.err then .error .index else .ok r.1.g

/-- `geom_noise = B ** (-GEOMETRY_NOISE)` -/
def noiseOf (o : Ops K) (prog : OrientProg) : K := o.div (o.ofInt 1) (o.ofInt ((prog.noiseBase ^ prog.noiseNegExp : Nat) : Int))

/-- `new_geometry = <rot>` : the geometry before the phase loop -/
def evalRot (o : Ops K) (prog : OrientProg) (gc : List (P3 K)) (V : T3 K) : Except Err (List (P3 K)) :=
  match evalME o gc V prog.rot with
  | .ok m => if m.nc = 3 then toP3s m.rows else .error .shape
  | .error e => .error e

/-- everything after the `eigh` call, `evecs = V` being an input: rotation and phase loop; returns the returned `new_geometry` -/
def evalAfterEigh (o : Ops K) (prog : OrientProg) (w : List K) (g : List (P3 K)) (V : T3 K) : Except Err (List (P3 K)) :=
  match centred o prog w g with
  | .error e => .error e
  | .ok gc =>
    match evalRot o prog gc V with
    | .error e => .error e
    | .ok gr => evalPhase o (noiseOf o prog) prog.body prog.hasBreak gr

/-! ### `float_prep(array, around)`, array branch (what `values["geometry"] = float_prep(self._orient_molecule_internal(),
geometry_noise)` applies to the returned geometry) -/

/-- `array = np.around(array, around)` (when `around = true`), then `array[np.abs(array) cmp base ** (-(around + offset))] = fill` -/
structure PrepProg where
  around : Bool
  cmp : Cmp
  base : Nat
  offset : Nat
  fill : Int
deriving Repr, DecidableEq

/-- one entry; `rint` = round to the nearest integer, ties to even, so that `np.around(v, d) = rint(v * 10^d) / 10^d` -/
def evalPrep (o : Ops K) (rint : K → Int) (prog : PrepProg) (d : Nat) (v : K) : K :=
  let tenD := o.ofInt ((10 ^ d : Nat) : Int)
  let r := if prog.around then o.div (o.ofInt (rint (o.mul v tenD))) tenD else v
  if cmpB o prog.cmp (o.abs r) (o.div (o.ofInt 1) (o.ofInt ((prog.base ^ (d + prog.offset) : Nat) : Int))) then o.ofInt prog.fill else r

def evalPrepGeom (o : Ops K) (rint : K → Int) (prog : PrepProg) (d : Nat) (g : List (P3 K)) : List (P3 K) :=
  g.map (fun p => ⟨evalPrep o rint prog d p.x, evalPrep o rint prog d p.y, evalPrep o rint prog d p.z⟩)

end eval

end QcelVerif.OrientAst
