import QcelVerif.Model.UnitText
import QcelVerif.Lemmas.UnitNamesChk
/-
C03 — the RENDERER of the harness (harness/c03.py `build_dtree` / `render_d`, the function whose output goes to
`conversion_factor` and to the Lean front end), ported to Lean.  Core Lean only (the driver imports this file).

The harness draws every random choice of `render(t, rng)` first and records it in a *decorated* expression (`RExpr`):
the digits of every number as written (`NumLit`: integer digits, fraction digits, `.`, `e`/`E`, sign, exponent digits), the
spelling of every unit, the operator style (`*` / ` * ` / blank / direct juxtaposition, `/` / ` / `, `**` / `^` with blanks), the
way an exponent is written (`n`, `+n`, `(n)`, `-n`, `(-n)`, `(- n)`: `ExpLit`) and every pair of parentheses it writes.  The
text is then a deterministic function of that value (`render`), which is what this file defines; the driver op `rend|…` prints it
and the harness compares it with the string it sends (byte for byte), so the function the theorems of `Props/C03Parse.lean`
speak about is THE function whose output is sent.

`pieces` is the rendering as a list of lexical pieces (blank, name, number, operator, parenthesis); `render = flat ∘ pieces`;
`tokensOf = toks ∘ pieces` is the token stream a tokenizer should produce; `treeOf` the tree `_build_eval_tree` should build;
`denote` / `erase` the expression the text stands for.
-/
namespace QcelVerif.Units.Text
open QcelVerif.PStr (Bytes)

/-! ## NUMBER literals as written -/

structure NumLit where
  ip : Bytes          -- integer digits (may be empty: `.5`)
  fp : Bytes          -- fraction digits (may be empty: `2.`)
  dotted : Bool       -- a `.` is written
  hasExp : Bool       -- an exponent part is written
  capE : Bool         -- `E` instead of `e`
  esign : Nat         -- 0 none, 1 `+`, 2 `-`
  ed : Bytes          -- exponent digits
  deriving DecidableEq, Repr

namespace NumLit
def expText (l : NumLit) : Bytes :=
  if l.hasExp then (if l.capE then 69 else 101) :: ((if l.esign = 1 then [43] else if l.esign = 2 then [45] else []) ++ l.ed) else []
def fracText (l : NumLit) : Bytes := if l.dotted then 46 :: l.fp else []
def text (l : NumLit) : Bytes := l.ip ++ (l.fracText ++ l.expText)
def wf (l : NumLit) : Bool :=
  l.ip.all isDigit && l.fp.all isDigit && l.ed.all isDigit && (l.dotted || l.fp.isEmpty) && !(l.ip.isEmpty && l.fp.isEmpty)
  && (!l.hasExp || !l.ed.isEmpty) && decide (l.esign ≤ 2)
def expVal (l : NumLit) : Int :=
  if l.hasExp then (if l.esign = 2 then -((digitsVal l.ed : Nat) : Int) else ((digitsVal l.ed : Nat) : Int)) else 0
def mant (l : NumLit) : Nat := digitsVal (l.ip ++ l.fp)
def e10 (l : NumLit) : Int := l.expVal - (l.fp.length : Int)
def isInt (l : NumLit) : Bool := !l.dotted && !l.hasExp
def tok (l : NumLit) : Tok := .num l.mant l.e10 l.isInt
/-- a plain integer literal -/
def ofDigits (ds : Bytes) : NumLit := ⟨ds, [], false, false, false, 0, []⟩
end NumLit

/-! ## lexical pieces -/

inductive Piece
  | sp | nm (s : Bytes) | num (l : NumLit) | star | slash | pow2 | caret | lp | rp | plus | minus
  deriving DecidableEq, Repr

namespace Piece
/-- the characters written -/
def text : Piece → Bytes
  | .sp => [32] | .nm s => s | .num l => l.text | .star => [42] | .slash => [47] | .pow2 => [42, 42] | .caret => [94]
  | .lp => [40] | .rp => [41] | .plus => [43] | .minus => [45]
/-- the characters after `string_preprocessor`'s `^` → `**` -/
def textC : Piece → Bytes
  | .caret => [42, 42]
  | p => p.text
def tok : Piece → Option Tok
  | .sp => none | .nm s => some (.name s) | .num l => some l.tok | .star => some (.op .mul) | .slash => some (.op .div)
  | .pow2 => some (.op .pow) | .caret => some (.op .pow) | .lp => some (.op .lpar) | .rp => some (.op .rpar)
  | .plus => some (.op .plus) | .minus => some (.op .minus)
end Piece

def flat (ps : List Piece) : Bytes := ps.flatMap Piece.text
def flatC (ps : List Piece) : Bytes := ps.flatMap Piece.textC
def toks (ps : List Piece) : List Tok := ps.filterMap Piece.tok

/-- an identifier: a letter or `_`, then letters, digits, `_` -/
def idShaped : Bytes → Bool
  | [] => false
  | c :: t => isIdStart c && t.all isIdChar

def pieceWF : Piece → Bool
  | .nm s => idShaped s
  | .num l => l.wf
  | _ => true

/-- does an exponent part start here (`e` has just been read)? -/
def expStart : Bytes → Bool
  | d :: t => isDigit d || ((d == 43 || d == 45) && (match t with | d2 :: _ => isDigit d2 | [] => false))
  | [] => false

/-- what may follow a NUMBER literal without changing how it is read -/
def numFollow : Bytes → Bool
  | [] => true
  | c :: t => !isDigit c && c != 46 && c != 95 && c != 106 && c != 74 && !((c == 101 || c == 69) && expStart t)

/-- what may follow a piece (the text after it) without changing how the piece is read -/
def okAfter : Piece → Bytes → Bool
  | .nm _, s => (match s with | c :: _ => !isIdChar c | [] => true)
  | .num _, s => numFollow s
  | .star, s => (match s with | c :: _ => c != 42 | [] => true)
  | .slash, s => (match s with | c :: _ => c != 47 | [] => true)
  | _, _ => true

/-- every piece is followed by something that leaves it alone (`s`: the text after the whole list) -/
def POK : List Piece → Bytes → Bool
  | [], _ => true
  | p :: ps, s => okAfter p (flatC ps ++ s) && POK ps s

/-! ## decorated expressions -/

/-- an integer exponent as written: `n`, `+n`, `-n`, `(n)`, `(-n)`, `(- n)` … -/
structure ExpLit where
  paren : Bool
  sign : Nat       -- 0 none, 1 `+`, 2 `-`
  blank : Bool     -- a blank between the sign and the digits
  ds : Bytes       -- decimal digits
  deriving DecidableEq, Repr

namespace ExpLit
def pieces (x : ExpLit) : List Piece :=
  (if x.paren then [Piece.lp] else []) ++ ((if x.sign = 1 then [Piece.plus] else if x.sign = 2 then [Piece.minus] else []) ++
    ((if x.blank then [Piece.sp] else []) ++ (Piece.num (NumLit.ofDigits x.ds) :: (if x.paren then [Piece.rp] else []))))
def wf (x : ExpLit) : Bool := !x.ds.isEmpty && x.ds.all isDigit && decide (x.sign ≤ 2)
def tree (x : ExpLit) : PT :=
  if x.sign = 1 then .un .plus (.num (digitsVal x.ds) 0 true)
  else if x.sign = 2 then .un .minus (.num (digitsVal x.ds) 0 true)
  else .num (digitsVal x.ds) 0 true
def val (x : ExpLit) : Int := if x.sign = 2 then -((digitsVal x.ds : Nat) : Int) else ((digitsVal x.ds : Nat) : Int)
end ExpLit

inductive RExpr
  | num (l : NumLit)
  | unit (p : Int) (x : Base) (name : Bytes)              -- `name` written for 10^p · x
  | paren (e : RExpr)                                      -- `(` e `)`
  | bin (dv : Bool) (spaced : Bool) (a b : RExpr)          -- a`*`b, a` * `b, a`/`b, a` / `b
  | juxt (blank : Bool) (a b : RExpr)                      -- a` `b, ab
  | pow (a : RExpr) (crt spL spR : Bool) (x : ExpLit)      -- a`**`x, a`^`x, with blanks
  deriving Repr

namespace RExpr

def spIf (b : Bool) : List Piece := if b then [Piece.sp] else []

def pieces : RExpr → List Piece
  | .num l => [.num l]
  | .unit _ _ name => [.nm name]
  | .paren e => .lp :: (pieces e ++ [.rp])
  | .bin dv spaced a b => pieces a ++ (spIf spaced ++ ((if dv then Piece.slash else Piece.star) :: (spIf spaced ++ pieces b)))
  | .juxt blank a b => pieces a ++ (spIf blank ++ pieces b)
  | .pow a crt spL spR x => pieces a ++ (spIf spL ++ ((if crt then Piece.caret else Piece.pow2) :: (spIf spR ++ x.pieces)))

/-- **the text the harness sends** -/
def render (e : RExpr) : Bytes := flat (pieces e)
/-- the tokens it should be read as -/
def tokensOf (e : RExpr) : List Tok := toks (pieces e)

/-- `decorate_top`: blanks around the whole text -/
def piecesTop (pre post : Nat) (e : RExpr) : List Piece := List.replicate pre Piece.sp ++ (pieces e ++ List.replicate post Piece.sp)
def renderTop (pre post : Nat) (e : RExpr) : Bytes := flat (piecesTop pre post e)

/-- the tree `_build_eval_tree` should build -/
def treeOf : RExpr → PT
  | .num l => .num l.mant l.e10 l.isInt
  | .unit _ _ name => .name name
  | .paren e => treeOf e
  | .bin dv _ a b => .bin (if dv then .div else .mul) (treeOf a) (treeOf b)
  | .juxt _ a b => .imul (treeOf a) (treeOf b)
  | .pow a _ _ _ x => .bin .pow (treeOf a) x.tree

/-- the expression the text stands for, names read by `res` (errors in the order `EvalTreeNode.evaluate` meets them) -/
def denote (res : Bytes → Except TErr (Int × Base)) : RExpr → Except TErr Expr
  | .num l => .ok (.num (numVal l.mant l.e10))
  | .unit _ _ name => match res name with
    | .ok (p, x) => .ok (.unit p x)
    | .error e => .error e
  | .paren e => denote res e
  | .bin dv _ a b =>
    match denote res a with
    | .error e => .error e
    | .ok ea => match denote res b with
      | .ok eb => .ok (if dv then .div ea eb else .mul ea eb)
      | .error e => .error e
  | .juxt _ a b =>
    match denote res a with
    | .error e => .error e
    | .ok ea => match denote res b with
      | .error e => .error e
      | .ok eb => .ok (.mul ea eb)
  | .pow a _ _ _ x =>
    match denote res a with
    | .error e => .error e
    | .ok ea => if x.val = 0 then .error .unsupported else .ok (.pow ea x.val)

/-- the AST the generator wrote down (the unit each name was written for) -/
def erase : RExpr → Expr
  | .num l => .num (numVal l.mant l.e10)
  | .unit p x _ => .unit p x
  | .paren e => erase e
  | .bin dv _ a b => if dv then .div (erase a) (erase b) else .mul (erase a) (erase b)
  | .juxt _ a b => .mul (erase a) (erase b)
  | .pow a _ _ _ x => .pow (erase a) x.val

/-! ### well-formedness (decidable; the driver evaluates it on every generated text) -/

def isAtom : RExpr → Bool
  | .num _ => true | .unit _ _ _ => true | .paren _ => true | _ => false
def isFactor : RExpr → Bool
  | .num _ => true | .unit _ _ _ => true | .paren _ => true | .pow _ _ _ _ _ => true | _ => false
def isUnit : RExpr → Bool
  | .unit _ _ _ => true | _ => false
/-- what may be juxtaposed on the right: a bare unit name or a power of one -/
def juxtRight : RExpr → Bool
  | .unit _ _ _ => true
  | .pow a _ _ _ _ => isUnit a
  | _ => false
def isNumLeaf : RExpr → Bool
  | .num _ => true | _ => false
/-- first name of a `juxtRight` operand -/
def headName : RExpr → Bytes
  | .unit _ _ name => name
  | .pow (.unit _ _ name) _ _ _ _ => name
  | _ => []
/-- a name that may be written directly after a number: not `j…`/`J…` (imaginary literal) or `_…`, and if it starts with `e`/`E` its second
    character (if any) is not a digit, `+` or `-` (exponent part) -/
def directOK : Bytes → Bool
  | c :: t => c != 106 && c != 74 && c != 95 && !((c == 101 || c == 69) && (match t with | d :: _ => isDigit d | [] => false))
  | [] => false

/-- the shapes the renderer writes: the right operand of `*` `/` is a factor (anything else is parenthesised), the base of a power is an
    atom, juxtaposition only before a bare (power of a) unit name, direct juxtaposition only between a number and such a name -/
def WF : RExpr → Bool
  | .num l => l.wf
  | .unit _ _ name => idShaped name
  | .paren e => WF e
  | .bin _ _ a b => WF a && WF b && isFactor b
  | .juxt blank a b => WF a && WF b && juxtRight b && (blank || (isNumLeaf a && directOK (headName b)))
  | .pow a _ _ _ x => WF a && isAtom a && x.wf && decide (x.val ≠ 0)

/-- every unit name is one of the listed spellings of the unit it was written for, and not one of the eight collisions -/
def Listed : RExpr → Bool
  | .num _ => true
  | .unit p x name => (spellingsOf x).any (fun s => decide (s = ⟨p, x, name⟩)) && !isCollision ⟨p, x, name⟩
  | .paren e => Listed e
  | .bin _ _ a b => Listed a && Listed b
  | .juxt _ a b => Listed a && Listed b
  | .pow a _ _ _ _ => Listed a

/-- fuel `_build_eval_tree` uses on the main chain while reading `e` -/
def cost : RExpr → Nat
  | .num _ => 1 | .unit _ _ _ => 1 | .paren _ => 1
  | .bin _ _ a _ => cost a + 1
  | .juxt _ a _ => cost a + 1
  | .pow a _ _ _ _ => cost a + 1
/-- fuel that suffices to read `e` -/
def tot : RExpr → Nat
  | .num _ => 1 | .unit _ _ _ => 1
  | .paren e => tot e + 2
  | .bin _ _ a b => tot a + tot b + 2
  | .juxt _ a b => tot a + tot b + 2
  | .pow a _ _ _ _ => tot a + 6

end RExpr
end QcelVerif.Units.Text
