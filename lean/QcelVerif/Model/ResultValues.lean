import QcelVerif.Model.Schema
import QcelVerif.Model.MolDict
import QcelVerif.Model.Protocols
/-!
C09 (a) — constructor models of the five schema-bearing models besides Molecule (core Lean only).

For Provenance, BasisSet, AtomicResultProperties, AtomicInput and AtomicResult (and everything they nest:
ElectronShell, ECPPotential, BasisCenter, Model, AtomicResultProtocols, ErrorCorrectionProtocol,
WavefunctionProperties, ComputeError, Identifiers):

  * `…In`       well-formed KEYWORD input, as `harness/c09.py` generates it (after `revive`): strings, ints,
                floats (a Python int given for a float field is the constructor `Num.ofInt`; pydantic coerces it),
                arrays as (shape `np.asarray` sees, `ravel()`), enum members by constructor, and ARBITRARY
                in-memory values (`Val`) wherever the declaration says `Any` / `Dict[str, Any]` or the model allows
                extra attributes (Provenance, Model): extras, keywords, native_files, ComputeError.extras,
                Molecule.id, the dictionary form of return_result.
  * `….ok`      what the constructor demands of that input (executable): the validators of models/basis.py:45-60,
                123-139, 181-231, models/results.py:263-305, 449-514, 649-777 — array shapes through C20's shape model
                (`Model/Protocols.lean`: `validateProps`, `wfnField` = `_wavefunction_protocol` + `validateWfn`,
                `validateRR`, `validateBasis`), which is reused unchanged —, extras not shadowing declared fields,
                `schema_name` (after `strip`) matching its pattern, supplied arrays of rank >= 1.
  * `…Val`      the in-memory instance restricted to the fields in `__fields_set__` (what
                `.dict()/.json(exclude_unset=True)` walks): `Val.obj <model> …`, arrays with the shapes the
                validators leave, `schema_name` stripped / cast, protocol-filtered wavefunction / stdout /
                native_files, nested models by their own `…Val`.
  * `….uniq`    (BasisSet only) what the PUBLISHED schema demands on top (schema_extra `uniqueItems`,
                basis.py:43,119,145-146): no repeated angular momentum in a shell / potential, no two equal
                shells / potentials in a centre — equality as jsonschema decides it (`Json.beq` on the emitted JSON).
                The constructor does not demand it: that gap is known finding C09-basis-uniqueItems.

The hand-written field declarations below are tied to the ones regenerated from the live classes
(`Gen/SchemaC09.lean`) by `rfl` in `Props/C09Models.lean` (`*_tie`).
-/
namespace QcelVerif.ResultValues
open QcelVerif.Schema QcelVerif.MolSchema QcelVerif.MolDict

/-! ### declarations (copies; tied to `Gen.SchemaC09.env` in Props/C09Models.lean) -/

def identFields : List Field := [
  ⟨"molecule_hash", "molecule_hash", .str, false, false⟩,
  ⟨"molecular_formula", "molecular_formula", .str, false, false⟩,
  ⟨"smiles", "smiles", .str, false, false⟩,
  ⟨"inchi", "inchi", .str, false, false⟩,
  ⟨"inchikey", "inchikey", .str, false, false⟩,
  ⟨"canonical_explicit_hydrogen_smiles", "canonical_explicit_hydrogen_smiles", .str, false, false⟩,
  ⟨"canonical_isomeric_explicit_hydrogen_mapped_smiles", "canonical_isomeric_explicit_hydrogen_mapped_smiles", .str, false, false⟩,
  ⟨"canonical_isomeric_explicit_hydrogen_smiles", "canonical_isomeric_explicit_hydrogen_smiles", .str, false, false⟩,
  ⟨"canonical_isomeric_smiles", "canonical_isomeric_smiles", .str, false, false⟩,
  ⟨"canonical_smiles", "canonical_smiles", .str, false, false⟩,
  ⟨"pubchem_cid", "pubchem_cid", .str, false, false⟩,
  ⟨"pubchem_sid", "pubchem_sid", .str, false, false⟩,
  ⟨"pubchem_conformerid", "pubchem_conformerid", .str, false, false⟩]
def identDecl : Decl := .model "Identifiers" identFields false

def provFields : List Field := [
  ⟨"creator", "creator", .str, true, false⟩,
  ⟨"version", "version", .str, false, false⟩,
  ⟨"routine", "routine", .str, false, false⟩]
def provDecl : Decl := .model "Provenance" provFields true

def numOrStr : Ty := .union [(.float none none), .str]

def shellFields : List Field := [
  ⟨"angular_momentum", "angular_momentum", (.list (.int (some 0)) (some 1) true), true, false⟩,
  ⟨"harmonic_type", "harmonic_type", (.enumRef "HarmonicType"), true, true⟩,
  ⟨"exponents", "exponents", (.list (.union [(.float none none), .str]) (some 1) false), true, false⟩,
  ⟨"coefficients", "coefficients", (.list (.list (.union [(.float none none), .str]) (some 1) false) (some 1) false), true, false⟩]
def shellDecl : Decl := .model "ElectronShell" shellFields false

def ecpFields : List Field := [
  ⟨"ecp_type", "ecp_type", (.enumRef "ECPType"), true, true⟩,
  ⟨"angular_momentum", "angular_momentum", (.list (.int (some 0)) (some 1) true), true, false⟩,
  ⟨"r_exponents", "r_exponents", (.list (.int none) (some 1) false), true, false⟩,
  ⟨"gaussian_exponents", "gaussian_exponents", (.list (.union [(.float none none), .str]) (some 1) false), true, false⟩,
  ⟨"coefficients", "coefficients", (.list (.list (.union [(.float none none), .str]) (some 1) false) (some 1) false), true, false⟩]
def ecpDecl : Decl := .model "ECPPotential" ecpFields false

def centerFields : List Field := [
  ⟨"electron_shells", "electron_shells", (.list (.model "ElectronShell") (some 1) true), true, false⟩,
  ⟨"ecp_electrons", "ecp_electrons", (.int none), false, false⟩,
  ⟨"ecp_potentials", "ecp_potentials", (.list (.model "ECPPotential") (some 1) true), false, false⟩]
def centerDecl : Decl := .model "BasisCenter" centerFields false

def basisFields : List Field := [
  ⟨"schema_name", "schema_name", (.strPat "^(qcschema_basis)$"), false, false⟩,
  ⟨"schema_version", "schema_version", (.int none), false, false⟩,
  ⟨"name", "name", .str, true, false⟩,
  ⟨"description", "description", .str, false, false⟩,
  ⟨"center_data", "center_data", (.dict (.model "BasisCenter")), true, false⟩,
  ⟨"atom_map", "atom_map", (.list .str none false), true, false⟩,
  ⟨"nbf", "nbf", (.int none), false, false⟩]
def basisDecl : Decl := .model "BasisSet" basisFields false

def harmDecl : Decl := .enum "HarmonicType" ["spherical", "cartesian"]
def ecpTypeDecl : Decl := .enum "ECPType" ["scalar", "spinorbit"]
def driverDecl : Decl := .enum "DriverEnum" ["energy", "gradient", "hessian", "properties"]
def wfnProtoDecl : Decl :=
  .enum "WavefunctionProtocolEnum" ["all", "orbitals_and_eigenvalues", "occupations_and_eigenvalues", "return_results", "none"]
def nativeDecl : Decl := .enum "NativeFilesProtocolEnum" ["all", "input", "none"]

def modelFields : List Field := [
  ⟨"method", "method", .str, true, false⟩,
  ⟨"basis", "basis", (.union [.str, (.model "BasisSet")]), false, false⟩]
def modelDecl : Decl := .model "Model" modelFields true

def ecFields : List Field := [
  ⟨"default_policy", "default_policy", .bool, false, false⟩,
  ⟨"policies", "policies", (.dict .bool), false, false⟩]
def ecDecl : Decl := .model "ErrorCorrectionProtocol" ecFields false

def protoFields : List Field := [
  ⟨"wavefunction", "wavefunction", (.enumRef "WavefunctionProtocolEnum"), false, true⟩,
  ⟨"stdout", "stdout", .bool, false, false⟩,
  ⟨"error_correction", "error_correction", (.model "ErrorCorrectionProtocol"), false, true⟩,
  ⟨"native_files", "native_files", (.enumRef "NativeFilesProtocolEnum"), false, true⟩]
def protoDecl : Decl := .model "AtomicResultProtocols" protoFields false

def ainFields : List Field := [
  ⟨"id", "id", .str, false, false⟩,
  ⟨"schema_name", "schema_name", (.strPat "^(qc\\_?schema_input)$"), false, false⟩,
  ⟨"schema_version", "schema_version", (.int none), false, false⟩,
  ⟨"molecule", "molecule", (.model "Molecule"), true, true⟩,
  ⟨"driver", "driver", (.enumRef "DriverEnum"), true, true⟩,
  ⟨"model", "model", (.model "Model"), true, true⟩,
  ⟨"keywords", "keywords", (.dict .any), false, false⟩,
  ⟨"protocols", "protocols", (.model "AtomicResultProtocols"), false, true⟩,
  ⟨"extras", "extras", (.dict .any), false, false⟩,
  ⟨"provenance", "provenance", (.model "Provenance"), false, true⟩]
def ainDecl : Decl := .model "AtomicInput" ainFields false

def propsFields0 : List Field := [
  ⟨"calcinfo_nbasis", "calcinfo_nbasis", (.int none), false, false⟩,
  ⟨"calcinfo_nmo", "calcinfo_nmo", (.int none), false, false⟩,
  ⟨"calcinfo_nalpha", "calcinfo_nalpha", (.int none), false, false⟩,
  ⟨"calcinfo_nbeta", "calcinfo_nbeta", (.int none), false, false⟩,
  ⟨"calcinfo_natom", "calcinfo_natom", (.int none), false, false⟩,
  ⟨"nuclear_repulsion_energy", "nuclear_repulsion_energy", (.float none none), false, false⟩,
  ⟨"return_energy", "return_energy", (.float none none), false, false⟩,
  ⟨"return_gradient", "return_gradient", (.array .float), false, false⟩,
  ⟨"return_hessian", "return_hessian", (.array .float), false, false⟩,
  ⟨"scf_one_electron_energy", "scf_one_electron_energy", (.float none none), false, false⟩,
  ⟨"scf_two_electron_energy", "scf_two_electron_energy", (.float none none), false, false⟩,
  ⟨"scf_vv10_energy", "scf_vv10_energy", (.float none none), false, false⟩,
  ⟨"scf_xc_energy", "scf_xc_energy", (.float none none), false, false⟩,
  ⟨"scf_dispersion_correction_energy", "scf_dispersion_correction_energy", (.float none none), false, false⟩,
  ⟨"scf_dipole_moment", "scf_dipole_moment", (.array .float), false, false⟩,
  ⟨"scf_quadrupole_moment", "scf_quadrupole_moment", (.array .float), false, false⟩,
  ⟨"scf_total_energy", "scf_total_energy", (.float none none), false, false⟩,
  ⟨"scf_total_gradient", "scf_total_gradient", (.array .float), false, false⟩,
  ⟨"scf_total_hessian", "scf_total_hessian", (.array .float), false, false⟩,
  ⟨"scf_iterations", "scf_iterations", (.int none), false, false⟩,
  ⟨"mp2_same_spin_correlation_energy", "mp2_same_spin_correlation_energy", (.float none none), false, false⟩,
  ⟨"mp2_opposite_spin_correlation_energy", "mp2_opposite_spin_correlation_energy", (.float none none), false, false⟩,
  ⟨"mp2_singles_energy", "mp2_singles_energy", (.float none none), false, false⟩,
  ⟨"mp2_doubles_energy", "mp2_doubles_energy", (.float none none), false, false⟩,
  ⟨"mp2_correlation_energy", "mp2_correlation_energy", (.float none none), false, false⟩]
def propsFields1 : List Field := [
  ⟨"mp2_total_energy", "mp2_total_energy", (.float none none), false, false⟩,
  ⟨"mp2_dipole_moment", "mp2_dipole_moment", (.array .float), false, false⟩,
  ⟨"ccsd_same_spin_correlation_energy", "ccsd_same_spin_correlation_energy", (.float none none), false, false⟩,
  ⟨"ccsd_opposite_spin_correlation_energy", "ccsd_opposite_spin_correlation_energy", (.float none none), false, false⟩,
  ⟨"ccsd_singles_energy", "ccsd_singles_energy", (.float none none), false, false⟩,
  ⟨"ccsd_doubles_energy", "ccsd_doubles_energy", (.float none none), false, false⟩,
  ⟨"ccsd_correlation_energy", "ccsd_correlation_energy", (.float none none), false, false⟩,
  ⟨"ccsd_total_energy", "ccsd_total_energy", (.float none none), false, false⟩,
  ⟨"ccsd_dipole_moment", "ccsd_dipole_moment", (.array .float), false, false⟩,
  ⟨"ccsd_iterations", "ccsd_iterations", (.int none), false, false⟩,
  ⟨"ccsd_prt_pr_correlation_energy", "ccsd_prt_pr_correlation_energy", (.float none none), false, false⟩,
  ⟨"ccsd_prt_pr_total_energy", "ccsd_prt_pr_total_energy", (.float none none), false, false⟩,
  ⟨"ccsd_prt_pr_dipole_moment", "ccsd_prt_pr_dipole_moment", (.array .float), false, false⟩,
  ⟨"ccsdt_correlation_energy", "ccsdt_correlation_energy", (.float none none), false, false⟩,
  ⟨"ccsdt_total_energy", "ccsdt_total_energy", (.float none none), false, false⟩,
  ⟨"ccsdt_dipole_moment", "ccsdt_dipole_moment", (.array .float), false, false⟩,
  ⟨"ccsdt_iterations", "ccsdt_iterations", (.int none), false, false⟩,
  ⟨"ccsdtq_correlation_energy", "ccsdtq_correlation_energy", (.float none none), false, false⟩,
  ⟨"ccsdtq_total_energy", "ccsdtq_total_energy", (.float none none), false, false⟩,
  ⟨"ccsdtq_dipole_moment", "ccsdtq_dipole_moment", (.array .float), false, false⟩,
  ⟨"ccsdtq_iterations", "ccsdtq_iterations", (.int none), false, false⟩]
def propsFields : List Field := propsFields0 ++ propsFields1
def propsDecl : Decl := .model "AtomicResultProperties" propsFields false

def wfnFields0 : List Field := [
  ⟨"basis", "basis", (.model "BasisSet"), true, true⟩,
  ⟨"restricted", "restricted", .bool, true, false⟩,
  ⟨"h_core_a", "h_core_a", (.array .float), false, false⟩,
  ⟨"h_core_b", "h_core_b", (.array .float), false, false⟩,
  ⟨"h_effective_a", "h_effective_a", (.array .float), false, false⟩,
  ⟨"h_effective_b", "h_effective_b", (.array .float), false, false⟩,
  ⟨"scf_orbitals_a", "scf_orbitals_a", (.array .float), false, false⟩,
  ⟨"scf_orbitals_b", "scf_orbitals_b", (.array .float), false, false⟩,
  ⟨"scf_density_a", "scf_density_a", (.array .float), false, false⟩,
  ⟨"scf_density_b", "scf_density_b", (.array .float), false, false⟩,
  ⟨"scf_fock_a", "scf_fock_a", (.array .float), false, false⟩,
  ⟨"scf_fock_b", "scf_fock_b", (.array .float), false, false⟩,
  ⟨"scf_eigenvalues_a", "scf_eigenvalues_a", (.array .float), false, false⟩,
  ⟨"scf_eigenvalues_b", "scf_eigenvalues_b", (.array .float), false, false⟩,
  ⟨"scf_occupations_a", "scf_occupations_a", (.array .float), false, false⟩,
  ⟨"scf_occupations_b", "scf_occupations_b", (.array .float), false, false⟩,
  ⟨"scf_coulomb_a", "scf_coulomb_a", (.array .float), false, false⟩,
  ⟨"scf_coulomb_b", "scf_coulomb_b", (.array .float), false, false⟩,
  ⟨"scf_exchange_a", "scf_exchange_a", (.array .float), false, false⟩,
  ⟨"scf_exchange_b", "scf_exchange_b", (.array .float), false, false⟩,
  ⟨"localized_orbitals_a", "localized_orbitals_a", (.array .float), false, false⟩,
  ⟨"localized_orbitals_b", "localized_orbitals_b", (.array .float), false, false⟩,
  ⟨"localized_fock_a", "localized_fock_a", (.array .float), false, false⟩,
  ⟨"localized_fock_b", "localized_fock_b", (.array .float), false, false⟩,
  ⟨"orbitals_a", "orbitals_a", .str, false, false⟩]
def wfnFields1 : List Field := [
  ⟨"orbitals_b", "orbitals_b", .str, false, false⟩,
  ⟨"density_a", "density_a", .str, false, false⟩,
  ⟨"density_b", "density_b", .str, false, false⟩,
  ⟨"fock_a", "fock_a", .str, false, false⟩,
  ⟨"fock_b", "fock_b", .str, false, false⟩,
  ⟨"eigenvalues_a", "eigenvalues_a", .str, false, false⟩,
  ⟨"eigenvalues_b", "eigenvalues_b", .str, false, false⟩,
  ⟨"occupations_a", "occupations_a", .str, false, false⟩,
  ⟨"occupations_b", "occupations_b", .str, false, false⟩]
def wfnFields : List Field := wfnFields0 ++ wfnFields1
def wfnDecl : Decl := .model "WavefunctionProperties" wfnFields false

def errFields : List Field := [
  ⟨"error_type", "error_type", .str, true, false⟩,
  ⟨"error_message", "error_message", .str, true, false⟩,
  ⟨"extras", "extras", (.dict .any), false, false⟩]
def errDecl : Decl := .model "ComputeError" errFields false

def aresFields : List Field := [
  ⟨"id", "id", .str, false, false⟩,
  ⟨"schema_name", "schema_name", (.lit ["qcschema_output"]), false, false⟩,
  ⟨"schema_version", "schema_version", (.int none), false, false⟩,
  ⟨"molecule", "molecule", (.model "Molecule"), true, true⟩,
  ⟨"driver", "driver", (.enumRef "DriverEnum"), true, true⟩,
  ⟨"model", "model", (.model "Model"), true, true⟩,
  ⟨"keywords", "keywords", (.dict .any), false, false⟩,
  ⟨"protocols", "protocols", (.model "AtomicResultProtocols"), false, true⟩,
  ⟨"extras", "extras", (.dict .any), false, false⟩,
  ⟨"provenance", "provenance", (.model "Provenance"), true, true⟩,
  ⟨"properties", "properties", (.model "AtomicResultProperties"), true, true⟩,
  ⟨"wavefunction", "wavefunction", (.model "WavefunctionProperties"), false, true⟩,
  ⟨"return_result", "return_result", (.union [(.float none none), (.array .float), (.dict .any)]), true, false⟩,
  ⟨"stdout", "stdout", .str, false, false⟩,
  ⟨"stderr", "stderr", .str, false, false⟩,
  ⟨"native_files", "native_files", (.dict .any), false, false⟩,
  ⟨"success", "success", .bool, true, false⟩,
  ⟨"error", "error", (.model "ComputeError"), false, true⟩]
def aresDecl : Decl := .model "AtomicResult" aresFields false

/-! ### small helpers -/

/-- the declared type of the field that owns the key an entry named `k` is written under (the lookup `fieldOk` does) -/
def ownerTy (fields : List Field) (k : String) : Option Ty :=
  (fields.find? (fun f => aliasIn fields k = f.alias)).map (fun f => f.ty)

/-- `k` is neither a declared field nor an alias: an extra attribute (`Config.extra = "allow"`) -/
def notDeclared (fields : List Field) (k : String) : Bool :=
  (fields.find? (fun f => aliasIn fields k = f.alias)).isNone

def Ty.isIntNone : Ty → Bool
  | .int none => true
  | _ => false
def Ty.isFloatNN : Ty → Bool
  | .float none none => true
  | _ => false
def Ty.isFloatArr : Ty → Bool
  | .array .float => true
  | _ => false
def Ty.isStr : Ty → Bool
  | .str => true
  | _ => false

/-- a number given for a `float` field: a Python int (coerced by pydantic, `float(i)` — exact below 2^53) or a float -/
inductive Num where
  | ofInt (i : Int)
  | ofRat (q : Rat)
  deriving Repr, DecidableEq

def Num.toRat : Num → Rat
  | .ofInt i => (i : Rat)
  | .ofRat q => q

def Num.val (x : Num) : Val := .num x.toRat

def numList (l : List Rat) : Val := .list (l.map Val.num)
def natList (l : List Nat) : Val := .list (l.map (fun n => Val.int (Int.ofNat n)))
def strList (l : List String) : Val := .list (l.map Val.str)

def optEntryOf {α : Type} (k : String) (o : Option α) (f : α → Val) : List (String × Val) := optEntry k (o.map f)

/-- Python `str.isspace` restricted to ASCII -/
def isPyWs (c : Char) : Bool := (9 ≤ c.toNat && c.toNat ≤ 13) || (28 ≤ c.toNat && c.toNat ≤ 32)

/-- `str.strip()` (ASCII whitespace; `constr(strip_whitespace=True)`) -/
def pyStrip (s : String) : String :=
  String.ofList ((s.toList.dropWhile isPyWs).reverse.dropWhile isPyWs).reverse

/-- `str.lower()` on ASCII -/
def pyLower (s : String) : String := String.ofList (s.toList.map Char.toLower)

/-! ### Provenance (common_models.py:25-40; `extra = "allow"`) -/

structure ProvIn where
  creator : String
  version : Option String := none
  routine : Option String := none
  /-- further keywords: kept as attributes, any value -/
  extras : List (String × Val) := []

def ProvIn.ok (p : ProvIn) : Bool := p.extras.all (fun kv => notDeclared provFields kv.1)

def provVal (p : ProvIn) : Val :=
  .obj "Provenance" (("creator", .str p.creator) ::
    (optEntryOf "version" p.version Val.str ++ (optEntryOf "routine" p.routine Val.str ++ p.extras)))

/-! ### BasisSet (basis.py) -/

open QcelVerif.Protocols (Harm)

def harmStr : Harm → String
  | .spherical => "spherical"
  | .cartesian => "cartesian"

structure ShellIn where
  am : List Nat
  harm : Harm
  /-- exponents / coefficients as the floats pydantic stores (`List[float]`: ints and numeric strings are coerced) -/
  exps : List Rat
  coefs : List (List Rat)

def ShellIn.toP (s : ShellIn) : Protocols.Shell :=
  { harm := s.harm, am := s.am, nexp := s.exps.length, rows := s.coefs.map List.length }

/-- `min_items=1` three times, then `_check_coefficient_length`, `_check_general_contraction_or_fused` (C20: `Shell.ok`) -/
def ShellIn.ok (s : ShellIn) : Bool :=
  !s.am.isEmpty && !s.exps.isEmpty && !s.coefs.isEmpty && s.toP.ok

def shellVal (s : ShellIn) : Val :=
  .obj "ElectronShell" [("angular_momentum", natList s.am), ("harmonic_type", .str (harmStr s.harm)),
    ("exponents", numList s.exps), ("coefficients", .list (s.coefs.map numList))]

def natsJ (l : List Nat) : List Json := l.map (fun n => Json.int (Int.ofNat n))
def numsJ (l : List Rat) : Json := .arr (l.map Json.num)

/-- the JSON emitted for a shell -/
def shellJson (s : ShellIn) : Json :=
  .obj [("angular_momentum", .arr (natsJ s.am)), ("harmonic_type", .str (harmStr s.harm)),
    ("exponents", numsJ s.exps), ("coefficients", .arr (s.coefs.map numsJ))]

structure EcpIn where
  spinorbit : Bool
  am : List Nat
  rexp : List Int
  gexp : List Rat
  coefs : List (List Rat)

def ecpTypeStr (b : Bool) : String := if b then "spinorbit" else "scalar"

/-- `min_items=1` four times, `_check_gaussian_exponents_length`, `_check_coefficient_length` (basis.py:123-139) -/
def EcpIn.ok (e : EcpIn) : Bool :=
  !e.am.isEmpty && !e.rexp.isEmpty && !e.gexp.isEmpty && !e.coefs.isEmpty &&
  e.gexp.length == e.rexp.length && e.coefs.all (fun r => r.length == e.rexp.length)

def ecpVal (e : EcpIn) : Val :=
  .obj "ECPPotential" [("ecp_type", .str (ecpTypeStr e.spinorbit)), ("angular_momentum", natList e.am),
    ("r_exponents", .list (e.rexp.map Val.int)), ("gaussian_exponents", numList e.gexp),
    ("coefficients", .list (e.coefs.map numList))]

def ecpJson (e : EcpIn) : Json :=
  .obj [("ecp_type", .str (ecpTypeStr e.spinorbit)), ("angular_momentum", .arr (natsJ e.am)),
    ("r_exponents", .arr (e.rexp.map Json.int)), ("gaussian_exponents", numsJ e.gexp),
    ("coefficients", .arr (e.coefs.map numsJ))]

structure CenterIn where
  shells : List ShellIn
  ecpElectrons : Option Int := none
  /-- `none`: not given (or given as None) -/
  ecpPotentials : Option (List EcpIn) := none

def CenterIn.ok (c : CenterIn) : Bool :=
  !c.shells.isEmpty && c.shells.all ShellIn.ok &&
  (match c.ecpPotentials with
   | none => true
   | some l => !l.isEmpty && l.all EcpIn.ok)

def centerVal (c : CenterIn) : Val :=
  .obj "BasisCenter" (("electron_shells", .list (c.shells.map shellVal)) ::
    (optEntryOf "ecp_electrons" c.ecpElectrons Val.int ++
     optEntryOf "ecp_potentials" c.ecpPotentials (fun l => .list (l.map ecpVal))))

structure BasisIn where
  schemaName : Option String := none
  schemaVersion : Option Int := none
  name : String
  description : Option String := none
  centers : List (String × CenterIn)
  atomMap : List String
  nbf : Option Int := none

def indexOfName (names : List String) (k : String) : Nat :=
  match names with
  | [] => 0
  | n :: t => if n == k then 0 else indexOfName t k + 1

def enumFrom {α : Type} : Nat → List α → List (Nat × α)
  | _, [] => []
  | n, x :: xs => (n, x) :: enumFrom (n + 1) xs

/-- the input as C20's shape model reads it (centre names become their positions; an unknown name an unused id) -/
def BasisIn.toP (b : BasisIn) : Protocols.BasisIn :=
  { centers := (enumFrom 0 b.centers).map (fun (i, kc) => { id := i, shells := kc.2.shells.map ShellIn.toP })
    atomMap := b.atomMap.map (indexOfName (b.centers.map (fun kc => kc.1)))
    nbf := b.nbf.map Int.toNat }

def basisPat : String := "^(qcschema_basis)$"

/-- every centre well-formed; `schema_name` (stripped) is the fixed name; a supplied `nbf` is not negative; and C20's
`validateBasis` (shell validators, `_check_atom_map`, `_check_nbf`) accepts -/
def BasisIn.ok (b : BasisIn) : Bool :=
  b.centers.all (fun kc => kc.2.ok) &&
  (match b.schemaName with | none => true | some s => matchPat basisPat (pyStrip s)) &&
  (match b.nbf with | none => true | some v => decide (0 ≤ v)) &&
  (match Protocols.validateBasis b.toP with | .ok _ => true | .error _ => false)

def basisVal (b : BasisIn) : Val :=
  .obj "BasisSet" (optEntryOf "schema_name" b.schemaName (fun s => .str (pyStrip s)) ++
    (optEntryOf "schema_version" b.schemaVersion Val.int ++ (("name", .str b.name) ::
    (optEntryOf "description" b.description Val.str ++
    (("center_data", .dict (b.centers.map (fun kc => (kc.1, centerVal kc.2)))) ::
    (("atom_map", strList b.atomMap) :: optEntryOf "nbf" b.nbf Val.int))))))

/-- what the published schema demands on top of the constructor (`uniqueItems`) -/
def ShellIn.uniq (s : ShellIn) : Bool := uniqueJ (natsJ s.am)
def EcpIn.uniq (e : EcpIn) : Bool := uniqueJ (natsJ e.am)
def CenterIn.uniq (c : CenterIn) : Bool :=
  c.shells.all ShellIn.uniq && uniqueJ (c.shells.map shellJson) &&
  (match c.ecpPotentials with
   | none => true
   | some l => l.all EcpIn.uniq && uniqueJ (l.map ecpJson))
def BasisIn.uniq (b : BasisIn) : Bool := b.centers.all (fun kc => kc.2.uniq)

/-! ### Model (common_models.py:43-61; `extra = "allow"`) -/

inductive BasisArg where
  | name (s : String)
  | set (b : BasisIn)

structure ModelIn where
  method : String
  /-- `none`: not given, or given as None -/
  basis : Option BasisArg := none
  extras : List (String × Val) := []

def BasisArg.ok : BasisArg → Bool
  | .name _ => true
  | .set b => b.ok
def BasisArg.uniq : BasisArg → Bool
  | .name _ => true
  | .set b => b.uniq
def BasisArg.val : BasisArg → Val
  | .name s => .str s
  | .set b => basisVal b

def ModelIn.ok (m : ModelIn) : Bool :=
  (match m.basis with | none => true | some b => b.ok) && m.extras.all (fun kv => notDeclared modelFields kv.1)
def ModelIn.uniq (m : ModelIn) : Bool := match m.basis with | none => true | some b => b.uniq

def modelVal (m : ModelIn) : Val :=
  .obj "Model" (("method", .str m.method) :: (optEntryOf "basis" m.basis BasisArg.val ++ m.extras))

/-! ### AtomicResultProtocols / ErrorCorrectionProtocol (results.py:517-576) -/

open QcelVerif.Protocols (WfnProto NativePolicy Driver PropArr ArrKey PtrKey)

def wfnProtoStr : WfnProto → String
  | .all => "all"
  | .orbitals_and_eigenvalues => "orbitals_and_eigenvalues"
  | .occupations_and_eigenvalues => "occupations_and_eigenvalues"
  | .return_results => "return_results"
  | .none => "none"

def nativeStr : NativePolicy → String
  | .all => "all"
  | .input => "input"
  | .none => "none"

def driverStr : Driver → String
  | .energy => "energy"
  | .gradient => "gradient"
  | .hessian => "hessian"
  | .properties => "properties"

structure ECIn where
  defaultPolicy : Option Bool := none
  policies : Option (List (String × Bool)) := none

def ecVal (e : ECIn) : Val :=
  .obj "ErrorCorrectionProtocol" (optEntryOf "default_policy" e.defaultPolicy Val.bool ++
    optEntryOf "policies" e.policies (fun l => .dict (l.map (fun kb => (kb.1, Val.bool kb.2)))))

structure ProtoIn where
  wavefunction : Option WfnProto := none
  stdout : Option Bool := none
  errorCorrection : Option ECIn := none
  nativeFiles : Option NativePolicy := none

def protoVal (p : ProtoIn) : Val :=
  .obj "AtomicResultProtocols" (optEntryOf "wavefunction" p.wavefunction (fun w => .str (wfnProtoStr w)) ++
    (optEntryOf "stdout" p.stdout Val.bool ++ (optEntryOf "error_correction" p.errorCorrection ecVal ++
     optEntryOf "native_files" p.nativeFiles (fun n => .str (nativeStr n)))))

/-- defaults of an absent `protocols` / absent entries (results.py:560-570) -/
def ProtoIn.wp (p : Option ProtoIn) : WfnProto := (p.bind (·.wavefunction)).getD .none
def ProtoIn.so (p : Option ProtoIn) : Bool := (p.bind (·.stdout)).getD true
def ProtoIn.nf (p : Option ProtoIn) : NativePolicy := (p.bind (·.nativeFiles)).getD .none

/-! ### the Molecule object inside AtomicInput / AtomicResult -/

/-- a Molecule instance (`Model/MolDict.lean`: the 19 modelled entries; `Props/C09Typed.lean: inv_hasType` shows how
every validating construction yields a well-formed one), with its four further entries spelled out -/
structure MolObj where
  nm : Option String
  ver : Option Int
  d : MolDict Rat
  identifiers : Option (List (String × String)) := none
  provenance : Option ProvIn := none
  id : Option Val := none
  extras : Option (List (String × Val)) := none

def identVal (l : List (String × String)) : Val := .obj "Identifiers" (l.map (fun kv => (kv.1, Val.str kv.2)))

def MolObj.others (m : MolObj) : List (String × Val) :=
  optEntryOf "identifiers" m.identifiers identVal ++ (optEntryOf "provenance" m.provenance provVal ++
    (optEntryOf "id" m.id (fun v => v) ++ optEntryOf "extras" m.extras Val.dict))

def molObjVal (m : MolObj) : Val := molVal m.nm m.ver m.d m.others

def molPat : String := "^(qcschema_molecule)$"

/-- `Props/C09Typed.lean: WellFormed` as a test, plus: identifiers are declared fields, the provenance is well-formed -/
def MolObj.ok (m : MolObj) : Bool :=
  m.d.symbols.isSome && m.d.geometry.isSome &&
  (match m.nm with | none => true | some s => matchPat molPat s) &&
  (match m.d.connectivity with
   | none => true
   | some bs => !bs.isEmpty && bs.all (fun b => decide (0 ≤ b.2.2) && decide (b.2.2 ≤ 5))) &&
  (match m.identifiers with | none => true | some l => l.all (fun kv => (ownerTy identFields kv.1).any Ty.isStr)) &&
  (match m.provenance with | none => true | some p => p.ok)

/-! ### AtomicInput (results.py:579-619) -/

structure AInIn where
  id : Option String := none
  schemaName : Option String := none
  schemaVersion : Option Int := none
  molecule : MolObj
  driver : Driver
  model : ModelIn
  keywords : Option (List (String × Val)) := none
  protocols : Option ProtoIn := none
  extras : Option (List (String × Val)) := none
  provenance : Option ProvIn := none

def ainPat : String := "^(qc\\_?schema_input)$"

def AInIn.okCommon (i : AInIn) : Bool :=
  i.molecule.ok && i.model.ok && (match i.provenance with | none => true | some p => p.ok)

def AInIn.ok (i : AInIn) : Bool :=
  i.okCommon && (match i.schemaName with | none => true | some s => matchPat ainPat (pyStrip s))

/-- entries shared by AtomicInput and AtomicResult (AtomicResult subclasses AtomicInput), `schema_name` aside -/
def AInIn.head (i : AInIn) (schemaName : Option Val) : List (String × Val) :=
  optEntryOf "id" i.id Val.str ++ (optEntry "schema_name" schemaName ++ (optEntryOf "schema_version" i.schemaVersion Val.int ++
    (("molecule", molObjVal i.molecule) :: (("driver", .str (driverStr i.driver)) :: (("model", modelVal i.model) ::
    (optEntryOf "keywords" i.keywords Val.dict ++ (optEntryOf "protocols" i.protocols protoVal ++
    (optEntryOf "extras" i.extras Val.dict ++ optEntryOf "provenance" i.provenance provVal))))))))

def ainVal (i : AInIn) : Val := .obj "AtomicInput" (i.head (i.schemaName.map (fun s => .str (pyStrip s))))

/-! ### AtomicResultProperties (results.py:32-305) -/

structure ArrIn where
  /-- shape `np.asarray(value)` has -/
  shape : List Nat
  /-- `ravel()` -/
  flat : List Rat

structure PropsIn where
  ints : List (String × Int) := []
  nums : List (String × Num) := []
  arrs : List (PropArr × ArrIn) := []

def lookupArr {κ : Type} [DecidableEq κ] (l : List (κ × ArrIn)) (k : κ) : Option ArrIn :=
  (l.find? (fun e => e.1 = k)).map (fun e => e.2)

def PropsIn.natom (p : PropsIn) : Option Nat := (assoc "calcinfo_natom" p.ints).map Int.toNat

/-- the input as C20's shape model reads it -/
def PropsIn.toP (p : PropsIn) : Protocols.PropsIn :=
  { natom := p.natom, arr := fun k => (lookupArr p.arrs k).map (fun a => a.shape) }

/-- keywords are declared fields of the right kind (int / float), a supplied `calcinfo_natom` is not negative; the
array keywords are the eleven array fields by construction -/
def PropsIn.kindsOk (p : PropsIn) : Bool :=
  p.ints.all (fun kv => (ownerTy propsFields kv.1).any Ty.isIntNone) &&
  p.nums.all (fun kv => (ownerTy propsFields kv.1).any Ty.isFloatNN) &&
  (match assoc "calcinfo_natom" p.ints with | none => true | some n => decide (0 ≤ n))

/-- entries of the array fields: the shape the validator left, the data unchanged -/
def arrEntries {κ : Type} [DecidableEq κ] (all : List κ) (name : κ → String) (out : κ → Option (List Nat))
    (data : List (κ × ArrIn)) : List (String × Val) :=
  all.filterMap (fun k =>
    match out k, lookupArr data k with
    | some s, some a => some (name k, Val.arr s (a.flat.map Val.num))
    | _, _ => none)

/-- `AtomicResultProperties(**p)`: `none` when a validator refuses (C20 `validateProps`) -/
def propsVal (p : PropsIn) : Option Val :=
  match Protocols.validateProps p.toP with
  | .error _ => none
  | .ok out =>
    some (.obj "AtomicResultProperties" (p.ints.map (fun kv => (kv.1, Val.int kv.2)) ++
      (p.nums.map (fun kv => (kv.1, kv.2.val)) ++ arrEntries PropArr.all PropArr.name out.arr p.arrs)))

/-! ### WavefunctionProperties (results.py:317-514) and the wavefunction protocol (results.py:670-741) -/

structure WfnIn where
  basis : BasisIn
  restricted : Bool
  arrs : List (ArrKey × ArrIn) := []
  ptrs : List (PtrKey × ArrKey) := []

def lookupPtr (l : List (PtrKey × ArrKey)) (k : PtrKey) : Option ArrKey :=
  (l.find? (fun e => e.1 = k)).map (fun e => e.2)

def WfnIn.toP (w : WfnIn) : Protocols.Wfn Protocols.BasisIn :=
  { restricted := some w.restricted, basis := some w.basis.toP,
    arr := fun k => (lookupArr w.arrs k).map (fun a => a.shape), ptr := lookupPtr w.ptrs }

def WfnIn.ok (w : WfnIn) : Bool := w.basis.ok && w.arrs.all (fun e => !e.2.shape.isEmpty)

def ptrEntries (out : PtrKey → Option ArrKey) : List (String × Val) :=
  PtrKey.all.filterMap (fun k => (out k).map (fun t => (k.name, Val.str t.name)))

/-- the WavefunctionProperties object left by `_wavefunction_protocol` + the model's validators (`w2`: C20 `wfnField`) -/
def wfnObj (w : WfnIn) (w2 : Protocols.Wfn Protocols.BasisIn) : Val :=
  .obj "WavefunctionProperties" (("basis", basisVal w.basis) :: (("restricted", .bool w.restricted) ::
    (arrEntries ArrKey.all ArrKey.name w2.arr w.arrs ++ ptrEntries w2.ptr)))

/-! ### ComputeError (common_models.py:80-100) -/

structure ErrIn where
  errorType : String
  errorMessage : String
  extras : Option (List (String × Val)) := none

def errVal (e : ErrIn) : Val :=
  .obj "ComputeError" (("error_type", .str e.errorType) :: (("error_message", .str e.errorMessage) ::
    optEntryOf "extras" e.extras Val.dict))

/-! ### AtomicResult (results.py:621-777) -/

inductive RRIn where
  | scalar (x : Num)
  | arr (a : ArrIn)
  | dict (kvs : List (String × Val))

def RRIn.toP : RRIn → Protocols.RR
  | .scalar _ => .scalar
  | .arr a => .arr a.shape
  | .dict _ => .dict

structure AResIn where
  inp : AInIn
  properties : PropsIn
  wavefunction : Option WfnIn := none
  returnResult : RRIn
  /-- outer `none`: keyword absent; `some none`: given as None -/
  stdout : Option (Option String) := none
  stderr : Option (Option String) := none
  nativeFiles : Option (List (String × Val)) := none
  success : Bool
  error : Option ErrIn := none

/-- `_native_file_protocol` on a supplied dict (results.py:757-777; C20: `nativeProtocol`) -/
def nativeVal (p : NativePolicy) (files : List (String × Val)) : List (String × Val) :=
  match p with
  | .all => files
  | .none => []
  | .input => [("input", (assoc "input" files).getD .null)]

/-- `_input_to_output` (results.py:649-657): the two accepted names, any case, surrounding blanks ignored -/
def outNameOk (s : String) : Bool := ["qcschema_input", "qcschema_output"].contains (pyStrip (pyLower s))

def AResIn.ok (r : AResIn) : Bool :=
  r.inp.okCommon && r.inp.provenance.isSome && r.properties.kindsOk &&
  (match r.inp.schemaName with | none => true | some s => outNameOk s) &&
  (match r.wavefunction with | none => true | some w => w.ok) &&
  (match r.returnResult with | .arr a => !a.shape.isEmpty | _ => true)

/-- the value `return_result` holds after `_validate_return_result` (`rr`: C20 `validateRR`) -/
def rrVal (r : RRIn) (rr : Protocols.RR) : Val :=
  match r, rr with
  | .scalar x, _ => x.val
  | .dict kvs, _ => .dict kvs
  | .arr a, .arr s => .arr s (a.flat.map Val.num)
  | .arr a, _ => .arr a.shape (a.flat.map Val.num)

def optStrVal : Option String → Val
  | none => .null
  | some s => .str s

/-- `AtomicResult(**r)`: `none` when a validator refuses.  Shapes and protocol filtering by C20's model. -/
def aresVal (r : AResIn) : Option Val :=
  match propsVal r.properties with
  | none => none
  | some pv =>
    match Protocols.wfnField (ProtoIn.wp r.inp.protocols) (r.wavefunction.map WfnIn.toP),
          Protocols.validateRR r.inp.driver r.returnResult.toP with
    | .ok w2, some rr =>
      some (.obj "AtomicResult" (r.inp.head (r.inp.schemaName.map (fun _ => Val.str "qcschema_output")) ++
        (("properties", pv) ::
        ((match r.wavefunction, w2 with
          | some w, some w2 => [("wavefunction", wfnObj w w2)]
          | _, _ => []) ++
        (("return_result", rrVal r.returnResult rr) ::
        (optEntryOf "stdout" r.stdout (fun s => optStrVal (Protocols.stdoutProtocol (ProtoIn.so r.inp.protocols) s)) ++
        (optEntryOf "stderr" r.stderr optStrVal ++
        (optEntryOf "native_files" r.nativeFiles (fun f => .dict (nativeVal (ProtoIn.nf r.inp.protocols) f)) ++
        (("success", .bool r.success) :: optEntryOf "error" r.error errVal)))))))))
    | _, _ => none

def AInIn.uniq (i : AInIn) : Bool := i.model.uniq
def AResIn.uniq (r : AResIn) : Bool :=
  r.inp.model.uniq && (match r.wavefunction with | none => true | some w => w.basis.uniq)

end QcelVerif.ResultValues
