import QcelVerif.Model.Formula
import QcelVerif.Model.RegexFindall
import QcelVerif.Gen.FormulaRegex
/-!
`order_molecular_formula` (molecular_formula.py:6-36) with its two regular expressions taken from the source:
`re.findall(<cut>, formula)` and `re.match(<split>, match)` are the generic regex engine (`Model/RegexEngine.lean`,
`Model/RegexFindall.lean`) run on the ASTs that the translator `harness/c15.py:gen_formula_regex` regenerates from
`qcelemental/molutil/molecular_formula.py` on every run (`Gen/FormulaRegex.lean`), and the two groups read are the group
numbers the translator found at the call sites.  Statement by statement (the translator compares the whole function body
with this shape and refuses any other):

    matches = re.findall(<cut>, formula)                      -- cutRe
    if not "".join(matches) == formula: raise ValueError      -- FErr.invalid
    count = collections.defaultdict(int)
    for match in matches:
        match_n = re.match(<split>, match)
        assert match_n                                        -- FErr.assertion
        n = 1 if match_n.group(<count>) == "" else int(match_n.group(<count>))
        count[match_n.group(<name>)] += n                     -- addCount (dict in first-seen order)
    symbols = [k for k, v in count.items() for i in range(v)]  -- expand
    return molecular_formula_from_symbols(symbols, order)      -- fromSymbols

Core Lean only.  Text is handed to the engine as code points (`Char.toNat`); the engine's classes are CPython's on ASCII.
`Props/C15Regex.lean` proves `orderFormulaRe = orderFormula` (the hand-written cuts of `Model/Formula.lean`) for every string.
-/
namespace QcelVerif.Formula
open QcelVerif.Regex

def toCodes (l : List Char) : List Nat := l.map Char.toNat
def ofCodes (b : List Nat) : List Char := b.map Char.ofNat

inductive FErr where
  /-- `ValueError(f"{formula} is not a valid molecular formula.")` -/
  | invalid
  /-- `assert match_n` failed -/
  | assertion
  deriving Repr, DecidableEq

/-- `re.findall(<cut>, formula)` by the engine on the generated AST -/
def cutRe (l : List Char) : List (List Char) := (Gen.FormulaRegex.cut.findall0 (toCodes l)).map ofCodes

/-- `re.match(<split>, match)` then the two group reads; `none`: no match (the `assert` fails) -/
def splitCountRe (m : List Char) : Option (String × Nat) :=
  match Gen.FormulaRegex.split.matchPrefix (toCodes m) with
  | none => none
  | some st =>
    -- a group that did not participate would be `None` in Python (`None == ""` is False, `int(None)` raises);
    -- both groups of the generated pattern always participate (`Props/C15Regex.lean`), modelled as '' here
    let cnt := ofCodes ((st.group Gen.FormulaRegex.countGroup).getD [])
    let name := ofCodes ((st.group Gen.FormulaRegex.nameGroup).getD [])
    some (String.ofList name, if cnt.isEmpty then 1 else digitsVal cnt)

/-- the loop over the matches (27-34) -/
def foldCountsRe : List (List Char) → List (String × Nat) → Except FErr (List (String × Nat))
  | [], acc => .ok acc
  | m :: ms, acc =>
    match splitCountRe m with
    | none => .error .assertion
    | some (k, n) => foldCountsRe ms (addCount acc k n)

/-- lines 23-34: cut, validity test, split each chunk, accumulate -/
def parseCountsRe (l : List Char) : Except FErr (List (String × Nat)) :=
  let ms := cutRe l
  if ms.flatten != l then .error .invalid else foldCountsRe ms []

/-- `order_molecular_formula(formula, order)` through the generated regexes -/
def orderFormulaRe (formula : String) (ord : Order) : Except FErr String :=
  match parseCountsRe formula.toList with
  | .error e => .error e
  | .ok counts => .ok (fromSymbols (expand counts) ord)

end QcelVerif.Formula
