import QcelVerif.Model.Measure
import QcelVerif.Gen.MeasureSrc
/-!
# Running the source-derived terms (`Gen/MeasureSrc.lean`) on the hand model's data types

Glue between the Mathlib-free AST (`Model/MeasureAst.lean`, `Vec`, `AtomS`) and the types of
`Model/Measure.lean` (`V3`, `Atom`).  Everything here is computable; `Driver/C18.lean` runs these
very definitions at `K = ℚ`, and `Props/C18Src.lean` proves them equal to the hand model for all inputs.
-/
namespace QcelVerif.MeasureSrc
open QcelVerif.Measure QcelVerif.MeasureAst QcelVerif.Gen.MeasureSrc

section
variable {K : Type} [Field K] [LinearOrder K] [IsStrictOrderedRing K]

def toVec (v : V3 K) : Vec K := ⟨v.x, v.y, v.z⟩

/-- the row handed to a measurement function: up to four points and the `degrees` flag -/
def env4 (p1 p2 p3 p4 : V3 K) (deg : Bool) : Env K where
  pt i := match i with
    | 0 => toVec p1
    | 1 => toVec p2
    | 2 => toVec p3
    | _ => toVec p4
  sv _ := 0
  degrees := deg

/-- exact part of the source-derived `compute_distance`: the argument of its `sqrt` -/
def srcDistSq (p q : V3 K) : Option K := exactDist (env4 p q q q false) compute_distance

/-- exact part of the source-derived `compute_angle`: `(num, r₁ r₂)` of `arccos(clip(num / (√r₁ √r₂), −1, 1))` -/
def srcAngleArgs (p1 p2 p3 : V3 K) : Option (K × K) :=
  exactAngle (env4 p1 p2 p3 p3 false) (radianBranch compute_angle)

/-- exact part of the source-derived `compute_dihedral`: `(N x, √N y, N)` for `arctan2(y, x)` -/
def srcDihedralArgs (p1 p2 p3 p4 : V3 K) : Option (K × K × K) :=
  exactDihedral (env4 p1 p2 p3 p4 false) (radianBranch compute_dihedral)

def toAtomS (a : Atom K) : AtomS K := ⟨a.r, toVec a.p⟩

/-- the exact (root-free) form of the source's test `dists cmp cutoff` -/
def exactTestB (ρ : Env K) : Bool := exactTest connSpec ρ == some true

/-- `guess_connectivity`'s pair loop regenerated from the source, exact test -/
def srcConnExact (thr : K) (atoms : List (Atom K)) : List (Nat × Nat) :=
  srcConn connSpec exactTestB thr (atoms.map toAtomS)

/-- is the exact test defined (source's `dist` of the shape `sqrt r`, `r` and `cutoff` root-free) on
every ordered pair of the atom list?  The driver refuses to answer otherwise. -/
def srcConnExactDefined (thr : K) (atoms : List (Atom K)) : Bool :=
  atoms.all fun a => atoms.all fun b =>
    (exactTest connSpec (connEnv thr (toAtomS a) (toAtomS b) b.r)).isSome

end
end QcelVerif.MeasureSrc
